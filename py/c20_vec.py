# C20 workload: every array-valued / in-place array operation exported by the imath module, discovered from the
# Boost.Python signatures in the docstrings (not hand-listed), is executed
#   (O1) without a pool, under the test pool cutting [0,len) into random / adversarial partitions run in shuffled order on
#        the calling thread, and on real threads (with and without injected delays): result and every (possibly
#        mutated) argument must be bit-for-bit identical;
#   (O2) element by element against the scalar binding of the same name applied to the i-th elements;
#   (O3) with one array argument one element too long: must raise and leave every argument unchanged.
# One scenario = one owner class (or the module's functions).  A case is a pure function of (seed, owner, name, overload).
import sys, os, re, gc, struct, math
sys.path.insert(0, os.path.dirname(os.path.abspath(__file__)))
from vlib import *
import vpool

a = parse_args()
R = Run("c20_vec")
THOROUGH = a.tier == "thorough"
part_k, part_n = [int(x) for x in a.part.split("/")]
I = imath
MODE = os.environ.get("C20_MODES", "seq,thr,thrd")       # which pool modes to run (tsan runs use thr,thrd only)
LENGTHS = [1, 199, 200, 201, 202, 1000, 4096] if THOROUGH else [3, 201, 333]
NSEQ = 24 if THOROUGH else 5        # partitions per (entry, length) in seq mode
NTHR = 8 if THOROUGH else 2
NTHRD = 4 if THOROUGH else 1
WORKERS = 4
WORKER_COUNTS = [4, 1, 2, 7, 3, 16, 5, 8]     # the pool's workers() differs from plan to plan (1 = a pool with a single worker)


THREADED_WORKER_COUNTS = [4, 2, 7, 3, 5, 8]


def workers_for(mode, k):
    w = WORKER_COUNTS[k % len(WORKER_COUNTS)] if mode == 1 else THREADED_WORKER_COUNTS[k % len(THREADED_WORKER_COUNTS)]
    R.cls("pool_installed_with_%d_worker%s" % (w, "" if w == 1 else "s"))
    return w

SIG = re.compile(r"^(\w+)\( (.*?)\) -> (\w+) :", re.M)
ARG = re.compile(r"\((\w+)\)(\w+)")
SKIP_NAMES = {"__getitem__", "__setitem__", "__len__", "__reduce__", "__copy__", "__deepcopy__", "makeReadOnly", "writable", "__repr__", "__str__",
              "item", "size", "rows", "columns", "__instance_size__", "ifelse"}


def is_a1(t):
    return t.endswith("Array") and not t.endswith("Array2D") and t not in ("VIntArray", "VFloatArray", "VV2iArray", "VV2fArray")


def is_a2(t):
    return t.endswith("Array2D")


def is_mat(t):
    return t in ("IntMatrix", "FloatMatrix", "DoubleMatrix")


def arrayish(t):
    return is_a1(t) or is_a2(t) or is_mat(t)


# ---------------------------------------------------------------- value factories
INTS = {"IntArray": (1, 50), "ShortArray": (1, 50), "UnsignedShortArray": (1, 50), "SignedCharArray": (1, 11), "UnsignedCharArray": (1, 15),
        "UnsignedIntArray": (1, 50), "IntArray2D": (1, 50), "IntMatrix": (1, 50)}
SPECIAL_F = [0.0, -0.0, float("inf"), float("-inf"), float("nan"), 1e-30, -1e30, 1.0, -1.0, 0.5]


def rfloat(r, special=True):
    k = r.below(60)
    if special and k == 0:
        return r.pick(SPECIAL_F)
    if k < 20:
        return float(r.range(-9, 9)) / 2
    if k < 30:
        return r.uniform(-1, 1)
    return r.uniform(-10, 10)


def rint(r, lo=1, hi=50):
    return r.range(lo, hi)


def vec_suffix(t):
    m = re.match(r"^(V|Color|C)(\d)(s|i64|i|f|d|c)$", t)
    return m


def scalar(t, r, ctx=None):
    """a python-level value of the Boost.Python type name t; raises KeyError if the type is not supported"""
    shift = ctx == "shift"
    if t == "float":
        return rfloat(r, special=False) if not shift else float(r.range(0, 7))
    if ctx == "nospecial" and re.match(r"^V\d[fd]$", t):
        return getattr(I, t)(*[rfloat(r, False) for _ in range(int(t[1]))])
    if t == "int":
        return rint(r, 0, 7) if shift else rint(r)
    if t == "bool":
        return r.coin()
    m = re.match(r"^V(\d)(s|i64|i|f|d|c)$", t)
    if m:
        n = int(m.group(1))
        flt = m.group(2) in "fd"
        return getattr(I, t)(*[(rfloat(r, False) if flt else rint(r, 1, 30)) for _ in range(n)])
    m = re.match(r"^Color(\d)(f|c)$", t)
    if m:
        n = int(m.group(1))
        return getattr(I, t)(*[(r.uniform(0, 1) if m.group(2) == "f" else rint(r, 1, 200)) for _ in range(n)])
    m = re.match(r"^M(\d)\d(f|d)$", t)
    if m:
        n = int(m.group(1))
        vals = [r.uniform(-2, 2) for _ in range(n * n)]
        for d in range(n):
            vals[d * n + d] += 4.0      # comfortably invertible
        if n == 4 and (r.coin() or ctx == "affine"):          # affine
            vals[3], vals[7], vals[11], vals[15] = 0.0, 0.0, 0.0, 1.0
        if n == 3 and ctx == "affine":
            vals[2], vals[5], vals[8] = 0.0, 0.0, 1.0
        return getattr(I, t)(*vals)
    m = re.match(r"^Quat(f|d)$", t)
    if m:
        q = getattr(I, t)(r.uniform(-1, 1), r.uniform(-1, 1), r.uniform(-1, 1), r.uniform(-1, 1))
        return q.normalized() if r.below(4) else q
    m = re.match(r"^Euler(f|d)$", t)
    if m:
        return getattr(I, t)(r.uniform(-3, 3), r.uniform(-1.5, 1.5), r.uniform(-3, 3), r.pick([I.EULER_XYZ, I.EULER_ZYX, I.EULER_XZY, I.EULER_YXZ]))
    m = re.match(r"^Box(\d)(s|i64|i|f|d)$", t)
    if m:
        n = int(m.group(1))
        flt = m.group(2) in "fd"
        vt = getattr(I, "V%d%s" % (n, m.group(2)))
        lo = [(r.uniform(-5, 0) if flt else rint(r, -20, 0)) for _ in range(n)]
        hi = [(l + r.uniform(0.5, 5) if flt else l + rint(r, 1, 20)) for l in lo]
        return getattr(I, t)(vt(*lo), vt(*hi))
    m = re.match(r"^FrustumTest(f|d)$", t)
    if m:
        e = m.group(1)
        near = r.uniform(0.5, 2.0)
        fr = getattr(I, "Frustum" + e)(near, near + r.uniform(5, 40), -r.uniform(0.3, 2), r.uniform(0.3, 2), r.uniform(0.3, 2), -r.uniform(0.3, 2), r.one_in(3))
        cam = scalar("M44" + e, r, "affine")
        return getattr(I, t)(fr, cam)
    if t == "Rand32":
        return I.Rand32(r.range(1, 1000))
    if t == "Order":
        return r.pick([I.EULER_XYZ, I.EULER_ZYX, I.EULER_YZX])
    raise KeyError(t)


ELEM_OF = {"IntArray": "int", "ShortArray": "int", "UnsignedShortArray": "int", "SignedCharArray": "int", "UnsignedCharArray": "int", "UnsignedIntArray": "int",
           "BoolArray": "bool", "FloatArray": "float", "DoubleArray": "float", "C3cArray": "Color3c", "C3fArray": "Color3f", "C4cArray": "Color4c", "C4fArray": "Color4f"}


def elem_type(t):
    if t in ELEM_OF:
        return ELEM_OF[t]
    if t.endswith("Array"):
        return t[:-5]
    raise KeyError(t)


def make_a1(t, n, r, ctx=None):
    cls = getattr(I, t)
    arr = cls(n)
    et = elem_type(t)
    if t in INTS:
        lo, hi = INTS[t]
        if ctx == "shift":
            lo, hi = 0, 7
        for i in range(n):
            arr[i] = r.range(lo, hi)
    elif et == "float":
        sp = t != "FloatArray" or True
        for i in range(n):
            arr[i] = rfloat(r, special=(ctx != "nospecial"))
    elif et == "bool":
        for i in range(n):
            arr[i] = r.coin()
    elif t in ("StringArray", "WstringArray"):
        for i in range(n):
            arr[i] = "s%d" % r.below(7)
    else:
        for i in range(n):
            arr[i] = scalar(et, r, ctx)
    return arr


def make_value(t, n, r, kind="plain", ctx=None):
    """kind: plain | masked (a masked reference of length n into a longer array)"""
    if is_a1(t):
        if kind == "masked":
            extra = 7
            base = make_a1(t, n + extra, r, ctx)
            mv = [1] * n + [0] * extra
            r.shuffle(mv)
            return base[int_array(mv)]
        return make_a1(t, n, r, ctx)
    if is_a2(t):
        lx = max(1, int(math.sqrt(n)))
        ly = max(1, n // lx)
        arr = getattr(I, t)(lx, ly)
        for j in range(ly):
            for i in range(lx):
                if t == "IntArray2D":
                    arr[i, j] = r.range(0, 7) if ctx == "shift" else r.range(1, 50)
                elif t in ("FloatArray2D", "DoubleArray2D"):
                    arr[i, j] = rfloat(r, special=(ctx != "nospecial"))
                elif t == "Color4fArray2D":
                    arr[i, j] = scalar("Color4f", r)
                else:
                    arr[i, j] = scalar("Color4c", r)
        return arr
    if is_mat(t):
        rows = max(1, min(n, 12))
        cols = 3
        m = getattr(I, t)(rows, cols)
        for i in range(rows):
            for j in range(cols):
                m[i][j] = (r.range(0, 7) if ctx == "shift" else r.range(1, 50)) if t == "IntMatrix" else rfloat(r, special=False)
        return m
    return scalar(t, r, ctx)


# ---------------------------------------------------------------- snapshots (bit exact, never repr)
def deep(x):
    if isinstance(x, float):
        return struct.pack("<d", x)
    if isinstance(x, tuple):
        return tuple(deep(y) for y in x)
    return x


def snap(o):
    if o is None or isinstance(o, (bool, int, str)):
        return o
    if isinstance(o, float):
        return deep(o)
    if isinstance(o, (tuple, list)):
        return tuple(snap(x) for x in o)
    tn = type(o).__name__
    if is_mat(tn):
        return ("M",) + tuple(tuple(deep(o[i][j]) for j in range(o.columns())) for i in range(o.rows()))
    if is_a2(tn):
        lx, ly = o.size()
        return ("2D", lx, ly) + tuple(deep(canon(o.item(i, j))) for j in range(ly) for i in range(lx))
    if tn.endswith("Array") and hasattr(o, "__len__"):
        try:
            return ("B", len(o), bytes(memoryview(o)))
        except (TypeError, ValueError, BufferError):
            pass
        return ("A", len(o)) + tuple(deep(canon(o[i])) for i in range(len(o)))
    try:
        return ("S", tn, deep(canon(o)))
    except TypeError:
        return ("?", tn)


# ---------------------------------------------------------------- discovery
def discover(owner_name, owner):
    out = []
    for name in sorted(dir(owner)):
        if name in SKIP_NAMES or (name.startswith("_") and not name.startswith("__")):
            continue
        try:
            f = getattr(owner, name)
        except Exception:
            continue
        doc = getattr(f, "__doc__", None)
        if not doc or not callable(f):
            continue
        seen = set()
        for m in SIG.finditer(doc):
            if m.group(1) != name:
                continue
            args = [t for t, _ in ARG.findall(m.group(2))]
            ret = m.group(3)
            if not any(arrayish(t) for t in args + [ret]):
                continue
            key = (name, tuple(args))
            if key in seen:
                continue
            seen.add(key)
            out.append((name, f, args, ret))
    return out


# ---------------------------------------------------------------- scalar counterparts
def c_div(x, y):
    q = abs(x) // abs(y)
    return q if (x < 0) == (y < 0) else -q


PYOPS = {"__add__": lambda x, y: x + y, "__sub__": lambda x, y: x - y, "__mul__": lambda x, y: x * y, "__neg__": lambda x: -x,
         "__radd__": lambda x, y: y + x, "__rsub__": lambda x, y: y - x, "__rmul__": lambda x, y: y * x,
         "__iadd__": lambda x, y: x + y, "__isub__": lambda x, y: x - y, "__imul__": lambda x, y: x * y,
         "__eq__": lambda x, y: int(x == y), "__ne__": lambda x, y: int(x != y), "__lt__": lambda x, y: int(x < y), "__le__": lambda x, y: int(x <= y),
         "__gt__": lambda x, y: int(x > y), "__ge__": lambda x, y: int(x >= y)}
WRAP = {"SignedCharArray": (8, True), "UnsignedCharArray": (8, False), "ShortArray": (16, True), "UnsignedShortArray": (16, False), "IntArray": (32, True),
        "UnsignedIntArray": (32, False)}


def wrapi(v, t):
    if t not in WRAP or not isinstance(v, int) or isinstance(v, bool):
        return v
    bits, signed = WRAP[t]
    v &= (1 << bits) - 1
    if signed and v >= 1 << (bits - 1):
        v -= 1 << bits
    return v


def f32(x):
    try:
        return struct.unpack("f", struct.pack("f", x))[0]
    except OverflowError:
        return math.copysign(float("inf"), x)


def copy_elem(e):
    """an independent copy of a scalar-class object (elements read from writable arrays are references into them)"""
    if isinstance(e, (bool, int, float, str)) or e is None:
        return e
    import copy as _copy
    try:
        return type(e)(e)
    except Exception:
        pass
    try:
        return _copy.copy(e)      # V2s, V3i64, ... have no copy constructor in the bindings but define __copy__
    except Exception:
        pass
    if type(e).__name__.startswith("Box"):
        return type(e)(copy_elem(e.min()), copy_elem(e.max()))
    if type(e).__name__.startswith(("FrustumTest", "Rand")):
        return e                  # no copy constructor; not modified by the calls made here
    raise TypeError("cannot copy " + type(e).__name__)


def scalar_counterpart(owner_name, owner, name, f, args, argtypes, i):
    """returns (ok, result_value, post_arg0) of the scalar binding on the i-th elements, or (False, reason, None)"""
    ai = []
    for v, t in zip(args, argtypes):
        if is_a1(t):
            ai.append(copy_elem(v[i]))
        elif arrayish(t):
            return False, "non-1d-array argument", None
        else:
            ai.append(copy_elem(v))
    t0 = argtypes[0] if argtypes else None
    try:
        if owner is I:
            return True, getattr(I, name)(*ai), (ai[0] if ai else None)
        if t0 and is_a1(t0) and owner_name == t0:
            et = elem_type(t0)
            if et in ("int", "float", "bool"):
                if name in ("__div__", "__truediv__", "__idiv__", "__itruediv__"):
                    if t0 == "FloatArray":
                        ai = [f32(x) if isinstance(x, float) else x for x in ai]
                    x, y = ai[0], ai[1]
                    if et == "int":
                        res = c_div(x, y)
                    else:
                        res = (x / y) if y != 0 else (float("nan") if (x == 0 or x != x) else math.copysign(float("inf"), x) * math.copysign(1.0, y))
                elif name in ("__mod__", "__imod__") and et == "int":
                    x, y = ai[0], ai[1]
                    res = x - c_div(x, y) * y
                elif name in PYOPS:
                    if t0 == "FloatArray":
                        ai = [f32(x) if isinstance(x, float) else x for x in ai]
                    res = PYOPS[name](*ai)
                else:
                    return False, "no scalar counterpart for numeric array method", None
                if et == "float" and isinstance(res, float) and t0 == "FloatArray":
                    res = f32(res)
                res = wrapi(res, t0) if name not in ("__eq__", "__ne__", "__lt__", "__le__", "__gt__", "__ge__") else res
                return True, res, res if name.startswith("__i") else ai[0]
            ecls = getattr(I, et)
            sf = getattr(ecls, SCALAR_ALIAS.get((et[:4], name), name), None)
            if sf is None:
                return False, "element class has no such method", None
            return True, sf(*ai), ai[0]
        # scalar-class owner with array arguments (M44f.multVecMatrix(V3fArray), Box3f.extendBy(V3fArray) ...)
        sf = getattr(owner, name, None)
        if sf is None:
            return False, "no counterpart", None
        return True, sf(*ai), ai[0]
    except Exception as e:
        return False, "scalar call raised %s" % type(e).__name__, None


# array methods whose documented scalar counterpart has another name
SCALAR_ALIAS = {("Quat", "slerp"): "slerpShortestArc"}     # QuatArray.slerp: "shortest arc spherical linear interpolation"


def close_enough(x, y, ulps=4, extra_scale=0.0, eps=1.2e-7):
    """x, y canonical (nested tuples of numbers): equal up to `ulps` units in the last place of the larger magnitude in the tuple"""
    fx, fy = [], []

    def flat(v, out):
        if isinstance(v, tuple):
            for q in v:
                flat(q, out)
        else:
            out.append(v)
    flat(x, fx)
    flat(y, fy)
    if len(fx) != len(fy):
        return False
    scale = max([abs(v) for v in fx + fy if isinstance(v, float) and v == v and abs(v) != float("inf")] + [extra_scale])
    for p, q in zip(fx, fy):
        if isinstance(p, float) and isinstance(q, float):
            if p != p and q != q:
                continue
            if p == q:
                continue
            if abs(p - q) <= ulps * eps * max(scale, 1e-30):
                continue
            return False
        elif p != q:
            return False
    return True


def illconditioned(name, fresh, argtypes, i, want, diff):
    ai = [(v[i] if is_a1(t) else v) for v, t in zip(fresh, argtypes)]
    worst = 0.0
    for j, x in enumerate(ai):
        if not isinstance(x, float) or x != x or abs(x) == float("inf"):
            continue
        for fac in (1 + 1.2e-7, 1 - 1.2e-7):
            b = list(ai)
            b[j] = x * fac if x != 0 else 1e-38
            try:
                w2 = getattr(I, name)(*b)
            except Exception:
                return True
            if isinstance(w2, float):
                if w2 != w2 or abs(w2) == float("inf"):
                    return True
                worst = max(worst, abs(w2 - want))
    return worst * 2 >= diff


# ---------------------------------------------------------------- running one entry point
KINDS = ["plain", "masked"]


def make_runs(arr, run=4):
    """overwrite a 1-D array so that it consists of runs of `run` identical elements (exercises data-dependent shortcuts:
    caches of the previous element, early-outs on equal neighbours)"""
    for i in range(len(arr)):
        if i % run:
            arr[i] = arr[i - i % run]
    return arr


class Proto:
    """a generated argument that can be re-materialised cheaply (deep copies made by the C++ slice code)"""

    def __init__(self, t, n, r, kind, ctx, runs=False):
        self.t, self.kind = t, kind
        if runs and is_a1(t) and kind != "masked":
            self.base = make_runs(make_a1(t, n, r, ctx))
            return
        if is_a1(t) and kind == "masked":
            extra = 7
            self.base = make_a1(t, n + extra, r, ctx)
            mv = [1] * n + [0] * extra
            r.shuffle(mv)
            self.mask = int_array(mv)
        else:
            self.base = make_value(t, n, r, "plain", ctx)

    def fresh(self):
        t = self.t
        if is_a1(t):
            c = self.base[:]
            return c[self.mask] if self.kind == "masked" else c
        if is_a2(t):
            return self.base[:, :]
        if is_mat(t):
            return self.base[:]
        return copy_elem(self.base)


_proto_cache = {}


def build_args(seed_key, argtypes, n, kinds, ctx, longer=None, runs=False):
    ck = (seed_key, tuple(argtypes), n, tuple(kinds), ctx, longer, runs)
    protos = _proto_cache.get(ck)
    if protos is None:
        if len(_proto_cache) > 64:
            _proto_cache.clear()
        r = Rng(a.seed, seed_key, n)
        protos = []
        for j, t in enumerate(argtypes):
            nn = n + 1 if longer == j else n
            kj = kinds[j] if is_a1(t) else "plain"
            if isinstance(longer, tuple) and longer[0] == j:      # (position, length, kind)
                nn, kj = longer[1], longer[2]
            if t == "object":
                protos.append(None)
            else:
                protos.append(Proto(t, nn, r, kj, ctx, runs))
        _proto_cache[ck] = protos
    return [p.fresh() if p is not None else None for p in protos]


def run_unmasked_rhs(owner_name, owner, name, f, argtypes, sigtxt, ctx):
    """In-place operators accept, for a masked-reference left side, a right side dimensioned like the UNMASKED array
    (documented leniency of match_dimension): element k of the reference is then combined with rhs[raw index of k]."""
    for n in (LENGTHS[0], LENGTHS[-1]):
        key = "%s|mU" % sigtxt
        r = Rng(a.seed, key, n)
        lhs = Proto(argtypes[0], n, r, "masked", ctx)
        full = len(lhs.base)
        rhs = Proto(argtypes[1], full, r, "plain", ctx)
        raw = [i for i in range(full) if lhs.mask[i]]
        vpool.install(0, 1, 0)
        v = [lhs.fresh(), rhs.fresh()]
        before = [copy_elem(v[0][k]) for k in range(n)]
        try:
            call(f, owner_name, name, v)
        except Exception:
            R.cls("unmasked_length_rhs_refused")
            return
        R.ev()
        R.cls("masked_lhs_unmasked_length_rhs_calls")
        base = [snap(x) for x in v]
        idxs = sorted(set(list(range(min(n, 16))) + list(range(max(0, n - 6), n))))
        rfresh = rhs.fresh()
        for k in idxs:
            ok, sres, spost = scalar_counterpart(owner_name, owner, name, f, [_One(before[k]), _One(rfresh[raw[k]])], argtypes, 0)
            if not ok:
                R.cls("o2_no_counterpart")
                break
            R.ev()
            got, want = canon(v[0][k]), canon(spost)
            if deep(got) != deep(want) and not close_enough(got, want, ulps=64, eps=1.2e-7 if "f" in argtypes[0][:4].lower() else 2.3e-16):
                R.fail("elementwise:%s.%s:masked_lhs_unmasked_length_rhs_wrong_element" % (owner_name, name), sig=sigtxt, n=n, k=k, raw_index=raw[k], got=got, want=want)
                break
        if n > 200:
            for mode, s2 in [(1, 0), (1, 1), (2, 0), (3, 0)]:
                if (mode == 1 and "seq" not in MODE) or (mode == 2 and "thr" not in MODE.split(",")) or (mode == 3 and "thrd" not in MODE):
                    continue
                v2 = [lhs.fresh(), rhs.fresh()]
                vpool.install(mode, workers_for(mode, s2), (a.seed * 31337 + hash_str(key) + s2 * 7919 + n) & 0x7fffffffffff)
                try:
                    call(f, owner_name, name, v2)
                    got = [snap(x) for x in v2]
                except Exception as e:
                    got = ("raise", type(e).__name__)
                finally:
                    vpool.install(0, 1, 0)
                R.ev()
                if got != base:
                    R.fail("partition_dependence:%s.%s:%s:masked_lhs_unmasked_length_rhs" % (owner_name, name, {1: "seq", 2: "thr", 3: "thr_delay"}[mode]), sig=sigtxt, n=n)
                    break


class _One:
    """adapter: lets scalar_counterpart pick 'element 0' of a single value"""

    def __init__(self, v):
        self.v = v

    def __getitem__(self, i):
        return self.v


def call(f, owner_name, name, vals):
    if name == "__init__":
        return getattr(I, owner_name)(*vals[1:])
    return f(*vals)


def run_entry(owner_name, owner, name, f, argtypes, ret):
    sigtxt = "%s.%s(%s)" % (owner_name, name, ",".join(argtypes))
    if os.environ.get("C20_TRACE"):
        sys.stderr.write("entry %s\n" % sigtxt)
        sys.stderr.flush()
    ctx = "shift" if "shift" in name else None
    int_types = ("IntArray", "ShortArray", "UnsignedShortArray", "SignedCharArray", "UnsignedCharArray", "UnsignedIntArray", "BoolArray", "IntArray2D", "IntMatrix", "int")
    floaty = lambda t: t in ("FloatArray", "DoubleArray", "float", "FloatArray2D", "DoubleArray2D", "FloatMatrix", "DoubleMatrix") or re.match(r"^V\d[fd](Array)?$", t)
    if any(floaty(t) for t in argtypes) and (ret in int_types or re.match(r"^V\d(s|i|i64)(Array)?$", ret) or
                                             (name == "__init__" and (owner_name in int_types or re.match(r"^V\d(s|i|i64)Array$", owner_name)))):
        ctx = "nospecial"    # float -> int conversions (floor, ceil, trunc, IntArray(FloatArray)...) are undefined for inf/NaN/huge values
    if re.match(r"^V\d(s|i|i64)(Array)?$", owner_name) and any(re.match(r"^M\d\d[fd](Array)?$", t) for t in argtypes):
        ctx = "affine"       # integer vector x projective matrix divides by an integer w that may be 0: undefined for the scalar op too
    if name == "__init__":
        argtypes = ["object"] + argtypes[1:]
    a1pos = [j for j, t in enumerate(argtypes) if is_a1(t)]
    combos = [["plain"] * len(argtypes)]
    if a1pos and name != "__init__":
        for j in a1pos:
            k = ["plain"] * len(argtypes)
            k[j] = "masked"
            combos.append(k)
        if len(a1pos) > 1:
            k = ["plain"] * len(argtypes)
            for j in a1pos:
                k[j] = "masked"
            combos.append(k)
        if len(a1pos) == 3:          # the remaining three of the 2^3 accessor combinations (exactly two masked)
            for j in a1pos:
                k = ["masked" if q in a1pos and q != j else "plain" for q in range(len(argtypes))]
                combos.append(k)
    if name.startswith("__i") and name != "__init__" and len(argtypes) == 2 and is_a1(argtypes[0]) and is_a1(argtypes[1]):
        try:
            run_unmasked_rhs(owner_name, owner, name, f, argtypes, sigtxt, ctx)
        except KeyError:
            pass
    supported = True
    plain_ok = {}
    for kinds in combos:
        kk = "".join("m" if k == "masked" else "p" for k, t in zip(kinds, argtypes) if is_a1(t))
        for n in LENGTHS:
            key = "%s|%s" % (sigtxt, kk)
            try:
                if name == "__init__":
                    vals = [None] + build_args(key, argtypes[1:], n, kinds[1:], ctx)
                else:
                    vals = build_args(key, argtypes, n, kinds, ctx)
            except KeyError as e:
                R.cls("skipped_unsupported_type")
                R.extra.setdefault("unsupported_types", {})
                R.extra["unsupported_types"][str(e)] = R.extra["unsupported_types"].get(str(e), 0) + 1
                return
            # ---- baseline, no pool
            vpool.install(0, 1, 0)
            pre = [snap(v) for v in vals]
            try:
                res = call(f, owner_name, name, vals)
                base = ("ok", snap(res), [snap(v) for v in vals])
            except Exception as e:
                tn = type(e).__name__
                if tn in ("ArgumentError", "TypeError") and "did not match C++ signature" in str(e):
                    R.cls("overload_not_reachable")
                    return
                base = ("raise", tn, [snap(v) for v in vals])
                base_msg = str(e)
                res = None
                # "for every combination of array, scalar and masked-reference arguments": a call that works with plain arrays
                # must also work when the same elements arrive through masked references of the same length
                if plain_ok.get(n) and "m" in kk:
                    # decided on the SAME elements: the masked references are copied element by element into plain arrays
                    try:
                        dense = build_args(key, argtypes, n, kinds, ctx)
                        for j in a1pos:
                            if kinds[j] == "masked":
                                cp = type(dense[j])(len(dense[j]))
                                for q in range(len(dense[j])):
                                    cp[q] = dense[j][q]
                                dense[j] = cp
                        call(f, owner_name, name, dense)
                        dense_ok = True
                    except Exception:
                        dense_ok = False
                    R.cls("masked_call_raised_rechecked_with_dense_copies")
                    if dense_ok:
                        R.fail("kinds:%s.%s:raises_with_masked_arguments_only" % (owner_name, name), sig=sigtxt, kinds=kk, n=n, exc=tn, msg=str(e)[:200])
            if kk == "p" * len(kk):
                plain_ok[n] = base[0] == "ok"
                # a vectorised call that raises although the scalar binding succeeds on EVERY element position is not
                # "what the scalar binding produces" (a raise is otherwise accepted as the outcome, e.g. normalizeExc on a null element)
                if base[0] == "raise" and a1pos and name != "__init__":
                    fr2 = build_args(key, argtypes, n, kinds, ctx)
                    n_el = len(fr2[a1pos[0]])
                    every = n_el > 0
                    for i2 in range(n_el):
                        ok2, why2, _ = scalar_counterpart(owner_name, owner, name, f, fr2, argtypes, i2)
                        if not ok2:
                            every = False
                            break
                    R.cls("raised_call_rechecked_against_scalar_binding")
                    if every:
                        mm = re.search(r"No to_python \(by-value\) converter found for C\+\+ type: (.*)$", base_msg)
                        if base[1] == "TypeError" and mm:
                            # the operation is exported and computes its result, but the result's array type has no Python class
                            cxx = re.sub(r"\s+", "", mm.group(1).replace("PyImath::", "").replace("Imath_3_2::", ""))
                            R.fail("elementwise:%s.%s:result_type_not_registered:%s" % (owner_name, name, cxx), sig=sigtxt, kinds=kk, n=n, exc=base[1], msg=base_msg[:200])
                        else:
                            R.fail("elementwise:%s.%s:raises_but_scalar_binding_succeeds_on_every_element" % (owner_name, name), sig=sigtxt, kinds=kk, n=n, exc=base[1], msg=base_msg[:200])
            R.ev()
            R.cls("entry_calls")
            R.extra.setdefault("entry_points", {})
            R.extra["entry_points"][sigtxt] = R.extra["entry_points"].get(sigtxt, 0) + 1
            mutated = base[0] == "ok" and base[2] != pre
            if mutated:
                R.cls("inplace_entry_calls")
            if kk and "m" in kk:
                R.cls("masked_argument_calls")
            # ---- O2: element-wise scalar semantics on a subset of positions
            if base[0] == "ok" and a1pos and name != "__init__":
                n_elems = len(vals[a1pos[0]])
                idxs = sorted(set(list(range(min(n_elems, 24))) + list(range(max(0, n_elems - 8), n_elems)) + [Rng(a.seed, key, 77).below(n_elems) for _ in range(8)]))
                fresh = build_args(key, argtypes, n, kinds, ctx)
                res_is_arr = res is not None and type(res).__name__.endswith("Array") and hasattr(res, "__len__") and len(res) == n_elems
                is32 = any(t in ("FloatArray", "FloatArray2D", "FloatMatrix") or re.match(r"^(V\d|C\d|Color\d|M\d\d|Quat|Euler|Box\d)f(Array|Array2D)?$", t) for t in argtypes + [ret])
                eps = 1.2e-7 if is32 else 2.3e-16
                for i in idxs:
                    ok, sres, spost = scalar_counterpart(owner_name, owner, name, f, fresh, argtypes, i)
                    if not ok:
                        R.cls("o2_no_counterpart")
                        R.extra.setdefault("o2_no_counterpart", {})
                        R.extra["o2_no_counterpart"][sigtxt] = sres
                        break
                    R.ev()
                    R.cls("o2_elements_compared")
                    try:
                        if res_is_arr:
                            got, want = canon(res[i]), canon(sres)
                        elif mutated and is_a1(argtypes[0]):
                            got, want = canon(vals[0][i]), canon(spost)
                        else:
                            break
                    except TypeError:
                        R.cls("o2_uncomparable_result")
                        break
                    if isinstance(want, bool) and isinstance(got, int):
                        want = int(want)
                    if deep(got) != deep(want):
                        intlike = not any(isinstance(x, float) for x in (got if isinstance(got, tuple) else (got,)))
                        inscale = 0.0
                        for v, t in zip(fresh, argtypes):
                            try:
                                c = canon(v[i]) if is_a1(t) else canon(v)
                            except Exception:
                                continue
                            stack = [c]
                            while stack:
                                q = stack.pop()
                                if isinstance(q, tuple):
                                    stack.extend(q)
                                elif isinstance(q, float) and q == q and abs(q) != float("inf"):
                                    inscale = max(inscale, abs(q))
                        if not intlike and close_enough(got, want, ulps=64, extra_scale=inscale, eps=eps):
                            R.cls("o2_within_tolerance")
                        elif owner is I and is32 and isinstance(got, float) and isinstance(want, float) and illconditioned(name, fresh, argtypes, i, want, abs(got - want)):
                            # imath.f(python floats) resolves to the double overload; a float array result may differ from it by
                            # (condition number) x float eps.  Judged only where one float ulp on an input moves the answer less than that.
                            R.cls("o2_illconditioned_skipped")
                        elif owner is I and is32 and isinstance(got, float) and isinstance(want, float) and abs(got) == float("inf") and abs(want) > 3.4028e38 and (got > 0) == (want > 0):
                            # the double overload's finite result is beyond the float range: rounded to float it IS this infinity
                            R.cls("o2_float_overflow_agrees_with_double_overload")
                        elif owner is I and is32 and isinstance(got, float) and isinstance(want, float) and (got != got or abs(got) == float("inf")) and inscale > 1e12:
                            # same cause: the double overload does not overflow where a float product of operands beyond 1e12 can
                            R.cls("o2_float_range_exceeded_skipped")
                        else:
                            R.fail("elementwise:%s.%s:differs_from_scalar_binding" % (owner_name, name), sig=sigtxt, kinds=kk, n=n, i=i, got=got, want=want)
                            break
                # ---- O2b: the same entry point on one-element arrays built from the i-th elements gives the i-th result exactly
                for i in idxs[:3] + idxs[-3:]:
                    try:
                        one = []
                        for v, t in zip(fresh, argtypes):
                            one.append(getattr(I, t)(copy_elem(v[i]), 1) if is_a1(t) else copy_elem(v))
                    except Exception:
                        R.cls("o2b_not_applicable")
                        break
                    try:
                        r1 = call(f, owner_name, name, one)
                    except Exception as e:
                        R.fail("elementwise:%s.%s:one_element_call_raised" % (owner_name, name), sig=sigtxt, kinds=kk, n=n, i=i, exc=repr(e))
                        break
                    R.ev()
                    R.cls("o2b_one_element_calls")
                    try:
                        if res_is_arr:
                            got, want = deep(canon(res[i])), deep(canon(r1[0]))
                        elif mutated and is_a1(argtypes[0]):
                            got, want = deep(canon(vals[0][i])), deep(canon(one[0][0]))
                        else:
                            break
                    except TypeError:
                        break
                    if got != want:
                        R.fail("elementwise:%s.%s:depends_on_position_or_length" % (owner_name, name), sig=sigtxt, kinds=kk, n=n, i=i, got=repr(got)[:200], want=repr(want)[:200])
                        break
            # ---- O3: one array argument of another length (one too long, one too short, or - when another argument is a
            # masked reference - dimensioned like the UNMASKED array).  In-place operators document the last as a leniency
            # (modelled by run_unmasked_rhs), everything else must raise and leave every argument unchanged.
            if len(a1pos) >= 2 and n in (LENGTHS[0], LENGTHS[1]) and name != "__init__":
                lenient = name.startswith("__i") and len(argtypes) == 2
                for j in a1pos[1:]:
                    variants = [("longer", (j, n + 1, kinds[j]))]
                    if n > 1:
                        variants.append(("shorter", (j, n - 1, kinds[j])))
                    if not lenient and any(kinds[q] == "masked" for q in a1pos if q != j):
                        variants.append(("unmasked_length", (j, n + 7, "plain")))      # masked prototypes have 7 unselected elements
                    if kk != "p" * len(a1pos) or n != LENGTHS[0]:
                        variants = [v for v in variants if v[0] != "longer" or n == LENGTHS[0]]
                    for vname, spec in variants:
                        bad = build_args(key, argtypes, n, kinds, ctx, longer=spec)
                        prebad = [snap(v) for v in bad]
                        R.ev()
                        R.cls("o3_length_mismatch_calls")
                        R.cls("o3_" + vname + ("_with_masked_argument" if "m" in kk else ""))
                        try:
                            call(f, owner_name, name, bad)
                            R.fail("length_mismatch:%s.%s:no_raise:%s" % (owner_name, name, vname), sig=sigtxt, kinds=kk, mismatched_arg=j, n=n, given=spec[1])
                        except Exception:
                            pass
                        if [snap(v) for v in bad] != prebad:
                            R.fail("length_mismatch:%s.%s:arguments_changed:%s" % (owner_name, name, vname), sig=sigtxt, kinds=kk, mismatched_arg=j, n=n, given=spec[1])
            # ---- O1: partition / order / thread independence
            if n <= 200:
                continue
            d0 = vpool.dispatches()
            plans = []
            if "seq" in MODE:
                plans += [(1, s) for s in range(NSEQ)]
            if "thr" in MODE.split(","):
                plans += [(2, s) for s in range(NTHR)]
            if "thrd" in MODE:
                plans += [(3, s) for s in range(NTHRD)]
            dispatched = False
            for mode, s in plans:
                if name == "__init__":
                    v2 = [None] + build_args(key, argtypes[1:], n, kinds[1:], ctx)
                else:
                    v2 = build_args(key, argtypes, n, kinds, ctx)
                vpool.install(mode, workers_for(mode, s), (a.seed * 1000003 + hash_str(key) + s * 7919 + n) & 0x7fffffffffff)
                try:
                    r2 = call(f, owner_name, name, v2)
                    got = ("ok", snap(r2), [snap(v) for v in v2])
                except Exception as e:
                    got = ("raise", type(e).__name__, [snap(v) for v in v2])
                finally:
                    nd = vpool.dispatches()
                    vpool.install(0, 1, 0)
                R.ev()
                if nd == 0 and mode == plans[0][0] and s == 0:
                    pass
                if vpool.dispatches() > 0:
                    dispatched = True
                modename = {1: "seq", 2: "thr", 3: "thr_delay"}[mode]
                # when the operation raises, which elements were already written depends on where in its sub-range the
                # failing element sits: there is no "result", only the outcome (raise, exception class) is compared
                if (got[:2] != base[:2]) if base[0] == "raise" else (got != base):
                    what = "outcome" if got[0] != base[0] or (got[0] == "raise" and got[1] != base[1]) else ("result" if got[1] != base[1] else "mutated_argument")
                    st = vpool.stats()
                    R.fail("partition_dependence:%s.%s:%s:%s" % (owner_name, name, modename, what), sig=sigtxt, kinds=kk, n=n, pool_seed=s,
                           partition=st["last"][:12], base=repr(base[1])[:200], got=repr(got[1])[:200])
                    break
                if st_dispatch_count() == 0 and s >= 1:
                    break        # this entry point never dispatches: one extra run is enough
            R.nontrivial(hash((sigtxt, kk, n)))
            # ---- O1 again on data made of runs of identical elements (all-plain arguments, largest length only)
            if "m" not in kk and n == LENGTHS[-1] and name != "__init__" and a1pos:
                try:
                    vr = build_args(key, argtypes, n, kinds, ctx, runs=True)
                    vpool.install(0, 1, 0)
                    rr = call(f, owner_name, name, vr)
                    base_r = ("ok", snap(rr), [snap(v) for v in vr])
                except Exception as e:
                    base_r = None
                if base_r is not None:
                    R.cls("runs_content_calls")
                    for mode, s2 in [(1, 0), (1, 1), (1, 2), (2, 0), (3, 0)]:
                        if (mode == 1 and "seq" not in MODE) or (mode == 2 and "thr" not in MODE.split(",")) or (mode == 3 and "thrd" not in MODE):
                            continue
                        v2 = build_args(key, argtypes, n, kinds, ctx, runs=True)
                        vpool.install(mode, workers_for(mode, s2), (a.seed * 7777 + hash_str(key) + s2 * 104729 + n) & 0x7fffffffffff)
                        try:
                            r2 = call(f, owner_name, name, v2)
                            got = ("ok", snap(r2), [snap(v) for v in v2])
                        except Exception as e:
                            got = ("raise", type(e).__name__, [snap(v) for v in v2])
                        finally:
                            vpool.install(0, 1, 0)
                        R.ev()
                        if got != base_r:
                            st = vpool.stats()
                            R.fail("partition_dependence:%s.%s:%s:runs_of_equal_elements" % (owner_name, name, {1: "seq", 2: "thr", 3: "thr_delay"}[mode]), sig=sigtxt, n=n,
                                   pool_seed=s2, partition=st["last"][:12], base=repr(base_r[1])[:200], got=repr(got[1])[:200])
                            break
                        if st_dispatch_count() == 0:
                            break
    return


_last_disp = [0]


def st_dispatch_count():
    d = vpool.dispatches()
    delta = d - _last_disp[0]
    _last_disp[0] = d
    return delta


def owners():
    out = [("imath", I)]
    for k in sorted(vars(I)):
        v = getattr(I, k)
        if isinstance(v, type):
            out.append((k, v))
    return out


OWN = owners()
for n, (oname, owner) in enumerate(OWN):
    sname = "vec:%s" % oname
    if a.only:
        if sname != a.only:
            continue
    elif n % part_n != part_k or n < a.start:
        continue
    entries = discover(oname, owner)
    if not entries:
        continue
    R.scen_i = n - 1
    R.scenario(sname)
    d_before = vpool.dispatches()
    for name, f, argtypes, ret in entries:
        before = vpool.dispatches()
        try:
            run_entry(oname, owner, name, f, argtypes, ret)
        except Exception as e:
            import traceback
            R.fail("harness:vec:%s.%s" % (oname, name), exc=repr(e), tb=traceback.format_exc()[-1500:])
        finally:
            vpool.install(0, 1, 0)
        if vpool.dispatches() > before:
            R.cls("entries_dispatched_through_pool")
            R.extra.setdefault("dispatched_entry_points", []).append("%s.%s(%s)" % (oname, name, ",".join(argtypes)))
        else:
            R.cls("entries_never_dispatched")
    R.sample(sname, dict(owner=oname, entries=len(entries), first=["%s(%s)" % (e[0], ",".join(e[2])) for e in entries[:4]]))
st = vpool.stats()
st.pop("last", None)
R.extra["pool"] = st
for k in ("dispatches", "ranges", "empty_ranges", "single_elem_ranges", "one_range", "elementwise", "reversed", "threaded_dispatches", "concurrent_overlaps"):
    R.cls("pool_" + k, st[k])
R.extra["n_entry_points"] = len(R.extra.get("entry_points", {}))
R.extra["n_dispatched_entry_points"] = len(R.extra.get("dispatched_entry_points", []))
R.extra["partitions_distinct"] = st["partitions_distinct"]
R.extra["orders_distinct"] = st["orders_distinct"]
R.scen_i = len(OWN) - 1
R.finish()
