# C20 workload 2: "the scalar bindings return what the C++ library returns".
# Random and boundary inputs are sent through the scalar Boost.Python bindings of the imath module AND, as raw bit
# patterns, to py/c20_cref.cpp (a C++ program calling the library directly, built from /repo's working tree); results
# must agree bit for bit.  Module-level functions called with python floats may resolve to the float or to the double
# overload: the binding's result must equal one of the two C++ results.
import sys, os, struct, subprocess, math
sys.path.insert(0, os.path.dirname(os.path.abspath(__file__)))
from vlib import *

a = parse_args()
R = Run("c20_scalar")
THOROUGH = a.tier == "thorough"
N = 4000 if THOROUGH else 400
I = imath
part_k, part_n = [int(x) for x in a.part.split("/")]
CREF = os.environ.get("C20_CREF")
proc = subprocess.Popen([CREF], stdin=subprocess.PIPE, stdout=subprocess.PIPE, text=True, bufsize=1)


def f32(x):
    return struct.unpack("f", struct.pack("f", x))[0]


def bits(x, ty):
    if isinstance(x, bool):
        return int(x)
    if isinstance(x, int):
        return x & ((1 << 64) - 1)
    if ty == "f":
        try:
            return struct.unpack("<I", struct.pack("<f", x))[0]
        except OverflowError:       # a finite double beyond the float range: cannot be the result of the float overload
            return 1 << 70
    return struct.unpack("<Q", struct.pack("<d", x))[0]


def is_nan_bits(w):
    return (w < (1 << 32) and (w & 0x7fffffff) > 0x7f800000) or ((w & 0x7fffffffffffffff) > 0x7ff0000000000000)


def flat(v):
    if isinstance(v, tuple):
        out = []
        for q in v:
            out += flat(q)
        return out
    return [v]


def ask(fn, ty, words):
    proc.stdin.write("%s %s %s\n" % (fn, ty, " ".join("%x" % w for w in words)))
    proc.stdin.flush()
    line = proc.stdout.readline().split()
    if not line or line[0] != "OK":
        return None, " ".join(line)
    return [int(w, 16) for w in line[1:]], None


SPECIALS = [0.0, -0.0, 1.0, -1.0, 0.5, 2.0, 1e-3, 1e3, 0.25, -7.5]


def rs(r, ty, lo=-10.0, hi=10.0, special=True):
    k = r.below(12)
    if special and k == 0:
        v = r.pick(SPECIALS)
    elif k < 4:
        v = float(r.range(-9, 9)) / 2
    else:
        v = r.uniform(lo, hi)
    return f32(v) if ty == "f" else v


def rv(r, ty, n, **kw):
    return [rs(r, ty, **kw) for _ in range(n)]


def cls(name, ty):
    return getattr(I, name + ty)


def mk_m44(r, ty, affine=None):
    v = rv(r, ty, 16, lo=-2, hi=2)
    for d in range(4):
        v[d * 5] = (f32(v[d * 5] + 4.0) if ty == "f" else v[d * 5] + 4.0)
    if affine if affine is not None else r.coin():
        v[3] = v[7] = v[11] = 0.0
        v[15] = 1.0
    return v


def mk_m33(r, ty):
    v = rv(r, ty, 9, lo=-2, hi=2)
    for d in range(3):
        v[d * 4] = (f32(v[d * 4] + 4.0) if ty == "f" else v[d * 4] + 4.0)
    return v


def mk_q(r, ty):
    v = rv(r, ty, 4, lo=-1, hi=1, special=False)
    if r.below(3):
        n = math.sqrt(sum(x * x for x in v)) or 1.0
        v = [(f32(x / n) if ty == "f" else x / n) for x in v]
    return v


def mk_box(r, ty):
    lo = rv(r, ty, 3, lo=-5, hi=0)
    hi = [(f32(l + abs(rs(r, ty, 0.5, 5, False))) if ty == "f" else l + abs(rs(r, ty, 0.5, 5, False))) for l in lo]
    if r.one_in(6):
        lo, hi = hi, lo          # inverted (empty) box
    return lo + hi


ORDERS = [int(o) for o in (I.EULER_XYZ, I.EULER_ZYX, I.EULER_XZY, I.EULER_YXZ, I.EULER_XYX, I.EULER_ZXZr)] if hasattr(I, "EULER_ZXZr") else [int(I.EULER_XYZ), int(I.EULER_ZYX)]
ORDER_OBJ = {int(getattr(I, n)): getattr(I, n) for n in dir(I) if n.startswith("EULER_") and not n.endswith(("Layout", "Default"))}


def V(ty, n, v):
    return getattr(I, "V%d%s" % (n, ty))(*v)


def Q(ty, v):
    return cls("Quat", ty)(*v)


def M44(ty, v):
    return cls("M44", ty)(*v)


def M33(ty, v):
    return cls("M33", ty)(*v)


def B3(ty, v):
    return cls("Box3", ty)(V(ty, 3, v[:3]), V(ty, 3, v[3:]))


def FR(ty, v, ortho):
    return cls("Frustum", ty)(v[0], v[1], v[2], v[3], v[4], v[5], bool(ortho))


def mk_frustum(r, ty):
    near = abs(rs(r, ty, 0.1, 5, False)) + (f32(0.05) if ty == "f" else 0.05)
    far = near + abs(rs(r, ty, 1, 100, False)) + 1.0
    l = -abs(rs(r, ty, 0.1, 3, False)) - 0.1
    rr = abs(rs(r, ty, 0.1, 3, False)) + 0.1
    t = abs(rs(r, ty, 0.1, 3, False)) + 0.1
    b = -abs(rs(r, ty, 0.1, 3, False)) - 0.1
    v = [near, far, l, rr, t, b]
    return [f32(x) for x in v] if ty == "f" else v


# (cref name, types, generator -> (words-as-values list, python callable producing the result))
def table():
    T = []

    def add(name, types, gen):
        T.append((name, types, gen))

    add("V3.dot", "fd", lambda r, ty: (lambda x, y: (x + y, lambda: V(ty, 3, x).dot(V(ty, 3, y))))(rv(r, ty, 3), rv(r, ty, 3)))
    add("V3.cross", "fd", lambda r, ty: (lambda x, y: (x + y, lambda: V(ty, 3, x).cross(V(ty, 3, y))))(rv(r, ty, 3), rv(r, ty, 3)))
    add("V3.length", "fd", lambda r, ty: (lambda x: (x, lambda: V(ty, 3, x).length()))(rv(r, ty, 3)))
    add("V3.length2", "fd", lambda r, ty: (lambda x: (x, lambda: V(ty, 3, x).length2()))(rv(r, ty, 3)))
    add("V3.normalized", "fd", lambda r, ty: (lambda x: (x, lambda: V(ty, 3, x).normalized()))(rv(r, ty, 3)))
    add("V3.add", "fd", lambda r, ty: (lambda x, y: (x + y, lambda: V(ty, 3, x) + V(ty, 3, y)))(rv(r, ty, 3), rv(r, ty, 3)))
    add("V3.sub", "fd", lambda r, ty: (lambda x, y: (x + y, lambda: V(ty, 3, x) - V(ty, 3, y)))(rv(r, ty, 3), rv(r, ty, 3)))
    add("V3.mul", "fd", lambda r, ty: (lambda x, y: (x + y, lambda: V(ty, 3, x) * V(ty, 3, y)))(rv(r, ty, 3), rv(r, ty, 3)))
    add("V3.div", "fd", lambda r, ty: (lambda x, y: (x + y, lambda: V(ty, 3, x) / V(ty, 3, y)))(rv(r, ty, 3), [v if v != 0 else 1.0 for v in rv(r, ty, 3)]))
    add("V3.mulS", "fd", lambda r, ty: (lambda x, s: (x + [s], lambda: V(ty, 3, x) * s))(rv(r, ty, 3), rs(r, ty)))
    add("V3.mulM44", "fd", lambda r, ty: (lambda x, m: (x + m, lambda: V(ty, 3, x) * M44(ty, m)))(rv(r, ty, 3), mk_m44(r, ty)))
    add("V2.dot", "fd", lambda r, ty: (lambda x, y: (x + y, lambda: V(ty, 2, x).dot(V(ty, 2, y))))(rv(r, ty, 2), rv(r, ty, 2)))
    add("V2.cross", "fd", lambda r, ty: (lambda x, y: (x + y, lambda: V(ty, 2, x).cross(V(ty, 2, y))))(rv(r, ty, 2), rv(r, ty, 2)))
    add("V2.length", "fd", lambda r, ty: (lambda x: (x, lambda: V(ty, 2, x).length()))(rv(r, ty, 2)))
    add("V4.dot", "fd", lambda r, ty: (lambda x, y: (x + y, lambda: V(ty, 4, x).dot(V(ty, 4, y))))(rv(r, ty, 4), rv(r, ty, 4)))
    add("V4.length", "fd", lambda r, ty: (lambda x: (x, lambda: V(ty, 4, x).length()))(rv(r, ty, 4)))
    add("V4.normalized", "fd", lambda r, ty: (lambda x: (x, lambda: V(ty, 4, x).normalized()))(rv(r, ty, 4)))
    add("M44.mul", "fd", lambda r, ty: (lambda x, y: (x + y, lambda: M44(ty, x) * M44(ty, y)))(mk_m44(r, ty), mk_m44(r, ty)))
    add("M44.inverse", "fd", lambda r, ty: (lambda x: (x, lambda: M44(ty, x).inverse()))(mk_m44(r, ty)))
    add("M44.gjInverse", "fd", lambda r, ty: (lambda x: (x, lambda: M44(ty, x).gjInverse()))(mk_m44(r, ty)))
    add("M44.transposed", "fd", lambda r, ty: (lambda x: (x, lambda: M44(ty, x).transposed()))(mk_m44(r, ty)))
    add("M44.determinant", "fd", lambda r, ty: (lambda x: (x, lambda: M44(ty, x).determinant()))(mk_m44(r, ty)))
    add("M44.multVecMatrix", "fd", lambda r, ty: (lambda m, x: (m + x, lambda: M44(ty, m).multVecMatrix(V(ty, 3, x))))(mk_m44(r, ty), rv(r, ty, 3)))
    add("M44.multDirMatrix", "fd", lambda r, ty: (lambda m, x: (m + x, lambda: M44(ty, m).multDirMatrix(V(ty, 3, x))))(mk_m44(r, ty), rv(r, ty, 3)))
    add("M33.mul", "fd", lambda r, ty: (lambda x, y: (x + y, lambda: M33(ty, x) * M33(ty, y)))(mk_m33(r, ty), mk_m33(r, ty)))
    add("M33.inverse", "fd", lambda r, ty: (lambda x: (x, lambda: M33(ty, x).inverse()))(mk_m33(r, ty)))
    add("M33.determinant", "fd", lambda r, ty: (lambda x: (x, lambda: M33(ty, x).determinant()))(mk_m33(r, ty)))
    add("Quat.mul", "fd", lambda r, ty: (lambda x, y: (x + y, lambda: Q(ty, x) * Q(ty, y)))(mk_q(r, ty), mk_q(r, ty)))
    add("Quat.inverse", "fd", lambda r, ty: (lambda x: (x, lambda: Q(ty, x).inverse()))(mk_q(r, ty)))
    add("Quat.normalized", "fd", lambda r, ty: (lambda x: (x, lambda: Q(ty, x).normalized()))(mk_q(r, ty)))
    add("Quat.slerp", "fd", lambda r, ty: (lambda x, y, t: (x + y + [t], lambda: Q(ty, x).slerp(Q(ty, y), t)))(mk_q(r, ty), mk_q(r, ty), rs(r, ty, 0, 1, False)))
    add("Quat.slerpShortestArc", "fd", lambda r, ty: (lambda x, y, t: (x + y + [t], lambda: Q(ty, x).slerpShortestArc(Q(ty, y), t)))(mk_q(r, ty), mk_q(r, ty), rs(r, ty, 0, 1, False)))
    add("Quat.toMatrix44", "fd", lambda r, ty: (lambda x: (x, lambda: Q(ty, x).toMatrix44()))(mk_q(r, ty)))
    add("Quat.toMatrix33", "fd", lambda r, ty: (lambda x: (x, lambda: Q(ty, x).toMatrix33()))(mk_q(r, ty)))
    add("Quat.rotateVector", "fd", lambda r, ty: (lambda x, v: (x + v, lambda: Q(ty, x).rotateVector(V(ty, 3, v))))(mk_q(r, ty), rv(r, ty, 3)))
    add("Quat.dot", "fd", lambda r, ty: (lambda x, y: (x + y, lambda: Q(ty, x) ^ Q(ty, y)))(mk_q(r, ty), mk_q(r, ty)))
    add("Euler.toMatrix44", "fd", lambda r, ty: (lambda v, o: (v + [o], lambda: cls("Euler", ty)(V(ty, 3, v), ORDER_OBJ[o]).toMatrix44()))(rv(r, ty, 3, lo=-3.2, hi=3.2), r.pick(ORDERS)))
    add("Euler.toQuat", "fd", lambda r, ty: (lambda v, o: (v + [o], lambda: cls("Euler", ty)(V(ty, 3, v), ORDER_OBJ[o]).toQuat()))(rv(r, ty, 3, lo=-3.2, hi=3.2), r.pick(ORDERS)))
    add("Box3.intersectsPoint", "fd", lambda r, ty: (lambda b, p: (b + p, lambda: B3(ty, b).intersects(V(ty, 3, p))))(mk_box(r, ty), rv(r, ty, 3, lo=-6, hi=6)))
    add("Box3.intersectsBox", "fd", lambda r, ty: (lambda b, c: (b + c, lambda: B3(ty, b).intersects(B3(ty, c))))(mk_box(r, ty), mk_box(r, ty)))

    def ext_point(r, ty):
        b, p = mk_box(r, ty), rv(r, ty, 3, lo=-8, hi=8)

        def call():
            bx = B3(ty, b)
            bx.extendBy(V(ty, 3, p))
            return bx
        return b + p, call
    add("Box3.extendByPoint", "fd", ext_point)

    def ext_box(r, ty):
        b, c = mk_box(r, ty), mk_box(r, ty)

        def call():
            bx = B3(ty, b)
            bx.extendBy(B3(ty, c))
            return bx
        return b + c, call
    add("Box3.extendByBox", "fd", ext_box)
    add("Box3.size", "fd", lambda r, ty: (lambda b: (b, lambda: B3(ty, b).size()))(mk_box(r, ty)))
    add("Box3.center", "fd", lambda r, ty: (lambda b: (b, lambda: B3(ty, b).center()))(mk_box(r, ty)))
    add("Box3.majorAxis", "fd", lambda r, ty: (lambda b: (b, lambda: B3(ty, b).majorAxis()))(mk_box(r, ty)))
    # module-level functions: python floats -> float or double overload ('*' = accept either reference)
    add("lerp", "*", lambda r, ty: (lambda v: (v, lambda: I.lerp(*v)))(rv(r, "f", 3)))
    add("lerpfactor", "*", lambda r, ty: (lambda v: (v, lambda: I.lerpfactor(*v)))(rv(r, "f", 3)))
    add("clamp", "*", lambda r, ty: (lambda v: (v, lambda: I.clamp(*v)))((lambda x, l, h: [x, min(l, h), max(l, h)])(*rv(r, "f", 3))))
    add("floor", "*", lambda r, ty: (lambda v: (v, lambda: I.floor(*v)))(rv(r, "f", 1, lo=-1e6, hi=1e6)))
    add("ceil", "*", lambda r, ty: (lambda v: (v, lambda: I.ceil(*v)))(rv(r, "f", 1, lo=-1e6, hi=1e6)))
    add("trunc", "*", lambda r, ty: (lambda v: (v, lambda: I.trunc(*v)))(rv(r, "f", 1, lo=-1e6, hi=1e6)))
    add("sign", "*", lambda r, ty: (lambda v: (v, lambda: I.sign(*v)))(rv(r, "f", 1)))
    add("cmp", "*", lambda r, ty: (lambda v: (v, lambda: I.cmp(*v)))(rv(r, "f", 2)))
    add("cmpt", "*", lambda r, ty: (lambda v: (v, lambda: I.cmpt(*v)))(rv(r, "f", 2) + [abs(rs(r, "f", 0, 1, False))]))
    add("iszero", "*", lambda r, ty: (lambda v: (v, lambda: I.iszero(*v)))([rs(r, "f", -1, 1), abs(rs(r, "f", 0, 1, False))]))
    add("equal", "*", lambda r, ty: (lambda v: (v, lambda: I.equal(*v)))(rv(r, "f", 2) + [abs(rs(r, "f", 0, 1, False))]))
    for nm in ("divs", "mods", "divp", "modp"):
        add(nm, "i", lambda r, ty, nm=nm: (lambda x, y: ([x, y], lambda: getattr(I, nm)(x, y)))(r.range(-1000, 1000) if r.below(4) else r.range(-2 ** 30, 2 ** 30), (r.range(1, 60) if r.coin() else r.range(1, 2 ** 30)) * (1 if r.coin() else -1)))   # |x|,|y| <= 2^30: modp's y*divp stays in int
    for nm in ("sin", "cos", "sqrt", "exp"):
        add(nm, "*", lambda r, ty, nm=nm: (lambda v: (v, lambda: getattr(I, nm)(*v)))([abs(x) if nm == "sqrt" else x for x in rv(r, "f", 1)]))
    add("atan2", "*", lambda r, ty: (lambda v: (v, lambda: I.atan2(*v)))(rv(r, "f", 2)))
    add("pow", "*", lambda r, ty: (lambda v: (v, lambda: I.pow(*v)))([abs(rs(r, "f", 0.1, 10, False)), rs(r, "f", -3, 3)]))
    add("rgb2hsv", "fd", lambda r, ty: (lambda v: (v, lambda: I.rgb2hsv(V(ty, 3, v))))([abs(x) for x in rv(r, ty, 3, lo=0, hi=1)]))
    add("hsv2rgb", "fd", lambda r, ty: (lambda v: (v, lambda: I.hsv2rgb(V(ty, 3, v))))([abs(x) for x in rv(r, ty, 3, lo=0, hi=1)]))
    add("Frustum.projectionMatrix", "fd", lambda r, ty: (lambda f, o: (f + [o], lambda: FR(ty, f, o).projectionMatrix()))(mk_frustum(r, ty), r.below(2)))
    add("Frustum.projectPointToScreen", "fd", lambda r, ty: (lambda f, o, p: (f + [o] + p, lambda: FR(ty, f, o).projectPointToScreen(V(ty, 3, p))))(mk_frustum(r, ty), r.below(2), [rs(r, ty), rs(r, ty), -abs(rs(r, ty, 1, 50, False)) - 0.5]))
    add("Frustum.fovx", "fd", lambda r, ty: (lambda f: (f + [0], lambda: FR(ty, f, 0).fovx()))(mk_frustum(r, ty)))
    add("Frustum.ZToDepth", "fd", lambda r, ty: (lambda f, o, z: (f + [o, z, 0, 65535], lambda: FR(ty, f, o).ZToDepth(z, 0, 65535)))(mk_frustum(r, ty), r.below(2), r.range(0, 65535)))
    add("Line3.closestPointTo", "fd", lambda r, ty: (lambda p0, p1, p: (p0 + p1 + p, lambda: cls("Line3", ty)(V(ty, 3, p0), V(ty, 3, p1)).closestPointTo(V(ty, 3, p))))(rv(r, ty, 3), [x + 1.5 for x in rv(r, "d", 3)] if ty == "d" else [f32(x + 1.5) for x in rv(r, ty, 3)], rv(r, ty, 3)))
    add("Plane3.distanceTo", "fd", lambda r, ty: (lambda n, d, p: (n + [d] + p, lambda: cls("Plane3", ty)(V(ty, 3, n), d).distanceTo(V(ty, 3, p))))([x if abs(x) > 0.1 else 1.0 for x in rv(r, ty, 3)], rs(r, ty), rv(r, ty, 3)))
    add("Plane3.reflectPoint", "fd", lambda r, ty: (lambda n, d, p: (n + [d] + p, lambda: cls("Plane3", ty)(V(ty, 3, n), d).reflectPoint(V(ty, 3, p))))([x if abs(x) > 0.1 else 1.0 for x in rv(r, ty, 3)], rs(r, ty), rv(r, ty, 3)))
    return T


TABLE = table()
for n, (fn, types, gen) in enumerate(TABLE):
    name = "scalar:%s" % fn
    if a.only:
        if name != a.only:
            continue
    elif n % part_n != part_k or n < a.start:
        continue
    R.scen_i = n - 1
    R.scenario(name)
    tys = {"fd": ["f", "d"], "*": ["*"], "i": ["i"]}[types]
    for ty in tys:
        unavailable = 0
        for idx in range(N):
            r = Rng(a.seed, "scalar:" + fn + ty, idx)
            try:
                vals, call = gen(r, "d" if ty in "*i" else ty)
            except AttributeError:
                unavailable += 1
                break
            try:
                res = call()
                got = flat(canon(res)) if not isinstance(res, (int, float, bool)) else [res]
            except (AttributeError, TypeError) as e:
                R.cls("binding_unavailable")
                R.extra.setdefault("binding_unavailable", {})[fn + ty] = repr(e)[:120]
                break
            except Exception as e:
                got = ("EXC", type(e).__name__)
            R.ev()
            R.cls("scalar_binding_calls")
            R.nontrivial(hash((fn, ty, idx, a.seed)))
            cand = []
            for rty in (["f", "d"] if ty == "*" else ["d"] if ty == "i" else [ty]):
                words = [bits(v, rty) for v in vals]
                ref, err = ask(fn, rty, words)
                if ref is None:
                    cand.append(("EXC", err))
                    continue
                if isinstance(got, tuple):
                    cand.append(ref)
                    continue
                # integer-valued results come back as 64-bit integers; floats in the reference type
                mine = [bits(g, rty) if isinstance(g, float) else (int(g) & ((1 << 64) - 1)) for g in got]
                cand.append((mine, ref))
            ok = False
            for c in cand:
                if isinstance(got, tuple):
                    ok = ok or (isinstance(c, tuple) and c and c[0] == "EXC")      # both raised
                elif isinstance(c, tuple) and len(c) == 2 and not isinstance(c[0], str):
                    mine, ref = c
                    if mine == ref:
                        ok = True
                    elif len(mine) == len(ref) and all(m == q or (is_nan_bits(m) and is_nan_bits(q)) for m, q in zip(mine, ref)):
                        ok = True
            if not ok:
                R.fail("scalar_binding:%s.%s:differs_from_cpp_library" % (fn, ty), inputs=[repr(v) for v in vals], binding=repr(got)[:300],
                       cpp=[repr(c)[:300] for c in cand], idx=idx)
                break
        R.sample(name, dict(fn=fn, types=types, calls=N))
R.scen_i = len(TABLE) - 1
proc.stdin.close()
R.finish()
