# C19 workload 5: string arrays and the buffer interface.
#   strings : random interleavings of stores of old and new strings in StringArray / WstringArray; every element must
#             read back the last string stored there (model: list of str), ==/!= masks agree with the model
#   export  : memoryview(arr) of every exporting class: nbytes == prod(shape)*itemsize == len*sizeof(element), bytes equal
#             the model's packed bytes, readonly mirrors writable(), writes through the view land in the array, writable
#             requests on read-only arrays fail cleanly
#   import  : ...ArrayFromBuffer(src) for sources of every format / itemsize / shape: equal elements when type and shape
#             match, otherwise an exception (a size mismatch is a heap overflow in memcpy -> ASan)
import sys, os, io, array, struct as st
sys.path.insert(0, os.path.dirname(os.path.abspath(__file__)))
from vlib import *

a = parse_args()
R = Run("c19_buffer")
THOROUGH = a.tier == "thorough"
part_k, part_n = [int(x) for x in a.part.split("/")]
I = imath


def raises(f):
    try:
        f()
    except Exception as e:
        return type(e).__name__
    return None


# ------------------------------------------------------------------ strings
def scen_strings(cn, sn):
    cls = getattr(I, cn)
    r = Rng(a.seed, "str:" + cn, sn)
    n = r.range(1, 40)
    arr = cls(n)
    model = [""] * n
    wide = cn.startswith("W")
    vocab = []

    def newstr():
        k = len(vocab)
        s = ("wé中%d" if wide else "s%d") % k
        if r.one_in(6):
            s = s * r.range(2, 30)      # long strings
        if r.one_in(15):
            s = ""
        vocab.append(s)
        return s
    steps = 300 if THOROUGH else 120
    for t in range(steps):
        R.ev()
        op = r.below(10)
        s = r.pick(vocab) if vocab and r.below(3) else newstr()   # old strings are re-stored often: interning order varies
        if op < 5:
            i = r.range(-n, n - 1)
            arr[i] = s
            model[i] = s
        elif op == 5:
            sl = slice(r.pick([None, 0, 2, -3]), r.pick([None, -1, 7, 30]), r.pick([None, 1, 2, -1, 3]))
            arr[sl] = s
            for i in range(n)[sl]:
                model[i] = s
        elif op == 6:
            mv = [r.below(2) for _ in range(n)]
            arr[int_array(mv)] = s
            for i in range(n):
                if mv[i]:
                    model[i] = s
        elif op == 7:
            # array source: a slice of the array itself (shares the string table) written back reversed
            sl = slice(None, None, -1)
            src = arr[sl]
            arr[slice(None)] = src
            model = model[::-1]
        elif op == 8:
            # compare against a string / another array: masks must agree with the model
            try:
                eq = arr == s
                ne = arr != s
                ge = [eq[i] for i in range(n)]
                gn = [ne[i] for i in range(n)]
                if ge != [int(x == s) for x in model] or gn != [int(x != s) for x in model]:
                    R.fail("strings:%s:compare_scalar" % cn, seq=sn, step=t, s=s)
                other = arr[:]
                j = r.below(n)
                other[j] = newstr() + "x"
                e2 = arr == other
                if [e2[i] for i in range(n)] != [int(i != j) for i in range(n)]:
                    R.fail("strings:%s:compare_array" % cn, seq=sn, step=t)
            except Exception as e:
                R.fail("strings:%s:compare_raised" % cn, seq=sn, step=t, exc=repr(e))
        else:
            # a copy must stay what it was when the original is overwritten afterwards
            cp = arr[:]
            snapshot = list(model)
            for i in range(n):
                arr[i] = newstr()
                model[i] = vocab[-1]
            got = [cp[i] for i in range(n)]
            if got != snapshot:
                R.fail("strings:%s:copy_follows_original" % cn, seq=sn, step=t)
        got = [arr[i] for i in range(n)]
        if got != model:
            bad = [i for i in range(n) if got[i] != model[i]]
            R.fail("strings:%s:element_is_not_last_string_stored" % cn, seq=sn, step=t, first_bad=bad[0], got=got[bad[0]], want=model[bad[0]])
            for i in bad:
                model[i] = got[i]
    R.cls("strings_distinct", len(set(vocab)))
    R.nontrivial(hash((cn, sn, a.seed, n, len(vocab))))
    R.sample("strings:%s" % cn, dict(cls=cn, seq=sn, n=n, vocab=len(vocab), last=model[:3]))


# ------------------------------------------------------------------ export
EXPORT = [("UnsignedCharArray", "B", 1, 1), ("IntArray", "i", 4, 1), ("FloatArray", "f", 4, 1), ("DoubleArray", "d", 8, 1)]
for nn in (2, 3):
    for suf, f, sz in (("s", "h", 2), ("i", "i", 4), ("i64", "q", 8), ("f", "f", 4), ("d", "d", 8)):
        EXPORT.append(("V%d%sArray" % (nn, suf), f, sz, nn))
for suf, f, sz in (("s", "h", 2), ("i", "i", 4), ("i64", "q", 8), ("f", "f", 4), ("d", "d", 8)):
    EXPORT.append(("V4%sArray" % suf, f, sz, 4))     # V4 arrays may or may not export; discovered at run time


def comps(v, w):
    return [v] if w == 1 else [v[i] for i in range(w)]


def scen_export(cn, fmt, isz, width):
    cls = getattr(I, cn, None)
    if cls is None:
        return
    specs = {s.name: s for s in build_specs()}
    spec = specs[cn]
    for L in (0, 1, 2, 5, 17):
        arr = spec.array(list(range(L)))
        R.ev()
        try:
            mv = memoryview(arr)
        except TypeError:
            R.cls("class_does_not_export:" + cn)
            return
        except Exception as e:
            R.fail("export:%s:memoryview_raised" % cn, L=L, exc=repr(e))
            continue
        R.cls("exported")
        want = b"".join(st.pack("=%d%s" % (width, fmt), *comps(arr[i], width)) for i in range(L))
        shape = tuple(mv.shape)
        prod = 1
        for d in shape:
            prod *= d
        if mv.nbytes != prod * mv.itemsize or mv.nbytes != L * isz * width:
            R.fail("export:%s:nbytes_mismatch" % cn, L=L, nbytes=mv.nbytes, shape=shape, itemsize=mv.itemsize, want=L * isz * width)
        if mv.itemsize != isz or shape != ((L,) if width == 1 else (L, width)):
            R.fail("export:%s:shape_or_itemsize" % cn, L=L, shape=shape, itemsize=mv.itemsize)
        if mv.format.lstrip("@=<") != fmt and not (fmt in "iq" and mv.format.lstrip("@=<") in "ilq" and mv.itemsize == isz):
            R.fail("export:%s:format" % cn, L=L, format=mv.format, want=fmt)
        try:
            got = mv.tobytes()
            if got != want:
                R.fail("export:%s:bytes_differ" % cn, L=L, got=got[:64].hex(), want=want[:64].hex())
            if bytes(arr) != want:
                R.fail("export:%s:bytes(arr)_differ" % cn, L=L)
        except Exception as e:
            R.fail("export:%s:tobytes_raised" % cn, L=L, exc=repr(e))
        if mv.readonly:
            R.fail("export:%s:writable_array_exports_readonly" % cn, L=L)
        # write through the view
        if L:
            try:
                flat = mv.cast("B")
                newv = st.pack("=%d%s" % (width, fmt), *[(7 + j) for j in range(width)])
                flat[(L - 1) * len(newv):L * len(newv)] = newv
                gotc = comps(arr[L - 1], width)
                if [float(x) for x in gotc] != [float(7 + j) for j in range(width)]:
                    R.fail("export:%s:write_through_view_lost" % cn, L=L, got=gotc)
                flat.release()
            except Exception as e:
                R.fail("export:%s:write_through_view_raised" % cn, L=L, exc=repr(e))
        mv.release()
        # writable consumers
        if L:
            data = bytes(range(1, 1 + min(255, L * isz * width)))[: L * isz * width]
            data = (data * (L * isz * width // max(1, len(data)) + 1))[: L * isz * width]
            if fmt in "fd":
                data = st.pack("=%d%s" % (L * width, fmt), *[float(x) for x in range(L * width)])
            try:
                nread = io.BytesIO(data).readinto(arr)
                if nread != len(data) or bytes(arr) != data:
                    R.fail("export:%s:readinto_writable" % cn, L=L, nread=nread)
            except Exception as e:
                R.fail("export:%s:readinto_writable_raised" % cn, L=L, exc=repr(e))
        # read-only array
        ro = spec.array(list(range(L)))
        want = bytes(ro)
        ro.makeReadOnly()
        R.ev()
        try:
            mr = memoryview(ro)
            if not mr.readonly:
                R.fail("export:%s:readonly_array_exports_writable" % cn, L=L)
            if mr.tobytes() != want:
                R.fail("export:%s:readonly_bytes_differ" % cn, L=L)
            if L and not raises(lambda: mr.cast("B").__setitem__(0, 1)):
                R.fail("export:%s:readonly_view_accepts_write" % cn, L=L)
            mr.release()
        except Exception as e:
            R.fail("export:%s:readonly_memoryview_raised" % cn, L=L, exc=repr(e))
        R.cls("readonly_writable_request")
        if L:
            for nm, f in (("BytesIO.readinto", lambda: io.BytesIO(b"\xff" * (L * isz * width)).readinto(ro)),
                          ("struct.pack_into", lambda: st.pack_into("=B", ro, 0, 255)),
                          ("bytearray-style slice", lambda: memoryview(ro).cast("B").__setitem__(slice(0, 1), b"\xff"))):
                R.ev()
                if not raises(f):
                    R.fail("export:%s:readonly:%s:no_raise" % (cn, nm), L=L)
                if bytes(ro) != want:
                    R.fail("export:%s:readonly:%s:data_changed" % (cn, nm), L=L)
        # masked references do not export
        if L:
            ref = arr[int_array([1] * L)]
            R.ev()
            ex = raises(lambda: memoryview(ref))
            if not ex:
                m2 = memoryview(ref)
                if m2.tobytes() != bytes(arr):
                    R.fail("export:%s:maskedref_exports_wrong_bytes" % cn, L=L)
    # strided component views (V3fArray.x is a FloatArray with stride 3)
    if width > 1:
        arr = spec.array(list(range(6)))
        for ci, comp in enumerate("xyzw"[:width]):
            R.ev()
            try:
                cv = getattr(arr, comp)
            except Exception:
                R.cls("component_view_unavailable:" + cn)
                continue
            try:
                m = memoryview(cv)
            except Exception:
                R.cls("strided_export_refused")
                continue
            R.cls("strided_export")
            want = [arr[i][ci] for i in range(6)]
            try:
                got = m.tolist()
                if [float(x) for x in got] != [float(x) for x in want] or m.nbytes != 6 * isz:
                    R.fail("export:%s:strided_component_view" % cn, comp=comp, got=got, want=want, nbytes=m.nbytes, strides=m.strides)
            except Exception as e:
                R.fail("export:%s:strided_component_view_raised" % cn, comp=comp, exc=repr(e))
    R.nontrivial(hash(("export", cn)))
    R.sample("export:%s" % cn, dict(cls=cn, format=fmt, itemsize=isz, width=width))


# ------------------------------------------------------------------ import
IMPORT = [("IntArrayFromBuffer", "i", 4, 1), ("FloatArrayFromBuffer", "f", 4, 1), ("DoubleArrayFromBuffer", "d", 8, 1)]
for nn in (2, 3, 4):
    for suf, f, sz in (("i", "i", 4), ("f", "f", 4), ("d", "d", 8)):
        IMPORT.append(("V%d%sArrayFromBuffer" % (nn, suf), f, sz, nn))
TYPECODES = "bBhHiIlLqQfd"


def scen_import(fn, fmt, isz, width):
    F = getattr(I, fn, None)
    if F is None:
        return
    for L in (0, 1, 3, 8):
        for tc in TYPECODES:
            src = array.array(tc, [((k * 3 + 1) % 100) for k in range(L * width)])
            shapes = []
            if width == 1:
                shapes.append(("1d", src))
                if L:
                    shapes.append(("2d_Lx1", memoryview(src).cast("B").cast(tc, (L, 1))))
            else:
                shapes.append(("1d_flat", src))
                if L:
                    shapes.append(("2d_Lxw", memoryview(src).cast("B").cast(tc, (L, width))))
                    shapes.append(("2d_wxL", memoryview(src).cast("B").cast(tc, (width, L))))
                    if width > 1 and (L * width) % (width + 1) == 0:
                        shapes.append(("2d_wrong_width", memoryview(src).cast("B").cast(tc, (L * width // (width + 1), width + 1))))
            for sname, buf in shapes:
                R.ev()
                same_kind = (tc == fmt) or (fmt == "i" and tc in "il" and src.itemsize == isz)
                good_shape = sname in ("1d", "2d_Lxw") or (sname == "2d_wxL" and L == width)
                R.cls("import_matching" if same_kind and good_shape else "import_mismatching")
                R.nontrivial(hash((fn, L, tc, sname)))
                try:
                    res = F(buf)
                except Exception:
                    if same_kind and good_shape:
                        R.fail("import:%s:rejected_matching_buffer" % fn, L=L, typecode=tc, shape=sname)
                    continue
                # accepted: it must then hold exactly the source elements
                try:
                    got = [comps(res[i], width) for i in range(len(res))]
                    flat = [x for g in got for x in g]
                    wantflat = list(src)
                    ok = len(res) * width == len(wantflat) and [float(x) for x in flat] == [float(x) for x in wantflat]
                except Exception as e:
                    ok = False
                    flat = repr(e)
                if not (same_kind and good_shape):
                    if not ok or tc != fmt:
                        R.fail("import:%s:accepted_mismatching_buffer" % fn, L=L, typecode=tc, itemsize=src.itemsize, shape=sname, result_len=len(res))
                elif not ok:
                    R.fail("import:%s:wrong_elements" % fn, L=L, typecode=tc, shape=sname, got=str(flat)[:200], want=str(list(src))[:200])
        # non-contiguous sources of the right element type (every other element / row, reversed): refused, or copied
        # element by element as the buffer describes them - never read as if contiguous
        if L >= 3:
            tc = fmt
            src = array.array(tc, [((k * 3 + 1) % 100) for k in range(L * width)])
            base = memoryview(src) if width == 1 else memoryview(src).cast("B").cast(tc, (L, width))
            for sname, buf in (("every_other", base[::2]), ("reversed", base[::-1]), ("tail_every_other", base[1::2])):
                R.ev()
                R.cls("import_strided_source")
                R.nontrivial(hash((fn, L, "strided", sname)))
                want = buf.tolist()
                wantflat = [x for row in want for x in (row if isinstance(row, list) else [row])]
                try:
                    res = F(buf)
                except Exception:
                    R.cls("import_strided_source_refused")
                    continue
                R.cls("import_strided_source_accepted")
                try:
                    got = [comps(res[i], width) for i in range(len(res))]
                    flat = [x for g in got for x in g]
                    ok = [float(x) for x in flat] == [float(x) for x in wantflat]
                except Exception as e:
                    ok, flat = False, repr(e)
                if not ok:
                    R.fail("import:%s:strided_source_copied_as_contiguous" % fn, L=L, view=sname, strides=buf.strides, got=str(flat)[:200], want=str(wantflat)[:200])
        # raw byte sources (format 'B'): never the right element type for these constructors
        for nbytes in (0, 1, isz * width, isz * width * 3 + 1):
            for nm, buf in (("bytes", bytes(range(nbytes % 256)) * 1 if nbytes < 256 else bytes(nbytes)), ("bytearray", bytearray(nbytes))):
                R.ev()
                R.cls("import_bytes")
                try:
                    res = F(buf)
                    if len(res) != 0:
                        R.fail("import:%s:accepted_raw_bytes" % fn, nbytes=nbytes, kind=nm, result_len=len(res))
                except Exception:
                    pass
    # a read-only source is fine (the constructor copies); the copy must be independent
    src = array.array(fmt, [float(k) if fmt in "fd" else k for k in range(4 * width)])
    buf = memoryview(src).cast("B").cast(fmt, (4, width)) if width > 1 else src
    try:
        res = F(buf)
        src[0] = 99
        if comps(res[0], width)[0] != 0:
            R.fail("import:%s:result_aliases_source" % fn)
    except Exception as e:
        R.fail("import:%s:rejected_matching_buffer" % fn, what="independence check", exc=repr(e))
    # non-buffer objects raise
    for bad in (None, 3, [1, 2, 3], "abc"):
        R.ev()
        if not raises(lambda: F(bad)):
            R.fail("import:%s:accepted_non_buffer" % fn, obj=repr(bad))
    R.sample("import:%s" % fn, dict(fn=fn, format=fmt, width=width))


SCEN = []
NSTR = 40 if THOROUGH else 6
for cn in ("StringArray", "WstringArray"):
    for sn in range(NSTR):
        SCEN.append(("strings:%s:n%d" % (cn, sn), lambda cn=cn, sn=sn: scen_strings(cn, sn)))
for cn, fmt, isz, w in EXPORT:
    SCEN.append(("export:%s" % cn, lambda cn=cn, fmt=fmt, isz=isz, w=w: scen_export(cn, fmt, isz, w)))
for fn, fmt, isz, w in IMPORT:
    SCEN.append(("import:%s" % fn, lambda fn=fn, fmt=fmt, isz=isz, w=w: scen_import(fn, fmt, isz, w)))

for n, (name, fn) in enumerate(SCEN):
    if a.only:
        if name != a.only:
            continue
    elif n % part_n != part_k or n < a.start:
        continue
    R.scen_i = n - 1
    R.scenario(name)
    try:
        fn()
    except Exception as e:
        import traceback
        R.fail("harness:%s" % name.split(":n")[0], exc=repr(e), tb=traceback.format_exc()[-1500:])
R.scen_i = len(SCEN) - 1
R.finish()
