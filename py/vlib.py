# Shared helpers of the PyImath workloads (C19 / C20).  Runs inside the child interpreter that has the
# freshly built `imath` extension loaded (possibly with a sanitizer runtime preloaded).
#
# Protocol towards the driver (lib/pyprops.py): lines on stdout starting with "@@" carry one JSON event:
#   {"ev":"scenario","i":N,"name":...}   announced (and flushed) BEFORE a scenario starts -> crash attribution
#   {"ev":"viol","key":...,"detail":{...}}
#   {"ev":"summary", ...}                last line of a complete run
import json, sys, os, gc, math, struct

import imath

_out = sys.stdout


def emit(ev, **kw):
    kw["ev"] = ev
    _out.write("@@" + json.dumps(kw, default=repr) + "\n")
    _out.flush()


# ---------------------------------------------------------------- PRNG (counter based, same idea as mon.h)
M64 = (1 << 64) - 1


def splitmix64(x):
    x = (x + 0x9E3779B97F4A7C15) & M64
    x = ((x ^ (x >> 30)) * 0xBF58476D1CE4E5B9) & M64
    x = ((x ^ (x >> 27)) * 0x94D049BB133111EB) & M64
    return x ^ (x >> 31)


def hash_str(s):
    h = 1469598103934665603
    for c in s.encode():
        h = ((h ^ c) * 1099511628211) & M64
    return h


class Rng:
    def __init__(self, seed, sub, idx=0):
        if isinstance(sub, str):
            sub = hash_str(sub)
        self.key = splitmix64(splitmix64((seed * 0x9E3779B97F4A7C15 + sub) & M64) ^ splitmix64((idx + 0x51ED27) & M64))
        self.ctr = 0

    def u64(self):
        v = splitmix64((self.key + self.ctr * 0xD1342543DE82EF95) & M64)
        self.ctr += 1
        return v

    def below(self, n):
        return self.u64() % n

    def range(self, lo, hi):
        return lo + self.u64() % (hi - lo + 1)

    def coin(self):
        return bool(self.u64() & 1)

    def one_in(self, n):
        return self.u64() % n == 0

    def pick(self, seq):
        return seq[self.u64() % len(seq)]

    def uniform(self, a=0.0, b=1.0):
        return a + (b - a) * ((self.u64() >> 11) / 9007199254740992.0)

    def shuffle(self, lst):
        for i in range(len(lst) - 1, 0, -1):
            j = self.u64() % (i + 1)
            lst[i], lst[j] = lst[j], lst[i]
        return lst


# ---------------------------------------------------------------- run state
class Run:
    """collects verdict data of one workload process"""

    def __init__(self, name):
        self.name = name
        self.evals = 0
        self.classes = {}
        self.samples = {}
        self.viols = {}
        self.distinct = set()
        self.scen_i = -1
        self.cur = None
        self.extra = {}

    def scenario(self, name):
        self.scen_i += 1
        self.cur = name
        emit("scenario", i=self.scen_i, name=name)
        return self.scen_i

    def ev(self, n=1):
        self.evals += n

    def cls(self, name, n=1):
        self.classes[name] = self.classes.get(name, 0) + n

    def nontrivial(self, h):
        if len(self.distinct) < 2000000:
            self.distinct.add(h if isinstance(h, int) else hash(h))

    def sample(self, label, obj):
        if label not in self.samples and len(self.samples) < 24:
            self.samples[label] = obj

    def fail(self, key, **detail):
        v = self.viols.get(key)
        detail.setdefault("scenario", self.cur)
        if v is None:
            self.viols[key] = dict(count=1, detail=detail)
            emit("viol", key=key, detail=detail)
        else:
            v["count"] += 1

    def finish(self):
        emit("summary", name=self.name, evaluations=self.evals, distinct_nontrivial=len(self.distinct), classes=self.classes,
             samples=[dict(label=k, case=v) for k, v in self.samples.items()],
             violations=[dict(key=k, count=v["count"], detail=v["detail"]) for k, v in self.viols.items()],
             scenarios=self.scen_i + 1, extra=self.extra)


def parse_args(argv=None):
    import argparse
    ap = argparse.ArgumentParser()
    ap.add_argument("--tier", default="quick")
    ap.add_argument("--seed", type=int, default=1)
    ap.add_argument("--group", default="")
    ap.add_argument("--start", type=int, default=0, help="skip scenarios with index < start (resume after a crash)")
    ap.add_argument("--only", default="", help="run only the scenario with this name (replay)")
    ap.add_argument("--part", default="0/1", help="k/n: this process handles scenario indices i with i mod n == k")
    return ap.parse_args(argv)


# ---------------------------------------------------------------- canonical values of elements
def canon(x):
    """element object -> nested tuples of python numbers / str (never repr: row proxies print addresses)"""
    if isinstance(x, (bool, int, str)):
        return x
    if isinstance(x, float):
        return x
    tn = type(x).__name__
    if tn.startswith("Box"):
        return (canon(x.min()), canon(x.max()))
    if tn.startswith("Quat"):
        v = x.v()
        return (x.r(), v.x, v.y, v.z)
    if tn.startswith("Euler"):
        return (x.x, x.y, x.z, int(x.order()))
    if tn.startswith("M22"):
        return tuple(tuple(x[i][j] for j in range(2)) for i in range(2))
    if tn.startswith("M33"):
        return tuple(tuple(x[i][j] for j in range(3)) for i in range(3))
    if tn.startswith("M44"):
        return tuple(tuple(x[i][j] for j in range(4)) for i in range(4))
    if tn.startswith(("V2", "V3", "V4", "Color3", "Color4")):
        n = int(tn[1]) if tn[0] == "V" else int(tn[5])
        return tuple(x[i] for i in range(n))
    if tn.endswith("Array"):
        return tuple(canon(x[i]) for i in range(len(x)))
    raise TypeError("canon: unsupported " + tn)


def same(a, b):
    """NaN-aware equality of canonical values"""
    if isinstance(a, tuple) and isinstance(b, tuple):
        return len(a) == len(b) and all(same(x, y) for x, y in zip(a, b))
    if isinstance(a, float) and isinstance(b, float):
        return a == b or (a != a and b != b)
    return a == b


# ---------------------------------------------------------------- registry of 1-D FixedArray classes
class Spec:
    def __init__(self, name, mk, kind, scalar_cls=None, numeric=False, comps=0):
        self.name = name
        self.cls = getattr(imath, name)
        self.mk = mk          # k (small non-negative int) -> element value; distinct k give distinct elements
        self.kind = kind      # 'int' | 'float' | 'bool' | 'class' | 'str'
        self.numeric = numeric  # supports + - in place with same-class arrays
        self.comps = comps

    def is_ref(self):
        return self.kind == "class"

    def array(self, ks):
        """new array whose i-th element is mk(ks[i])"""
        a = self.cls(len(ks))
        for i, k in enumerate(ks):
            a[i] = self.mk(k)
        return a

    def model(self, ks):
        return [canon(self.mk(k)) for k in ks]


def _vec(cls, n, scale, off=0.0, mod=None):
    def mk(k):
        vals = [k * scale + (j + 1) + off for j in range(n)]
        if mod:
            vals = [int(v) % mod for v in vals]
        return cls(*vals)
    return mk


def _mat(cls, n):
    def mk(k):
        return cls(*[float(k * 20 + i) + 0.5 for i in range(n * n)])
    return mk


def _box(bcls, vcls, n, flt):
    def mk(k):
        lo = [k * 10 + j + (0.5 if flt else 0) for j in range(n)]
        hi = [k * 10 + j + 3 + (0.5 if flt else 0) for j in range(n)]
        return bcls(vcls(*lo), vcls(*hi))
    return mk


def build_specs():
    I = imath
    S = []

    def add(name, mk, kind, **kw):
        if hasattr(I, name):
            S.append(Spec(name, mk, kind, **kw))

    add("IntArray", lambda k: k * 7 + 1, "int", numeric=True)
    add("ShortArray", lambda k: k * 7 + 1, "int", numeric=True)
    add("UnsignedShortArray", lambda k: k * 7 + 1, "int", numeric=True)
    add("SignedCharArray", lambda k: (k * 7 + 1) % 100, "int", numeric=True)
    add("UnsignedCharArray", lambda k: (k * 7 + 1) % 200, "int", numeric=True)
    add("UnsignedIntArray", lambda k: k * 7 + 1, "int", numeric=True)
    add("BoolArray", lambda k: bool((0x6B2C9A53 >> (k % 31)) & 1), "bool")
    add("FloatArray", lambda k: k + 0.5, "float", numeric=True)
    add("DoubleArray", lambda k: k + 0.25, "float", numeric=True)
    for n in (2, 3, 4):
        for suf, flt in (("s", 0), ("i", 0), ("i64", 0), ("f", 1), ("d", 1)):
            cn = "V%d%s" % (n, suf)
            if hasattr(I, cn):
                add(cn + "Array", _vec(getattr(I, cn), n, 10, 0.5 if flt else 0), "class", numeric=True, comps=n)
    add("C3cArray", _vec(getattr(I, "Color3c"), 3, 3, mod=251), "class", comps=3)
    add("C4cArray", _vec(getattr(I, "Color4c"), 4, 3, mod=251), "class", comps=4)
    add("C3fArray", _vec(getattr(I, "Color3f"), 3, 10, 0.5), "class", comps=3)
    add("C4fArray", _vec(getattr(I, "Color4f"), 4, 10, 0.5), "class", comps=4)
    add("QuatfArray", _vec(I.Quatf, 4, 10, 0.5), "class")
    add("QuatdArray", _vec(I.Quatd, 4, 10, 0.25), "class")
    for n in (2, 3, 4):
        for suf in "fd":
            add("M%d%d%sArray" % (n, n, suf), _mat(getattr(I, "M%d%d%s" % (n, n, suf)), n), "class")
    for n in (2, 3):
        for suf, flt in (("s", 0), ("i", 0), ("i64", 0), ("f", 1), ("d", 1)):
            bn, vn = "Box%d%s" % (n, suf), "V%d%s" % (n, suf)
            if hasattr(I, bn):
                add(bn + "Array", _box(getattr(I, bn), getattr(I, vn), n, flt), "class")
    orders = [I.EULER_XYZ, I.EULER_ZYX, I.EULER_XZY, I.EULER_YZX] if hasattr(I, "EULER_XYZ") else []
    if orders:
        add("EulerfArray", lambda k: I.Eulerf(k + 0.5, k + 0.25, k + 0.125, orders[k % 4]), "class")
        add("EulerdArray", lambda k: I.Eulerd(k + 0.5, k + 0.25, k + 0.125, orders[k % 4]), "class")
    add("StringArray", lambda k: "s%d" % k, "str")
    add("WstringArray", lambda k: "wé%d" % k, "str")
    return S


class ViewSpec(Spec):
    """Same element class as `base`, but every array it makes is a strided component view into a parent array
    (V3iArray.y is an IntArray of stride 3, Box2iArray.min a V2iArray of stride 2): the representation every index /
    slice / mask operation must handle both as the target and as the source of an assignment."""

    def __init__(self, base, parent_name, attr, wrap):
        self.name = "%s@%s.%s" % (base.name, parent_name, attr)
        self.cls, self.mk, self.kind, self.numeric, self.comps = base.cls, base.mk, base.kind, base.numeric, base.comps
        self.parent = getattr(imath, parent_name)
        self.attr = attr
        self.wrap = wrap

    def array(self, ks):
        p = self.parent(len(ks))
        for i, k in enumerate(ks):
            p[i] = self.wrap(self.mk(k), k)
        return getattr(p, self.attr)


def build_view_specs(specs=None):
    I = imath
    by = dict((s.name, s) for s in (specs or build_specs()))
    V = []

    def add(base, parent, attr, wrap):
        if base in by and hasattr(I, parent):
            V.append(ViewSpec(by[base], parent, attr, wrap))

    add("IntArray", "V3iArray", "y", lambda v, k: I.V3i(1000 + k, v, -7 - k))
    add("ShortArray", "V3sArray", "x", lambda v, k: I.V3s(v, 1000 + k, -7 - k))
    add("FloatArray", "V3fArray", "z", lambda v, k: I.V3f(1000.5 + k, -7.5 - k, v))
    add("DoubleArray", "V2dArray", "x", lambda v, k: I.V2d(v, -7.5 - k))
    add("FloatArray", "QuatfArray", "r", lambda v, k: I.Quatf(v, 1000.5 + k, -7.5 - k, 3.5))
    add("FloatArray", "C4fArray", "a", lambda v, k: I.Color4f(1000.5 + k, -7.5 - k, 3.5, v))
    add("UnsignedCharArray", "C4cArray", "g", lambda v, k: I.Color4c((k * 3 + 5) % 251, v, (k * 5 + 9) % 251, 77))
    add("V2iArray", "Box2iArray", "min", lambda v, k: I.Box2i(v, I.V2i(100000 + k, 100001 + k)))
    add("V3fArray", "Box3fArray", "max", lambda v, k: I.Box3f(I.V3f(-100000.5 - k, -100001.5, -100002.5), v))
    add("V3dArray", "Box3dArray", "min", lambda v, k: I.Box3d(v, I.V3d(100000.25 + k, 100001.25, 100002.25)))
    return V


def arr_list(a):
    """contents of any 1-D array object as a list of canonical values (reads through the public __getitem__)"""
    return [canon(a[i]) for i in range(len(a))]


def int_array(vals):
    m = imath.IntArray(len(vals))
    for i, v in enumerate(vals):
        m[i] = int(v)
    return m


def gc_churn(n=3):
    """release garbage and recycle freed blocks so that dangling views read something else"""
    gc.collect()
    junk = []
    for i in range(n):
        junk.append(imath.DoubleArray(7.25, 3 + i))
        junk.append(imath.V4dArray(5 + i))
        junk.append(bytearray(64 + 16 * i))
        junk.append(imath.IntArray(99, 9 + i))
    del junk
    gc.collect()
