// Test WorkerPool for the C20 monitor (DESIGN.md, C20).  A tiny CPython extension module that installs, through the
// public PyImath::WorkerPool::setCurrentPool interface, a pool which cuts [0,len) into hostile partitions and runs the
// sub-ranges (a) shuffled on the calling thread or (b) on real threads with a static assignment of ranges to threads and
// no synchronisation between ranges (a work-stealing counter would add happens-before edges that hide races from
// ThreadSanitizer).  Every dispatch is logged so that the evidence can say which partitions / overlaps were observed.
#include <Python.h>
#include <PyImathTask.h>

#include <algorithm>
#include <atomic>
#include <chrono>
#include <cstdint>
#include <exception>
#include <mutex>
#include <set>
#include <thread>
#include <vector>

namespace
{

inline uint64_t
splitmix64 (uint64_t x)
{
    x += 0x9E3779B97F4A7C15ull;
    x = (x ^ (x >> 30)) * 0xBF58476D1CE4E5B9ull;
    x = (x ^ (x >> 27)) * 0x94D049BB133111EBull;
    return x ^ (x >> 31);
}

struct Range
{
    size_t  b, e;
    int     tid;
    int64_t t0, t1; // ns, steady clock (thr modes)
};

thread_local bool tl_in_worker = false;

struct Stats
{
    uint64_t           dispatches = 0, ranges = 0, empty_ranges = 0, single_elem_ranges = 0, one_range = 0, elementwise = 0;
    uint64_t           overlaps = 0, threaded_dispatches = 0, max_len = 0, reversed = 0;
    std::set<uint64_t> partitions, orders;
    std::vector<Range> last;
    size_t             last_len = 0;
};

class VPool : public PyImath::WorkerPool
{
  public:
    int      mode    = 1; // 1 seq, 2 thr, 3 thr+delay
    size_t   nworker = 4;
    uint64_t seed    = 1;
    uint64_t counter = 0;
    std::vector<size_t> plan; // explicit cut points for the next dispatch (one shot)
    bool     have_plan = false;
    std::mutex mu;
    Stats      st;

    size_t workers () const override { return nworker; }
    bool   inWorkerThread () const override { return tl_in_worker; }

    uint64_t rnd (uint64_t& s) { s = splitmix64 (s); return s; }

    void dispatch (PyImath::Task& task, size_t length) override
    {
        uint64_t s;
        std::vector<size_t> cuts;
        int                 pattern;
        {
            std::lock_guard<std::mutex> g (mu);
            s = splitmix64 (seed * 0x9E3779B97F4A7C15ull + (counter++));
            if (have_plan) { cuts = plan; have_plan = false; pattern = 99; }
            else pattern = (int) (rnd (s) % 12);
        }
        // ---- partition of [0,length): sorted cut points (duplicates => empty ranges)
        if (pattern == 99) {}
        else if (pattern == 0) {} // one range
        else if (pattern == 1 && length <= 5000)
            for (size_t i = 1; i < length; ++i) cuts.push_back (i); // element-wise
        else if (pattern == 2) { cuts.push_back (1); if (length > 1) cuts.push_back (length - 1); } // tiny head and tail
        else if (pattern == 3) { cuts.push_back (0); cuts.push_back (0); cuts.push_back (length); } // empty ranges at both ends
        else if (pattern == 4) { cuts.push_back (length / 2); }
        else
        {
            size_t n = 1 + (size_t) (rnd (s) % 9);
            for (size_t i = 0; i < n; ++i) cuts.push_back ((size_t) (rnd (s) % (length + 1)));
            if (pattern == 5 && !cuts.empty ()) cuts.push_back (cuts[0]); // a duplicate: an empty range in the middle
            if (pattern == 6) for (size_t i = 0; i < 3; ++i) { size_t c = (size_t) (rnd (s) % (length + 1)); cuts.push_back (c); if (c + 1 <= length) cuts.push_back (c + 1); } // single-element ranges
        }
        for (auto& c: cuts) c = std::min (c, length);
        std::sort (cuts.begin (), cuts.end ());
        std::vector<Range> rs;
        size_t             prev = 0;
        for (size_t c: cuts) { rs.push_back ({prev, c, 0, 0, 0}); prev = c; }
        rs.push_back ({prev, length, 0, 0, 0});
        uint64_t ph = 1469598103934665603ull;
        for (auto& r: rs) ph = splitmix64 (ph ^ (r.b * 0x100000001B3ull + r.e));
        // ---- order
        bool reversed = false;
        if (pattern == 7 || pattern == 2) { std::reverse (rs.begin (), rs.end ()); reversed = true; }
        else if (pattern != 0)
            for (size_t i = rs.size (); i > 1; --i) std::swap (rs[i - 1], rs[(size_t) (rnd (s) % i)]);
        uint64_t oh = ph;
        for (auto& r: rs) oh = splitmix64 (oh ^ r.b);

        std::exception_ptr err;
        uint64_t           overlaps = 0;
        if (mode == 1 || nworker < 2)
        {
            for (auto& r: rs)
            {
                r.tid = (int) (rnd (s) % nworker);
                tl_in_worker = true;
                try { task.execute (r.b, r.e, r.tid); }
                catch (...) { if (!err) err = std::current_exception (); }
                tl_in_worker = false;
            }
        }
        else
        {
            // static assignment: range k -> thread k % T (after the shuffle), but make sure that at least two threads get
            // a non-empty range whenever two non-empty ranges exist
            size_t T = nworker;
            std::vector<std::vector<size_t>> mine (T);
            size_t nonempty_seen = 0;
            for (size_t k = 0; k < rs.size (); ++k)
            {
                size_t t = k % T;
                if (rs[k].e > rs[k].b) { t = nonempty_seen % T; ++nonempty_seen; }
                rs[k].tid = (int) t;
                mine[t].push_back (k);
            }
            std::atomic<size_t> arrived (0);
            std::vector<std::exception_ptr> errs (T);
            std::vector<std::thread>        th;
            bool                            delay = mode == 3;
            uint64_t                        dseed = s;
            auto                            t_origin = std::chrono::steady_clock::now ();
            for (size_t t = 0; t < T; ++t)
            {
                th.emplace_back ([&, t] {
                    arrived.fetch_add (1);
                    while (arrived.load () < T) {} // spin barrier: release everybody together
                    tl_in_worker = true;
                    uint64_t ds = splitmix64 (dseed + t);
                    for (size_t k: mine[t])
                    {
                        if (delay)
                        {
                            ds = splitmix64 (ds);
                            unsigned d = (unsigned) (ds % 4);
                            if (d == 1) std::this_thread::yield ();
                            else if (d == 2) std::this_thread::sleep_for (std::chrono::microseconds (ds % 200));
                        }
                        rs[k].t0 = std::chrono::duration_cast<std::chrono::nanoseconds> (std::chrono::steady_clock::now () - t_origin).count ();
                        try { task.execute (rs[k].b, rs[k].e, (int) t); }
                        catch (...) { if (!errs[t]) errs[t] = std::current_exception (); }
                        rs[k].t1 = std::chrono::duration_cast<std::chrono::nanoseconds> (std::chrono::steady_clock::now () - t_origin).count ();
                    }
                    tl_in_worker = false;
                });
            }
            for (auto& x: th) x.join ();
            for (auto& e: errs) if (e && !err) err = e;
            for (size_t i = 0; i < rs.size (); ++i)
                for (size_t j = i + 1; j < rs.size (); ++j)
                    if (rs[i].tid != rs[j].tid && rs[i].e > rs[i].b && rs[j].e > rs[j].b && rs[i].t0 < rs[j].t1 && rs[j].t0 < rs[i].t1) ++overlaps;
        }
        {
            std::lock_guard<std::mutex> g (mu);
            st.dispatches++;
            st.ranges += rs.size ();
            for (auto& r: rs)
            {
                if (r.e == r.b) st.empty_ranges++;
                if (r.e == r.b + 1) st.single_elem_ranges++;
            }
            if (rs.size () == 1) st.one_range++;
            if (rs.size () == length && length > 1) st.elementwise++;
            if (reversed) st.reversed++;
            if (mode != 1) st.threaded_dispatches++;
            st.overlaps += overlaps;
            st.max_len = std::max<uint64_t> (st.max_len, length);
            if (st.partitions.size () < 2000000) st.partitions.insert (splitmix64 (ph ^ length));
            if (st.orders.size () < 2000000) st.orders.insert (splitmix64 (oh ^ length));
            st.last = rs;
            st.last_len = length;
        }
        if (err) std::rethrow_exception (err);
    }
};

VPool g_pool;

PyObject*
py_install (PyObject*, PyObject* args)
{
    int       mode, nw;
    long long seed;
    if (!PyArg_ParseTuple (args, "iiL", &mode, &nw, &seed)) return nullptr;
    if (mode == 0) { PyImath::WorkerPool::setCurrentPool (nullptr); Py_RETURN_NONE; }
    {
        std::lock_guard<std::mutex> g (g_pool.mu);
        g_pool.mode    = mode;
        g_pool.nworker = nw < 1 ? 1 : (size_t) nw;
        g_pool.seed    = (uint64_t) seed;
        g_pool.counter = 0;
        g_pool.have_plan = false;
    }
    PyImath::WorkerPool::setCurrentPool (&g_pool);
    Py_RETURN_NONE;
}

PyObject*
py_plan (PyObject*, PyObject* args)
{
    PyObject* seq;
    if (!PyArg_ParseTuple (args, "O", &seq)) return nullptr;
    PyObject* fast = PySequence_Fast (seq, "cut points must be a sequence");
    if (!fast) return nullptr;
    std::vector<size_t> cuts;
    for (Py_ssize_t i = 0; i < PySequence_Fast_GET_SIZE (fast); ++i)
    {
        Py_ssize_t v = PyLong_AsSsize_t (PySequence_Fast_GET_ITEM (fast, i));
        if (v < 0) { Py_DECREF (fast); PyErr_SetString (PyExc_ValueError, "bad cut point"); return nullptr; }
        cuts.push_back ((size_t) v);
    }
    Py_DECREF (fast);
    std::lock_guard<std::mutex> g (g_pool.mu);
    g_pool.plan = cuts;
    g_pool.have_plan = true;
    Py_RETURN_NONE;
}

PyObject*
py_stats (PyObject*, PyObject*)
{
    std::lock_guard<std::mutex> g (g_pool.mu);
    Stats&    s = g_pool.st;
    PyObject* last = PyList_New (0);
    for (auto& r: s.last)
    {
        PyObject* t = Py_BuildValue ("(nni)", (Py_ssize_t) r.b, (Py_ssize_t) r.e, r.tid);
        PyList_Append (last, t);
        Py_DECREF (t);
    }
    PyObject* d = Py_BuildValue ("{s:K,s:K,s:K,s:K,s:K,s:K,s:K,s:K,s:K,s:K,s:K,s:K,s:n,s:N}", "dispatches", (unsigned long long) s.dispatches, "ranges",
                                 (unsigned long long) s.ranges, "empty_ranges", (unsigned long long) s.empty_ranges, "single_elem_ranges",
                                 (unsigned long long) s.single_elem_ranges, "one_range", (unsigned long long) s.one_range, "elementwise",
                                 (unsigned long long) s.elementwise, "reversed", (unsigned long long) s.reversed, "threaded_dispatches",
                                 (unsigned long long) s.threaded_dispatches, "concurrent_overlaps", (unsigned long long) s.overlaps, "max_len",
                                 (unsigned long long) s.max_len, "partitions_distinct", (unsigned long long) s.partitions.size (), "orders_distinct",
                                 (unsigned long long) s.orders.size (), "last_len", (Py_ssize_t) s.last_len, "last", last);
    return d;
}

PyObject*
py_dispatches (PyObject*, PyObject*)
{
    std::lock_guard<std::mutex> g (g_pool.mu);
    return PyLong_FromUnsignedLongLong (g_pool.st.dispatches);
}

PyMethodDef methods[] = {{"install", py_install, METH_VARARGS, "install(mode, workers, seed): 0 none, 1 seq, 2 thr, 3 thr+delay"},
                         {"plan", py_plan, METH_VARARGS, "explicit cut points for the next dispatch"},
                         {"stats", py_stats, METH_NOARGS, "counters of what the pool did"},
                         {"dispatches", py_dispatches, METH_NOARGS, "number of dispatches so far"},
                         {nullptr, nullptr, 0, nullptr}};

PyModuleDef moddef = {PyModuleDef_HEAD_INIT, "vpool", "test WorkerPool for PyImath", -1, methods, nullptr, nullptr, nullptr, nullptr};

} // namespace

PyMODINIT_FUNC
PyInit_vpool (void)
{
    return PyModule_Create (&moddef);
}
