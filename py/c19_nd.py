# C19 workload 3: FixedArray2D, FixedMatrix and FixedVArray against nested Python lists, for every integer index and
# forward slice per dimension over a small scope, masks, 1-D sources and wrong shapes (which must raise and change nothing).
import sys, os
sys.path.insert(0, os.path.dirname(os.path.abspath(__file__)))
from vlib import *

a = parse_args()
R = Run("c19_nd")
THOROUGH = a.tier == "thorough"
part_k, part_n = [int(x) for x in a.part.split("/")]
I = imath
BR = 5 if THOROUGH else 3
FBOUNDS = [None] + list(range(-BR, BR + 1))
FSTEPS = [None, 1, 2, 3]


def raises(f):
    try:
        f()
    except Exception as e:
        return type(e).__name__
    return None


def fwd_slices():
    for st in FBOUNDS:
        for sp in FBOUNDS:
            for step in FSTEPS:
                yield slice(st, sp, step)


REDUCED = [slice(None), slice(1, None), slice(None, -1), slice(None, None, 2), slice(1, None, 2), slice(-2, None), slice(0, 0), slice(5, None), slice(1, 2)]


def sel1(n, ix):
    """indices selected by an int or forward slice on a dimension of length n; None if the int is out of range"""
    if isinstance(ix, slice):
        return list(range(n))[ix]
    if -n <= ix < n:
        return [ix % n]
    return None


def ixr(ix):
    return "%s:%s:%s" % (ix.start, ix.stop, ix.step) if isinstance(ix, slice) else str(ix)


# ------------------------------------------------------------------ FixedArray2D
A2D = [("IntArray2D", lambda k: k * 3 + 1), ("FloatArray2D", lambda k: k + 0.5), ("DoubleArray2D", lambda k: k + 0.25),
       ("Color4fArray2D", lambda k: I.Color4f(k + 1.5, k + 2.5, k + 3.5, k + 4.5)),
       ("Color4cArray2D", lambda k: I.Color4c((k * 4 + 1) % 251, (k * 4 + 2) % 251, (k * 4 + 3) % 251, (k * 4 + 4) % 251))]


def mk2d(cn, mk, lx, ly, base=0):
    arr = getattr(I, cn)(lx, ly)
    model = [[None] * lx for _ in range(ly)]
    for j in range(ly):
        for i in range(lx):
            v = mk(base + j * lx + i)
            arr[i, j] = v
            model[j][i] = canon(v)
    return arr, model


def read2d(arr):
    lx, ly = arr.size()
    return [[canon(arr.item(i, j)) for i in range(lx)] for j in range(ly)]


def chk2d(cn, arr, model, key, **ctx):
    R.ev()
    lx, ly = arr.size()
    want_ly = len(model)
    want_lx = len(model[0]) if model else lx
    if ly != want_ly or (model and lx != want_lx):
        R.fail(key, cls=cn, got_size=(lx, ly), want_size=(want_lx, want_ly), **ctx)
        return False
    got = read2d(arr)
    if not same(tuple(map(tuple, got)), tuple(map(tuple, model))):
        R.fail(key, cls=cn, got=got, want=model, **ctx)
        return False
    return True


def int2d(vals, lx=None):   # vals[j][i]
    ly = len(vals)
    if lx is None:
        lx = len(vals[0]) if ly else 0
    m = I.IntArray2D(lx, ly)
    for j in range(ly):
        for i in range(lx):
            m[i, j] = vals[j][i]
    return m


def arr1d(cn, mk, ks):
    ecls = {"IntArray2D": "IntArray", "FloatArray2D": "FloatArray", "DoubleArray2D": "DoubleArray", "Color4fArray2D": "C4fArray", "Color4cArray2D": "C4cArray"}[cn]
    r = getattr(I, ecls)(len(ks))
    for i, k in enumerate(ks):
        r[i] = mk(k)
    return r


def scen_2d(cn, mk, lx, ly):
    arr, model = mk2d(cn, mk, lx, ly)
    R.ev()
    if len(arr) != lx * ly or tuple(arr.size()) != (lx, ly):
        R.fail("2d.len/size:%s" % cn, lx=lx, ly=ly, got=(len(arr), tuple(arr.size())))
    chk2d(cn, arr, model, "2d.construct/readback:%s" % cn, lx=lx, ly=ly)
    # item(i,j) with every integer pair incl. negative / out of range
    for i in range(-lx - 1, lx + 1):
        for j in range(-ly - 1, ly + 1):
            R.ev()
            ok = -lx <= i < lx and -ly <= j < ly
            try:
                got = canon(arr.item(i, j))
                if not ok:
                    R.fail("2d.item:%s:no_raise_out_of_range" % cn, lx=lx, ly=ly, i=i, j=j)
                elif not same(got, model[j % ly][i % lx]):
                    R.fail("2d.item:%s:wrong_element" % cn, lx=lx, ly=ly, i=i, j=j, got=got, want=model[j % ly][i % lx])
            except Exception as e:
                if ok:
                    R.fail("2d.item:%s:raised_in_range" % cn, lx=lx, ly=ly, i=i, j=j, exc=repr(e))
    # Color4 2-D arrays also accept a 4-tuple as the value of a[i, j] (a separate overload): every integer pair
    if cn.startswith("Color4"):
        for i in range(-lx - 1, lx + 1):
            for j in range(-ly - 1, ly + 1):
                R.ev()
                R.cls("2d_tuple_valued_store")
                ok = -lx <= i < lx and -ly <= j < ly
                b, bm = mk2d(cn, mk, lx, ly)
                v = mk(70)
                ex = raises(lambda: b.__setitem__((i, j), (v.r, v.g, v.b, v.a)))
                if ok:
                    if ex:
                        R.fail("2d.setitem(int,int,tuple):%s:raised_in_range" % cn, lx=lx, ly=ly, i=i, j=j, exc=ex)
                    else:
                        bm[j % ly][i % lx] = canon(v)
                elif not ex:
                    R.fail("2d.setitem(int,int,tuple):%s:no_raise_out_of_range" % cn, lx=lx, ly=ly, i=i, j=j)
                chk2d(cn, b, bm, "2d.setitem(int,int,tuple):%s:wrong_element" % cn, lx=lx, ly=ly, i=i, j=j)
    xs_full = list(range(-lx - 1, lx + 1)) + list(fwd_slices())
    ys_full = list(range(-ly - 1, ly + 1)) + list(fwd_slices())
    xs_red = list(range(-lx - 1, lx + 1)) + REDUCED
    ys_red = list(range(-ly - 1, ly + 1)) + REDUCED
    pairs = [(x, y) for x in xs_full for y in ys_red] + [(x, y) for x in xs_red for y in ys_full]
    n = 0
    for ix, iy in pairs:
        n += 1
        sx, sy = sel1(lx, ix), sel1(ly, iy)
        R.nontrivial(hash((cn, lx, ly, ixr(ix), ixr(iy))))
        if sx is None or sy is None:
            R.cls("2d_index_out_of_range")
            R.ev()
            if not raises(lambda: arr[ix, iy]):
                R.fail("2d.getitem:%s:no_raise_out_of_range" % cn, lx=lx, ly=ly, ix=ixr(ix), iy=ixr(iy))
            b, bm = mk2d(cn, mk, lx, ly)
            if not raises(lambda: b.__setitem__((ix, iy), mk(50))):
                R.fail("2d.setitem:%s:no_raise_out_of_range" % cn, lx=lx, ly=ly, ix=ixr(ix), iy=ixr(iy))
            chk2d(cn, b, bm, "2d.setitem:%s:changed_after_failed_write" % cn, lx=lx, ly=ly, ix=ixr(ix), iy=ixr(iy))
            continue
        R.cls("2d_selection_empty" if not sx or not sy else "2d_selection_nonempty")
        want = [[model[j][i] for i in sx] for j in sy]
        try:
            r = arr[ix, iy]
        except Exception as e:
            R.fail("2d.getitem:%s:raised" % cn, lx=lx, ly=ly, ix=ixr(ix), iy=ixr(iy), exc=repr(e))
            continue
        if sy:
            chk2d(cn, r, want, "2d.getitem:%s:wrong_selection" % cn, lx=lx, ly=ly, ix=ixr(ix), iy=ixr(iy))
        else:
            R.ev()
            if tuple(r.size())[1] != 0:
                R.fail("2d.getitem:%s:wrong_selection" % cn, lx=lx, ly=ly, ix=ixr(ix), iy=ixr(iy), got_size=tuple(r.size()))
        if n % 4 == 0 or THOROUGH:
            # scalar write
            b, bm = mk2d(cn, mk, lx, ly)
            ex = raises(lambda: b.__setitem__((ix, iy), mk(50)))
            if ex:
                R.fail("2d.setitem(scalar):%s:raised" % cn, lx=lx, ly=ly, ix=ixr(ix), iy=ixr(iy), exc=ex)
            for j in sy:
                for i in sx:
                    bm[j][i] = canon(mk(50))
            chk2d(cn, b, bm, "2d.setitem(scalar):%s:wrong_selection" % cn, lx=lx, ly=ly, ix=ixr(ix), iy=ixr(iy))
        if n % 4 == 1 or THOROUGH:
            # 2-D source of the right / wrong shape
            for dx, dy in ((0, 0), (1, 0), (0, 1)):
                b, bm = mk2d(cn, mk, lx, ly)
                src, sm = mk2d(cn, mk, len(sx) + dx, len(sy) + dy, base=60)
                ex = raises(lambda: b.__setitem__((ix, iy), src))
                if (dx, dy) == (0, 0):
                    if ex:
                        R.fail("2d.setitem(array2d):%s:raised" % cn, lx=lx, ly=ly, ix=ixr(ix), iy=ixr(iy), exc=ex)
                    for q, j in enumerate(sy):
                        for p, i in enumerate(sx):
                            bm[j][i] = sm[q][p]
                    chk2d(cn, b, bm, "2d.setitem(array2d):%s:wrong_selection" % cn, lx=lx, ly=ly, ix=ixr(ix), iy=ixr(iy))
                else:
                    R.cls("2d_wrong_shape_source")
                    if not ex:
                        R.fail("2d.setitem(array2d):%s:no_raise_wrong_shape" % cn, lx=lx, ly=ly, ix=ixr(ix), iy=ixr(iy), src=(len(sx) + dx, len(sy) + dy))
                    chk2d(cn, b, bm, "2d.setitem(array2d):%s:changed_after_failed_write" % cn, lx=lx, ly=ly, ix=ixr(ix), iy=ixr(iy))
        if n % 4 == 2 or THOROUGH:
            # 1-D source: row-major over the selection; wrong length must raise
            cnt = len(sx) * len(sy)
            for dn in (0, 1):
                b, bm = mk2d(cn, mk, lx, ly)
                src = arr1d(cn, mk, [70 + t for t in range(cnt + dn)])
                ex = raises(lambda: b.__setitem__((ix, iy), src))
                if dn == 0:
                    if ex:
                        R.fail("2d.setitem(array1d):%s:raised" % cn, lx=lx, ly=ly, ix=ixr(ix), iy=ixr(iy), exc=ex)
                    z = 0
                    for j in sy:
                        for i in sx:
                            bm[j][i] = canon(mk(70 + z))
                            z += 1
                    chk2d(cn, b, bm, "2d.setitem(array1d):%s:wrong_selection" % cn, lx=lx, ly=ly, ix=ixr(ix), iy=ixr(iy))
                else:
                    if not ex:
                        R.fail("2d.setitem(array1d):%s:no_raise_wrong_length" % cn, lx=lx, ly=ly, ix=ixr(ix), iy=ixr(iy))
                    chk2d(cn, b, bm, "2d.setitem(array1d):%s:changed_after_failed_write" % cn, lx=lx, ly=ly, ix=ixr(ix), iy=ixr(iy))
    # malformed indices must raise (not crash) for every write form
    b, bm = mk2d(cn, mk, lx, ly)
    other, _ = mk2d(cn, mk, lx, ly, base=30)
    for bad in (0, slice(None), (0,), (0, 0, 0), "x", None, (slice(None), "y")):
        R.ev()
        R.cls("2d_malformed_index")
        if not raises(lambda: b[bad]):
            R.fail("2d.getitem:%s:no_raise_malformed_index" % cn, idx=repr(bad))
        if not raises(lambda: b.__setitem__(bad, mk(1))):
            R.fail("2d.setitem(scalar):%s:no_raise_malformed_index" % cn, idx=repr(bad))
    chk2d(cn, b, bm, "2d.setitem:%s:changed_after_failed_write" % cn, lx=lx, ly=ly, what="malformed index")
    # masks
    for bits in range(1 << (lx * ly)) if lx * ly <= (9 if THOROUGH else 6) else [0, 1, (1 << (lx * ly)) - 1, 0x5A5A5A5A & ((1 << (lx * ly)) - 1), 0x12345 & ((1 << (lx * ly)) - 1)]:
        mv = [[(bits >> (j * lx + i)) & 1 for i in range(lx)] for j in range(ly)]
        mask = int2d(mv, lx)
        cnt = sum(map(sum, mv))
        R.cls("2d_mask")
        try:
            r = arr[mask]
            got = read2d(r)
            R.ev()
            bad = [(i, j) for j in range(ly) for i in range(lx) if mv[j][i] and not same(got[j][i], model[j][i])]
            if tuple(r.size()) != (lx, ly) or bad:
                R.fail("2d.getitem(mask):%s:wrong_selection" % cn, lx=lx, ly=ly, mask=mv, bad=bad)
        except Exception as e:
            R.fail("2d.getitem(mask):%s:raised" % cn, lx=lx, ly=ly, mask=mv, exc=repr(e))
        b, bm = mk2d(cn, mk, lx, ly)
        ex = raises(lambda: b.__setitem__(mask, mk(51)))
        if ex:
            R.fail("2d.setitem(mask,scalar):%s:raised" % cn, lx=lx, ly=ly, mask=mv, exc=ex)
        for j in range(ly):
            for i in range(lx):
                if mv[j][i]:
                    bm[j][i] = canon(mk(51))
        chk2d(cn, b, bm, "2d.setitem(mask,scalar):%s:wrong_selection" % cn, lx=lx, ly=ly, mask=mv)
        src, sm = mk2d(cn, mk, lx, ly, base=60)
        ex = raises(lambda: b.__setitem__(mask, src))
        if ex:
            R.fail("2d.setitem(mask,array2d):%s:raised" % cn, lx=lx, ly=ly, mask=mv, exc=ex)
        for j in range(ly):
            for i in range(lx):
                if mv[j][i]:
                    bm[j][i] = sm[j][i]
        chk2d(cn, b, bm, "2d.setitem(mask,array2d):%s:wrong_selection" % cn, lx=lx, ly=ly, mask=mv)
        # 1-D source: full length (position z) or reduced (z-th selected)
        for n1, mode in ((lx * ly, "full"), (cnt, "reduced")):
            if mode == "reduced" and cnt == lx * ly:
                continue
            src = arr1d(cn, mk, [80 + t for t in range(n1)])
            ex = raises(lambda: b.__setitem__(mask, src))
            if ex:
                R.fail("2d.setitem(mask,array1d_%s):%s:raised" % (mode, cn), lx=lx, ly=ly, mask=mv, exc=ex)
            z = zz = 0
            for j in range(ly):
                for i in range(lx):
                    if mv[j][i]:
                        bm[j][i] = canon(mk(80 + (z if mode == "full" else zz)))
                        zz += 1
                    z += 1
            chk2d(cn, b, bm, "2d.setitem(mask,array1d_%s):%s:wrong_selection" % (mode, cn), lx=lx, ly=ly, mask=mv)
        wl = max(lx * ly, cnt) + 1
        if not raises(lambda: b.__setitem__(mask, arr1d(cn, mk, [1] * wl))):
            R.fail("2d.setitem(mask,array1d):%s:no_raise_wrong_length" % cn, lx=lx, ly=ly, mask=mv, srclen=wl)
        chk2d(cn, b, bm, "2d.setitem(mask,array1d):%s:changed_after_failed_write" % cn, lx=lx, ly=ly, mask=mv)
        # ifelse
        other, om = mk2d(cn, mk, lx, ly, base=30)
        try:
            r = arr.ifelse(mask, other)
            chk2d(cn, r, [[model[j][i] if mv[j][i] else om[j][i] for i in range(lx)] for j in range(ly)], "2d.ifelse(array):%s:wrong_selection" % cn, lx=lx, ly=ly, mask=mv)
            r = arr.ifelse(mask, mk(33))
            chk2d(cn, r, [[model[j][i] if mv[j][i] else canon(mk(33)) for i in range(lx)] for j in range(ly)], "2d.ifelse(scalar):%s:wrong_selection" % cn, lx=lx, ly=ly, mask=mv)
        except Exception as e:
            R.fail("2d.ifelse:%s:raised" % cn, lx=lx, ly=ly, mask=mv, exc=repr(e))
    # wrong-shape masks / sources
    for wx, wy in ((lx + 1, ly), (lx, ly + 1), (ly, lx) if lx != ly else (lx + 1, ly + 1)):
        R.cls("2d_wrong_shape_mask")
        b, bm = mk2d(cn, mk, lx, ly)
        wm = int2d([[1] * wx for _ in range(wy)], wx)
        R.ev()
        if not raises(lambda: b[wm]):
            R.fail("2d.getitem(mask):%s:no_raise_wrong_shape" % cn, lx=lx, ly=ly, mask_shape=(wx, wy))
        if not raises(lambda: b.__setitem__(wm, mk(1))):
            R.fail("2d.setitem(mask,scalar):%s:no_raise_wrong_shape" % cn, lx=lx, ly=ly, mask_shape=(wx, wy))
        ws, _ = mk2d(cn, mk, wx, wy)
        if not raises(lambda: b.__setitem__(int2d([[1] * lx for _ in range(ly)], lx), ws)):
            R.fail("2d.setitem(mask,array2d):%s:no_raise_wrong_shape" % cn, lx=lx, ly=ly, src_shape=(wx, wy))
        if not raises(lambda: b.ifelse(wm, mk(1))):
            R.fail("2d.ifelse:%s:no_raise_wrong_shape" % cn, lx=lx, ly=ly, mask_shape=(wx, wy))
        chk2d(cn, b, bm, "2d.mask:%s:changed_after_failed_write" % cn, lx=lx, ly=ly)
    R.sample("2d:%s" % cn, dict(cls=cn, size=(lx, ly), index_pairs=len(pairs)))


def scen_2d_badvec(cn, mk, lx, ly):
    """non-tuple index with an array source (setitem_vector / setitem_array1d have no tuple check of their own)"""
    b, bm = mk2d(cn, mk, lx, ly)
    src2, _ = mk2d(cn, mk, lx, ly, base=40)
    src1 = arr1d(cn, mk, list(range(lx * ly)))
    for bad in (0, slice(None), (0,), (0, 0, 0), None):
        for nm, src in (("array2d", src2), ("array1d", src1)):
            R.ev()
            R.cls("2d_malformed_index_array_source")
            if not raises(lambda: b.__setitem__(bad, src)):
                R.fail("2d.setitem(%s):%s:no_raise_malformed_index" % (nm, cn), idx=repr(bad))
    chk2d(cn, b, bm, "2d.setitem:%s:changed_after_failed_write" % cn, what="malformed index, array source")


# ------------------------------------------------------------------ FixedMatrix
MATS = [("IntMatrix", "IntArray", lambda k: k * 3 + 1), ("FloatMatrix", "FloatArray", lambda k: k + 0.5), ("DoubleMatrix", "DoubleArray", lambda k: k + 0.25)]


def mkmat(cn, mk, r, c, base=0):
    m = getattr(I, cn)(r, c)
    model = []
    for i in range(r):
        row = m[i]
        model.append([])
        for j in range(c):
            row[j] = mk(base + i * c + j)
            model[-1].append(canon(mk(base + i * c + j)))
    return m, model


def readmat(m):
    return [[m[i][j] for j in range(m.columns())] for i in range(m.rows())]


def chkmat(cn, m, model, key, **ctx):
    R.ev()
    got = readmat(m)
    if m.rows() != len(model) or not same(tuple(map(tuple, got)), tuple(map(tuple, model))):
        R.fail(key, cls=cn, got=got, want=model, **ctx)


def scen_mat(cn, rowcls, mk, r, c):
    m, model = mkmat(cn, mk, r, c)
    R.ev()
    if (len(m), m.rows(), m.columns()) != (r, r, c):
        R.fail("matrix.len/rows/columns:%s" % cn, got=(len(m), m.rows(), m.columns()), want=(r, r, c))
    chkmat(cn, m, model, "matrix.construct/readback:%s" % cn, r=r, c=c)
    for i in range(-r - 2, r + 2):
        ok = -r <= i < r
        R.ev()
        R.cls("matrix_row_in_range" if ok else "matrix_row_out_of_range")
        try:
            row = m[i]
            if not ok:
                R.fail("matrix.getitem(int):%s:no_raise_out_of_range" % cn, r=r, c=c, i=i)
            else:
                got = [row[j] for j in range(len(row))]
                if len(row) != c or not same(tuple(got), tuple(model[i])):
                    R.fail("matrix.getitem(int):%s:wrong_row" % cn, r=r, c=c, i=i, got=got, want=model[i])
                for j in (c, -c - 1):
                    if not raises(lambda: row[j]):
                        R.fail("matrix.row.getitem:%s:no_raise_out_of_range" % cn, r=r, c=c, i=i, j=j)
                # the row is a view: writing through it changes the matrix, and only that element
                if c:
                    b, bm = mkmat(cn, mk, r, c)
                    rv = b[i]
                    rv[-1] = mk(90)
                    bm[i % r][c - 1] = canon(mk(90))
                    chkmat(cn, b, bm, "matrix.row_view:%s:write_through" % cn, r=r, c=c, i=i)
        except Exception as e:
            if ok:
                R.fail("matrix.getitem(int):%s:raised_in_range" % cn, r=r, c=c, i=i, exc=repr(e))
        b, bm = mkmat(cn, mk, r, c)
        ex = raises(lambda: b.__setitem__(i, mk(50)))
        if ok:
            bm[i % r] = [canon(mk(50))] * c
            if ex:
                R.fail("matrix.setitem(int,scalar):%s:raised" % cn, r=r, c=c, i=i, exc=ex)
        elif not ex:
            R.fail("matrix.setitem(int,scalar):%s:no_raise_out_of_range" % cn, r=r, c=c, i=i)
        chkmat(cn, b, bm, "matrix.setitem(int,scalar):%s:wrong_selection" % cn, r=r, c=c, i=i)
    for s in fwd_slices():
        sel = list(range(r))[s]
        R.nontrivial(hash((cn, r, c, ixr(s))))
        R.cls("matrix_slice_empty" if not sel else "matrix_slice_nonempty")
        try:
            sub = m[s]
            chkmat(cn, sub, [model[i] for i in sel], "matrix.getitem(slice):%s:wrong_selection" % cn, r=r, c=c, sl=ixr(s))
        except Exception as e:
            R.fail("matrix.getitem(slice):%s:raised" % cn, r=r, c=c, sl=ixr(s), exc=repr(e))
        b, bm = mkmat(cn, mk, r, c)
        # row vector source
        for dc in (0, 1):
            src = getattr(I, rowcls)(c + dc)
            for j in range(c + dc):
                src[j] = mk(60 + j)
            ex = raises(lambda: b.__setitem__(s, src))
            if dc == 0:
                if ex:
                    R.fail("matrix.setitem(slice,array):%s:raised" % cn, r=r, c=c, sl=ixr(s), exc=ex)
                for i in sel:
                    bm[i] = [canon(mk(60 + j)) for j in range(c)]
                chkmat(cn, b, bm, "matrix.setitem(slice,array):%s:wrong_selection" % cn, r=r, c=c, sl=ixr(s))
            else:
                if not ex:
                    R.fail("matrix.setitem(slice,array):%s:no_raise_wrong_length" % cn, r=r, c=c, sl=ixr(s))
                chkmat(cn, b, bm, "matrix.setitem(slice,array):%s:changed_after_failed_write" % cn, r=r, c=c, sl=ixr(s))
        # matrix source
        for dr, dc in ((0, 0), (1, 0), (0, 1)):
            src, sm = mkmat(cn, mk, len(sel) + dr, c + dc, base=70)
            ex = raises(lambda: b.__setitem__(s, src))
            if (dr, dc) == (0, 0):
                if ex:
                    R.fail("matrix.setitem(slice,matrix):%s:raised" % cn, r=r, c=c, sl=ixr(s), exc=ex)
                for q, i in enumerate(sel):
                    bm[i] = list(sm[q])
                chkmat(cn, b, bm, "matrix.setitem(slice,matrix):%s:wrong_selection" % cn, r=r, c=c, sl=ixr(s))
            else:
                R.cls("matrix_wrong_shape_source")
                if not ex:
                    R.fail("matrix.setitem(slice,matrix):%s:no_raise_wrong_shape" % cn, r=r, c=c, sl=ixr(s), src=(len(sel) + dr, c + dc))
                chkmat(cn, b, bm, "matrix.setitem(slice,matrix):%s:changed_after_failed_write" % cn, r=r, c=c, sl=ixr(s))
    R.sample("matrix:%s" % cn, dict(cls=cn, rows=r, cols=c))


# ------------------------------------------------------------------ FixedVArray
VARR = [("VIntArray", "IntArray", lambda k: k * 3 + 1, 0), ("VFloatArray", "FloatArray", lambda k: k + 0.5, 0.0),
        ("VV2iArray", "V2iArray", lambda k: I.V2i(k, k + 1), I.V2i(0, 0)), ("VV2fArray", "V2fArray", lambda k: I.V2f(k + 0.5, k + 1.5), I.V2f(0, 0))]


def mkv(cn, mk, init, sizes, base=0):
    v = getattr(I, cn)(int_array(sizes), init)
    model = []
    k = base
    for i, n in enumerate(sizes):
        row = v[i]
        model.append([])
        for j in range(n):
            row[j] = mk(k)
            model[-1].append(canon(mk(k)))
            k += 1
    return v, model


def readv(v):
    return [[canon(v[i][j]) for j in range(len(v[i]))] for i in range(len(v))]


def chkv(cn, v, model, key, **ctx):
    R.ev()
    try:
        got = readv(v)
    except Exception as e:
        R.fail(key, cls=cn, exc=repr(e), **ctx)
        return
    if len(v) != len(model) or not same(tuple(map(tuple, got)), tuple(map(tuple, model))):
        R.fail(key, cls=cn, got=got, want=model, **ctx)


ROW_PARENT = {"IntArray": ("V3iArray", "y", lambda v, j: I.V3i(5000 + j, v, -9 - j)),
              "FloatArray": ("V3fArray", "z", lambda v, j: I.V3f(5000.5 + j, -9.5 - j, v)),
              "V2iArray": ("Box2iArray", "min", lambda v, j: I.Box2i(v, I.V2i(900000 + j, 900001))),
              "V2fArray": ("Box2fArray", "max", lambda v, j: I.Box2f(I.V2f(-900000.5 - j, -900001.5), v))}


def make_row_source(ecls, mk, m, kind):
    """an `ecls` array of m elements mk(60), mk(61), ... stored densely, as a strided view into a parent array, or as a
    masked reference into a longer array"""
    if kind == "dense":
        src = getattr(I, ecls)(m)
        for j in range(m):
            src[j] = mk(60 + j)
        return src
    if kind == "strided":
        if ecls not in ROW_PARENT or not hasattr(I, ROW_PARENT[ecls][0]):
            return None
        pn, attr, wrap = ROW_PARENT[ecls]
        p = getattr(I, pn)(m)
        for j in range(m):
            p[j] = wrap(mk(60 + j), j)
        return getattr(p, attr)
    full = getattr(I, ecls)(2 * m + 1)
    mv = []
    for q in range(2 * m + 1):
        full[q] = mk(60 + q // 2) if q % 2 else mk(700 + q)
        mv.append(q % 2)
    return full[int_array(mv)]


def scen_varray(cn, ecls, mk, init, L):
    if not hasattr(I, cn):
        return
    sizes = [(i * 2 + 1) % 4 for i in range(L)]      # 1,3,1,3.. with zeros: (i*2+1)%4 -> 1,3,1,3 ; add an empty item
    if L >= 3:
        sizes[2] = 0
    v, model = mkv(cn, mk, init, sizes)
    chkv(cn, v, model, "varray.construct/readback:%s" % cn, L=L)
    R.ev()
    try:
        szl = [v.size[i][0] if not isinstance(v.size[i], int) else v.size[i] for i in range(L)]
        if szl != sizes:
            R.fail("varray.size:%s:wrong" % cn, got=szl, want=sizes)
    except Exception as e:
        R.fail("varray.size:%s:raised" % cn, exc=repr(e))
    for i in range(-L - 2, L + 2):
        ok = -L <= i < L
        R.ev()
        R.cls("varray_item_in_range" if ok else "varray_item_out_of_range")
        try:
            row = v[i]
            if not ok:
                R.fail("varray.getitem(int):%s:no_raise_out_of_range" % cn, L=L, i=i)
            else:
                got = [canon(row[j]) for j in range(len(row))]
                if not same(tuple(got), tuple(model[i])):
                    R.fail("varray.getitem(int):%s:wrong_item" % cn, L=L, i=i, got=got, want=model[i])
                n = len(model[i])
                for j in (n, -n - 1):
                    if not raises(lambda: row[j]):
                        R.fail("varray.row.getitem:%s:no_raise_out_of_range" % cn, L=L, i=i, j=j)
                if n:
                    b, bm = mkv(cn, mk, init, sizes)
                    rv = b[i]
                    rv[-1] = mk(90)
                    bm[i % L][n - 1] = canon(mk(90))
                    chkv(cn, b, bm, "varray.row_view:%s:write_through" % cn, L=L, i=i)
                # item assignment: same length ok, other lengths must raise
                # the source in three representations: dense, strided component view (V3iArray.y ...), masked reference
                for dn, srckind in ((0, "dense"), (1, "dense"), (0, "strided"), (1, "strided"), (0, "masked"), (1, "masked")):
                    b, bm = mkv(cn, mk, init, sizes)
                    src = make_row_source(ecls, mk, n + dn, srckind)
                    if src is None:
                        continue
                    R.cls("varray_row_source_" + srckind)
                    tag = "" if srckind == "dense" else "[%s_source]" % srckind
                    ex = raises(lambda: b.__setitem__(i, src))
                    if dn == 0:
                        if ex:
                            R.fail("varray.setitem(int,array)%s:%s:raised" % (tag, cn), L=L, i=i, exc=ex)
                        bm[i % L] = [canon(mk(60 + j)) for j in range(n)]
                    elif not ex:
                        R.fail("varray.setitem(int,array)%s:%s:no_raise_wrong_length" % (tag, cn), L=L, i=i)
                    chkv(cn, b, bm, "varray.setitem(int,array)%s:%s:wrong_selection" % (tag, cn), L=L, i=i, dn=dn)
        except Exception as e:
            if ok:
                R.fail("varray.getitem(int):%s:raised_in_range" % cn, L=L, i=i, exc=repr(e))
    for s in fwd_slices():
        sel = list(range(L))[s]
        R.nontrivial(hash((cn, L, ixr(s))))
        R.cls("varray_slice_empty" if not sel else "varray_slice_nonempty")
        try:
            sub = v[s]
            chkv(cn, sub, [model[i] for i in sel], "varray.getitem(slice):%s:wrong_selection" % cn, L=L, sl=ixr(s))
        except Exception as e:
            R.fail("varray.getitem(slice):%s:raised" % cn, L=L, sl=ixr(s), exc=repr(e))
            continue
        # varray source of matching / mismatching item count
        for dn in (0, 1):
            b, bm = mkv(cn, mk, init, sizes)
            src, sm = mkv(cn, mk, init, [2] * (len(sel) + dn), base=70)
            ex = raises(lambda: b.__setitem__(s, src))
            if dn == 0:
                if ex:
                    R.fail("varray.setitem(slice,varray):%s:raised" % cn, L=L, sl=ixr(s), exc=ex)
                for q, i in enumerate(sel):
                    bm[i] = list(sm[q])
            elif not ex:
                R.fail("varray.setitem(slice,varray):%s:no_raise_wrong_length" % cn, L=L, sl=ixr(s))
            chkv(cn, b, bm, "varray.setitem(slice,varray):%s:wrong_selection" % cn, L=L, sl=ixr(s), dn=dn)
    # masks: reference semantics
    for bits in range(1 << L):
        mv = [(bits >> i) & 1 for i in range(L)]
        sel = [i for i in range(L) if mv[i]]
        R.cls("varray_mask")
        b, bm = mkv(cn, mk, init, sizes)
        try:
            ref = b[int_array(mv)]
            chkv(cn, ref, [bm[i] for i in sel], "varray.getitem(mask):%s:wrong_selection" % cn, L=L, mask=mv)
            for q, i in enumerate(sel):
                if bm[i]:
                    ref[q][0] = mk(91 + q)
                    bm[i][0] = canon(mk(91 + q))
            chkv(cn, b, bm, "varray.maskedref:%s:write_through" % cn, L=L, mask=mv)
            # slices and integer indices of the masked reference select through the mask
            for s2 in (slice(None), slice(None, None, -1), slice(1, None), slice(None, None, 2), slice(-2, None), slice(None, -1), slice(1, None, 2), slice(None, None, -2)):
                R.cls("varray_maskedref_slice")
                chkv(cn, ref[s2], [bm[i] for i in sel][s2], "varray.maskedref.getitem(slice):%s:wrong_selection" % cn, L=L, mask=mv, sl=ixr(s2))
            for q in range(-len(sel), len(sel)):
                R.ev()
                got = [canon(ref[q][j]) for j in range(len(ref[q]))]
                if not same(tuple(got), tuple(bm[sel[q]])):
                    R.fail("varray.maskedref.getitem(int):%s:wrong_item" % cn, L=L, mask=mv, q=q, got=got, want=bm[sel[q]])
        except Exception as e:
            R.fail("varray.getitem(mask):%s:raised" % cn, L=L, mask=mv, exc=repr(e))
    for wl in (L + 1, max(L - 1, 0)):
        if wl != L and not raises(lambda: v[int_array([1] * wl)]):
            R.fail("varray.getitem(mask):%s:no_raise_wrong_length" % cn, L=L, masklen=wl)
    # read-only
    b, bm = mkv(cn, mk, init, sizes)
    b.makeReadOnly()
    if L:
        row = b[0]
        for nm, f in (("row.setitem", lambda: row.__setitem__(0, mk(1))), ("setitem(int,array)", lambda: b.__setitem__(0, b[0][:])),
                      ("setitem(slice,varray)", lambda: b.__setitem__(slice(None), mkv(cn, mk, init, [1] * L)[0])),
                      ("size.setitem", lambda: b.size.__setitem__(0, 1)), ("maskedref.row.setitem", lambda: b[int_array([1] * L)][0].__setitem__(0, mk(1)))):
            if nm.startswith(("row", "maskedref")) and not bm[0]:
                continue
            R.ev()
            R.cls("varray_readonly_write_attempt")
            if not raises(f):
                R.fail("varray.readonly:%s:%s:no_raise" % (cn, nm), L=L)
            chkv(cn, b, bm, "varray.readonly:%s:%s:data_changed" % (cn, nm), L=L)
    R.sample("varray:%s" % cn, dict(cls=cn, L=L, sizes=sizes))


SCEN = []
SZ = range(0, 5 if THOROUGH else 4)
for cn, mk in A2D:
    for lx in SZ:
        for ly in SZ:
            SCEN.append(("2d:%s:n%d" % (cn, lx * 10 + ly), lambda cn=cn, mk=mk, lx=lx, ly=ly: scen_2d(cn, mk, lx, ly)))
    SCEN.append(("2d_malformed_index_array_source:%s" % cn, lambda cn=cn, mk=mk: scen_2d_badvec(cn, mk, 3, 2)))
for cn, rowcls, mk in MATS:
    for r in range(0, 5):
        for c in range(0, 4):
            SCEN.append(("matrix:%s:n%d" % (cn, r * 10 + c), lambda cn=cn, rowcls=rowcls, mk=mk, r=r, c=c: scen_mat(cn, rowcls, mk, r, c)))
for cn, ecls, mk, init in VARR:
    for L in range(0, 6):
        SCEN.append(("varray:%s:L%d" % (cn, L), lambda cn=cn, ecls=ecls, mk=mk, init=init, L=L: scen_varray(cn, ecls, mk, init, L)))

for n, (name, fn) in enumerate(SCEN):
    if a.only:
        if name != a.only:
            continue
    elif n % part_n != part_k or n < a.start:
        continue
    R.scen_i = n - 1
    R.scenario(name)
    try:
        fn()
    except Exception as e:
        import traceback
        R.fail("harness:%s" % name.rsplit(":", 1)[0], exc=repr(e), tb=traceback.format_exc()[-1500:])
R.scen_i = len(SCEN) - 1
R.finish()
