# C19 workload 4: lifetimes.  Every kind of view (masked reference, element reference, alias, component view, matrix /
# variable-array row, memoryview, anything an attribute or zero-argument method of an array returns) is created in a
# chain owner -> view -> view..., the objects it was derived from are released in EVERY order with garbage collection
# and allocator churn in between, and the leaf view is then read (must equal its value before the releases), written and
# read again.  Under ASan a dangling view is a heap-use-after-free report (the child aborts; the driver attributes the
# crash to the announced scenario); without ASan the value comparison catches most of them.
import sys, os, gc, itertools
sys.path.insert(0, os.path.dirname(os.path.abspath(__file__)))
from vlib import *

a = parse_args()
R = Run("c19_life")
SPECS = build_specs()
THOROUGH = a.tier == "thorough"
part_k, part_n = [int(x) for x in a.part.split("/")]
I = imath


def snap(o):
    if isinstance(o, memoryview):
        return ("mv", o.tobytes())
    tn = type(o).__name__
    if tn.endswith("Matrix") and hasattr(o, "rows"):
        return tuple(tuple(o[i][j] for j in range(o.columns())) for i in range(o.rows()))
    if tn.endswith("Array2D"):
        lx, ly = o.size()
        return tuple(tuple(canon(o.item(i, j)) for i in range(lx)) for j in range(ly))
    if tn.startswith("V") and tn.endswith("Array") and hasattr(o, "size") and not hasattr(o, "ifelse"):
        return tuple(tuple(canon(o[i][j]) for j in range(len(o[i]))) for i in range(len(o)))
    if hasattr(o, "__len__") and hasattr(o, "__getitem__") and tn.endswith("Array"):
        return tuple(canon(o[i]) for i in range(len(o)))
    return canon(o)


def poke(o):
    """write the leaf's own first element back into it (a write through a dangling view is what ASan must see)"""
    try:
        if isinstance(o, memoryview):
            if not o.readonly and o.nbytes:
                b = o.cast("B") if o.ndim == 1 else None
                if b is not None:
                    b[0] = b[0]
            return
        tn = type(o).__name__
        if tn.endswith("Matrix") and hasattr(o, "rows"):
            if o.rows() and o.columns():
                o[0][0] = o[0][0]
        elif tn.endswith("Array2D"):
            lx, ly = o.size()
            if lx and ly:
                o[0, 0] = o.item(0, 0)
        elif hasattr(o, "__setitem__") and hasattr(o, "__len__"):
            if len(o):
                v = o[0]
                if type(v).__name__.endswith("Array"):
                    if len(v):
                        v[0] = v[0]
                else:
                    o[0] = v
        else:
            tn = type(o).__name__
            if tn.startswith(("V2", "V3", "V4", "Euler")):
                o.x = o.x
            elif tn.startswith("Color"):
                o.r = o.r
            elif tn.startswith("Quat"):
                o.setR(o.r())
            elif tn.startswith("M"):
                o[0][0] = o[0][0]
            elif tn.startswith("Box"):
                o.setMin(o.min())
    except (ValueError, TypeError, RuntimeError, IndexError, BufferError):
        pass     # read-only views legitimately refuse


def run_chain(name, root_fn, steps):
    """root_fn() -> owner; steps: list of (label, f) with f(prev) -> next view.  All release orders of the non-leaf objects."""
    n = len(steps)
    orders = list(itertools.permutations(range(n)))
    if not THOROUGH and len(orders) > 6:
        orders = orders[:6]
    for order in orders:
        R.ev()
        try:
            objs = [root_fn()]
            for lab, f in steps:
                objs.append(f(objs[-1]))
        except Exception as e:
            R.cls("chain_not_applicable")
            return False
        leaf = objs[-1]
        before = snap(leaf)
        for idx in order:
            objs[idx] = None
            gc_churn(2)
        objs = None
        gc_churn(3)
        try:
            after = snap(leaf)
        except Exception as e:
            R.fail("life:%s:read_raised_after_release" % name, order=list(order), exc=repr(e))
            continue
        if not same(after, before):
            R.fail("life:%s:view_changed_after_release" % name, order=list(order), before=repr(before)[:300], after=repr(after)[:300])
        poke(leaf)
        gc_churn(1)
        try:
            again = snap(leaf)
            if not same(again, after):
                R.fail("life:%s:view_unstable_after_release" % name, order=list(order))
        except Exception as e:
            R.fail("life:%s:read_raised_after_release" % name, order=list(order), exc=repr(e))
        leaf = None
        gc.collect()
        R.cls("release_orders")
    R.nontrivial(hash(name))
    return True


def chains_for_spec(spec):
    L = 5
    ks = list(range(L))
    root = lambda: spec.array(ks)
    mask = lambda o: o[int_array([1, 0, 1, 1, 0][:len(o)] + [1] * max(0, len(o) - 5))]
    out = [("maskedref", [("mask", mask)]),
           ("alias", [("alias", lambda o: spec.cls(o))]),
           ("alias.maskedref", [("alias", lambda o: spec.cls(o)), ("mask", mask)]),
           ("slice", [("slice", lambda o: o[1:4])]),
           ("ifelse", [("ifelse", lambda o: o.ifelse(int_array([1, 0] * 2 + [1]), o))])]
    if spec.kind == "class":
        out += [("elem", [("elem", lambda o: o[1])]),
                ("maskedref.elem", [("mask", mask), ("elem", lambda o: o[-1])]),
                ("alias.elem", [("alias", lambda o: spec.cls(o)), ("elem", lambda o: o[0])])]
    out.append(("memoryview", [("mv", lambda o: memoryview(o))]))
    out.append(("memoryview.cast", [("mv", lambda o: memoryview(o)), ("cast", lambda m: m.cast("B") if m.ndim == 1 else m.cast("B"))]))
    # everything an attribute / zero-argument method returns (component views, min/max of boxes, ...)
    probe = root()
    for nm in dir(probe):
        if nm.startswith("_") or nm in ("makeReadOnly", "writable", "ifelse", "reduce", "invert", "normalize", "normalizeExc", "transpose", "negate"):
            continue
        def get(o, nm=nm):
            v = getattr(o, nm)
            if callable(v):
                v = v()
            if v is None or isinstance(v, (int, float, bool, str)):
                raise TypeError("scalar result")
            return v
        out.append(("attr." + nm, [(nm, get)]))
        out.append(("attr.%s.maskedref" % nm, [(nm, get), ("mask", mask)]))
    return root, out


SCEN = []
for spec in SPECS:
    SCEN.append(("life:%s" % spec.name, spec))
SCEN += [("life:matrix:%s" % c, c) for c in ("IntMatrix", "FloatMatrix", "DoubleMatrix")]
SCEN += [("life:varray:%s" % c, c) for c in ("VIntArray", "VFloatArray", "VV2iArray", "VV2fArray")]
SCEN += [("life:array2d:%s" % c, c) for c in ("IntArray2D", "FloatArray2D", "Color4fArray2D", "Color4cArray2D")]


def scen_matrix(cn):
    def root():
        m = getattr(I, cn)(3, 4)
        for i in range(3):
            for j in range(4):
                m[i][j] = i * 10 + j + 1
        return m
    mask = lambda o: o[int_array([1, 0, 1, 1])]
    for nm, steps in (("row", [("row", lambda m: m[1])]), ("row.maskedref", [("row", lambda m: m[-1]), ("mask", mask)]),
                      ("slice.row", [("slice", lambda m: m[0:2]), ("row", lambda m: m[1])]),
                      ("copy.row", [("copy", lambda m: type(m)(m)), ("row", lambda m: m[2])]),
                      ("row.alias", [("row", lambda m: m[0]), ("alias", lambda r: type(r)(r))]),
                      ("row.memoryview", [("row", lambda m: m[1]), ("mv", lambda r: memoryview(r))]),
                      ("arith.row", [("sum", lambda m: m + m), ("row", lambda m: m[1])])):
        run_chain("matrix:%s:%s" % (cn, nm), root, steps)


def scen_varray(cn):
    if not hasattr(I, cn):
        return
    init = {"VIntArray": 3, "VFloatArray": 1.5, "VV2iArray": I.V2i(1, 2), "VV2fArray": I.V2f(1.5, 2.5)}[cn]

    def root():
        v = getattr(I, cn)(int_array([2, 3, 0, 4]), init)
        return v
    mask = lambda o: o[int_array([1, 1, 0, 1][:len(o)])]
    for nm, steps in (("row", [("row", lambda v: v[1])]), ("row(-1)", [("row", lambda v: v[-1])]),
                      ("maskedref", [("mask", mask)]), ("maskedref.row", [("mask", mask), ("row", lambda v: v[1])]),
                      ("slice.row", [("slice", lambda v: v[0:2]), ("row", lambda v: v[1])]),
                      ("alias.row", [("alias", lambda v: type(v)(v)), ("row", lambda v: v[3])]),
                      ("row.maskedref", [("row", lambda v: v[3]), ("mask", lambda r: r[int_array([1, 0, 1, 1])])]),
                      ("row.alias", [("row", lambda v: v[1]), ("alias", lambda r: type(r)(r))]),
                      ("size", [("size", lambda v: v.size[:])])):
        run_chain("varray:%s:%s" % (cn, nm), root, steps)
    # an element reference of a row of class type
    if cn.startswith("VV2"):
        run_chain("varray:%s:row.elem" % cn, root, [("row", lambda v: v[1]), ("elem", lambda r: r[0])])


def scen_2d(cn):
    def root():
        return getattr(I, cn)(3, 2)
    steps = [("slice", [("slice", lambda o: o[0:2, 0:2])]), ("alias", [("alias", lambda o: type(o)(o))]),
             ("alias.slice", [("alias", lambda o: type(o)(o)), ("slice", lambda o: o[:, :])])]
    if cn.startswith("Color4"):
        steps += [("item", [("item", lambda o: o.item(1, 1))]), ("alias.item", [("alias", lambda o: type(o)(o)), ("item", lambda o: o.item(0, 0))])]
        for comp in "rgba":
            steps.append(("attr." + comp, [(comp, lambda o, comp=comp: getattr(o, comp))]))
    for nm, st in steps:
        run_chain("array2d:%s:%s" % (cn, nm), root, st)


for n, (name, what) in enumerate(SCEN):
    if a.only:
        if name != a.only:
            continue
    elif n % part_n != part_k or n < a.start:
        continue
    R.scen_i = n - 1
    R.scenario(name)
    try:
        if name.startswith("life:matrix:"):
            scen_matrix(what)
        elif name.startswith("life:varray:"):
            scen_varray(what)
        elif name.startswith("life:array2d:"):
            scen_2d(what)
        else:
            root, chains = chains_for_spec(what)
            applied = []
            for nm, steps in chains:
                if run_chain("%s:%s" % (what.name, nm), root, steps):
                    applied.append(nm)
            R.sample(name, dict(cls=what.name, chains=applied[:30]))
    except Exception as e:
        import traceback
        R.fail("harness:%s" % name, exc=repr(e), tb=traceback.format_exc()[-1500:])
R.scen_i = len(SCEN) - 1
R.finish()
