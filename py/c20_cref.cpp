// C20, clause "the scalar bindings return what the C++ library returns": reference side.
// Reads requests "<function> <type f|d> <hex argument words...>" on stdin, calls the C++ library function of /repo
// directly (same headers, libImath built from the working tree) and prints the result words in hex.  The python
// workload py/c20_scalar.py sends the same inputs through the scalar Boost.Python bindings and compares bit for bit.
#include <ImathBox.h>
#include <ImathBoxAlgo.h>
#include <ImathColorAlgo.h>
#include <ImathEuler.h>
#include <ImathFrustum.h>
#include <ImathFun.h>
#include <ImathLine.h>
#include <ImathLineAlgo.h>
#include <ImathMatrix.h>
#include <ImathMatrixAlgo.h>
#include <ImathPlane.h>
#include <ImathQuat.h>
#include <ImathVec.h>
#include <ImathVecAlgo.h>

#include <cinttypes>
#include <cmath>
#include <cstdio>
#include <cstring>
#include <iostream>
#include <sstream>
#include <string>
#include <vector>

using namespace IMATH_NAMESPACE;

template <class T> struct Bits;
template <> struct Bits<float>
{
    static float  from (uint64_t w) { uint32_t u = (uint32_t) w; float f; std::memcpy (&f, &u, 4); return f; }
    static uint64_t to (float f) { uint32_t u; std::memcpy (&u, &f, 4); return u; }
};
template <> struct Bits<double>
{
    static double from (uint64_t w) { double f; std::memcpy (&f, &w, 8); return f; }
    static uint64_t to (double f) { uint64_t u; std::memcpy (&u, &f, 8); return u; }
};

template <class T> struct Io
{
    const std::vector<uint64_t>& in;
    size_t                       pos = 0;
    std::vector<uint64_t>        out;
    explicit Io (const std::vector<uint64_t>& i) : in (i) {}
    T    s () { return Bits<T>::from (in.at (pos++)); }
    long i () { return (long) (int64_t) in.at (pos++); }
    Vec2<T> v2 () { T a = s (), b = s (); return Vec2<T> (a, b); }
    Vec3<T> v3 () { T a = s (), b = s (), c = s (); return Vec3<T> (a, b, c); }
    Vec4<T> v4 () { T a = s (), b = s (), c = s (), d = s (); return Vec4<T> (a, b, c, d); }
    Quat<T> q () { T r = s (); Vec3<T> v = v3 (); return Quat<T> (r, v); }
    Matrix33<T> m33 () { Matrix33<T> m; for (int i = 0; i < 3; ++i) for (int j = 0; j < 3; ++j) m[i][j] = s (); return m; }
    Matrix44<T> m44 () { Matrix44<T> m; for (int i = 0; i < 4; ++i) for (int j = 0; j < 4; ++j) m[i][j] = s (); return m; }
    Box<Vec3<T>> b3 () { Vec3<T> a = v3 (), b = v3 (); return Box<Vec3<T>> (a, b); }
    void o (T v) { out.push_back (Bits<T>::to (v)); }
    void oi (long v) { out.push_back ((uint64_t) (int64_t) v); }
    void o (const Vec2<T>& v) { o (v.x); o (v.y); }
    void o (const Vec3<T>& v) { o (v.x); o (v.y); o (v.z); }
    void o (const Vec4<T>& v) { o (v.x); o (v.y); o (v.z); o (v.w); }
    void o (const Quat<T>& q) { o (q.r); o (q.v); }
    void o (const Matrix33<T>& m) { for (int i = 0; i < 3; ++i) for (int j = 0; j < 3; ++j) o (m[i][j]); }
    void o (const Matrix44<T>& m) { for (int i = 0; i < 4; ++i) for (int j = 0; j < 4; ++j) o (m[i][j]); }
    void o (const Box<Vec3<T>>& b) { o (b.min); o (b.max); }
};

template <class T>
static bool
run (const std::string& fn, Io<T>& io)
{
    typedef Vec3<T> V3;
    if (fn == "V3.dot") { V3 a = io.v3 (), b = io.v3 (); io.o (a.dot (b)); }
    else if (fn == "V3.cross") { V3 a = io.v3 (), b = io.v3 (); io.o (a.cross (b)); }
    else if (fn == "V3.length") { io.o (io.v3 ().length ()); }
    else if (fn == "V3.length2") { io.o (io.v3 ().length2 ()); }
    else if (fn == "V3.normalized") { io.o (io.v3 ().normalized ()); }
    else if (fn == "V3.add") { V3 a = io.v3 (), b = io.v3 (); io.o (a + b); }
    else if (fn == "V3.sub") { V3 a = io.v3 (), b = io.v3 (); io.o (a - b); }
    else if (fn == "V3.mul") { V3 a = io.v3 (), b = io.v3 (); io.o (a * b); }
    else if (fn == "V3.div") { V3 a = io.v3 (), b = io.v3 (); io.o (a / b); }
    else if (fn == "V3.mulS") { V3 a = io.v3 (); T s = io.s (); io.o (a * s); }
    else if (fn == "V3.mulM44") { V3 a = io.v3 (); Matrix44<T> m = io.m44 (); io.o (a * m); }
    else if (fn == "V2.dot") { Vec2<T> a = io.v2 (), b = io.v2 (); io.o (a.dot (b)); }
    else if (fn == "V2.cross") { Vec2<T> a = io.v2 (), b = io.v2 (); io.o (a.cross (b)); }
    else if (fn == "V2.length") { io.o (io.v2 ().length ()); }
    else if (fn == "V4.dot") { Vec4<T> a = io.v4 (), b = io.v4 (); io.o (a.dot (b)); }
    else if (fn == "V4.length") { io.o (io.v4 ().length ()); }
    else if (fn == "V4.normalized") { io.o (io.v4 ().normalized ()); }
    else if (fn == "M44.mul") { Matrix44<T> a = io.m44 (), b = io.m44 (); io.o (a * b); }
    else if (fn == "M44.inverse") { io.o (io.m44 ().inverse (true)); }   // the binding's default is singExc = true
    else if (fn == "M44.gjInverse") { io.o (io.m44 ().gjInverse (true)); }
    else if (fn == "M44.transposed") { io.o (io.m44 ().transposed ()); }
    else if (fn == "M44.determinant") { io.o (io.m44 ().determinant ()); }
    else if (fn == "M44.multVecMatrix") { Matrix44<T> m = io.m44 (); V3 s = io.v3 (), d; m.multVecMatrix (s, d); io.o (d); }
    else if (fn == "M44.multDirMatrix") { Matrix44<T> m = io.m44 (); V3 s = io.v3 (), d; m.multDirMatrix (s, d); io.o (d); }
    else if (fn == "M33.mul") { Matrix33<T> a = io.m33 (), b = io.m33 (); io.o (a * b); }
    else if (fn == "M33.inverse") { io.o (io.m33 ().inverse (true)); }
    else if (fn == "M33.determinant") { io.o (io.m33 ().determinant ()); }
    else if (fn == "Quat.mul") { Quat<T> a = io.q (), b = io.q (); io.o (a * b); }
    else if (fn == "Quat.inverse") { io.o (io.q ().inverse ()); }
    else if (fn == "Quat.normalized") { io.o (io.q ().normalized ()); }
    else if (fn == "Quat.slerp") { Quat<T> a = io.q (), b = io.q (); T t = io.s (); io.o (slerp (a, b, t)); }
    else if (fn == "Quat.slerpShortestArc") { Quat<T> a = io.q (), b = io.q (); T t = io.s (); io.o (slerpShortestArc (a, b, t)); }
    else if (fn == "Quat.toMatrix44") { io.o (io.q ().toMatrix44 ()); }
    else if (fn == "Quat.toMatrix33") { io.o (io.q ().toMatrix33 ()); }
    else if (fn == "Quat.rotateVector") { Quat<T> a = io.q (); V3 v = io.v3 (); io.o (a.rotateVector (v)); }
    else if (fn == "Quat.dot") { Quat<T> a = io.q (), b = io.q (); io.o (a ^ b); }
    else if (fn == "Euler.toMatrix44") { V3 v = io.v3 (); long o = io.i (); io.o (Euler<T> (v, (typename Euler<T>::Order) o).toMatrix44 ()); }
    else if (fn == "Euler.toQuat") { V3 v = io.v3 (); long o = io.i (); io.o (Euler<T> (v, (typename Euler<T>::Order) o).toQuat ()); }
    else if (fn == "Box3.intersectsPoint") { Box<V3> b = io.b3 (); V3 p = io.v3 (); io.oi (b.intersects (p)); }
    else if (fn == "Box3.intersectsBox") { Box<V3> a = io.b3 (), b = io.b3 (); io.oi (a.intersects (b)); }
    else if (fn == "Box3.extendByPoint") { Box<V3> b = io.b3 (); V3 p = io.v3 (); b.extendBy (p); io.o (b); }
    else if (fn == "Box3.extendByBox") { Box<V3> a = io.b3 (), b = io.b3 (); a.extendBy (b); io.o (a); }
    else if (fn == "Box3.size") { io.o (io.b3 ().size ()); }
    else if (fn == "Box3.center") { io.o (io.b3 ().center ()); }
    else if (fn == "Box3.majorAxis") { io.oi ((long) io.b3 ().majorAxis ()); }
    else if (fn == "lerp") { T a = io.s (), b = io.s (), t = io.s (); io.o ((T) lerp (a, b, t)); }
    else if (fn == "lerpfactor") { T m = io.s (), a = io.s (), b = io.s (); io.o (lerpfactor (m, a, b)); }
    else if (fn == "clamp") { T a = io.s (), l = io.s (), h = io.s (); io.o (clamp (a, l, h)); }
    else if (fn == "floor") { io.oi (IMATH_NAMESPACE::floor (io.s ())); }
    else if (fn == "ceil") { io.oi (IMATH_NAMESPACE::ceil (io.s ())); }
    else if (fn == "trunc") { io.oi (IMATH_NAMESPACE::trunc (io.s ())); }
    else if (fn == "sign") { io.o ((T) sign (io.s ())); }
    else if (fn == "cmp") { T a = io.s (), b = io.s (); io.oi (cmp (a, b)); }
    else if (fn == "cmpt") { T a = io.s (), b = io.s (), t = io.s (); io.oi (cmpt (a, b, t)); }
    else if (fn == "iszero") { T a = io.s (), t = io.s (); io.oi (iszero (a, t)); }
    else if (fn == "equal") { T a = io.s (), b = io.s (), t = io.s (); io.oi (equal (a, b, t)); }
    else if (fn == "divs") { long a = io.i (), b = io.i (); io.oi (divs ((int) a, (int) b)); }
    else if (fn == "mods") { long a = io.i (), b = io.i (); io.oi (mods ((int) a, (int) b)); }
    else if (fn == "divp") { long a = io.i (), b = io.i (); io.oi (divp ((int) a, (int) b)); }
    else if (fn == "modp") { long a = io.i (), b = io.i (); io.oi (modp ((int) a, (int) b)); }
    else if (fn == "sin") { io.o (std::sin (io.s ())); }
    else if (fn == "cos") { io.o (std::cos (io.s ())); }
    else if (fn == "sqrt") { io.o (std::sqrt (io.s ())); }
    else if (fn == "exp") { io.o (std::exp (io.s ())); }
    else if (fn == "atan2") { T a = io.s (), b = io.s (); io.o (std::atan2 (a, b)); }
    else if (fn == "pow") { T a = io.s (), b = io.s (); io.o (std::pow (a, b)); }
    else if (fn == "rgb2hsv") { io.o (rgb2hsv (io.v3 ())); }
    else if (fn == "hsv2rgb") { io.o (hsv2rgb (io.v3 ())); }
    else if (fn == "Frustum.projectionMatrix" || fn == "Frustum.projectPointToScreen" || fn == "Frustum.ZToDepth" || fn == "Frustum.fovx" || fn == "Frustum.screenRadius")
    {
        T n = io.s (), f = io.s (), l = io.s (), r = io.s (), t = io.s (), b = io.s (); long ortho = io.i ();
        Frustum<T> fr (n, f, l, r, t, b, ortho != 0);
        if (fn == "Frustum.projectionMatrix") io.o (fr.projectionMatrix ());
        else if (fn == "Frustum.projectPointToScreen") io.o (fr.projectPointToScreen (io.v3 ()));
        else if (fn == "Frustum.fovx") io.o (fr.fovx ());
        else if (fn == "Frustum.screenRadius") { V3 p = io.v3 (); T rad = io.s (); io.o (fr.screenRadius (p, rad)); }
        else { long z = io.i (), zmin = io.i (), zmax = io.i (); io.o (fr.ZToDepth (z, zmin, zmax)); }
    }
    else if (fn == "Line3.closestPointTo") { V3 p0 = io.v3 (), p1 = io.v3 (), p = io.v3 (); io.o (Line3<T> (p0, p1).closestPointTo (p)); }
    else if (fn == "Line3.distanceToLine") { V3 a0 = io.v3 (), a1 = io.v3 (), b0 = io.v3 (), b1 = io.v3 (); io.o (Line3<T> (a0, a1).distanceTo (Line3<T> (b0, b1))); }
    else if (fn == "Plane3.distanceTo") { V3 n = io.v3 (); T d = io.s (); V3 p = io.v3 (); io.o (Plane3<T> (n, d).distanceTo (p)); }
    else if (fn == "Plane3.reflectPoint") { V3 n = io.v3 (); T d = io.s (); V3 p = io.v3 (); io.o (Plane3<T> (n, d).reflectPoint (p)); }
    else return false;
    return true;
}

int
main ()
{
    std::string line;
    while (std::getline (std::cin, line))
    {
        std::istringstream   ss (line);
        std::string          fn, ty, w;
        std::vector<uint64_t> in;
        ss >> fn >> ty;
        while (ss >> w) in.push_back (std::strtoull (w.c_str (), nullptr, 16));
        bool ok = false;
        std::vector<uint64_t> out;
        try
        {
            if (ty == "f") { Io<float> io (in); ok = run<float> (fn, io); out = io.out; }
            else { Io<double> io (in); ok = run<double> (fn, io); out = io.out; }
        }
        catch (const std::exception& e)
        {
            std::printf ("EXC %s\n", e.what ());
            continue;
        }
        if (!ok) { std::printf ("UNKNOWN\n"); continue; }
        std::string o = "OK";
        char        buf[32];
        for (uint64_t v: out) { std::snprintf (buf, sizeof buf, " %" PRIx64, v); o += buf; }
        std::printf ("%s\n", o.c_str ());
    }
    return 0;
}
