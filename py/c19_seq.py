# C19 workload 2: random operation sequences over a pool of arrays, aliases, masked references, element references
# and slices derived from one another, checked step by step against a model that tracks storage sharing and the
# read-only bit.  One scenario = (class, sequence number); a sequence is a pure function of (seed, class, number).
import sys, os, gc
sys.path.insert(0, os.path.dirname(os.path.abspath(__file__)))
from vlib import *

a = parse_args()
R = Run("c19_seq")
SPECS = build_specs()
THOROUGH = a.tier == "thorough"
NSEQ = 60 if THOROUGH else 6          # sequences per class
SEQLEN = 40
part_k, part_n = [int(x) for x in a.part.split("/")]

INT_WRAP = {"SignedCharArray": (8, True), "UnsignedCharArray": (8, False), "ShortArray": (16, True), "UnsignedShortArray": (16, False),
            "IntArray": (32, True), "UnsignedIntArray": (32, False)}


def wrap_for(spec):
    n = spec.name
    if n in INT_WRAP:
        return INT_WRAP[n]
    if n[0] == "V" and n[2] in "si" and n.endswith("Array"):
        suf = n[2:-5]
        return {"s": (16, True), "i": (32, True), "i64": (64, True)}.get(suf)
    return None


def wrapv(v, w):
    if w is None or not isinstance(v, int) or isinstance(v, bool):
        return v
    bits, signed = w
    v &= (1 << bits) - 1
    if signed and v >= 1 << (bits - 1):
        v -= 1 << bits
    return v


def f32(x):
    return struct.unpack("f", struct.pack("f", x))[0]


def is_f32(spec):
    n = spec.name
    return n == "FloatArray" or (n[0] in "VC" and n.endswith("fArray"))


def add_canon(spec, x, y, sign):
    w = wrap_for(spec)
    if isinstance(x, tuple):
        return tuple(add_canon(spec, p, q, sign) for p, q in zip(x, y))
    r = x + sign * y
    if isinstance(r, float) and is_f32(spec):
        r = f32(r)
    return wrapv(r, w)


class Store:
    n = 0

    def __init__(self, data):
        self.data = list(data)
        Store.n += 1
        self.id = Store.n
        self.inplace = 0


class MArr:
    """model of one python-level array object: a window (idx) on a store + its own read-only flag"""

    def __init__(self, store, idx=None, ro=False):
        self.store, self.idx, self.ro = store, idx, ro

    def indices(self):
        return list(range(len(self.store.data))) if self.idx is None else self.idx

    def view(self):
        return [self.store.data[i] for i in self.indices()]

    def masked(self):
        return self.idx is not None


class Ent:
    def __init__(self, kind, real, m, note):
        self.kind, self.real, self.m, self.note = kind, real, m, note


def raises(f):
    try:
        f()
    except Exception as e:
        return type(e).__name__ + ":" + str(e)[:60]
    return None


ELEM_MUT = {}


def elem_mutator(e, canonval, newnum):
    """mutate element object e in place with number newnum; returns the new canonical value or None"""
    tn = type(e).__name__
    try:
        if tn.startswith("Box"):
            mx = e.max()
            e.setMin(mx)
            return (canonval[1], canonval[1])
        if tn.startswith("Quat"):
            e.setR(float(newnum))
            return (float(newnum),) + tuple(canonval[1:])
        if tn.startswith("M"):
            e[0][0] = float(newnum)
            row0 = (float(newnum),) + tuple(canonval[0][1:])
            return (row0,) + tuple(canonval[1:])
        if tn.startswith("Euler"):
            e.x = float(newnum)
            return (float(newnum),) + tuple(canonval[1:])
        if tn.startswith("V"):
            v = type(canonval[0])(newnum)
            e.x = v
            return (v,) + tuple(canonval[1:])
        if tn.startswith("Color"):
            v = type(canonval[0])(newnum % 200)
            e.r = v
            return (v,) + tuple(canonval[1:])
    except Exception as ex:
        return ("EXC", repr(ex))
    return None


def run_sequence(spec, sn):
    r = Rng(a.seed, "seq:" + spec.name, sn)
    kctr = [0]
    pool = []
    trace = []

    def fresh():
        kctr[0] += 1
        return kctr[0]

    def new_array(L):
        ks = [fresh() for _ in range(L)]
        real = spec.array(ks)
        return Ent("arr", real, MArr(Store(spec.model(ks))), "new(%d)" % L)

    def verify(step, what):
        for j, e in enumerate(pool):
            R.ev()
            try:
                if e.kind == "elem":
                    got = canon(e.real)
                    want = e.m["store"].data[e.m["slot"]] if e.m["live"] else e.m["val"]
                    ok = same(got, want)
                else:
                    got = arr_list(e.real)
                    want = e.m.view()
                    ok = len(e.real) == len(want) and same(tuple(got), tuple(want))
                    if hasattr(e.real, "writable") and e.real.writable() == e.m.ro:
                        R.fail("seq:%s:writable_flag_disagrees" % spec.name, seq=sn, step=step, op=what, obj=e.note, trace=trace[-12:])
            except Exception as ex:
                R.fail("seq:%s:read_raised" % spec.name, seq=sn, step=step, op=what, obj=e.note, exc=repr(ex), trace=trace[-12:])
                continue
            if not ok:
                ro_obj = (e.kind != "elem" and e.m.ro)
                key = "seq:%s:%s" % (spec.name, "readonly_object_changed" if ro_obj and what.startswith("!") else "object_disagrees_with_model")
                R.fail(key, seq=sn, step=step, op=what, obj=e.note, kind=e.kind, got=got, want=want, trace=trace[-12:])
                # resynchronise the model so that one defect is reported once per sequence
                if e.kind == "elem":
                    e.m["live"] = False
                    e.m["val"] = got
                elif len(got) == len(want):
                    for i, v in zip(e.m.indices(), got):
                        e.m.store.data[i] = v

    pool.append(new_array(r.range(1, 9)))
    for step in range(SEQLEN):
        arrs = [e for e in pool if e.kind in ("arr",)]
        if not arrs:
            pool.append(new_array(r.range(0, 9)))
            arrs = [pool[-1]]
        e = r.pick(arrs)
        m = e.m
        L = len(m.indices())
        op = r.below(20)
        what = "?"
        if op == 0:
            pool.append(new_array(r.range(0, 9)))
            what = "new"
        elif op == 1:      # slice copy
            s = slice(r.pick([None, 0, 1, -1, 2, -3, 5]), r.pick([None, 0, 1, -1, 4, -2, 9]), r.pick([None, 1, 2, -1, -2, 3]))
            what = "copy=%s[%s:%s:%s]" % (e.note, s.start, s.stop, s.step)
            try:
                real = e.real[s]
                pool.append(Ent("arr", real, MArr(Store(m.view()[s])), what))
            except Exception as ex:
                R.fail("seq:%s:getitem(slice):raised" % spec.name, seq=sn, step=step, op=what, exc=repr(ex))
        elif op == 2:      # alias by copy constructor
            what = "alias(%s)" % e.note
            try:
                real = spec.cls(e.real)
            except TypeError:       # Boost.Python.ArgumentError: this class has no copy constructor (StringArray)
                real = None
                R.cls("no_copy_constructor")
            if real is not None:
                pool.append(Ent("arr", real, MArr(m.store, None if m.idx is None else list(m.idx), m.ro), what))
                R.cls("alias_created")
        elif op == 3 and not m.masked():     # masked reference
            mv = [int(r.below(3) > 0) for _ in range(L)]
            what = "mref=%s[mask %s]" % (e.note, "".join(map(str, mv)))
            try:
                real = e.real[int_array(mv)]
                pool.append(Ent("arr", real, MArr(m.store, [i for i, v in zip(m.indices(), mv) if v], m.ro), what))
                R.cls("maskedref_created")
            except Exception as ex:
                R.fail("seq:%s:getitem(mask):raised" % spec.name, seq=sn, step=step, op=what, exc=repr(ex))
        elif op == 4 and L:  # element reference
            i = r.range(-L, L - 1)
            what = "elem=%s[%d]" % (e.note, i)
            real = e.real[i]
            slot = m.indices()[i]
            live = spec.kind == "class" and not m.ro
            pool.append(Ent("elem", real, dict(store=m.store, slot=slot, live=live, val=m.store.data[slot], ro=m.ro), what))
            R.cls("elemref_live" if live else "elem_copy")
        elif op in (5, 6) and L:   # scalar write, int or slice
            k = fresh()
            if op == 5:
                idx = r.range(-L - 1, L)
                sel = [idx % L] if -L <= idx < L else None
            else:
                idx = slice(r.pick([None, 0, 1, -2]), r.pick([None, -1, 3, 7]), r.pick([None, 1, 2, -1]))
                sel = list(range(L))[idx]
            what = "%s%s[%s]=mk(%d)" % ("!" if m.ro else "", e.note, idx, k)
            ex = raises(lambda: e.real.__setitem__(idx, spec.mk(k)))
            if m.ro:
                R.cls("write_on_readonly")
                if not ex:
                    R.fail("seq:%s:readonly_write_not_refused" % spec.name, seq=sn, step=step, op=what, trace=trace[-12:])
            elif sel is None:
                if not ex:
                    R.fail("seq:%s:setitem(int):no_raise_out_of_range" % spec.name, seq=sn, step=step, op=what)
            else:
                if ex:
                    R.fail("seq:%s:setitem:raised" % spec.name, seq=sn, step=step, op=what, exc=ex)
                else:
                    ind = m.indices()
                    for j in sel:
                        m.store.data[ind[j]] = canon(spec.mk(k))
        elif op == 7:      # vector write through a slice, source = fresh array / pool array / masked ref
            idx = slice(r.pick([None, 0, 1]), r.pick([None, -1, 5]), r.pick([None, 1, 2, -1]))
            sel = list(range(L))[idx]
            n = len(sel) + (r.pick([0, 0, 0, 1, -1]))
            if n < 0:
                n = 0
            src = new_array(n)
            what = "%s%s[%s]=array(%d)" % ("!" if m.ro else "", e.note, idx, n)
            ex = raises(lambda: e.real.__setitem__(idx, src.real))
            if m.ro:
                R.cls("write_on_readonly")
                if not ex:
                    R.fail("seq:%s:readonly_write_not_refused" % spec.name, seq=sn, step=step, op=what, trace=trace[-12:])
            elif n != len(sel):
                R.cls("length_mismatch")
                if not ex:
                    R.fail("seq:%s:setitem(slice,array):no_raise_wrong_length" % spec.name, seq=sn, step=step, op=what)
            elif ex:
                R.fail("seq:%s:setitem(slice,array):raised" % spec.name, seq=sn, step=step, op=what, exc=ex)
            else:
                ind = m.indices()
                for j, v in zip(sel, src.m.view()):
                    m.store.data[ind[j]] = v
        elif op == 8:      # mask scalar write
            mv = [int(r.below(2)) for _ in range(L)]
            k = fresh()
            what = "%s%s[mask %s]=mk(%d)" % ("!" if m.ro else "", e.note, "".join(map(str, mv)), k)
            ex = raises(lambda: e.real.__setitem__(int_array(mv), spec.mk(k)))
            if m.ro:
                R.cls("write_on_readonly")
                if not ex:
                    R.fail("seq:%s:readonly_write_not_refused" % spec.name, seq=sn, step=step, op=what, trace=trace[-12:])
            elif ex:
                R.fail("seq:%s:setitem(mask,scalar):raised" % spec.name, seq=sn, step=step, op=what, exc=ex)
            else:
                ind = m.indices()
                for j, v in enumerate(mv):
                    if v:
                        m.store.data[ind[j]] = canon(spec.mk(k))
        elif op == 9 and not m.masked():   # mask vector write (full or reduced source)
            mv = [int(r.below(2)) for _ in range(L)]
            cnt = sum(mv)
            n = r.pick([L, cnt, cnt, L + 1])
            src = new_array(n)
            what = "%s%s[mask %s]=array(%d)" % ("!" if m.ro else "", e.note, "".join(map(str, mv)), n)
            ex = raises(lambda: e.real.__setitem__(int_array(mv), src.real))
            if m.ro:
                R.cls("write_on_readonly")
                if not ex:
                    R.fail("seq:%s:readonly_write_not_refused" % spec.name, seq=sn, step=step, op=what, trace=trace[-12:])
            elif n not in (L, cnt):
                if not ex:
                    R.fail("seq:%s:setitem(mask,array):no_raise_wrong_length" % spec.name, seq=sn, step=step, op=what)
            elif ex:
                R.fail("seq:%s:setitem(mask,array):raised" % spec.name, seq=sn, step=step, op=what, exc=ex)
            else:
                sv = src.m.view()
                jj = 0
                for j, v in enumerate(mv):
                    if v:
                        m.store.data[j] = sv[j] if n == L else sv[jj]
                        jj += 1
        elif op == 10:     # makeReadOnly
            if hasattr(e.real, "makeReadOnly"):
                e.real.makeReadOnly()
                m.ro = True
                what = "makeReadOnly(%s)" % e.note
                R.cls("made_readonly")
        elif op in (11, 12) and spec.numeric and m.store.inplace < 5:   # in-place + / - with scalar, array, masked ref
            sign = 1 if op == 11 else -1
            opn = "__iadd__" if sign > 0 else "__isub__"
            mode = r.below(3)
            if mode == 0:
                k = fresh() % 9
                rhs_real, rhs_model = spec.mk(k), [canon(spec.mk(k))] * L
                desc = "scalar"
            elif mode == 1:
                src = new_array(L if not r.one_in(5) else L + 1)
                rhs_real, rhs_model = src.real, src.m.view()
                desc = "array(%d)" % len(rhs_model)
            else:
                base = new_array(L + 2)
                mv = [1] * L + [0, 0]
                r.shuffle(mv)
                rhs_real = base.real[int_array(mv)]
                rhs_model = [v for v, f in zip(base.m.view(), mv) if f]
                desc = "maskedref(%d)" % len(rhs_model)
            what = "%s%s %s %s" % ("!" if m.ro else "", e.note, opn, desc)
            ex = raises(lambda: getattr(e.real, opn)(rhs_real))
            if m.ro:
                R.cls("write_on_readonly")
                R.cls("inplace_on_readonly_masked" if m.masked() else "inplace_on_readonly_direct")
                if not ex:
                    R.fail("seq:%s:readonly_write_not_refused" % spec.name, seq=sn, step=step, op=what, trace=trace[-12:])
            elif len(rhs_model) != L and m.masked() and mode == 1 and len(rhs_model) == len(m.store.data):
                # documented leniency of the vectorised ops: an argument dimensioned like the UNMASKED array is
                # accepted for a masked reference and indexed by the reference's raw indices
                R.cls("inplace_masked_with_unmasked_length_arg")
                if not ex:
                    ind = m.indices()
                    for j in range(L):
                        m.store.data[ind[j]] = add_canon(spec, m.store.data[ind[j]], rhs_model[ind[j]], sign)
                    m.store.inplace += 1
            elif len(rhs_model) != L:
                if not ex:
                    R.fail("seq:%s:inplace:no_raise_wrong_length" % spec.name, seq=sn, step=step, op=what)
            elif ex:
                R.fail("seq:%s:inplace:raised" % spec.name, seq=sn, step=step, op=what, exc=ex)
            else:
                m.store.inplace += 1
                ind = m.indices()
                for j in range(L):
                    m.store.data[ind[j]] = add_canon(spec, m.store.data[ind[j]], rhs_model[j], sign)
                R.cls("inplace_masked" if m.masked() else "inplace_direct")
        elif op == 13:     # mutate an element reference
            els = [x for x in pool if x.kind == "elem"]
            if els and spec.kind == "class":
                x = r.pick(els)
                cur = x.m["store"].data[x.m["slot"]] if x.m["live"] else x.m["val"]
                what = "%smutate(%s)" % ("" if x.m["live"] else "~", x.note)
                nv = elem_mutator(x.real, cur, fresh())
                if nv is not None and not (isinstance(nv, tuple) and nv and nv[0] == "EXC"):
                    if x.m["live"]:
                        x.m["store"].data[x.m["slot"]] = nv
                        R.cls("elemref_write_through")
                    else:
                        x.m["val"] = nv
                        R.cls("elem_copy_mutated")
                        if x.m["ro"]:
                            what = "!" + what
        elif op == 14 and hasattr(e.real, "ifelse"):
            mv = [int(r.below(2)) for _ in range(L)]
            other = new_array(L)
            what = "ifelse(%s)" % e.note
            try:
                res = e.real.ifelse(int_array(mv), other.real)
                want = [x if f else y for x, y, f in zip(m.view(), other.m.view(), mv)]
                pool.append(Ent("arr", res, MArr(Store(want)), what))
            except Exception as ex:
                R.fail("seq:%s:ifelse:raised" % spec.name, seq=sn, step=step, op=what, exc=repr(ex), ro=m.ro)
        elif op in (15, 16, 17) and len(pool) > 1:   # release objects in arbitrary order
            j = r.below(len(pool))
            what = "del(%s)" % pool[j].note
            del pool[j]
            e = None
            m = None
            arrs = None
            gc_churn(1)
            R.cls("released")
        else:
            what = "noop"
        trace.append(what)
        verify(step, what)
        if len(pool) > 9:
            del pool[r.below(len(pool))]
            gc.collect()
    R.nontrivial(hash((spec.name, sn, a.seed, tuple(trace))))
    R.sample("seq:%s" % spec.name, dict(cls=spec.name, seq=sn, ops=trace[:14]))


SCEN = [(spec, sn) for spec in SPECS for sn in range(NSEQ)]
for n, (spec, sn) in enumerate(SCEN):
    name = "seq:%s:n%d" % (spec.name, sn)
    if a.only:
        if name != a.only:
            continue
    elif n % part_n != part_k or n < a.start:
        continue
    R.scen_i = n - 1
    R.scenario(name)
    try:
        run_sequence(spec, sn)
    except Exception as e:
        import traceback
        R.fail("harness:seq:%s" % spec.name, exc=repr(e), tb=traceback.format_exc()[-1500:])
R.scen_i = len(SCEN) - 1
R.finish()
