# C19 workload 1: exhaustive small-scope comparison of every 1-D FixedArray class with a Python list model.
#   group index    : __len__, integer indices, slices (get, set scalar, set vector incl. wrong lengths)
#   group mask     : integer masks (get -> masked reference, read/write through it, set scalar/vector, ifelse)
#   group readonly : every write form on a read-only array / its masked refs / element refs must raise, data unchanged
# One scenario = (group, class, length).
import sys, os
sys.path.insert(0, os.path.dirname(os.path.abspath(__file__)))
from vlib import *

a = parse_args()
R = Run("c19_index")
SPECS = build_specs()
THOROUGH = a.tier == "thorough"
LMAX = 6 if THOROUGH else 4
IR = 8 if THOROUGH else 6          # index / slice bound range -IR..IR
STEPS = [None, -3, -2, -1, 1, 2, 3]
BOUNDS = [None] + list(range(-IR, IR + 1))
part_k, part_n = [int(x) for x in a.part.split("/")]


def raises(f):
    try:
        f()
    except Exception as e:      # noqa: any Python exception is "raised"; a crash is seen by the driver
        return type(e).__name__
    return None


def check_same(spec, arr, model, key, **ctx):
    R.ev()
    got = arr_list(arr)
    if len(arr) != len(model) or not same(tuple(got), tuple(model)):
        R.fail(key, cls=spec.name, got=got, want=model, **ctx)
        return False
    return True


def all_slices():
    for st in BOUNDS:
        for sp in BOUNDS:
            for step in STEPS:
                yield slice(st, sp, step)


def sl_repr(s):
    return "[%s:%s:%s]" % (s.start, s.stop, s.step)


# ------------------------------------------------------------------ group index
def scen_index(spec, L):
    ks = list(range(L))
    arr = spec.array(ks)
    model = spec.model(ks)
    R.ev()
    if len(arr) != L:
        R.fail("len:%s" % spec.name, got=len(arr), want=L)
    check_same(spec, arr, model, "construct/readback:%s" % spec.name, L=L)
    # integer indices
    for i in range(-IR - 1, IR + 2):
        R.ev()
        ok = -L <= i < L
        R.cls("int_index_in_range" if ok else "int_index_out_of_range")
        R.cls("int_index_negative" if i < 0 else "int_index_nonneg")
        try:
            got = canon(arr[i])
            if not ok:
                R.fail("getitem(int):%s:no_raise_out_of_range" % spec.name, L=L, i=i, got=got)
            elif not same(got, model[i]):
                R.fail("getitem(int):%s:wrong_element" % spec.name, L=L, i=i, got=got, want=model[i])
        except Exception as e:
            if ok:
                R.fail("getitem(int):%s:raised_in_range" % spec.name, L=L, i=i, exc=repr(e))
        # setitem scalar, integer index
        b = spec.array(ks)
        m2 = list(model)
        new = spec.mk(40 + (i % 7))
        ex = raises(lambda: b.__setitem__(i, new))
        if ok:
            m2[i] = canon(new)
            if ex:
                R.fail("setitem(int):%s:raised_in_range" % spec.name, L=L, i=i, exc=ex)
        elif not ex:
            R.fail("setitem(int):%s:no_raise_out_of_range" % spec.name, L=L, i=i)
        check_same(spec, b, m2, "setitem(int):%s:wrong_element" % spec.name, L=L, i=i)
        # the same store with the element given as a tuple of its components (a separate overload for vector arrays)
        if spec.comps and ok:
            b = spec.array(ks)
            m2 = list(model)
            new = spec.mk(43 + (i % 5))
            ex = raises(lambda: b.__setitem__(i, canon(new)))
            if ex and ("ArgumentError" in ex or "TypeError" in ex):
                R.cls("tuple_store_not_offered")
            else:
                R.cls("tuple_store")
                if ex:
                    R.fail("setitem(int,tuple):%s:raised_in_range" % spec.name, L=L, i=i, exc=ex)
                else:
                    m2[i] = canon(new)
                check_same(spec, b, m2, "setitem(int,tuple):%s:wrong_element" % spec.name, L=L, i=i)
    # huge indices
    for i in (2 ** 31 - 1, -2 ** 31, 2 ** 62, -2 ** 62):
        R.ev()
        if not raises(lambda: arr[i]):
            R.fail("getitem(int):%s:no_raise_huge" % spec.name, L=L, i=i)
    # slices
    nsl = 0
    for s in all_slices():
        sel = list(range(L))[s]
        nsl += 1
        R.cls("slice_negative_step" if (s.step or 1) < 0 else "slice_positive_step")
        R.cls("slice_empty" if not sel else "slice_nonempty")
        R.nontrivial(hash((spec.name, L, s.start, s.stop, s.step)))
        # get
        try:
            r = arr[s]
        except Exception as e:
            R.fail("getitem(slice):%s:raised" % spec.name, L=L, sl=sl_repr(s), exc=repr(e))
            continue
        check_same(spec, r, [model[i] for i in sel], "getitem(slice):%s:wrong_selection" % spec.name, L=L, sl=sl_repr(s))
        # a slice is a copy: writing to it must not change the source
        if sel and nsl % 5 == 0:
            r[0] = spec.mk(90)
            check_same(spec, arr, model, "getitem(slice):%s:slice_aliases_source" % spec.name, L=L, sl=sl_repr(s))
        # set scalar through slice
        if nsl % 3 == 0 or THOROUGH:
            b = spec.array(ks)
            m2 = list(model)
            new = spec.mk(41)
            ex = raises(lambda: b.__setitem__(s, new))
            if ex:
                R.fail("setitem(slice,scalar):%s:raised" % spec.name, L=L, sl=sl_repr(s), exc=ex)
            for i in sel:
                m2[i] = canon(new)
            check_same(spec, b, m2, "setitem(slice,scalar):%s:wrong_selection" % spec.name, L=L, sl=sl_repr(s))
        # set vector through slice: right length, wrong lengths
        if nsl % 3 == 1 or THOROUGH:
            n = len(sel)
            for dn in (0, 1, -1):
                if n + dn < 0:
                    continue
                b = spec.array(ks)
                m2 = list(model)
                src = spec.array([50 + j for j in range(n + dn)])
                ex = raises(lambda: b.__setitem__(s, src))
                if dn == 0:
                    R.cls("setitem_vector_matching")
                    if ex:
                        R.fail("setitem(slice,array):%s:raised" % spec.name, L=L, sl=sl_repr(s), exc=ex)
                    for j, i in enumerate(sel):
                        m2[i] = canon(spec.mk(50 + j))
                    check_same(spec, b, m2, "setitem(slice,array):%s:wrong_selection" % spec.name, L=L, sl=sl_repr(s))
                else:
                    R.cls("setitem_vector_wrong_length")
                    if not ex:
                        R.fail("setitem(slice,array):%s:no_raise_wrong_length" % spec.name, L=L, sl=sl_repr(s), srclen=n + dn)
                    check_same(spec, b, model, "setitem(slice,array):%s:changed_after_failed_write" % spec.name, L=L, sl=sl_repr(s))
    R.sample("index:%s" % spec.name, dict(cls=spec.name, L=L, slices=nsl, model=model[:3]))


# ------------------------------------------------------------------ group mask
MASK_VALUES = (0, 1)


def scen_mask(spec, L):
    ks = list(range(L))
    model = spec.model(ks)
    for bits in range(1 << L):
        # every 0/1 mask; selected entries also take the values 2 and -1 (any non-zero selects)
        mv = [(bits >> i) & 1 for i in range(L)]
        alt = [(v * (2 if (i + bits) % 3 == 0 else -1 if (i + bits) % 3 == 1 else 1)) for i, v in enumerate(mv)]
        sel = [i for i in range(L) if mv[i]]
        R.cls("mask_all_zero" if not sel else "mask_all_one" if len(sel) == L else "mask_mixed")
        R.nontrivial(hash((spec.name, L, "mask", bits)))
        for mvals in (mv, alt):
            arr = spec.array(ks)
            mask = int_array(mvals)
            try:
                ref = arr[mask]
            except Exception as e:
                R.fail("getitem(mask):%s:raised" % spec.name, L=L, mask=mvals, exc=repr(e))
                continue
            check_same(spec, ref, [model[i] for i in sel], "getitem(mask):%s:wrong_selection" % spec.name, L=L, mask=mvals)
            # out-of-range on the reference
            for i in (len(sel), -len(sel) - 1):
                R.ev()
                if not raises(lambda: ref[i]):
                    R.fail("maskedref.getitem(int):%s:no_raise_out_of_range" % spec.name, L=L, mask=mvals, i=i)
            # write through the reference, element by element (positive and negative index)
            m2 = list(model)
            for j, i in enumerate(sel):
                new = spec.mk(60 + j)
                idx = j if j % 2 == 0 else j - len(sel)
                ex = raises(lambda: ref.__setitem__(idx, new))
                if ex:
                    R.fail("maskedref.setitem(int):%s:raised" % spec.name, L=L, mask=mvals, j=idx, exc=ex)
                m2[i] = canon(new)
            check_same(spec, arr, m2, "maskedref.setitem(int):%s:wrong_element" % spec.name, L=L, mask=mvals)
            check_same(spec, ref, [m2[i] for i in sel], "maskedref.setitem(int):%s:ref_disagrees" % spec.name, L=L, mask=mvals)
            if spec.comps:
                for j, i in enumerate(sel):
                    new = spec.mk(65 + j)
                    ex = raises(lambda: ref.__setitem__(j, canon(new)))
                    if ex and ("ArgumentError" in ex or "TypeError" in ex):
                        R.cls("tuple_store_not_offered")
                        break
                    R.cls("maskedref_tuple_store")
                    if ex:
                        R.fail("maskedref.setitem(int,tuple):%s:raised" % spec.name, L=L, mask=mvals, j=j, exc=ex)
                    else:
                        m2[i] = canon(new)
                check_same(spec, arr, m2, "maskedref.setitem(int,tuple):%s:wrong_element" % spec.name, L=L, mask=mvals)
            # slices of a masked reference (copy)
            for s in (slice(None), slice(None, None, -1), slice(1, None, 2), slice(-2, None), slice(None, -1)):
                R.ev()
                try:
                    r = ref[s]
                    want = [m2[i] for i in sel][s]
                    if not same(tuple(arr_list(r)), tuple(want)):
                        R.fail("maskedref.getitem(slice):%s:wrong_selection" % spec.name, L=L, mask=mvals, sl=sl_repr(s), got=arr_list(r), want=want)
                except Exception as e:
                    R.fail("maskedref.getitem(slice):%s:raised" % spec.name, L=L, mask=mvals, sl=sl_repr(s), exc=repr(e))
            # slice write through the reference
            ex = raises(lambda: ref.__setitem__(slice(None, None, 2), spec.mk(70)))
            if ex:
                R.fail("maskedref.setitem(slice,scalar):%s:raised" % spec.name, L=L, mask=mvals, exc=ex)
            for j, i in enumerate(sel):
                if j % 2 == 0:
                    m2[i] = canon(spec.mk(70))
            check_same(spec, arr, m2, "maskedref.setitem(slice,scalar):%s:wrong_selection" % spec.name, L=L, mask=mvals)
            # vector write through the reference
            src = spec.array([80 + j for j in range(len(sel))])
            ex = raises(lambda: ref.__setitem__(slice(None), src))
            if ex:
                R.fail("maskedref.setitem(slice,array):%s:raised" % spec.name, L=L, mask=mvals, exc=ex)
            for j, i in enumerate(sel):
                m2[i] = canon(spec.mk(80 + j))
            check_same(spec, arr, m2, "maskedref.setitem(slice,array):%s:wrong_selection" % spec.name, L=L, mask=mvals)
            ex = raises(lambda: ref.__setitem__(slice(None), spec.array([1] * (len(sel) + 1))))
            if not ex:
                R.fail("maskedref.setitem(slice,array):%s:no_raise_wrong_length" % spec.name, L=L, mask=mvals)
            check_same(spec, arr, m2, "maskedref.setitem(slice,array):%s:changed_after_failed_write" % spec.name, L=L, mask=mvals)
            # mask-indexed scalar write ON the reference: mask dimensioned like the reference or like the unmasked array
            if sel:
                sub = [(j + bits) % 2 for j in range(len(sel))]
                before = list(m2)
                ex = raises(lambda: ref.__setitem__(int_array(sub), spec.mk(75)))
                if ex:
                    m2 = before          # refusing is acceptable, a partial write is not
                else:
                    for j, i in enumerate(sel):
                        if sub[j]:
                            m2[i] = canon(spec.mk(75))
                check_same(spec, arr, m2, "maskedref.setitem(mask,scalar):%s:ref_sized_mask" % spec.name, L=L, mask=mvals, sub=sub, raised=ex)
                if len(sel) != L:
                    full = [(i + bits) % 2 for i in range(L)]
                    before = list(m2)
                    ex = raises(lambda: ref.__setitem__(int_array(full), spec.mk(76)))
                    if not ex:
                        for i in sel:
                            if full[i]:
                                m2[i] = canon(spec.mk(76))
                    check_same(spec, arr, m2, "maskedref.setitem(mask,scalar):%s:array_sized_mask" % spec.name, L=L, mask=mvals, full=full, raised=ex)
            # masking a masked reference: refusing is fine, otherwise it must select like the model
            R.ev()
            try:
                rr = ref[int_array([1] * len(sel))]
                if not same(tuple(arr_list(rr)), tuple(m2[i] for i in sel)):
                    R.fail("maskedref.getitem(mask):%s:wrong_selection" % spec.name, L=L, mask=mvals)
            except Exception:
                R.cls("mask_of_maskedref_refused")

            # direct mask writes on the array
            arr = spec.array(ks)
            m2 = list(model)
            ex = raises(lambda: arr.__setitem__(mask, spec.mk(61)))
            if ex:
                R.fail("setitem(mask,scalar):%s:raised" % spec.name, L=L, mask=mvals, exc=ex)
            for i in sel:
                m2[i] = canon(spec.mk(61))
            check_same(spec, arr, m2, "setitem(mask,scalar):%s:wrong_selection" % spec.name, L=L, mask=mvals)
            # vector of full length: selected positions take src[i]
            src = spec.array([30 + i for i in range(L)])
            ex = raises(lambda: arr.__setitem__(mask, src))
            if ex:
                R.fail("setitem(mask,array_full):%s:raised" % spec.name, L=L, mask=mvals, exc=ex)
            for i in sel:
                m2[i] = canon(spec.mk(30 + i))
            check_same(spec, arr, m2, "setitem(mask,array_full):%s:wrong_selection" % spec.name, L=L, mask=mvals)
            # vector of reduced length: j-th selected position takes src[j]
            if len(sel) != L:
                src = spec.array([20 + j for j in range(len(sel))])
                ex = raises(lambda: arr.__setitem__(mask, src))
                if ex:
                    R.fail("setitem(mask,array_reduced):%s:raised" % spec.name, L=L, mask=mvals, exc=ex)
                for j, i in enumerate(sel):
                    m2[i] = canon(spec.mk(20 + j))
                check_same(spec, arr, m2, "setitem(mask,array_reduced):%s:wrong_selection" % spec.name, L=L, mask=mvals)
            # vector of a length that is neither: must raise, unchanged
            for wl in {L + 1, len(sel) + 1, (len(sel) - 1) if len(sel) >= 1 else L + 2} - {L, len(sel)}:
                if wl < 0:
                    continue
                src = spec.array([1] * wl)
                ex = raises(lambda: arr.__setitem__(mask, src))
                if not ex:
                    R.fail("setitem(mask,array):%s:no_raise_wrong_length" % spec.name, L=L, mask=mvals, srclen=wl)
                check_same(spec, arr, m2, "setitem(mask,array):%s:changed_after_failed_write" % spec.name, L=L, mask=mvals, srclen=wl)
            # masked source for a slice write
            if sel:
                arr2 = spec.array([100 + i for i in range(len(sel))])
                srcbase = spec.array([30 + i for i in range(L)])
                ex = raises(lambda: arr2.__setitem__(slice(None), srcbase[mask]))
                if ex:
                    R.fail("setitem(slice,maskedref):%s:raised" % spec.name, L=L, mask=mvals, exc=ex)
                check_same(spec, arr2, [canon(spec.mk(30 + i)) for i in sel], "setitem(slice,maskedref):%s:wrong_selection" % spec.name, L=L, mask=mvals)
            # ifelse
            if hasattr(arr, "ifelse"):
                arr = spec.array(ks)
                other = spec.array([30 + i for i in range(L)])
                try:
                    r = arr.ifelse(mask, other)
                    check_same(spec, r, [model[i] if mv[i] else canon(spec.mk(30 + i)) for i in range(L)], "ifelse(array):%s:wrong_selection" % spec.name, L=L, mask=mvals)
                    r = arr.ifelse(mask, spec.mk(33))
                    check_same(spec, r, [model[i] if mv[i] else canon(spec.mk(33)) for i in range(L)], "ifelse(scalar):%s:wrong_selection" % spec.name, L=L, mask=mvals)
                except Exception as e:
                    R.fail("ifelse:%s:raised" % spec.name, L=L, mask=mvals, exc=repr(e))
                check_same(spec, arr, model, "ifelse:%s:modified_self" % spec.name, L=L, mask=mvals)
    # wrong-length masks
    for wl in {L + 1, L - 1, 0, L + 3} - {L}:
        if wl < 0:
            continue
        R.cls("mask_wrong_length")
        arr = spec.array(ks)
        mask = int_array([1] * wl)
        R.ev()
        if not raises(lambda: arr[mask]):
            R.fail("getitem(mask):%s:no_raise_wrong_length" % spec.name, L=L, masklen=wl)
        if not raises(lambda: arr.__setitem__(mask, spec.mk(9))):
            R.fail("setitem(mask,scalar):%s:no_raise_wrong_length" % spec.name, L=L, masklen=wl)
        if not raises(lambda: arr.__setitem__(mask, spec.array([1] * wl))):
            R.fail("setitem(mask,array):%s:no_raise_wrong_mask_length" % spec.name, L=L, masklen=wl)
        if hasattr(arr, "ifelse"):
            if not raises(lambda: arr.ifelse(mask, spec.mk(9))):
                R.fail("ifelse(scalar):%s:no_raise_wrong_length" % spec.name, L=L, masklen=wl)
            if not raises(lambda: arr.ifelse(int_array([1] * L), spec.array([1] * wl))):
                R.fail("ifelse(array):%s:no_raise_wrong_length" % spec.name, L=L, otherlen=wl)
        check_same(spec, arr, model, "mask:%s:changed_after_failed_write" % spec.name, L=L, masklen=wl)
    R.sample("mask:%s" % spec.name, dict(cls=spec.name, L=L, masks=1 << L))


# ------------------------------------------------------------------ group readonly
def mutate_elem(e):
    """try to change an element object in place; returns True if some mutator was applied"""
    tn = type(e).__name__
    try:
        if tn.startswith("Box"):
            e.setMin(e.max())
        elif tn.startswith("Quat"):
            e.setR(e.r() + 3)
        elif tn.startswith("M"):
            e[0][0] = e[0][0] + 3
        elif tn.startswith("Euler") or tn.startswith("V"):
            e.x = e.x + 3
        elif tn.startswith("Color"):
            e.r = (e.r + 3) % 200
        else:
            return False
    except Exception:
        return False
    return True


def scen_readonly(spec, L):
    ks = list(range(L))
    model = spec.model(ks)
    arr = spec.array(ks)
    if not hasattr(arr, "makeReadOnly"):
        R.cls("no_makeReadOnly:" + spec.name)
        return
    try:
        alias = spec.cls(arr)       # shares storage, created while still writable
    except TypeError:               # no copy constructor (StringArray)
        alias = None
    mask_all = int_array([1] * L)
    mask_alt = int_array([i % 2 for i in range(L)])
    arr.makeReadOnly()
    R.ev()
    if arr.writable():
        R.fail("makeReadOnly:%s:still_writable" % spec.name, L=L)
    attempts = []

    def att(name, f):
        attempts.append(name)
        R.ev()
        R.cls("readonly_write_attempt")
        ex = raises(f)
        if not ex:
            R.fail("readonly:%s:%s:no_raise" % (spec.name, name), L=L)
        got = arr_list(arr)
        if not same(tuple(got), tuple(model)):
            R.fail("readonly:%s:%s:data_changed" % (spec.name, name), L=L, got=got, want=model, raised=ex)
            # restore through the writable alias so that later attempts are judged on their own
            for i in range(L if alias is not None else 0):
                alias[i] = spec.mk(ks[i])

    new = spec.mk(77)
    full = spec.array([30 + i for i in range(L)])
    if L:
        att("setitem(int)", lambda: arr.__setitem__(0, new))
        att("setitem(-int)", lambda: arr.__setitem__(-1, new))
        att("setitem(slice,scalar)", lambda: arr.__setitem__(slice(None), new))
        att("setitem(slice,array)", lambda: arr.__setitem__(slice(None), full))
        att("setitem(mask,scalar)", lambda: arr.__setitem__(mask_all, new))
        att("setitem(mask,array)", lambda: arr.__setitem__(mask_all, full))
        att("setitem(mask_alt,scalar)", lambda: arr.__setitem__(mask_alt, new))
        ref = arr[mask_all]
        R.ev()
        if ref.writable() if hasattr(ref, "writable") else False:
            R.fail("readonly:%s:maskedref_reports_writable" % spec.name, L=L)
        att("maskedref.setitem(int)", lambda: ref.__setitem__(0, new))
        att("maskedref.setitem(slice,scalar)", lambda: ref.__setitem__(slice(None), new))
        att("maskedref.setitem(slice,array)", lambda: ref.__setitem__(slice(None), full))
        att("maskedref.setitem(mask,scalar)", lambda: ref.__setitem__(mask_all, new))
        att("maskedref.setitem(mask,array)", lambda: ref.__setitem__(mask_all, full))
        # in-place operators (vectorised code paths: direct and masked access classes)
        for opn in ("__iadd__", "__isub__", "__imul__", "__idiv__", "__itruediv__", "__imod__", "__ipow__"):
            if hasattr(arr, opn):
                for rhs_name, rhs in (("array", full), ("scalar", spec.mk(3)), ("maskedref", full[mask_all])):
                    att("%s(%s)" % (opn, rhs_name), lambda: getattr(arr, opn)(rhs))
                    att("maskedref.%s(%s)" % (opn, rhs_name), lambda: getattr(ref, opn)(rhs))
        # other mutating methods discovered by name
        for mname in ("normalize", "normalizeExc", "invert", "transpose", "setAxisAngle", "setRotation", "setEulerXYZ", "orientToVectors"):
            if hasattr(arr, mname):
                def call(m=mname):
                    f = getattr(arr, m)
                    try:
                        return f()
                    except (TypeError, imath_ArgumentError):
                        raise
                # only the no-argument mutators can be driven generically
                if mname in ("normalize", "normalizeExc", "invert", "transpose"):
                    att(mname + "()", call)
        # element reference of a read-only array must be a copy
        if spec.kind == "class":
            e = arr[0]
            if mutate_elem(e):
                R.ev()
                R.cls("readonly_elem_mutation")
                got = arr_list(arr)
                if not same(tuple(got), tuple(model)):
                    R.fail("readonly:%s:element_reference_writes_through" % spec.name, L=L, got=got[0], want=model[0])
                    if alias is not None:
                        alias[0] = spec.mk(ks[0])
            e2 = ref[0]
            if mutate_elem(e2):
                got = arr_list(arr)
                if not same(tuple(got), tuple(model)):
                    R.fail("readonly:%s:maskedref_element_reference_writes_through" % spec.name, L=L)
                    if alias is not None:
                        alias[0] = spec.mk(ks[0])
        # whatever an attribute / zero-argument method of the read-only array returns (component views such as V3fArray.x or
        # QuatfArray.r share its storage; others are copies): writing through it must never change the read-only array
        for nm in dir(arr):
            if nm.startswith("_") or nm in ("makeReadOnly", "writable", "ifelse", "reduce", "invert", "normalize", "normalizeExc", "transpose", "negate"):
                continue
            try:
                view = getattr(arr, nm)
                if callable(view):
                    view = view()
                if not type(view).__name__.endswith("Array") or not len(view):
                    continue
                v0 = view[0]
                other = v0 + 1 if isinstance(v0, (int, float)) and not isinstance(v0, bool) else None
            except Exception:
                continue
            R.cls("readonly_derived_view_write_attempt")
            for how, f in (("setitem(int)", lambda: view.__setitem__(0, other if other is not None else view[len(view) - 1])),
                           ("setitem(slice)", lambda: view.__setitem__(slice(None), other if other is not None else view[len(view) - 1])),
                           ("__iadd__", (lambda: view.__iadd__(1)) if other is not None and hasattr(view, "__iadd__") else None),
                           ("maskedref.setitem", lambda: view[int_array([1] * len(view))].__setitem__(0, other if other is not None else view[len(view) - 1]))):
                if f is None:
                    continue
                R.ev()
                attempts.append("attr.%s.%s" % (nm, how))
                ex = raises(f)
                got = arr_list(arr)
                if not same(tuple(got), tuple(model)):
                    R.fail("readonly:%s:derived_view.%s.%s:data_changed" % (spec.name, nm, how), L=L, got=got[:3], want=model[:3], raised=ex)
                    for i in range(L if alias is not None else 0):
                        alias[i] = spec.mk(ks[i])
            try:
                if hasattr(view, "writable") and view.writable():
                    # a writable flag on something that shares the read-only storage is the same defect seen from the other side
                    probe = arr_list(view)
                    if other is not None and any(same(probe[0], c) or (isinstance(c, tuple) and probe[0] in c) for c in model[:1]):
                        R.cls("derived_view_reports_writable")
            except Exception:
                pass
        # slices are copies: writable, independent
        cp = arr[:]
        R.ev()
        ex = raises(lambda: cp.__setitem__(0, new))
        if ex:
            R.cls("slice_of_readonly_not_writable")
        got = arr_list(arr)
        if not same(tuple(got), tuple(model)):
            R.fail("readonly:%s:slice_copy_writes_through" % spec.name, L=L)
        # copy-constructed object inherits the flag
        if alias is not None:
            c2 = spec.cls(arr)
            att("copyctor.setitem(int)", lambda: c2.__setitem__(0, new))
    # reads still work
    check_same(spec, arr, model, "readonly:%s:read" % spec.name, L=L)
    for s in (slice(None, None, -1), slice(1, None)):
        check_same(spec, arr[s], model[s], "readonly:%s:getitem(slice)" % spec.name, L=L)
    if hasattr(arr, "ifelse") and L:
        # ifelse only reads its object: a read-only array must still answer it
        want = [model[i] if i % 2 else canon(spec.mk(30 + i)) for i in range(L)]
        try:
            check_same(spec, arr.ifelse(mask_alt, full), want, "readonly:%s:ifelse(array):wrong_selection" % spec.name, L=L)
            check_same(spec, arr.ifelse(mask_alt, spec.mk(33)), [model[i] if i % 2 else canon(spec.mk(33)) for i in range(L)],
                       "readonly:%s:ifelse(scalar):wrong_selection" % spec.name, L=L)
        except Exception as e:
            R.fail("readonly:%s:ifelse:raised_on_read" % spec.name, L=L, exc=repr(e))
    R.sample("readonly:%s" % spec.name, dict(cls=spec.name, L=L, attempts=attempts))
    R.nontrivial(hash((spec.name, L, "ro")))


class imath_ArgumentError(Exception):
    pass


# ------------------------------------------------------------------ group convert
def target_kind(name):
    """'int' | 'f32' | 'f64' of the element scalars of array class `name`"""
    base = name[:-5]
    if base in ("Float",) or (base[:1] in "VC" and base.endswith("f")) or base in ("Quatf", "M22f", "M33f", "M44f", "Box2f", "Box3f", "Eulerf"):
        return "f32"
    if base in ("Double",) or base.endswith("d"):
        return "f64"
    return "int"


def conv_canon(v, kind):
    if isinstance(v, tuple):
        return tuple(conv_canon(x, kind) for x in v)
    if isinstance(v, bool) or isinstance(v, str):
        return v
    if kind == "int":
        return int(v)
    return float(v)


def family(name):
    import re
    m = re.match(r"^(V\d|C\d|M\d\d|Box\d|Quat|Euler)(s|i64|i|f|d|c)Array$", name)
    return m.group(1) if m else "num"


def scen_convert(spec, L):
    """T(S array): element i of the result is T(element i of the source) - for plain, masked and read-only sources"""
    ks = list(range(L))
    kind = target_kind(spec.name)
    n_ok = 0
    for src_spec in SPECS:
        if src_spec is spec or src_spec.kind == "str" or spec.kind == "str" or family(src_spec.name) != family(spec.name) or family(spec.name) == "Euler":
            continue          # (QuatfArray(EulerfArray) etc. are semantic conversions, not element casts; Euler<float>(Euler<double>) goes
                              #  through Vec3 and resets the order to XYZ - a C++ core matter outside this property, see DESIGN.md)
        try:
            spec.cls(src_spec.array([1]))
        except Exception:
            continue          # no such converting constructor
        n_ok += 1
        R.cls("conversion_pairs")
        srcmodel = src_spec.model(ks)
        for variant in ("plain", "masked", "readonly", "masked_sparse"):
            src = src_spec.array(ks)
            want_src = srcmodel
            if variant == "masked":
                src = src_spec.array(ks + [90, 91])[int_array([1] * L + [0, 0])]
            elif variant == "masked_sparse":
                big = [k for k in range(2 * L + 1)]
                mv = [i % 2 for i in range(2 * L + 1)]
                src = src_spec.array(big)[int_array(mv)]
                want_src = [m for m, f in zip(src_spec.model(big), mv) if f]
            elif variant == "readonly":
                src.makeReadOnly()
            R.ev()
            R.nontrivial(hash((spec.name, src_spec.name, L, variant)))
            try:
                res = spec.cls(src)
            except Exception as e:
                R.fail("convert:%s:raised" % spec.name, src=src_spec.name, L=L, variant=variant, exc=repr(e))
                continue
            want = [conv_canon(v, kind) for v in want_src]
            got = None
            try:
                got = arr_list(res)
            except Exception as e:
                R.fail("convert:%s:result_unreadable" % spec.name, src=src_spec.name, L=L, variant=variant, exc=repr(e))
                continue
            if len(res) != len(want) or not same(tuple(got), tuple(want)):
                R.fail("convert:%s:wrong_elements:%s_source" % (spec.name, variant.split("_")[0]), src=src_spec.name, L=L, variant=variant, got=got[:6], want=want[:6], got_len=len(res))
                continue
            # the result is an independent, writable, dense array
            if len(res):
                res[0] = spec.mk(77)
                if not same(tuple(arr_list(src)), tuple(want_src)):
                    R.fail("convert:%s:result_aliases_source" % spec.name, src=src_spec.name, L=L, variant=variant)
                if res.writable() is False:
                    R.fail("convert:%s:result_not_writable" % spec.name, src=src_spec.name, L=L, variant=variant)
    R.sample("convert:%s" % spec.name, dict(cls=spec.name, L=L, sources=n_ok))


SCEN = []
for spec in SPECS:
    for L in range(0, LMAX + 1):
        SCEN.append(("index", spec, L))
        SCEN.append(("mask", spec, L))
    for L in (0, 1, 3, 5):
        SCEN.append(("readonly", spec, L))
    for L in (0, 1, 4):
        SCEN.append(("convert", spec, L))

# strided component views (IntArray = V3iArray.y ...) as the array under test and as the source of assignments
VIEW_SPECS = build_view_specs(SPECS)
for spec in VIEW_SPECS:
    for L in range(0, LMAX + 1):
        SCEN.append(("index", spec, L))
        SCEN.append(("mask", spec, L))

FUN = dict(index=scen_index, mask=scen_mask, readonly=scen_readonly, convert=scen_convert)
for n, (g, spec, L) in enumerate(SCEN):
    name = "%s:%s:L%d" % (g, spec.name, L)
    if a.group and g != a.group:
        continue
    if a.only:
        if name != a.only:
            continue
    elif n % part_n != part_k or n < a.start:
        R.scen_i = n
        continue
    R.scen_i = n - 1
    R.scenario(name)
    try:
        FUN[g](spec, L)
    except Exception as e:
        import traceback
        R.fail("harness:%s:%s" % (g, spec.name), exc=repr(e), tb=traceback.format_exc()[-1500:])
R.scen_i = len(SCEN) - 1
R.extra["classes_covered"] = sorted({s.name for s in SPECS})
R.finish()
