#!/usr/bin/python3
# Mutation self-test (development tool, not a registered check; DESIGN.md 5).
#   selftest/run.py <patch.diff> <property> [--tier quick] [--seed 1] [--keep]
# Creates a scratch git worktree of /repo under /tmp, applies the patch there,
# runs ./check <property> against it with private build/evidence/replay dirs,
# prints the verdict and removes everything.  Exit 0 iff the check reported a
# VIOLATION (i.e. the mutation was detected).
import argparse, os, shutil, subprocess, sys, tempfile

VERIF = os.path.dirname(os.path.dirname(os.path.abspath(__file__)))
ap = argparse.ArgumentParser()
ap.add_argument("patch")
ap.add_argument("prop")
ap.add_argument("--tier", default="quick")
ap.add_argument("--seed", default="1")
ap.add_argument("--keep", action="store_true")
ap.add_argument("--configs", default="", help="restrict monitor configs, e.g. ref")
a = ap.parse_args()
patch = os.path.abspath(a.patch)
base = tempfile.mkdtemp(prefix="vst-", dir="/tmp")
wt = os.path.join(base, "repo")
rc = 2
try:
    subprocess.check_call(["git", "-C", "/repo", "worktree", "add", "--detach", "-q", wt, "HEAD"])
    # carry uncommitted changes of /repo's working tree too (checks run against the working tree)
    diff = subprocess.run(["git", "-C", "/repo", "diff", "HEAD"], stdout=subprocess.PIPE).stdout
    if diff.strip():
        subprocess.run(["git", "-C", wt, "apply"], input=diff, check=True)
    subprocess.check_call(["git", "-C", wt, "apply", patch])
    env = dict(os.environ, VERIF_REPO=wt, VERIF_BUILD=os.path.join(base, "build"), VERIF_EVID=os.path.join(base, "evidence"),
               VERIF_REPLAY=os.path.join(base, "replay"))
    if a.configs:
        env["VERIF_CONFIGS"] = a.configs
    p = subprocess.run([os.path.join(VERIF, "check"), a.prop, "--tier", a.tier, "--seed", a.seed], env=env,
                       stdout=subprocess.PIPE, stderr=subprocess.STDOUT)
    out = p.stdout.decode("utf-8", "replace")
    lines = [l for l in out.splitlines() if l.startswith(("VIOLATION", "HELD", "INCONCLUSIVE", "KNOWN-FINDING", "  key="))]
    print("\n".join(l[:400] for l in lines[:12]))
    detected = p.returncode == 1 and any(l.startswith("VIOLATION") for l in lines)
    print("SELFTEST %s patch=%s property=%s exit=%d" % ("DETECTED" if detected else "MISSED", os.path.basename(patch), a.prop, p.returncode))
    if not detected:
        print(out[-3000:])
    rc = 0 if detected else 1
finally:
    if not a.keep:
        subprocess.run(["git", "-C", "/repo", "worktree", "remove", "--force", wt])
        shutil.rmtree(base, ignore_errors=True)
sys.exit(rc)
