#!/usr/bin/python3
# Mutation self-test over several patches that share ONE scratch worktree and ONE private build tree (incremental
# rebuilds; meant for the PyImath properties whose cold build takes minutes).  Development tool, not a registered check.
#   selftest/run_many.py <property> <patch.diff>... [--tier quick] [--seed 1] [--configs asan] [--base]
# --base first runs the check on the unpatched scratch copy and requires exit 0.
import argparse, json, os, shutil, subprocess, sys, tempfile, time

VERIF = os.path.dirname(os.path.dirname(os.path.abspath(__file__)))
ap = argparse.ArgumentParser()
ap.add_argument("prop")
ap.add_argument("patches", nargs="*")
ap.add_argument("--tier", default="quick")
ap.add_argument("--seed", default="1")
ap.add_argument("--configs", default="")
ap.add_argument("--base", action="store_true")
ap.add_argument("--out", default="")
a = ap.parse_args()
base = tempfile.mkdtemp(prefix="vstm-", dir="/tmp")
wt = os.path.join(base, "repo")
results = []
try:
    subprocess.check_call(["git", "-C", "/repo", "worktree", "add", "--detach", "-q", wt, "HEAD"])
    diff = subprocess.run(["git", "-C", "/repo", "diff", "HEAD"], stdout=subprocess.PIPE).stdout
    if diff.strip():
        subprocess.run(["git", "-C", wt, "apply"], input=diff, check=True)
        subprocess.check_call(["git", "-C", wt, "add", "-A"])
        subprocess.check_call(["git", "-C", wt, "-c", "user.email=x@x", "-c", "user.name=x", "commit", "-qm", "wip"])
    env = dict(os.environ, VERIF_REPO=wt, VERIF_BUILD=os.path.join(base, "build"), VERIF_EVID=os.path.join(base, "evidence"),
               VERIF_REPLAY=os.path.join(base, "replay"))
    if a.configs:
        env["VERIF_CONFIGS"] = a.configs

    def run_check(prop=None):
        t0 = time.time()
        p = subprocess.run([os.path.join(VERIF, "check"), prop or a.prop, "--tier", a.tier, "--seed", a.seed], env=env, stdout=subprocess.PIPE, stderr=subprocess.STDOUT)
        out = p.stdout.decode("utf-8", "replace")
        keys = [l.strip()[4:].split(" ")[0] for l in out.splitlines() if l.startswith("  key=")]
        return p.returncode, keys, out, time.time() - t0

    if a.base:
        rc, keys, out, dt = run_check()
        print("BASE exit=%d keys=%s (%.0fs)" % (rc, keys[:6], dt), flush=True)
        results.append(dict(patch="<base>", exit=rc, keys=keys))
        if rc != 0:
            print(out[-3000:])
    for patch in a.patches:
        prop = a.prop
        if "=" in patch:                 # PROP=path: run another property's check for this patch (shared scratch build)
            prop, patch = patch.split("=", 1)
        patch = os.path.abspath(patch)
        r = subprocess.run(["git", "-C", wt, "apply", patch], stderr=subprocess.PIPE)
        if r.returncode != 0:
            print("SELFTEST PATCH-DOES-NOT-APPLY patch=%s: %s" % (os.path.basename(patch), r.stderr.decode()[:300]), flush=True)
            results.append(dict(patch=os.path.basename(patch), exit=None, keys=[], error="does not apply"))
            continue
        rc, keys, out, dt = run_check(prop)
        detected = rc == 1 and keys
        print("SELFTEST %s patch=%s property=%s exit=%d (%.0fs) keys=%s" % ("DETECTED" if detected else "MISSED", patch.replace(VERIF + "/", ""), prop, rc, dt, keys[:8]), flush=True)
        if not detected:
            print(out[-2500:], flush=True)
        results.append(dict(patch=patch.replace(VERIF + "/", ""), property=prop, exit=rc, keys=keys, detected=bool(detected)))
        subprocess.check_call(["git", "-C", wt, "checkout", "--", "."])
    if a.out:
        with open(a.out, "w") as f:
            json.dump(results, f, indent=1)
finally:
    subprocess.run(["git", "-C", "/repo", "worktree", "remove", "--force", wt])
    shutil.rmtree(base, ignore_errors=True)
sys.exit(0 if all(r.get("detected", True) for r in results) else 1)
