// C03 - half is a coherent numeric type: compound arithmetic, unary minus,
// classification, numeric_limits / HALF_* constants, text I/O, halfFunction
// tables and half::round(n).
//
// Oracle: an arithmetic model of binary16 (ldexp / nearbyint on doubles, no bit
// tricks shared with half.h) supplies the value of every pattern and the
// correctly rounded (ties-to-even) pattern of every float.  "Operating once in
// float" is the CPU's IEEE single-precision operation.  Everything is judged
// bit-exactly; the only place a ratio appears is round(n) (distance / half a
// unit of n-bit precision, which must be <= 1 exactly).
#include "mon.h"
#include <cfloat>
#include <half.h>
#include <halfFunction.h>
#include <limits>
#include <sstream>

using namespace mon;
using IMATH_NAMESPACE::half;

// ===================================================================== model
enum PClass { PC_ZERO = 0, PC_DENORM, PC_NORM, PC_INF, PC_NAN };
static const char* const PCN[5] = {"zero", "denormalized", "normalized", "infinity", "nan"};

static inline PClass
pclass (uint16_t h)
{
    unsigned e = (h >> 10) & 31, m = h & 1023;
    if (e == 31) return m ? PC_NAN : PC_INF;
    if (e == 0) return m ? PC_DENORM : PC_ZERO;
    return PC_NORM;
}

// value denoted by a binary16 pattern (NaN: sign and payload carried over)
static float
model_h2f (uint16_t h)
{
    unsigned s = h >> 15, e = (h >> 10) & 31, m = h & 1023;
    if (e == 31) return u2f ((s << 31) | 0x7f800000u | (m << 13));
    double v = (e == 0) ? std::ldexp ((double) m, -24) : std::ldexp ((double) (1024 + m), (int) e - 25);
    return s ? -(float) v : (float) v;
}

struct ModelTab
{
    float v[65536];
    ModelTab ()
    {
        for (unsigned i = 0; i < 65536; ++i) v[i] = model_h2f ((uint16_t) i);
    }
};
static const ModelTab MT;
static inline float mv (uint16_t h) { return MT.v[h]; }

// class of the result of a float -> half rounding
enum RClass
{
    RC_EXACT = 0,    // float result is a normal half value
    RC_INEXACT,      // rounded, not a tie
    RC_TIE,          // exactly half way between two halves (normal range)
    RC_SUB_EXACT,    // subnormal half, exact
    RC_SUB_INEXACT,  // subnormal half, rounded
    RC_SUB_TIE,      // tie in the subnormal range
    RC_UNDERFLOW0,   // non-zero float that rounds to +-0
    RC_ZERO,         // float result is +-0
    RC_OVERFLOW,     // finite float that rounds to infinity
    RC_INF,          // float result is infinite
    RC_NAN,          // float result is NaN
    RC_N
};
static const char* const RCN[RC_N] = {"exact", "inexact", "tie", "subnormal_exact", "subnormal_inexact", "subnormal_tie",
                                      "underflow_to_zero", "zero", "overflow", "inf", "nan"};

struct F2H
{
    uint16_t bits;
    uint8_t  rc;
};

static const double TWO24  = 16777216.0;
static const double TWOM14 = 1.0 / 16384.0;

// nearest binary16 to a float, ties to even
static inline F2H
model_f2h (float f)
{
    uint32_t u = f2u (f);
    uint16_t s = (uint16_t) ((u >> 16) & 0x8000);
    if (f != f)
    {
        uint32_t top10 = (u & 0x7fffff) >> 13;
        return F2H{(uint16_t) (s | 0x7c00 | (top10 ? top10 : 1)), RC_NAN};
    }
    double a = std::fabs ((double) f);
    if (a > 3.5e38) return F2H{(uint16_t) (s | 0x7c00), RC_INF}; // only infinity exceeds FLT_MAX
    if (a >= 65520.0) return F2H{(uint16_t) (s | 0x7c00), RC_OVERFLOW};
    if (a == 0.0) return F2H{s, RC_ZERO};
    if (a < TWOM14)
    {
        double x = a * TWO24;         // exact (power of two)
        double r = std::nearbyint (x); // FE_TONEAREST: ties to even
        uint8_t rc = r == 0.0 ? RC_UNDERFLOW0 : (x - std::floor (x) == 0.5) ? RC_SUB_TIE : (r != x) ? RC_SUB_INEXACT : RC_SUB_EXACT;
        return F2H{(uint16_t) (s | (uint16_t) r), rc}; // r == 1024 encodes the smallest normal
    }
    int    E = std::ilogb (a);
    double x = std::ldexp (a, 10 - E); // in [1024, 2048)
    double r = std::nearbyint (x);
    uint8_t rc = (x - std::floor (x) == 0.5) ? RC_TIE : (r != x) ? RC_INEXACT : RC_EXACT;
    if (r == 2048.0) { r = 1024.0; ++E; }
    return F2H{(uint16_t) (s | (uint16_t) (((E + 15) << 10) | ((int) r - 1024))), rc};
}

static inline bool is_nan_bits (uint16_t h) { return (h & 0x7c00) == 0x7c00 && (h & 0x3ff); }
static inline half H (uint16_t bits) { return half (half::FromBits, bits); }

// ===================================================================== compound arithmetic
enum { OP_ADD = 0, OP_SUB, OP_MUL, OP_DIV };
static const char* const OPN[4] = {"add", "sub", "mul", "div"};

template <int OP>
static inline float
fop (float a, float b)
{
    return OP == OP_ADD ? a + b : OP == OP_SUB ? a - b : OP == OP_MUL ? a * b : a / b;
}

// the code under test: half op= half, half op= float; also reports whether the
// operator returned a reference to its left operand
template <int OP>
static inline uint16_t
lib_hh (uint16_t a, uint16_t b, bool& refok)
{
    half  x = H (a), y = H (b);
    half* r = OP == OP_ADD ? &(x += y) : OP == OP_SUB ? &(x -= y) : OP == OP_MUL ? &(x *= y) : &(x /= y);
    refok   = (r == &x) && y.bits () == b;
    return x.bits ();
}

template <int OP>
static inline uint16_t
lib_hf (uint16_t a, float f, bool& refok)
{
    half  x = H (a);
    half* r = OP == OP_ADD ? &(x += f) : OP == OP_SUB ? &(x -= f) : OP == OP_MUL ? &(x *= f) : &(x /= f);
    refok   = (r == &x);
    return x.bits ();
}

struct Tally
{
    uint64_t rc[RC_N] = {};
    uint64_t evals = 0, nontriv = 0;
    void     flush (Ctx& c)
    {
        c.eval (evals);
        for (int i = 0; i < RC_N; ++i)
            if (rc[i]) c.cls (std::string ("res_") + RCN[i], rc[i]);
        for (int op = 0; op < 4; ++op) c.cls (std::string ("op_") + OPN[op], evals / 4);
    }
};

// judge one execution of `a op= rhs`;  returns the result class
template <int OP, bool FLOAT_RHS>
static inline uint8_t
judge (Ctx& c, Tally& t, uint64_t idx, uint16_t a, uint16_t b, float fb)
{
    float    r = fop<OP> (mv (a), fb);
    F2H      w = model_f2h (r);
    bool     refok;
    uint16_t got = FLOAT_RHS ? lib_hf<OP> (a, fb, refok) : lib_hh<OP> (a, b, refok);
    ++t.rc[w.rc];
    ++t.evals;
    bool ok = (w.rc == RC_NAN) ? is_nan_bits (got) : got == w.bits;
    if (!ok)
        c.fail (std::string (FLOAT_RHS ? "arith.float." : "arith.half.") + OPN[OP] + ":" + RCN[w.rc], idx, [&] {
            Obj o;
            o.kv ("lhs_half", hex16 (a)).kv ("lhs_value", (double) mv (a));
            if (FLOAT_RHS) o.kv ("rhs_float", hex32 (f2u (fb)));
            else o.kv ("rhs_half", hex16 (b));
            o.kv ("rhs_value", (double) fb).kv ("op", OPN[OP]).kv ("float_result", hex32 (f2u (r))).kv ("float_result_value", (double) r);
            o.kv ("got", hex16 (got)).kv ("want", w.rc == RC_NAN ? std::string ("any NaN") : hex16 (w.bits));
            return o.str ();
        });
    if (!refok)
        c.fail (std::string (FLOAT_RHS ? "arith.float." : "arith.half.") + OPN[OP] + ":return_ref_or_rhs_modified", idx,
                [&] { return Obj ().kv ("lhs_half", hex16 (a)).kv ("rhs", FLOAT_RHS ? hex32 (f2u (fb)) : hex16 (b)).str (); });
    return w.rc;
}

template <bool FLOAT_RHS>
static inline bool
judge4 (Ctx& c, Tally& t, uint64_t idx, uint16_t a, uint16_t b, float fb)
{
    uint8_t r0 = judge<OP_ADD, FLOAT_RHS> (c, t, idx, a, b, fb);
    uint8_t r1 = judge<OP_SUB, FLOAT_RHS> (c, t, idx, a, b, fb);
    uint8_t r2 = judge<OP_MUL, FLOAT_RHS> (c, t, idx, a, b, fb);
    uint8_t r3 = judge<OP_DIV, FLOAT_RHS> (c, t, idx, a, b, fb);
    // non-trivial: at least one of the four results needs rounding or is special
    return (r0 != RC_EXACT) || (r1 != RC_EXACT) || (r2 != RC_EXACT) || (r3 != RC_EXACT);
}

// ~640 boundary operands: structural part + seed dependent random part, no duplicates
struct BSet
{
    std::vector<uint16_t> v;
    std::vector<uint8_t>  in; // membership bitmap
};

static BSet
boundary_set (uint64_t seed)
{
    BSet s;
    s.in.assign (65536, 0);
    auto add1 = [&] (uint16_t p) { if (!s.in[p]) { s.in[p] = 1; s.v.push_back (p); } };
    auto add  = [&] (uint16_t p) { add1 (p); add1 (p ^ 0x8000); };
    static const uint16_t low[] = {0, 1, 2, 3, 0x01ff, 0x0200, 0x0201, 0x03fe, 0x03ff};
    for (uint16_t p: low) add (p);
    static const uint16_t mant[] = {0, 1, 0x155, 0x200, 0x2aa, 0x3fe, 0x3ff};
    for (unsigned e = 1; e <= 30; ++e)
        for (uint16_t m: mant) add ((uint16_t) ((e << 10) | m));
    static const uint16_t spec[] = {0x7c00, 0x7c01, 0x7d55, 0x7dff, 0x7e00, 0x7fff};
    for (uint16_t p: spec) add (p);
    Rng r (seed, hash_str ("c03.boundary_set"), 0);
    while (s.v.size () < 640) add1 ((uint16_t) (r.u32 () & 0xffff));
    return s;
}

// ---- quick tier: all 2^16 patterns x boundary set, both operand orders, 4 operators
static void
sub_arith_boundary (Ctx& c, uint64_t b, uint64_t e)
{
    const BSet B = boundary_set (c.seed);
    Tally      t;
    uint64_t   n_ab = 0, n_ba = 0, nt = 0;
    for (uint64_t i = b; i < e; ++i)
    {
        uint16_t a = (uint16_t) i;
        for (uint16_t p: B.v)
        {
            nt += judge4<false> (c, t, i, a, p, mv (p));
            ++n_ab;
        }
        if (!B.in[a]) // (p, a) with a in B is visited as (a', p') in row p
            for (uint16_t p: B.v)
            {
                nt += judge4<false> (c, t, i, p, a, mv (a));
                ++n_ba;
            }
        if (i % 8191 == 5)
            c.sample ("pair", [&] {
                half x = H (a), y = H (B.v[i % B.v.size ()]);
                half z = x; z /= y;
                return Obj ().kv ("lhs", hex16 (a)).kv ("rhs", hex16 (y.bits ())).kv ("op", "div").kv ("result", hex16 (z.bits ())).str ();
            });
    }
    t.flush (c);
    c.nontrivial_enum (nt);
    c.cls ("order_pattern_op_boundary", n_ab);
    c.cls ("order_boundary_op_pattern", n_ba);
}
MON_SUB (sub_arith_boundary, "arith_half_boundary", 65536, 0)
    .req ({"res_tie", "res_inexact", "res_exact", "res_subnormal_inexact", "res_subnormal_tie", "res_underflow_to_zero", "res_overflow",
           "res_inf", "res_nan", "res_zero", "order_pattern_op_boundary", "order_boundary_op_pattern"})
    .exh ()
    .chunked (64)
    .over ("half op= half for op in + - * /: every one of the 2^16 patterns against ~640 boundary patterns (+-0, subnormals, every "
           "exponent with 7 significands, max, inf, NaNs, 190 seed-dependent random ones), both operand orders");

// ---- thorough tier: all 2^32 ordered pairs, 4 operators
static void
sub_arith_allpairs (Ctx& c, uint64_t b, uint64_t e)
{
    Tally    t;
    uint64_t nt = 0;
    for (uint64_t i = b; i < e; ++i)
    {
        uint16_t a = (uint16_t) i;
        for (unsigned p = 0; p < 65536; ++p) nt += judge4<false> (c, t, i, a, (uint16_t) p, mv ((uint16_t) p));
    }
    t.flush (c);
    c.nontrivial_enum (nt);
}
MON_SUB (sub_arith_allpairs, "arith_half_allpairs", 0, 65536)
    .req ({"res_tie", "res_inexact", "res_exact", "res_subnormal_inexact", "res_subnormal_tie", "res_underflow_to_zero", "res_overflow",
           "res_inf", "res_nan", "res_zero"})
    .exh ()
    .chunked (16)
    .over ("half op= half for op in + - * /: all 2^32 ordered pairs of bit patterns (index = left operand, inner loop = right operand)");

// ---- float right-hand sides by boundary class
enum
{
    FC_ZERO = 0, FC_SUBMIN, FC_SUBNORMAL, FC_MINNORMAL, FC_POW2, FC_ONE_ULP, FC_MAX, FC_INF, FC_NAN, FC_HALF_EXACT, FC_HALF_PM_ULP,
    FC_HALF_MIDPOINT, FC_OVERFLOW_THR, FC_FLUSH_THR, FC_CANCEL, FC_TIE_ADDSUB, FC_TIE_MULDIV, FC_RANDOM_BITS, FC_RANDOM_HALFRANGE,
    FC_SMALL_INT, FC_SCALE_TO_THR, FC_N
};
static const char* const FCN[FC_N] = {"f_zero", "f_subnormal_min", "f_subnormal", "f_min_normal", "f_pow2", "f_one_pm_ulp", "f_max",
                                      "f_inf", "f_nan", "f_half_exact", "f_half_pm_ulp", "f_half_midpoint", "f_overflow_threshold",
                                      "f_flush_threshold", "f_cancellation", "f_result_tie_addsub", "f_result_tie_muldiv",
                                      "f_random_bits", "f_random_halfrange", "f_small_int", "f_scale_to_threshold"};
static_assert (FC_N % 2 == 1, "class count must be coprime to 2^16");

static inline float
step_ulps (float f, int k)
{
    for (; k > 0; --k) f = std::nextafterf (f, INFINITY);
    for (; k < 0; ++k) f = std::nextafterf (f, -INFINITY);
    return f;
}

static inline float
narrow (double d) // double -> float without UB for huge magnitudes
{
    if (d != d) return u2f (0x7fc00000u);
    if (d > 3.4e38) return INFINITY;
    if (d < -3.4e38) return -INFINITY;
    return (float) d;
}

static float
gen_float (int cls, uint16_t a, Rng& r)
{
    float fa  = mv (a);
    float sgn = r.coin () ? 1.0f : -1.0f;
    auto  fin = [&] { uint16_t p = (uint16_t) (r.u32 () & 0xffff); if ((p & 0x7c00) == 0x7c00) p ^= 0x4000; return p; };
    // midpoint between a positive finite half and its successor (65520 above HALF_MAX)
    auto mid = [&] {
        uint16_t q  = (uint16_t) r.range (0, 0x7bff);
        double   lo = mv (q), hi = q == 0x7bff ? 65536.0 : (double) mv ((uint16_t) (q + 1));
        return (lo + hi) / 2;
    };
    switch (cls)
    {
        case FC_ZERO: return sgn * 0.0f;
        case FC_SUBMIN: return sgn * u2f (1);
        case FC_SUBNORMAL: return sgn * u2f ((uint32_t) r.range (1, 0x7fffff));
        case FC_MINNORMAL: { static const float v[3] = {FLT_MIN, 2 * FLT_MIN, u2f (0x007fffff)}; return sgn * v[r.range (0, 2)]; }
        case FC_POW2: return sgn * std::ldexp (1.0f, (int) r.range (-149, 127));
        case FC_ONE_ULP: return sgn * step_ulps (1.0f, (int) r.range (-2, 2));
        case FC_MAX: { static const float v[3] = {FLT_MAX, FLT_MAX / 2, u2f (0x7f7ffffe)}; return sgn * v[r.range (0, 2)]; }
        case FC_INF: return sgn * INFINITY;
        case FC_NAN: return u2f (0x7f800000u | (uint32_t) r.range (1, 0x7fffff) | (r.coin () ? 0x80000000u : 0u));
        case FC_HALF_EXACT: return mv (fin ());
        case FC_HALF_PM_ULP: { int k = (int) r.range (1, 2); return step_ulps (mv (fin ()), r.coin () ? k : -k); }
        case FC_HALF_MIDPOINT: return sgn * step_ulps ((float) mid (), (int) r.range (-1, 1));
        case FC_OVERFLOW_THR: { static const float v[4] = {65504.0f, 65520.0f, 65536.0f, 65488.0f}; return sgn * step_ulps (v[r.range (0, 3)], (int) r.range (-3, 3)); }
        case FC_FLUSH_THR: { static const float v[4] = {2.98023223876953125e-08f, 5.9604644775390625e-08f, 8.94069671630859375e-08f, 1.490116119384765625e-08f};
                             return sgn * step_ulps (v[r.range (0, 3)], (int) r.range (-3, 3)); }
        case FC_CANCEL: return (fa == fa && std::fabs (fa) < 1e30f) ? sgn * step_ulps (fa, (int) r.range (-2, 2)) : sgn * 1.0f;
        case FC_TIE_ADDSUB: { double m = mid () * sgn; return narrow (r.coin () ? m - (double) fa : (double) fa - m); }
        case FC_TIE_MULDIV: { double m = mid () * sgn; return (fa == fa && fa != 0) ? narrow (r.coin () ? m / (double) fa : (double) fa / m) : sgn * 3.0f; }
        case FC_RANDOM_BITS: return u2f (r.u32 ());
        case FC_RANDOM_HALFRANGE: return (float) r.logscale (-27, 17);
        case FC_SMALL_INT: return (float) r.range (-2050, 2050);
        case FC_SCALE_TO_THR: {
            static const double v[5] = {65504.0, 65520.0, 65536.0, 2.98023223876953125e-08, 6.103515625e-05};
            double t = v[r.range (0, 4)];
            float  f = (fa == fa && fa != 0) ? narrow (r.coin () ? t / (double) fa : (double) fa / t) : 2.0f;
            return (f == f && std::fabs (f) < 1e38f) ? step_ulps (f, (int) r.range (-1, 1)) : f;
        }
    }
    return 0;
}

static void
sub_arith_float (Ctx& c, uint64_t b, uint64_t e)
{
    Tally    t;
    uint64_t ncls[FC_N] = {};
    for (uint64_t i = b; i < e; ++i)
    {
        Rng      r   = c.rng (i);
        uint16_t a   = (uint16_t) ((i * 40503u) & 0xffff); // bijection of idx mod 2^16
        int      cls = (int) (i % FC_N);                   // coprime to 2^16: every (pattern, class) combination occurs
        float    f   = gen_float (cls, a, r);
        ++ncls[cls];
        bool nontriv = judge4<true> (c, t, i, a, 0, f);
        if (nontriv && (i & 3) == 0) c.nontrivial (hash_combine (a, f2u (f))); // every 4th case is recorded: the distinct count is a lower bound
        if ((i & 0xfffff) == 77 + (uint64_t) cls)
            c.sample (FCN[cls], [&] { half x = H (a); x *= f; return Obj ().kv ("lhs", hex16 (a)).kv ("rhs_float", hex32 (f2u (f))).kv ("rhs_value", (double) f).kv ("op", "mul").kv ("result", hex16 (x.bits ())).str (); });
    }
    t.flush (c);
    for (int k = 0; k < FC_N; ++k)
        if (ncls[k]) c.cls (FCN[k], ncls[k]);
}
MON_SUB (sub_arith_float, "arith_float_rhs", 65536ull * 21 * 15, 65536ull * 21 * 400)
    .req ({"f_zero", "f_subnormal_min", "f_subnormal", "f_min_normal", "f_pow2", "f_one_pm_ulp", "f_max", "f_inf", "f_nan", "f_half_exact",
           "f_half_pm_ulp", "f_half_midpoint", "f_overflow_threshold", "f_flush_threshold", "f_cancellation", "f_result_tie_addsub",
           "f_result_tie_muldiv", "f_random_bits", "f_random_halfrange", "f_small_int", "f_scale_to_threshold", "res_tie", "res_inexact",
           "res_exact", "res_subnormal_inexact", "res_subnormal_tie", "res_underflow_to_zero", "res_overflow", "res_inf", "res_nan", "res_zero"})
    .chunked (8192)
    .over ("half op= float for op in + - * /: left operand cycles through all 2^16 patterns, right operand drawn from 21 float boundary "
           "classes (every pattern x class combination occurs); distinct = hash(lhs pattern, rhs bits) recorded for every 4th case (lower bound), "
           "non-trivial = at least one of the 4 results is inexact, subnormal, zero, overflowing, infinite or NaN");

// ===================================================================== classification + unary minus
static void
sub_classify (Ctx& c, uint64_t b, uint64_t e)
{
    for (uint64_t i = b; i < e; ++i)
    {
        uint16_t    h  = (uint16_t) i;
        half        x  = H (h);
        PClass      pc = pclass (h);
        const char* k  = PCN[pc];
        c.eval ();
        c.cls (k);
        c.nontrivial_enum (1);
        bool z = x.isZero (), n = x.isNormalized (), d = x.isDenormalized (), inf = x.isInfinity (), nan = x.isNan ();
        bool fin = x.isFinite (), neg = x.isNegative ();
        auto desc = [&] {
            return Obj ().kv ("half", hex16 (h)).kv ("model_class", k).kv ("isZero", z).kv ("isNormalized", n).kv ("isDenormalized", d)
                .kv ("isInfinity", inf).kv ("isNan", nan).kv ("isFinite", fin).kv ("isNegative", neg).kv ("float_bits", hex32 (f2u ((float) x))).str ();
        };
        if ((int) z + n + d + inf + nan != 1) c.fail (std::string ("classify.exactly_one:") + k, i, desc);
        bool want[5] = {pc == PC_ZERO, pc == PC_DENORM, pc == PC_NORM, pc == PC_INF, pc == PC_NAN};
        bool got[5]  = {z, d, n, inf, nan};
        static const char* const fn[5] = {"isZero", "isDenormalized", "isNormalized", "isInfinity", "isNan"};
        for (int j = 0; j < 5; ++j)
            if (got[j] != want[j]) c.fail (std::string ("classify.") + fn[j] + ":" + k, i, desc);
        if (fin != (z || n || d)) c.fail (std::string ("classify.isFinite_vs_predicates:") + k, i, desc);
        if (fin != (pc <= PC_NORM)) c.fail (std::string ("classify.isFinite:") + k, i, desc);
        if (neg != (bool) (h >> 15)) c.fail (std::string ("classify.isNegative:") + k, i, desc);
        // agreement with the float classification of the value: the library's own float(h) and the model value
        for (int src = 0; src < 2; ++src)
        {
            float  f  = src == 0 ? (float) x : mv (h);
            int    fc = std::fpclassify (f);
            double af = std::fabs ((double) f);
            bool   fz = fc == FP_ZERO, finf = fc == FP_INFINITE, fnan = fc == FP_NAN;
            bool   fnorm = (fc == FP_NORMAL || fc == FP_SUBNORMAL) && af >= TWOM14; // a normal half value
            bool   fden  = (fc == FP_NORMAL || fc == FP_SUBNORMAL) && af < TWOM14;  // below the smallest normal half
            const char* sn = src == 0 ? "classify.vs_float_cast." : "classify.vs_model_value.";
            if (z != fz || n != fnorm || d != fden || inf != finf || nan != fnan || fin != (bool) std::isfinite (f))
                c.fail (std::string (sn) + "fpclassify:" + k, i, desc);
            if (neg != (bool) std::signbit (f)) c.fail (std::string (sn) + "signbit:" + k, i, desc);
        }
        // unary minus flips exactly the sign bit (NaNs included)
        uint16_t m = (-x).bits ();
        c.eval ();
        if ((uint16_t) (m ^ h) != 0x8000)
            c.fail (std::string ("negate:") + k, i, [&] { return Obj ().kv ("half", hex16 (h)).kv ("got", hex16 (m)).kv ("want", hex16 (h ^ 0x8000)).str (); });
        if (x.bits () != h) c.fail (std::string ("negate.modifies_operand:") + k, i, desc);
        if (i % 5003 == 0) c.sample (k, desc);
    }
}
MON_SUB (sub_classify, "classify_negate_all", 65536, 65536)
    .req ({"zero", "denormalized", "normalized", "infinity", "nan"})
    .exh ()
    .noscale ()
    .chunked (4096)
    .over ("all 2^16 patterns: the five class predicates, isFinite, isNegative, fpclassify/signbit of float(h), unary minus");

// ===================================================================== numeric_limits / HALF_* macros
typedef std::numeric_limits<half> NL;

static void
sub_limits (Ctx& c, uint64_t idx)
{
    auto bad = [&] (const char* key, const std::string& got, const std::string& want) {
        c.fail (key, idx, [&] { return Obj ().kv ("got", got).kv ("want", want).str (); });
    };
    auto chk_bits = [&] (const char* key, uint16_t got, uint16_t want) { c.eval (); if (got != want) bad (key, hex16 (got), hex16 (want)); };
    auto chk_int  = [&] (const char* key, long got, long want) { c.eval (); if (got != want) bad (key, std::to_string (got), std::to_string (want)); };
    auto chk      = [&] (const char* key, bool ok, const char* what) { c.eval (); if (!ok) bad (key, "false", what); };
    c.nontrivial_enum (1);

    // extremes found by scanning all patterns: once with the library's predicates and float(h), once with the model
    int lib_max = -1, lib_low = -1, lib_min = -1, lib_dmin = -1, mod_max = -1, mod_low = -1, mod_min = -1, mod_dmin = -1;
    for (unsigned p = 0; p < 65536; ++p)
    {
        half  x = H ((uint16_t) p);
        float f = (float) x, g = mv ((uint16_t) p);
        if (x.isFinite ())
        {
            if (lib_max < 0 || f > (float) H ((uint16_t) lib_max)) lib_max = (int) p;
            if (lib_low < 0 || f < (float) H ((uint16_t) lib_low)) lib_low = (int) p;
        }
        if (x.isNormalized () && f > 0 && (lib_min < 0 || f < (float) H ((uint16_t) lib_min))) lib_min = (int) p;
        if (!x.isNan () && f > 0 && (lib_dmin < 0 || f < (float) H ((uint16_t) lib_dmin))) lib_dmin = (int) p;
        PClass pc = pclass ((uint16_t) p);
        if (pc <= PC_NORM)
        {
            if (mod_max < 0 || g > mv ((uint16_t) mod_max)) mod_max = (int) p;
            if (mod_low < 0 || g < mv ((uint16_t) mod_low)) mod_low = (int) p;
        }
        if (pc == PC_NORM && g > 0 && (mod_min < 0 || g < mv ((uint16_t) mod_min))) mod_min = (int) p;
        if (pc != PC_NAN && g > 0 && (mod_dmin < 0 || g < mv ((uint16_t) mod_dmin))) mod_dmin = (int) p;
    }
    const float maxv = mv ((uint16_t) mod_max), minv = mv ((uint16_t) mod_min), dminv = mv ((uint16_t) mod_dmin);

    switch (idx)
    {
        case 0: { // max(), lowest()
            c.cls ("max_lowest");
            chk_bits ("limits.max:vs_library_scan", NL::max ().bits (), (uint16_t) lib_max);
            chk_bits ("limits.max:vs_model_scan", NL::max ().bits (), (uint16_t) mod_max);
            half succ = H ((uint16_t) (NL::max ().bits () + 1));
            chk ("limits.max:successor_is_infinity", succ.isInfinity () && !succ.isNegative () && pclass (succ.bits ()) == PC_INF, "pattern after max() is +infinity");
            float ulp = maxv - mv ((uint16_t) (mod_max - 1));
            float thr = maxv + ulp / 2; // exact in float
            chk ("limits.max:half_ulp_above_overflows", half (thr).isInfinity (), "half(max + ulp/2) is infinity");
            chk_bits ("limits.max:just_below_half_ulp_rounds_to_max", half (std::nextafterf (thr, 0.0f)).bits (), NL::max ().bits ());
            chk ("limits.max:value", (float) NL::max () == maxv, "float(max()) equals the largest finite model value");
            chk_bits ("limits.lowest:vs_library_scan", NL::lowest ().bits (), (uint16_t) lib_low);
            chk_bits ("limits.lowest:vs_model_scan", NL::lowest ().bits (), (uint16_t) mod_low);
            chk_bits ("limits.lowest:is_minus_max", NL::lowest ().bits (), (-NL::max ()).bits ());
            chk ("limits.lowest:value", (float) NL::lowest () == -maxv, "float(lowest()) == -float(max())");
            chk ("limits.lowest:below_overflows", half (-thr).isInfinity () && half (-thr).isNegative (), "half(-(max+ulp/2)) is -infinity");
            c.sample ("max", [&] { return Obj ().kv ("max_bits", hex16 (NL::max ().bits ())).kv ("max_value", (double) maxv).kv ("overflow_threshold", (double) thr).str (); });
            break;
        }
        case 1: { // min()
            c.cls ("min");
            chk_bits ("limits.min:vs_library_scan", NL::min ().bits (), (uint16_t) lib_min);
            chk_bits ("limits.min:vs_model_scan", NL::min ().bits (), (uint16_t) mod_min);
            half pred = H ((uint16_t) (NL::min ().bits () - 1));
            chk ("limits.min:predecessor_is_denormalized", pred.isDenormalized () && !NL::min ().isDenormalized () && NL::min ().isNormalized (), "pattern before min() is denormalized, min() normalized");
            chk ("limits.min:value", (float) NL::min () == minv, "float(min()) equals the smallest positive normal model value");
            chk_bits ("limits.min:conversion_round_trip", half (minv).bits (), NL::min ().bits ());
            chk ("limits.min:next_float_below_is_denormalized_or_rounds_up", half (std::nextafterf (minv, 0.0f)).bits () == NL::min ().bits () && half (minv - dminv).isDenormalized (), "half(min - denorm_min) is denormalized");
            break;
        }
        case 2: { // denorm_min()
            c.cls ("denorm_min");
            chk_bits ("limits.denorm_min:vs_library_scan", NL::denorm_min ().bits (), (uint16_t) lib_dmin);
            chk_bits ("limits.denorm_min:vs_model_scan", NL::denorm_min ().bits (), (uint16_t) mod_dmin);
            chk ("limits.denorm_min:class", NL::denorm_min ().isDenormalized () && !NL::denorm_min ().isNegative (), "denorm_min() is a positive denormalized number");
            chk ("limits.denorm_min:value", (float) NL::denorm_min () == dminv, "float(denorm_min()) equals the smallest positive model value");
            chk ("limits.denorm_min:half_of_it_rounds_to_zero", half (dminv / 2).isZero (), "half(denorm_min/2) == 0 (tie to even)");
            chk_bits ("limits.denorm_min:three_quarters_round_to_it", half (dminv * 0.75f).bits (), NL::denorm_min ().bits ());
            chk ("limits.has_denorm", NL::has_denorm == std::denorm_present, "has_denorm == denorm_present");
            break;
        }
        case 3: { // epsilon()
            c.cls ("epsilon");
            half  one  = half (1.0f);
            half  next = H ((uint16_t) (one.bits () + 1));
            float gap  = (float) next - 1.0f;
            float mgap = mv ((uint16_t) (model_f2h (1.0f).bits + 1)) - 1.0f;
            chk ("limits.epsilon:value_vs_library", (float) NL::epsilon () == gap, "float(epsilon()) == float(next half after 1) - 1");
            chk ("limits.epsilon:value_vs_model", (float) NL::epsilon () == mgap, "float(epsilon()) == model gap above 1");
            chk_bits ("limits.epsilon:bits", NL::epsilon ().bits (), model_f2h (mgap).bits);
            chk_bits ("limits.epsilon:one_plus_eps_is_next", half (1.0f + (float) NL::epsilon ()).bits (), next.bits ());
            chk_bits ("limits.epsilon:one_plus_half_eps_is_one", half (1.0f + (float) NL::epsilon () / 2).bits (), one.bits ());
            chk_bits ("limits.epsilon:one_plus_three_quarter_eps_is_next", half (1.0f + (float) NL::epsilon () * 0.75f).bits (), next.bits ());
            break;
        }
        case 4: { // digits, radix
            c.cls ("digits");
            // first positive integer that does not survive the conversion is 2^digits + 1
            long k = 1;
            while (k < 100000 && (float) half ((float) k) == (float) k) ++k;
            long dg = 0;
            while ((1L << dg) < k - 1) ++dg;
            chk ("limits.digits:first_unrepresentable_integer", (1L << dg) == k - 1, "first integer changed by half(float) is 2^digits + 1");
            chk_int ("limits.digits:vs_conversion", NL::digits, dg);
            chk_int ("limits.digits:vs_epsilon", NL::digits, 1 - std::ilogb (mv ((uint16_t) (model_f2h (1.0f).bits + 1)) - 1.0f));
            chk_int ("limits.radix", NL::radix, 2);
            chk_int ("limits.HALF_MANT_DIG", HALF_MANT_DIG, dg);
            chk_int ("limits.HALF_RADIX", HALF_RADIX, 2);
            c.sample ("digits", [&] { return Obj ().kv ("first_integer_not_representable", k).kv ("digits", dg).str (); });
            break;
        }
        case 5: { // digits10: largest d such that every d-digit decimal in the normal range survives decimal->half->decimal
            c.cls ("digits10");
            int  D = 0;
            long ncase = 0;
            std::string witness;
            for (int d = 1; d <= 6; ++d)
            {
                bool all = true;
                long lo = 1; for (int j = 1; j < d; ++j) lo *= 10;
                for (long m = lo; m < lo * 10 && all; ++m)
                    for (int ex = -12; ex <= 8 && all; ++ex)
                    {
                        char s[64], s1[64], s2[64];
                        std::snprintf (s, sizeof s, "%lde%d", m, ex);
                        double v = std::strtod (s, nullptr);
                        if (v < (double) minv || v > (double) maxv) continue;
                        ++ncase;
                        half h ((float) v);
                        std::snprintf (s1, sizeof s1, "%.*e", d - 1, v);
                        std::snprintf (s2, sizeof s2, "%.*e", d - 1, (double) (float) h);
                        if (std::strcmp (s1, s2)) { all = false; witness = std::string (s1) + " -> " + hex16 (h.bits ()) + " -> " + s2; }
                    }
                if (!all) break;
                D = d;
            }
            c.eval ((uint64_t) ncase);
            int formula = (int) std::floor ((NL::digits - 1) * std::log10 (2.0L));
            chk_int ("limits.digits10:vs_decimal_round_trip", NL::digits10, D);
            chk_int ("limits.digits10:vs_formula", NL::digits10, formula);
            chk_int ("limits.HALF_DIG", HALF_DIG, D);
            c.sample ("digits10", [&] { return Obj ().kv ("largest_d_all_decimals_survive", D).kv ("first_failure_at_d_plus_1", witness).kv ("cases", ncase).str (); });
            break;
        }
        case 6: { // max_digits10: smallest d such that every finite half survives half->decimal(d)->half
            c.cls ("max_digits10");
            int D = 0;
            std::string witness;
            for (int d = 1; d <= 9 && !D; ++d)
            {
                bool all = true;
                for (unsigned p = 0; p < 65536 && all; ++p)
                {
                    if (pclass ((uint16_t) p) > PC_NORM) continue;
                    char s[64];
                    std::snprintf (s, sizeof s, "%.*e", d - 1, (double) mv ((uint16_t) p));
                    half h (std::strtof (s, nullptr));
                    c.eval ();
                    if (h.bits () != p) { all = false; witness = hex16 ((uint16_t) p) + " -> " + s + " -> " + hex16 (h.bits ()); }
                }
                if (all) D = d;
            }
            int formula = (int) std::ceil (NL::digits * std::log10 (2.0L) + 1);
            chk_int ("limits.max_digits10:vs_text_round_trip", NL::max_digits10, D);
            chk_int ("limits.max_digits10:vs_formula", NL::max_digits10, formula);
            chk_int ("limits.HALF_DECIMAL_DIG", HALF_DECIMAL_DIG, D);
            c.sample ("max_digits10", [&] { return Obj ().kv ("smallest_d_all_halves_survive", D).kv ("last_failure_below", witness).str (); });
            break;
        }
        case 7: { // exponent ranges
            c.cls ("exponents");
            int mine = std::ilogb (minv) + 1, maxe = std::ilogb (maxv) + 1;
            chk_int ("limits.min_exponent", NL::min_exponent, mine);
            chk_int ("limits.max_exponent", NL::max_exponent, maxe);
            // powers of ten inside [min, max]
            int lo10 = 0, hi10 = 0;
            {
                long double p = 1; int k = 0;
                while (p / 10 >= (long double) minv) { p /= 10; --k; }
                lo10 = k;
                p = 1; k = 0;
                while (p * 10 <= (long double) maxv) { p *= 10; ++k; }
                hi10 = k;
            }
            chk_int ("limits.min_exponent10", NL::min_exponent10, lo10);
            chk_int ("limits.max_exponent10", NL::max_exponent10, hi10);
            // the same through the conversion
            chk ("limits.min_exponent:conversion", half (std::ldexp (1.0f, NL::min_exponent - 1)).isNormalized () && half (std::ldexp (1.0f, NL::min_exponent - 2)).isDenormalized (), "2^(min_exponent-1) normalized, 2^(min_exponent-2) denormalized");
            chk ("limits.max_exponent:conversion", half (std::ldexp (1.0f, NL::max_exponent - 1)).isNormalized () && half (std::ldexp (1.0f, NL::max_exponent)).isInfinity (), "2^(max_exponent-1) finite, 2^max_exponent infinity");
            chk ("limits.min_exponent10:conversion", half (std::pow (10.0f, (float) NL::min_exponent10)).isNormalized () && half (std::pow (10.0f, (float) (NL::min_exponent10 - 1))).isDenormalized (), "10^min_exponent10 normalized, 10^(min_exponent10-1) denormalized");
            chk ("limits.max_exponent10:conversion", half (std::pow (10.0f, (float) NL::max_exponent10)).isNormalized () && half (std::pow (10.0f, (float) (NL::max_exponent10 + 1))).isInfinity (), "10^max_exponent10 finite, 10^(max_exponent10+1) infinity");
            chk_int ("limits.HALF_DENORM_MIN_EXP", HALF_DENORM_MIN_EXP, mine);
            chk_int ("limits.HALF_MAX_EXP", HALF_MAX_EXP, maxe);
            chk_int ("limits.HALF_DENORM_MIN_10_EXP", HALF_DENORM_MIN_10_EXP, lo10);
            chk_int ("limits.HALF_MAX_10_EXP", HALF_MAX_10_EXP, hi10);
            break;
        }
        case 8: { // macros convert to the patterns of the true extremes
            c.cls ("macros");
            chk_bits ("limits.HALF_MAX", half (HALF_MAX).bits (), (uint16_t) mod_max);
            chk_bits ("limits.minus_HALF_MAX", half (-HALF_MAX).bits (), (uint16_t) mod_low);
            chk_bits ("limits.HALF_MIN", half (HALF_MIN).bits (), (uint16_t) mod_min);
            chk_bits ("limits.HALF_NRM_MIN", half (HALF_NRM_MIN).bits (), (uint16_t) mod_min);
            chk_bits ("limits.HALF_DENORM_MIN", half (HALF_DENORM_MIN).bits (), (uint16_t) mod_dmin);
            chk_bits ("limits.HALF_EPSILON", half (HALF_EPSILON).bits (), model_f2h (mv ((uint16_t) (model_f2h (1.0f).bits + 1)) - 1.0f).bits);
            chk ("limits.HALF_MAX:exact_value", (double) HALF_MAX == (double) maxv, "HALF_MAX is exactly the largest finite value");
            chk ("limits.HALF_EPSILON:behaviour", half (1.0f + (float) HALF_EPSILON) != half (1.0f), "half(1 + HALF_EPSILON) != half(1)");
            break;
        }
    }
}
MON_SUB_IDX (sub_limits, "limits", 9, 9)
    .req ({"max_lowest", "min", "denorm_min", "epsilon", "digits", "digits10", "max_digits10", "exponents", "macros"})
    .exh ()
    .noscale ()
    .chunked (1)
    .over ("numeric_limits<half> members and HALF_* macros recomputed from scans over all 2^16 patterns, from the behaviour of "
           "half(float)/float(half) and from decimal round trips (9 groups of assertions)");

// ===================================================================== text I/O
static void
sub_textio (Ctx& c, uint64_t b, uint64_t e)
{
    static const char* const mode_name[2] = {"default_precision", "precision5"};
    for (int mode = 0; mode < 2; ++mode)
    {
        // one value per stream
        for (uint64_t i = b; i < e; ++i)
        {
            uint16_t h  = (uint16_t) i;
            PClass   pc = pclass (h);
            if (pc > PC_NORM) { if (mode == 0) c.cls ("skipped_nonfinite"); continue; }
            std::ostringstream os;
            if (mode == 1) os.precision (5);
            os << H (h);
            std::string        txt = os.str ();
            std::istringstream is (txt);
            half               g = H (0x7e00);
            is >> g;
            c.eval ();
            c.cls (mode_name[mode]);
            if (mode == 0) { c.cls (PCN[pc]); c.nontrivial_enum (1); }
            if (!os.good () || is.fail () || g.bits () != h)
                c.fail (std::string ("textio.single.") + mode_name[mode] + ":" + PCN[pc], i, [&] {
                    return Obj ().kv ("half", hex16 (h)).kv ("value", (double) mv (h)).kv ("text", txt).kv ("read_back", hex16 (g.bits ())).kv ("istream_fail", (bool) is.fail ()).str ();
                });
            if (i % 6007 == 3) c.sample (mode_name[mode], [&] { return Obj ().kv ("half", hex16 (h)).kv ("text", txt).kv ("read_back", hex16 (g.bits ())).str (); });
        }
        // all finite values of the range in one stream, blank separated
        std::ostringstream os;
        if (mode == 1) os.precision (5);
        for (uint64_t i = b; i < e; ++i)
            if (pclass ((uint16_t) i) <= PC_NORM) os << H ((uint16_t) i) << ' ';
        std::istringstream is (os.str ());
        for (uint64_t i = b; i < e; ++i)
        {
            uint16_t h = (uint16_t) i;
            if (pclass (h) > PC_NORM) continue;
            half g = H (0x7e00);
            is >> g;
            c.eval ();
            c.cls ("sequence_in_one_stream");
            if (is.fail () || g.bits () != h)
            {
                c.fail (std::string ("textio.sequence.") + mode_name[mode] + ":" + PCN[pclass (h)], i,
                        [&] { return Obj ().kv ("half", hex16 (h)).kv ("read_back", hex16 (g.bits ())).kv ("istream_fail", (bool) is.fail ()).str (); });
                break; // the stream is out of step from here on
            }
        }
    }
}
MON_SUB (sub_textio, "text_io_all_finite", 65536, 65536)
    .req ({"zero", "denormalized", "normalized", "default_precision", "precision5", "sequence_in_one_stream"})
    .exh ()
    .noscale ()
    .chunked (2048)
    .over ("all 63,488 finite patterns: operator<< then operator>> at the default stream precision and at precision 5, one value per "
           "stream and as blank separated sequences");

// ===================================================================== halfFunction
static float fn_ident (float x) { return x; }
struct TimesN
{
    float n;
    explicit TimesN (float n) : n (n) {}
    float operator() (float x) const { return x * n; }
};

static inline double asd (float v) { return v; }
static inline double asd (double v) { return v; }
static inline double asd (half v) { return (double) (float) v; }

template <class T>
static std::string
tbits (const T& v)
{
    unsigned char b[sizeof (T)];
    std::memcpy (b, &v, sizeof (T));
    std::string s = "0x";
    char        t[4];
    for (size_t i = sizeof (T); i-- > 0;) { std::snprintf (t, sizeof t, "%02x", b[i]); s += t; }
    return s;
}

// compare entries [b,e) of a table with the oracle: ref(value) inside the
// domain (by value), designated constants elsewhere
template <class T, class Ref>
static void
verify_table (Ctx& c, const char* tname, const halfFunction<T>& tab, uint64_t base, uint64_t b, uint64_t e, uint16_t dmin, uint16_t dmax,
              Ref ref, T dflt, T pinf, T ninf, T nanv)
{
    uint64_t n_in = 0, n_out = 0, n_inf = 0, n_nan = 0;
    for (uint64_t i = b; i < e; ++i)
    {
        uint16_t h  = (uint16_t) (i - base);
        PClass   pc = pclass (h);
        float    xv = mv (h);
        T        want;
        const char* k;
        if (pc == PC_NAN) { want = nanv; k = "nan"; ++n_nan; }
        else if (pc == PC_INF) { want = (h >> 15) ? ninf : pinf; k = (h >> 15) ? "neg_inf" : "pos_inf"; ++n_inf; }
        else if (xv >= mv (dmin) && xv <= mv (dmax)) { want = ref (xv); k = "in_domain"; ++n_in; }
        else { want = dflt; k = "outside_domain"; ++n_out; }
        T got = tab (H (h));
        if (std::memcmp (&got, &want, sizeof (T)))
            c.fail (std::string ("halfFunction.") + tname + ":" + k, i, [&] {
                return Obj ().kv ("table", tname).kv ("x", hex16 (h)).kv ("x_value", (double) xv).kv ("domain_min", hex16 (dmin)).kv ("domain_max", hex16 (dmax))
                    .kv ("got_bits", tbits (got)).kv ("want_bits", tbits (want)).kv ("got", asd (got)).kv ("want", asd (want)).str ();
            });
        if (h == 0x3555 || h == 0xc400 || h == 0x0003)
            c.sample (tname, [&] { return Obj ().kv ("table", tname).kv ("x", hex16 (h)).kv ("class", k).kv ("value", asd (got)).str (); });
    }
    c.eval (e - b);
    c.nontrivial_enum (e - b);
    c.cls ("in_domain", n_in);
    c.cls ("outside_domain", n_out);
    c.cls ("infinity", n_inf);
    c.cls ("nan", n_nan);
    c.cls (std::string ("table_") + tname);
}

enum { N_TABLES = 11 };

static void
sub_halffunction (Ctx& c, uint64_t b, uint64_t e)
{
    while (b < e)
    {
        uint64_t tid = b >> 16, base = tid << 16, ee = std::min (e, base + 65536);
        const uint16_t HMAX = 0x7bff, NHMAX = 0xfbff;
        switch (tid)
        {
            case 0: { // all default arguments, function pointer
                halfFunction<float> t (fn_ident);
                verify_table<float> (c, "float_identity_defaults", t, base, b, ee, NHMAX, HMAX, [] (float x) { return x; }, 0.f, 0.f, 0.f, 0.f);
                break;
            }
            case 1: { // lambda, sub-range, four distinct designated values
                uint16_t lo = model_f2h (-2.5f).bits, hi = model_f2h (1000.0f).bits;
                halfFunction<float> t ([] (float x) { return 3.0f * x + 1.0f; }, H (lo), H (hi), -7.0f, 11.0f, -13.0f, 17.0f);
                verify_table<float> (c, "float_affine_subrange", t, base, b, ee, lo, hi, [] (float x) { return 3.0f * x + 1.0f; }, -7.0f, 11.0f, -13.0f, 17.0f);
                break;
            }
            case 2: { // sqrt on [0, HALF_MAX], T = double
                halfFunction<double> t ([] (double x) { return std::sqrt (x); }, H (0), H (HMAX), -1.0, 1e300, -1e300, 12345.678);
                verify_table<double> (c, "double_sqrt_nonneg", t, base, b, ee, 0, HMAX, [] (float x) { return std::sqrt ((double) x); }, -1.0, 1e300, -1e300, 12345.678);
                break;
            }
            case 3: { // T = half, functor, as in the library's own test but checked on every entry
                uint16_t hi = model_f2h (65504.0f / 8).bits;
                halfFunction<half> t (TimesN (5), H (0), H (hi), H (0xbc00), half::posInf (), half::negInf (), half::qNan ());
                verify_table<half> (c, "half_times5", t, base, b, ee, 0, hi, [] (float x) { return H (model_f2h (x * 5.0f).bits); }, H (0xbc00), H (0x7c00), H (0xfc00), H (0x7fff));
                break;
            }
            case 4: { // T = half, domain bounded by denormalized numbers
                halfFunction<half> t ([] (float x) { return x * -1024.0f; }, H (0x8003), H (0x03ff), H (0x3555), H (0x7bff), H (0xfbff), H (0x7e01));
                verify_table<half> (c, "half_denormal_domain", t, base, b, ee, 0x8003, 0x03ff, [] (float x) { return H (model_f2h (x * -1024.0f).bits); }, H (0x3555), H (0x7bff), H (0xfbff), H (0x7e01));
                break;
            }
            case 5: { // empty domain
                halfFunction<float> t ([] (float x) { return x + 100.0f; }, H (0x3c00), H (0xbc00), 5.0f, 6.0f, 7.0f, 8.0f);
                verify_table<float> (c, "float_empty_domain", t, base, b, ee, 0x3c00, 0xbc00, [] (float x) { return x + 100.0f; }, 5.0f, 6.0f, 7.0f, 8.0f);
                break;
            }
            case 6: { // single point
                halfFunction<double> t ([] (double x) { return x * 0.1; }, H (0x3800), H (0x3800), -2.0, -3.0, -4.0, -5.0);
                verify_table<double> (c, "double_single_point", t, base, b, ee, 0x3800, 0x3800, [] (float x) { return (double) x * 0.1; }, -2.0, -3.0, -4.0, -5.0);
                break;
            }
            case 7: { // upper bound -0: +0 equals the bound by value
                halfFunction<float> t ([] (float x) { return 1.0f - x; }, H (NHMAX), H (0x8000), 0.25f, 0.5f, 0.75f, 0.125f);
                verify_table<float> (c, "float_negative_to_minus_zero", t, base, b, ee, NHMAX, 0x8000, [] (float x) { return 1.0f - x; }, 0.25f, 0.5f, 0.75f, 0.125f);
                break;
            }
            case 8: { // seed dependent finite domain
                Rng      r (c.seed, hash_str ("c03.halffunction.domain"), 0);
                uint16_t p = (uint16_t) (r.u32 () & 0xffff), q = (uint16_t) (r.u32 () & 0xffff);
                if ((p & 0x7c00) == 0x7c00) p ^= 0x4000;
                if ((q & 0x7c00) == 0x7c00) q ^= 0x4000;
                if (mv (p) > mv (q)) std::swap (p, q);
                halfFunction<float> t ([] (float x) { return x * x - 2.0f; }, H (p), H (q), -1.5f, 2.5f, -3.5f, 4.5f);
                verify_table<float> (c, "float_random_domain", t, base, b, ee, p, q, [] (float x) { return x * x - 2.0f; }, -1.5f, 2.5f, -3.5f, 4.5f);
                break;
            }
            case 9: { // infinite bounds: every finite x is inside, infinities still get their designated values
                halfFunction<float> t ([] (float x) { return -x; }, half::negInf (), half::posInf (), 9.0f, 10.0f, 11.0f, 12.0f);
                verify_table<float> (c, "float_infinite_domain", t, base, b, ee, 0xfc00, 0x7c00, [] (float x) { return -x; }, 9.0f, 10.0f, 11.0f, 12.0f);
                break;
            }
            case 10: { // T = double, all default arguments
                halfFunction<double> t ([] (double x) { return x / 3.0; });
                verify_table<double> (c, "double_third_defaults", t, base, b, ee, NHMAX, HMAX, [] (float x) { return (double) x / 3.0; }, 0.0, 0.0, 0.0, 0.0);
                break;
            }
        }
        b = ee;
    }
}
MON_SUB (sub_halffunction, "halffunction_tables", 65536ull * N_TABLES, 65536ull * N_TABLES)
    .req ({"in_domain", "outside_domain", "infinity", "nan", "table_float_identity_defaults", "table_float_affine_subrange", "table_double_sqrt_nonneg",
           "table_half_times5", "table_half_denormal_domain", "table_float_empty_domain", "table_double_single_point",
           "table_float_negative_to_minus_zero", "table_float_random_domain", "table_float_infinite_domain", "table_double_third_defaults"})
    .exh ()
    .noscale ()
    .chunked (65536)
    .over ("11 halfFunction<T> tables (T = float, double, half; default arguments, sub-range, denormal, empty, single-point, -0-bounded, "
           "random and infinite domains; function pointer, lambda, functor): all 65,536 entries of each compared with f(value) / the "
           "designated default, +inf, -inf, NaN values");

// ===================================================================== round(n)
static const unsigned ROUND_N[] = {0, 1, 2, 3, 4, 5, 6, 7, 8, 9, 10, 11, 12, 15, 16, 31, 32, 33, 63, 64, 255, 65536, 0x7fffffffu, 0x80000000u, 0xffffffffu};

static void
sub_round (Ctx& c, uint64_t b, uint64_t e)
{
    uint64_t n_ident = 0, n_tie = 0, n_trunc = 0, n_carry = 0, n_tozero = 0, n_nan = 0, n_inf = 0, n_den = 0, n_changed = 0, n_eval = 0;
    for (uint64_t i = b; i < e; ++i)
    {
        uint16_t h  = (uint16_t) i;
        PClass   pc = pclass (h);
        if (pc == PC_NAN) { ++n_nan; continue; } // the statement speaks of finite and infinite values only
        double x = mv (h);
        for (unsigned n: ROUND_N)
        {
            uint16_t g  = H (h).round (n).bits ();
            PClass   gc = pclass (g);
            ++n_eval;
            auto desc = [&] {
                return Obj ().kv ("half", hex16 (h)).kv ("value", x).kv ("n", n).kv ("got", hex16 (g)).kv ("got_value", (double) mv (g)).str ();
            };
            std::string ns = n < 10 ? std::to_string (n) : std::string ("ge10");
            if ((g ^ h) & 0x8000) c.fail ("round.sign:n=" + ns, i, desc);
            if (pc == PC_INF)
            {
                ++n_inf;
                if (g != h) c.fail ("round.infinity_not_kept:n=" + ns, i, desc);
                continue;
            }
            if (gc > PC_NORM) { c.fail ("round.finite_became_nonfinite:n=" + ns, i, desc); continue; }
            if (n >= 10)
            {
                ++n_ident;
                if (g != h) c.fail ("round.identity_for_n_ge_10", i, desc);
                continue;
            }
            if (pc == PC_DENORM) ++n_den;
            if (g != h) ++n_changed;
            if (g & ((1u << (10 - n)) - 1)) c.fail ("round.low_bits_not_cleared:n=" + ns, i, desc);
            // unit of n-bit precision at x: 2^(E-n), E = exponent of x (that of the smallest normal for subnormals and zero)
            int    E    = pc == PC_NORM ? std::ilogb (x) : -14;
            double unit = std::ldexp (1.0, E - (int) n);
            double r    = mv (g);
            double dist = std::fabs (x - r);        // exact in double
            double ratio = dist / (unit / 2);       // exact (power of two)
            if (ratio <= 1.0)
            {
                if (ratio == 1.0) ++n_tie;
                if (gc == PC_NORM && std::ilogb (r) > E && pc == PC_NORM) ++n_carry;
                if (gc == PC_ZERO && pc != PC_ZERO) ++n_tozero;
                c.worst ("round.distance_over_half_unit", ratio, i, desc);
            }
            else
            {
                // truncation is acceptable only where rounding up would reach infinity
                double down = std::floor (std::fabs (x) / unit) * unit, up = down + unit;
                if (up >= 65536.0 && std::fabs (r) == down)
                {
                    ++n_trunc;
                    c.worst ("round.truncated_distance_over_unit", dist / unit, i, desc);
                    c.sample ("truncated_at_overflow", desc);
                }
                else
                    c.fail ("round.distance:n=" + ns, i, [&] {
                        return Obj ().kv ("half", hex16 (h)).kv ("value", x).kv ("n", n).kv ("got", hex16 (g)).kv ("got_value", r).kv ("unit", unit)
                            .kv ("distance_over_half_unit", ratio).kv ("round_up_candidate", up).str ();
                    });
            }
            if (i % 7001 == 11 && n == 3) c.sample ("round3", desc);
        }
    }
    c.eval (n_eval);
    c.nontrivial_enum (n_changed + n_trunc);
    c.cls ("identity_n_ge_10", n_ident);
    c.cls ("tie", n_tie);
    c.cls ("truncated_at_overflow", n_trunc);
    c.cls ("carry_into_next_binade", n_carry);
    c.cls ("rounded_to_zero", n_tozero);
    c.cls ("denormalized_input", n_den);
    c.cls ("infinite_input", n_inf);
    c.cls ("skipped_nan_pattern", n_nan);
}
MON_SUB (sub_round, "round_all", 65536, 65536)
    .req ({"identity_n_ge_10", "tie", "truncated_at_overflow", "carry_into_next_binade", "rounded_to_zero", "denormalized_input", "infinite_input"})
    .exh ()
    .noscale ()
    .chunked (2048)
    .over ("all 63,490 non-NaN patterns x n in {0..12, 15, 16, 31, 32, 33, 63, 64, 255, 65536, 2^31-1, 2^31, 2^32-1}: sign, finite-ness, "
           "cleared low bits, distance <= half a unit of n-bit precision (truncation only where rounding up reaches 65536)");

MON_MAIN ("c03_halfnum")
