// C17 (part 2 of 3) - ImathRoots.h: solveLinear / solveQuadratic / solveNormalizedCubic / solveCubic.
//
// Polynomials are BUILT FROM CHOSEN ROOTS, so the truth is known by construction:
//   * lattice families: roots k_i * 2^sh with small integer k_i and a small leading coefficient, so that every
//     coefficient is exactly representable in T (verified per case; inexact ones are skipped and counted) -
//     the truth is exact and the expected count is the number of distinct real roots;
//   * rounded families: random real roots / complex pairs, coefficients computed in higher precision and rounded to T
//     (the rounding moves a root by <= eps/2 * condition, well inside the tolerance).
// Judged: (1) the return value (count, -1 for "all reals", 0 for none), whenever the sign of the discriminant is
// decidable in T arithmetic (|D| > 4 * first-order rounding bound; otherwise skipped and counted - that is what
// "well separated" means for the count) or decided exactly by construction (double / triple roots on the lattice);
// (2) each returned root against the truth with
//         linear, quadratic :  |x - x_true| <= C * eps * cond(x_true)
//         cubic             :  |x - x_true| <= C * eps * ( cond(x_true) + S * sqrt(S / sep) )
//     cond(x) = sum_k |c_k| |x|^k / |p'(x)|   (componentwise condition number of the root, absolute)
//     S       = largest root magnitude of the polynomial (complex roots included) - the absolute scale of the problem
//     sep     = smallest distance between two distinct roots (complex included).
//     The S term is what Cardano's formula can deliver: it forms every root as a sum of terms of size S, and its
//     trigonometric branch (three real roots) additionally loses sqrt(S/sep) through an arccos near +-1.  Measured on the
//     pristine tree: err/(eps*cond) exceeds 10^5 (roots spanning three decades) while err/(eps*(cond+S*sqrt(S/sep)))
//     stays below 6.4 on 3*10^8 cases; the linear and the quadratic solver are componentwise accurate (<= 1.8).
// Root sets are required to be well separated: min distance between two distinct roots (complex included)
// >= 2^-9 * S (~2e-3 relative); others are skipped and counted.
// (3) delegation: solveCubic(0,b,c,d) must equal solveQuadratic(b,c,d) and solveQuadratic(0,b,c) must equal
//     solveLinear(b,c), bit for bit, including the -1 / 0 return values.
#include "c17_common.h"
#include <ImathRoots.h>

using namespace mon;
using namespace c17;
namespace IM = IMATH_INTERNAL_NAMESPACE;

// ---- calibrated constants (worst observed ratios are in the evidence under "worst")
static const double C_LINEAR = 4.0;     // err <= C eps |x|          (one correctly rounded division: observed 0.5)
static const double C_QUAD = 16.0;      // err <= C eps cond
static const double C_CUBIC_F = 64.0;   // err <= C eps (cond + S sqrt(S/sep)), float  (observed <= 4.4)
static const double C_CUBIC_D = 64.0;   // err <= C eps (cond + S sqrt(S/sep)), double (observed <= 6.4)

template <class T> struct RB;
template <> struct RB<float> { static const int kb = 6, sh_lo = -10, sh_hi = 6; };
template <> struct RB<double> { static const int kb = 15, sh_lo = -24, sh_hi = 12; };

template <class T>
struct PolyCase
{
    typedef typename FT<T>::hp H;
    H    co[4]  = {0, 0, 0, 0}; // co[k] multiplies x^k
    T    ct[4]  = {0, 0, 0, 0}; // the coefficients handed to the solver
    int  want   = 0;            // expected return value
    H    root[3] = {0, 0, 0};   // truth, ascending
    H    S      = 0;
    H    minsep = -1;           // < 0: not applicable
    bool exact_count = false;
    bool rounded     = false;
    const char* fam  = "";
};

template <class H> static void sort3 (H* v, int n) { for (int i = 1; i < n; ++i) for (int j = i; j > 0 && v[j] < v[j - 1]; --j) std::swap (v[j], v[j - 1]); }

static long
pick_k (Rng& r, int kb)
{
    long m = (1l << kb) - 1;
    switch (r.range (0, 5))
    {
        case 0: return r.range (-3, 3);
        case 1: return (r.coin () ? 1 : -1) * (m - r.range (0, 2));
        default: return r.range (-m, m);
    }
}
template <class H> static H pick_lead (Rng& r) { H a = (H) r.range (1, 7); a = a * (H) std::ldexp (1.0, (int) r.range (-3, 3)); return r.coin () ? a : -a; }

// coefficients of a(x-x1)(x-x2)(x-x3)
template <class T> static void set_cubic_real (PolyCase<T>& p, typename FT<T>::hp a, typename FT<T>::hp x1, typename FT<T>::hp x2, typename FT<T>::hp x3)
{
    typedef typename FT<T>::hp H;
    p.co[3] = a; p.co[2] = -a * (x1 + x2 + x3); p.co[1] = a * (x1 * x2 + x1 * x3 + x2 * x3); p.co[0] = -a * x1 * x2 * x3;
    p.root[0] = x1; p.root[1] = x2; p.root[2] = x3; sort3 (p.root, 3);
    p.want = 3;
    p.S = hmax (habs (x1), hmax (habs (x2), habs (x3)));
    p.minsep = hmin (p.root[1] - p.root[0], p.root[2] - p.root[1]);
    (void) sizeof (H);
}
// a(x-x1)((x-al)^2 + be^2)
template <class T> static void set_cubic_complex (PolyCase<T>& p, typename FT<T>::hp a, typename FT<T>::hp x1, typename FT<T>::hp al, typename FT<T>::hp be)
{
    typedef typename FT<T>::hp H;
    H m2 = al * al + be * be;
    p.co[3] = a; p.co[2] = -a * (x1 + 2 * al); p.co[1] = a * (2 * al * x1 + m2); p.co[0] = -a * x1 * m2;
    p.root[0] = x1; p.want = 1;
    p.S = hmax (habs (x1), habs (al) + habs (be)); // |al + i be| <= |al| + |be| (within sqrt 2)
    H dx = x1 - al;
    // distance real root <-> complex root >= max(|x1-al|, |be|) ; pair distance = 2|be|
    p.minsep = hmin (hmax (habs (dx), habs (be)), 2 * habs (be));
}

// hand the coefficients to T; returns false when a lattice coefficient is not exactly representable
template <class T> static bool finish (PolyCase<T>& p)
{
    typedef typename FT<T>::hp H;
    for (int k = 0; k < 4; ++k)
    {
        p.ct[k] = (T) p.co[k];
        if (!std::isfinite (p.ct[k])) return false;
        if ((H) p.ct[k] != p.co[k])
        {
            if (!p.rounded) return false;
            p.co[k] = (H) p.ct[k];
        }
    }
    return true;
}

// |D| against the first-order rounding bound of D = (p/3)^3 + (q/2)^2 computed in T from r,s,t (each itself carrying eps)
template <class T> static bool cubic_count_decidable (const typename FT<T>::hp* co)
{
    typedef typename FT<T>::hp H;
    H e = (H) FT<T>::eps ();
    H r = co[2] / co[3], s = co[1] / co[3], t = co[0] / co[3];
    H p = (3 * s - r * r) / 3, q = 2 * r * r * r / 27 - r * s / 3 + t;
    H p3 = p / 3, q2 = q / 2, D = p3 * p3 * p3 + q2 * q2;
    H dp = e * (3 * habs (s) + 2 * r * r), dq = e * (habs (r * r * r) + 2 * habs (r * s) + 4 * habs (t));
    H dD = 3 * p3 * p3 * (dp / 3 + e * habs (p3)) + habs (q2) * dq + 3 * e * (habs (p3 * p3 * p3) + q2 * q2);
    return habs (D) > 4 * dD;
}
template <class T> static bool quad_count_decidable (const typename FT<T>::hp* co)
{
    typedef typename FT<T>::hp H;
    H e = (H) FT<T>::eps ();
    H D = co[1] * co[1] - 4 * co[2] * co[0];
    return habs (D) > 8 * e * (co[1] * co[1] + 4 * habs (co[2] * co[0]));
}

// absolute componentwise condition number of root x of the polynomial co[0..deg]
template <class H> static H root_cond (const H* co, int deg, H x)
{
    H num = 0, dp = 0, xp = 1; // xp = x^k
    H ax = habs (x), axp = 1;
    for (int k = 0; k <= deg; ++k)
    {
        num += habs (co[k]) * axp;
        if (k + 1 <= deg) dp += (H) (k + 1) * co[k + 1] * xp;
        xp *= x; axp *= ax;
    }
    return num / habs (dp);
}

template <class T>
static void
judge_roots (Ctx& c, uint64_t idx, const std::string& fn, const PolyCase<T>& p, int deg, int got_n, const T* gx, double C, double CS)
{
    typedef typename FT<T>::hp H;
    const std::string ty = FT<T>::name ();
    const double      eps = FT<T>::eps ();
    auto desc = [&] {
        double cd[4] = {(double) p.ct[0], (double) p.ct[1], (double) p.ct[2], (double) p.ct[3]};
        double gr[3] = {0, 0, 0}, tr[3] = {0, 0, 0};
        for (int i = 0; i < 3; ++i) { if (i < got_n) gr[i] = (double) gx[i]; if (i < p.want) tr[i] = (double) p.root[i]; }
        return Obj ().arr ("coeff_x0_to_x3", cd, 4).kv ("returned", got_n).arr ("roots_returned", gr, got_n > 0 ? (size_t) got_n : 0).kv ("expected", p.want).arr ("roots_true", tr, p.want > 0 ? (size_t) p.want : 0).str ();
    };
    c.eval ();
    if (got_n != p.want) { c.fail (fn + "." + ty + ":" + p.fam + ".count", idx, desc); return; }
    if (got_n <= 0) return;
    T g[3];
    for (int i = 0; i < got_n; ++i)
    {
        g[i] = gx[i];
        if (!std::isfinite (g[i])) { c.fail (fn + "." + ty + ":" + p.fam + ".nonfinite_root", idx, desc); return; }
    }
    sort3 (g, got_n);
    for (int i = 0; i < got_n; ++i)
    {
        H cond = root_cond<H> (p.co, deg, p.root[i]);
        if (!(cond < (H) 1e300)) cond = p.S; // multiple root of an exactly decided lattice case: judged on the absolute scale only
        // Cardano's trigonometric branch loses sqrt(S/separation) on top of the absolute scale S (arccos near +-1)
        H Sterm = 0;
        if (CS > 0)
        {
            H amp = 1;
            if (p.minsep > 0) amp = sizeof (T) == 4 ? (H) sqrtl ((long double) (p.S / p.minsep)) : (H) sqrtq ((__float128) (p.S / p.minsep));
            Sterm = p.S * hmax (amp, (H) 1);
        }
        H tol_unit = (H) eps * (cond + Sterm) + (H) std::numeric_limits<T>::denorm_min ();
        if (p.minsep >= 0 && (H) C * tol_unit > p.minsep / 4) { c.cls ("skipped_illconditioned_root"); continue; }
        H err = habs ((H) g[i] - p.root[i]);
        double ratio = (double) (err / tol_unit);
        std::string wn = fn + "." + ty + "." + p.fam + (CS > 0 ? ".err/(eps*(cond+S*sqrt(S/sep)))" : ".err/(eps*cond)");
        c.worst (wn.c_str (), ratio, idx, desc);
        if (!(ratio <= C)) c.fail (fn + "." + ty + ":" + p.fam + ".accuracy", idx, [&] { return Obj ().raw ("case", desc ()).kv ("root_index", i).kv ("err_over_eps_cond", ratio).kv ("bound", C).str (); });
    }
}

template <class T> static bool bits_equal (T a, T b) { return hbits (a) == hbits (b); }

template <class T>
static void
sub_roots (Ctx& c, uint64_t idx)
{
    typedef typename FT<T>::hp H;
    const std::string ty = FT<T>::name ();
    const int kb = RB<T>::kb;
    const double CC = sizeof (T) == 4 ? C_CUBIC_F : C_CUBIC_D;
    Rng r = c.rng (idx);
    PolyCase<T> p;
    H sc = (H) std::ldexp (1.0, (int) r.range (RB<T>::sh_lo, RB<T>::sh_hi)); // common scale 2^sh of the lattice
    int fam = (int) (idx % 16);
    auto nz = [&] () { T z = 0; return r.coin () ? z : -z; }; // a zero coefficient of either sign
    c.nontrivial (hmix (idx, c.seed));

    // ------------------------------------------------------------------ linear
    if (fam <= 2)
    {
        T a, b; H truth = 0; int want;
        if (fam == 0)
        {   // lattice: b = -a*x0 exact -> the quotient is exact
            p.fam = "linear_lattice";
            H ha = pick_lead<H> (r), x0 = (H) pick_k (r, kb) * sc;
            a = (T) ha; b = (T) (-ha * x0); truth = x0; want = 1;
            if ((H) b != -ha * x0) { c.cls ("skipped_inexact_coefficient"); return; }
        }
        else if (fam == 1)
        {
            p.fam = "linear_random";
            a = (T) r.logscale (-30, 30); b = r.one_in (16) ? nz () : (T) r.logscale (-30, 30);
            truth = -(H) b / (H) a; want = 1;
        }
        else
        {
            p.fam = "linear_degenerate";
            a = nz (); b = r.coin () ? nz () : (T) r.logscale (-30, 30);
            want = b == 0 ? -1 : 0;
        }
        c.cls (p.fam);
        T x = (T) 12345; // sentinel: must stay untouched when there is no (unique) solution
        int n = IM::solveLinear (a, b, x);
        c.eval ();
        auto desc = [&] { return Obj ().kv ("a", (double) a).kv ("b", (double) b).kv ("returned", n).kv ("x", (double) x).kv ("expected", want).kv ("x_true", (double) truth).str (); };
        if (n != want) c.fail ("solveLinear." + ty + ":" + p.fam + ".count", idx, desc);
        else if (n == 1)
        {
            H err = habs ((H) x - truth), unit = (H) FT<T>::eps () * habs (truth) + (H) std::numeric_limits<T>::denorm_min ();
            double ratio = (double) (err / unit);
            c.worst (sizeof (T) == 4 ? "solveLinear.float.err/(eps*|x|)" : "solveLinear.double.err/(eps*|x|)", ratio, idx, desc);
            if (!(ratio <= C_LINEAR)) c.fail ("solveLinear." + ty + ":" + p.fam + ".accuracy", idx, desc);
            if (fam == 0 && !((H) x == truth)) c.fail ("solveLinear." + ty + ":linear_lattice.inexact", idx, desc);
        }
        c.cls (want == 1 ? "one_solution" : want == 0 ? "no_solution" : "all_reals");
        c.sample (p.fam, desc);
        return;
    }

    // ------------------------------------------------------------------ quadratic
    if (fam <= 7)
    {
        int want_lin = 99; // for the delegation family: the expected result of the linear equation
        if (fam == 3)
        {
            p.fam = "quadratic_two_roots";
            long k1 = pick_k (r, kb), k2 = pick_k (r, kb);
            int  v = (int) r.range (0, 5);
            if (v == 0) k1 = 0;                 // a zero root (c = 0)
            if (v == 1) k2 = -k1;               // symmetric roots (b = 0)
            if (v == 2) k2 = k1 + (r.coin () ? 1 : -1) * std::max (1l, std::labs (k1) >> r.range (3, 8)); // close pair
            if (k1 == k2) { c.cls ("skipped_not_distinct"); return; }
            H a = pick_lead<H> (r), x1 = (H) k1 * sc, x2 = (H) k2 * sc;
            p.co[2] = a; p.co[1] = -a * (x1 + x2); p.co[0] = a * x1 * x2;
            p.root[0] = hmin (x1, x2); p.root[1] = hmax (x1, x2); p.want = 2;
            p.S = hmax (habs (x1), habs (x2)); p.minsep = p.root[1] - p.root[0];
            c.cls (v == 0 ? "zero_root" : v == 1 ? "symmetric_roots" : v == 2 ? "close_pair" : "generic_pair");
        }
        else if (fam == 4)
        {   // a(x-x1)^2 with b^2 and 4ac exact: D == 0 exactly
            p.fam = "quadratic_double_root";
            H a = pick_lead<H> (r), x1 = (H) pick_k (r, kb) * sc;
            p.co[2] = a; p.co[1] = -2 * a * x1; p.co[0] = a * x1 * x1;
            p.root[0] = x1; p.want = 1; p.S = habs (x1); p.exact_count = true;
        }
        else if (fam == 5)
        {   // a((x-al)^2 + be^2): D = -4 a^2 be^2 < 0 exactly
            p.fam = "quadratic_no_real_root";
            long kbe = pick_k (r, kb); if (kbe == 0) kbe = 1;
            H a = pick_lead<H> (r), al = (H) pick_k (r, kb) * sc, be = (H) kbe * sc;
            p.co[2] = a; p.co[1] = -2 * a * al; p.co[0] = a * (al * al + be * be);
            p.want = 0; p.S = habs (al) + habs (be);
        }
        else if (fam == 6)
        {   // random coefficients; truth from the textbook formula in higher precision
            p.fam = "quadratic_random";
            p.rounded = true;
            T a = (T) r.logscale (-8, 8), b = r.one_in (12) ? nz () : (T) r.logscale (-8, 8), cc = r.one_in (12) ? nz () : (T) r.logscale (-8, 8);
            p.co[2] = a; p.co[1] = b; p.co[0] = cc;
            H D = p.co[1] * p.co[1] - 4 * p.co[2] * p.co[0];
            if (D > 0)
            {
                H s = sizeof (T) == 4 ? (H) sqrtl ((long double) D) : (H) sqrtq ((__float128) D);
                H x1, x2;
                if (p.co[1] == 0) { x1 = s / (2 * p.co[2]); x2 = -x1; }
                else { H q = -(p.co[1] + (p.co[1] > 0 ? s : -s)) / 2; x1 = q / p.co[2]; x2 = p.co[0] / q; }
                p.root[0] = hmin (x1, x2); p.root[1] = hmax (x1, x2); p.want = 2;
                p.S = hmax (habs (x1), habs (x2)); p.minsep = p.root[1] - p.root[0];
            }
            else { p.want = 0; p.S = 1; }
        }
        else
        {   // a == 0: the linear solver decides
            p.fam = "quadratic_delegates_to_linear";
            int v = (int) r.range (0, 2);
            H b = v == 0 ? pick_lead<H> (r) : (H) 0, x0 = (H) pick_k (r, kb) * sc;
            p.co[2] = 0; p.co[1] = b; p.co[0] = v == 0 ? -b * x0 : (v == 1 ? pick_lead<H> (r) : (H) 0);
            p.root[0] = x0; want_lin = p.want = v == 0 ? 1 : v == 1 ? 0 : -1; p.S = habs (x0); p.exact_count = true;
        }
        if (!finish (p)) { c.cls ("skipped_inexact_coefficient"); return; }
        if (fam == 7) { if (r.coin ()) p.ct[2] = -p.ct[2]; if (p.ct[1] == 0 && r.coin ()) p.ct[1] = -p.ct[1]; if (p.ct[0] == 0 && r.coin ()) p.ct[0] = -p.ct[0]; } // -0 coefficients
        if (p.want == 2 && !(p.minsep >= p.S / 512)) { c.cls ("skipped_not_well_separated"); return; }
        if (!p.exact_count && fam != 7 && !quad_count_decidable<T> (p.co)) { c.cls ("skipped_discriminant_in_rounding_noise"); return; }
        c.cls (p.fam);
        c.cls (p.want == 2 ? "two_real_roots" : p.want == 1 ? "one_real_root" : p.want == 0 ? "no_real_root" : "all_reals");
        T x[2] = {(T) 12345, (T) 12345};
        int n = IM::solveQuadratic (p.ct[2], p.ct[1], p.ct[0], x);
        if (fam == 7)
        {
            T xl = (T) 12345;
            int nl = IM::solveLinear (p.ct[1], p.ct[0], xl);
            c.eval ();
            if (nl != n || !bits_equal (xl, x[0]) || n != want_lin)
                c.fail ("solveQuadratic." + ty + ":delegation_to_linear", idx, [&] { return Obj ().kv ("b", (double) p.ct[1]).kv ("c", (double) p.ct[0]).kv ("quadratic_returned", n).kv ("linear_returned", nl).kv ("x_quadratic", (double) x[0]).kv ("x_linear", (double) xl).kv ("expected", want_lin).str (); });
            judge_roots<T> (c, idx, "solveQuadratic", p, 1, n, x, C_LINEAR, 0);
        }
        else judge_roots<T> (c, idx, "solveQuadratic", p, 2, n, x, C_QUAD, 0);
        c.sample (p.fam, [&] { double cd[3] = {(double) p.ct[0], (double) p.ct[1], (double) p.ct[2]}; double gr[2] = {(double) x[0], (double) x[1]}; return Obj ().arr ("coeff_x0_to_x2", cd, 3).kv ("returned", n).arr ("roots", gr, n > 0 ? (size_t) n : 0).str (); });
        return;
    }

    // ------------------------------------------------------------------ cubic
    bool also_normalized = false; // leading coefficient +-2^j: r,s,t exact -> solveNormalizedCubic sees the same polynomial
    int  deleg = 0;               // 1: a == 0 (quadratic), 2: a == b == 0 (linear), 3: a == b == c == 0
    switch (fam)
    {
        case 8:
        {
            p.fam = "cubic_three_real";
            long k1 = pick_k (r, kb), k2 = pick_k (r, kb), k3 = pick_k (r, kb);
            if (r.one_in (3)) k2 = k1 + (r.coin () ? 1 : -1) * std::max (1l, std::labs (k1) >> r.range (3, 8)); // a close pair
            if (r.one_in (6)) k3 = 0;
            if (k1 == k2 || k1 == k3 || k2 == k3) { c.cls ("skipped_not_distinct"); return; }
            set_cubic_real<T> (p, pick_lead<H> (r), (H) k1 * sc, (H) k2 * sc, (H) k3 * sc);
            break;
        }
        case 9:
        {
            p.fam = "cubic_one_real_complex_pair";
            long kbe = pick_k (r, kb); if (kbe == 0) kbe = r.coin () ? 1 : -1;
            set_cubic_complex<T> (p, pick_lead<H> (r), (H) pick_k (r, kb) * sc, (H) pick_k (r, kb) * sc, (H) kbe * sc);
            break;
        }
        case 10:
        {   // (x-c)^3 + t, t = +-(m)^3 : depressed form has p = 0, q = t exactly; root c -+ m
            long kc = r.one_in (4) ? 0 : pick_k (r, kb - 1), km = pick_k (r, kb - 1);
            if (km == 0) km = r.coin () ? 2 : -2;
            p.fam = km > 0 ? "cubic_shifted_pure_t_positive" : "cubic_shifted_pure_t_negative";
            H a = pick_lead<H> (r), cc = (H) kc * sc, m = (H) km * sc, t = m * m * m;
            p.co[3] = a; p.co[2] = -3 * a * cc; p.co[1] = 3 * a * cc * cc; p.co[0] = a * (t - cc * cc * cc);
            p.root[0] = cc - m; p.want = 1;
            p.S = habs (cc) + habs (m); p.minsep = habs (m) * (H) 1.7320508;
            break;
        }
        case 11:
        {
            if (r.coin ())
            {   // (x-c)^3 : p = q = 0 exactly -> one (triple) root
                p.fam = "cubic_triple_root";
                H a = pick_lead<H> (r), cc = (H) pick_k (r, kb) * sc;
                p.co[3] = a; p.co[2] = -3 * a * cc; p.co[1] = 3 * a * cc * cc; p.co[0] = -a * cc * cc * cc;
                p.root[0] = cc; p.want = 1; p.S = habs (cc);
            }
            else
            {   // (x-k)^2 (x+2k) = x^3 - 3k^2 x + 2k^3 : D = -k^6 + k^6 = 0 exactly -> two distinct roots
                p.fam = "cubic_double_root";
                long k = r.range (1, 12) * (r.coin () ? 1 : -1);
                H a = pick_lead<H> (r), kk = (H) k * sc;
                p.co[3] = a; p.co[2] = 0; p.co[1] = -3 * a * kk * kk; p.co[0] = 2 * a * kk * kk * kk;
                p.root[0] = hmin (kk, -2 * kk); p.root[1] = hmax (kk, -2 * kk); p.want = 2; p.S = 2 * habs (kk);
            }
            p.exact_count = true;
            break;
        }
        case 12: case 15:
        {   // random real roots, coefficients rounded to T
            p.fam = fam == 12 ? "cubic_three_real_rounded" : "cubic_three_real_logscale_rounded";
            p.rounded = true;
            H x1, x2, x3;
            if (fam == 12) { x1 = (H) (T) r.uniform (-10, 10); x2 = (H) (T) r.uniform (-10, 10); x3 = (H) (T) r.uniform (-10, 10); }
            else { x1 = (H) (T) r.logscale (-6, 6); x2 = (H) (T) r.logscale (-6, 6); x3 = (H) (T) r.logscale (-6, 6); }
            set_cubic_real<T> (p, r.coin () ? (H) 1 : (H) (T) r.logscale (-4, 4), x1, x2, x3);
            if (p.minsep <= 0) { c.cls ("skipped_not_distinct"); return; }
            also_normalized = p.co[3] == 1;
            break;
        }
        case 13:
        {
            p.fam = "cubic_one_real_complex_pair_rounded";
            p.rounded = true;
            H x1 = (H) (T) r.uniform (-10, 10), al = (H) (T) r.uniform (-10, 10), be = (H) (T) (r.coin () ? r.uniform (0.05, 10) : r.logscale (-5, 3));
            set_cubic_complex<T> (p, r.coin () ? (H) 1 : (H) (T) r.logscale (-4, 4), x1, al, be);
            also_normalized = p.co[3] == 1;
            break;
        }
        default:
        {   // vanishing leading coefficients
            deleg = (int) r.range (1, 3);
            if (deleg == 1)
            {
                int v = (int) r.range (0, 2);
                H a = pick_lead<H> (r);
                if (v == 0)
                {
                    p.fam = "cubic_delegates_quadratic_two_roots";
                    long k1 = pick_k (r, kb), k2 = pick_k (r, kb); if (k1 == k2) { c.cls ("skipped_not_distinct"); return; }
                    H x1 = (H) k1 * sc, x2 = (H) k2 * sc;
                    p.co[2] = a; p.co[1] = -a * (x1 + x2); p.co[0] = a * x1 * x2;
                    p.root[0] = hmin (x1, x2); p.root[1] = hmax (x1, x2); p.want = 2; p.S = hmax (habs (x1), habs (x2)); p.minsep = p.root[1] - p.root[0];
                }
                else if (v == 1)
                {
                    p.fam = "cubic_delegates_quadratic_double_root";
                    H x1 = (H) pick_k (r, kb) * sc;
                    p.co[2] = a; p.co[1] = -2 * a * x1; p.co[0] = a * x1 * x1; p.root[0] = x1; p.want = 1; p.S = habs (x1); p.exact_count = true;
                }
                else
                {
                    p.fam = "cubic_delegates_quadratic_no_root";
                    long kbe = pick_k (r, kb); if (kbe == 0) kbe = 1;
                    H al = (H) pick_k (r, kb) * sc, be = (H) kbe * sc;
                    p.co[2] = a; p.co[1] = -2 * a * al; p.co[0] = a * (al * al + be * be); p.want = 0; p.S = habs (al) + habs (be);
                }
            }
            else if (deleg == 2)
            {
                p.fam = "cubic_delegates_linear";
                H b = pick_lead<H> (r), x0 = (H) pick_k (r, kb) * sc;
                p.co[1] = b; p.co[0] = -b * x0; p.root[0] = x0; p.want = 1; p.S = habs (x0); p.exact_count = true;
            }
            else
            {
                p.fam = "cubic_all_leading_zero";
                p.co[0] = r.coin () ? pick_lead<H> (r) : (H) 0; p.want = p.co[0] == 0 ? -1 : 0; p.exact_count = true;
            }
            break;
        }
    }
    if (!finish (p)) { c.cls ("skipped_inexact_coefficient"); return; }
    if (deleg) for (int k = 0; k < 4; ++k) if (p.ct[k] == 0 && r.coin ()) p.ct[k] = -p.ct[k]; // zeros of either sign
    if (p.minsep >= 0 && !(p.minsep >= p.S / 512)) { c.cls ("skipped_not_well_separated"); return; }
    int deg = deleg == 0 ? 3 : deleg == 1 ? 2 : 1;
    if (!p.exact_count)
    {
        bool ok = deg == 3 ? cubic_count_decidable<T> (p.co) : quad_count_decidable<T> (p.co);
        if (!ok) { c.cls ("skipped_discriminant_in_rounding_noise"); return; }
    }
    c.cls (p.fam);
    c.cls (p.want == 3 ? "three_real_roots" : p.want == 2 ? "two_real_roots" : p.want == 1 ? "one_real_root" : p.want == 0 ? "no_real_root" : "all_reals");
    T x[3] = {(T) 12345, (T) 12345, (T) 12345};
    int n = IM::solveCubic (p.ct[3], p.ct[2], p.ct[1], p.ct[0], x);
    if (deleg == 0)
    {
        judge_roots<T> (c, idx, "solveCubic", p, 3, n, x, CC, 1);
        // the normalized entry point on the same polynomial (r,s,t exact: power-of-two or unit leading coefficient)
        H lead = habs (p.co[3]);
        int ex; H mant = sizeof (T) == 4 ? (H) frexpl ((long double) lead, &ex) : (H) frexpq ((__float128) lead, &ex);
        if (!p.rounded) also_normalized = mant == (H) 0.5;
        if (also_normalized)
        {
            PolyCase<T> pn = p;
            bool exact = true;
            for (int k = 0; k < 4; ++k) { pn.co[k] = p.co[k] / p.co[3]; pn.ct[k] = (T) pn.co[k]; exact = exact && (H) pn.ct[k] == pn.co[k]; }
            if (exact)
            {
                T xn[3] = {(T) 12345, (T) 12345, (T) 12345};
                int nn = IM::solveNormalizedCubic (pn.ct[2], pn.ct[1], pn.ct[0], xn);
                c.cls ("normalized_entry_point");
                judge_roots<T> (c, idx, "solveNormalizedCubic", pn, 3, nn, xn, CC, 1);
            }
        }
    }
    else
    {
        // expected: exactly what the lower-degree solver returns on the remaining coefficients, and the truth
        T xl[3] = {(T) 12345, (T) 12345, (T) 12345};
        int nl = IM::solveQuadratic (p.ct[2], p.ct[1], p.ct[0], xl);
        T   x1 = (T) 12345;
        int n1 = deleg >= 2 ? IM::solveLinear (p.ct[1], p.ct[0], x1) : nl;
        bool same = n == nl && bits_equal (x[0], xl[0]) && bits_equal (x[1], xl[1]) && (deleg == 1 || (n == n1 && bits_equal (x[0], x1)));
        c.eval ();
        if (!same)
            c.fail ("solveCubic." + ty + ":" + (deleg == 1 ? "delegation_to_quadratic" : deleg == 2 ? "delegation_to_linear" : "delegation_all_leading_zero"), idx,
                    [&] { double cd[4] = {(double) p.ct[0], (double) p.ct[1], (double) p.ct[2], (double) p.ct[3]}; double a3[3] = {(double) x[0], (double) x[1], (double) x[2]}, a2[3] = {(double) xl[0], (double) xl[1], 0};
                          return Obj ().arr ("coeff_x0_to_x3", cd, 4).kv ("cubic_returned", n).kv ("lower_degree_returned", nl).arr ("x_cubic", a3, 3).arr ("x_lower", a2, 2).str (); });
        judge_roots<T> (c, idx, "solveCubic", p, deg, n, x, deg == 2 ? C_QUAD : C_LINEAR, 0);
    }
    c.sample (p.fam, [&] { double cd[4] = {(double) p.ct[0], (double) p.ct[1], (double) p.ct[2], (double) p.ct[3]}; double gr[3] = {(double) x[0], (double) x[1], (double) x[2]}; return Obj ().arr ("coeff_x0_to_x3", cd, 4).kv ("returned", n).arr ("roots", gr, n > 0 ? (size_t) n : 0).str (); });
}

static void sub_roots_f (Ctx& c, uint64_t i) { sub_roots<float> (c, i); }
static void sub_roots_d (Ctx& c, uint64_t i) { sub_roots<double> (c, i); }
#define ROOTS_REQ                                                                                                                              \
    {"linear_lattice", "linear_random", "linear_degenerate", "one_solution", "no_solution", "all_reals", "quadratic_two_roots", "zero_root",      \
     "symmetric_roots", "close_pair", "quadratic_double_root", "quadratic_no_real_root", "quadratic_random", "quadratic_delegates_to_linear",     \
     "cubic_three_real", "cubic_one_real_complex_pair", "cubic_shifted_pure_t_positive", "cubic_shifted_pure_t_negative", "cubic_triple_root",    \
     "cubic_double_root", "cubic_three_real_rounded", "cubic_three_real_logscale_rounded", "cubic_one_real_complex_pair_rounded",                 \
     "cubic_delegates_quadratic_two_roots", "cubic_delegates_quadratic_double_root", "cubic_delegates_quadratic_no_root",                         \
     "cubic_delegates_linear", "cubic_all_leading_zero", "normalized_entry_point", "three_real_roots", "two_real_roots", "one_real_root",         \
     "no_real_root"}
MON_SUB_IDX (sub_roots_f, "roots_float", 3200000, 160000000)
    .req (ROOTS_REQ)
    .over ("solveLinear/Quadratic/Cubic/NormalizedCubic<float> on 16 polynomial families (idx mod 16) built from chosen roots: lattice roots "
           "k*2^sh (|k| < 2^6) with exactly representable coefficients, random roots with rounded coefficients, double/triple roots decided "
           "exactly, vanishing leading coefficients; count + every root vs truth, tolerance C*eps*(cond [+ S for the cubic])");
MON_SUB_IDX (sub_roots_d, "roots_double", 3200000, 160000000)
    .req (ROOTS_REQ)
    .over ("as roots_float for double (|k| < 2^15), truth and conditioning in __float128");

// ---- literal anchors: the polynomial of the previously fixed defect and a handful of textbook cases
static void
sub_roots_literals (Ctx& c, uint64_t idx)
{
    struct Lit { double a, b, cc, d; int want; double r[3]; };
    static const Lit L[] = {
        {1, 0, 0, 8, 1, {-2, 0, 0}},      // (fixed) NaN: depressed cubic with p = 0, q > 0
        {1, 0, 0, -8, 1, {2, 0, 0}},
        {1, 0, 0, 27, 1, {-3, 0, 0}},
        {2, 0, 0, 2, 1, {-1, 0, 0}},
        {1, -3, 3, 7, 1, {-1, 0, 0}},     // (x-1)^3 + 8
        {1, -3, 3, -9, 1, {3, 0, 0}},     // (x-1)^3 - 8
        {1, -6, 11, -6, 3, {1, 2, 3}},
        {1, 0, -7, 6, 3, {-3, 1, 2}},
        {1, 0, 1, 0, 1, {0, 0, 0}},       // x(x^2+1)
        {1, -1, 1, -1, 1, {1, 0, 0}},     // (x-1)(x^2+1)
        {1, 0, 0, 0, 1, {0, 0, 0}},       // x^3
        {1, -3, 3, -1, 1, {1, 0, 0}},     // (x-1)^3
        {1, 0, -3, 2, 2, {-2, 1, 0}},     // (x-1)^2 (x+2)
        {0, 1, -3, 2, 2, {1, 2, 0}},
        {0, 1, -2, 1, 1, {1, 0, 0}},
        {0, 1, 0, 1, 0, {0, 0, 0}},
        {0, 0, 2, -4, 1, {2, 0, 0}},
        {0, 0, 0, 1, 0, {0, 0, 0}},
        {0, 0, 0, 0, -1, {0, 0, 0}},
    };
    const size_t NL = sizeof (L) / sizeof (L[0]);
    const Lit&   l = L[idx % NL];
    bool         flt = (idx / NL) % 2;
    c.eval ();
    c.cls (flt ? "float" : "double");
    c.nontrivial_enum (1);
    double g[3] = {0, 0, 0};
    int    n;
    if (flt) { float x[3] = {0, 0, 0}; n = IM::solveCubic ((float) l.a, (float) l.b, (float) l.cc, (float) l.d, x); for (int i = 0; i < 3; ++i) g[i] = x[i]; }
    else { double x[3] = {0, 0, 0}; n = IM::solveCubic (l.a, l.b, l.cc, l.d, x); for (int i = 0; i < 3; ++i) g[i] = x[i]; }
    auto desc = [&] { double cd[4] = {l.a, l.b, l.cc, l.d}; return Obj ().arr ("a_b_c_d", cd, 4).kv ("type", flt ? "float" : "double").kv ("returned", n).arr ("roots", g, 3).kv ("expected", l.want).arr ("roots_true", l.r, 3).str (); };
    std::string key = std::string ("solveCubic.") + (flt ? "float" : "double") + ":literal[" + std::to_string (idx % NL) + "]";
    if (n != l.want) { c.fail (key, idx, desc); return; }
    if (n > 0)
    {
        for (int i = 0; i < n; ++i) if (!std::isfinite (g[i])) { c.fail (key, idx, desc); return; }
        std::sort (g, g + n);
        double tol = 64 * (flt ? 1.1920928955078125e-07 : 2.220446049250313e-16) * 4; // small-integer literals: scale <= 4
        for (int i = 0; i < n; ++i) if (!(std::fabs (g[i] - l.r[i]) <= tol)) { c.fail (key, idx, desc); return; }
    }
    c.sample (flt ? "float" : "double", desc);
}
MON_SUB_IDX (sub_roots_literals, "roots_literals", 38, 38)
    .req ({"float", "double"})
    .exh ()
    .noscale ()
    .chunked (4)
    .over ("19 literal polynomials (incl. x^3+8 = 0 of the fixed NaN defect, double/triple roots, all delegation levels) x {float,double} through solveCubic");
