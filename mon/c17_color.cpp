// C17 (part 3 of 3) - ImathColorAlgo.h / .cpp: rgb2hsv, hsv2rgb, rgb2packed, packed2rgb.
//
//   hsv_roundtrip_{float,double}   rgb in the unit cube (grey axis, black/white, cube vertices and edges, hue wrap, sector
//                                  boundaries, near-grey, dark, 8-bit lattice, random): hsv components in [0,1];
//                                  hsv2rgb(rgb2hsv(c)) = c; rgb2hsv(c) = textbook hexcone model evaluated with index loops in
//                                  higher precision.  hsv in the unit cube (sat = 0, val = 0, hue = 0 / 1 / k/6 +- ulps, ...):
//                                  hsv2rgb(h) = the "k = (n + 6h) mod 6" closed form in higher precision;
//                                  rgb2hsv(hsv2rgb(h)) = h with hue compared modulo 1, hue ignored where it is undefined
//                                  (sat = 0 or val = 0), sat ignored where val = 0.
//   hsv_overloads_<T>              Vec3<T> and Color4<T> overloads give bit-identical rgb/hsv, alpha comes back unchanged,
//                                  for T = float, double, unsigned char (ALL 2^24 colours), short, int; integer results equal
//                                  trunc(model(v/max)*max) (either neighbour accepted where the product is within rounding of
//                                  an integer).
//   packed_roundtrip_float         all 2^32 packed colours: rgb2packed(packed2rgb(p)) == p through Color4<float>, low 24 bits
//                                  (and alpha forced to 0xFF) through Vec3<float>.
#include "c17_common.h"
#include <ImathColor.h>
#include <ImathColorAlgo.h>
#include <ImathVec.h>

using namespace mon;
using namespace c17;
namespace IM = IMATH_INTERNAL_NAMESPACE;

static inline long double hfloor (long double x) { return floorl (x); }
static inline __float128  hfloor (__float128 x) { return floorq (x); }

// ---- textbook models -----------------------------------------------------------------------
// hexcone: V = max, S = (max-min)/max, hue = (2*imax + (c[imax+1]-c[imax+2])/(max-min))/6 mod 1
template <class H>
static void
model_rgb2hsv (const H c[3], H out[3])
{
    int imax = 0, imin = 0;
    for (int i = 1; i < 3; ++i) { if (c[i] > c[imax]) imax = i; if (c[i] < c[imin]) imin = i; }
    H mx = c[imax], ch = mx - c[imin];
    out[2] = mx;
    out[1] = mx > 0 ? ch / mx : (H) 0;
    out[0] = 0;
    if (ch > 0)
    {
        H h = ((H) (2 * imax) + (c[(imax + 1) % 3] - c[(imax + 2) % 3]) / ch) / 6;
        out[0] = h < 0 ? h + 1 : h;
    }
}
// closed form: channel n in (5,3,1):  v - v s max(0, min(k, 4-k, 1)),  k = (n + 6 h) mod 6
template <class H>
static void
model_hsv2rgb (const H h[3], H out[3])
{
    static const int n[3] = {5, 3, 1};
    for (int i = 0; i < 3; ++i)
    {
        H k = (H) n[i] + 6 * h[0];
        k -= 6 * hfloor (k / 6);
        H m = hmin (hmin (k, 4 - k), (H) 1);
        out[i] = h[2] - h[2] * h[1] * hmax (m, (H) 0);
    }
}
template <class H> static H circ (H a, H b) { H d = habs (a - b); d -= hfloor (d); return hmin (d, 1 - d); }

// ---- calibrated constants (worst observed ratios: see "worst" in the evidence)
static const double C_RT_RGB = 48.0;  // |hsv2rgb(rgb2hsv(c)) - c|        <= C eps val
static const double C_MODEL = 32.0;   // |rgb2hsv(c) - model|, |hsv2rgb(h) - model| <= C eps (unit scale resp. val)
static const double C_RT_HSV = 16.0;  // |rgb2hsv(hsv2rgb(h)) - h|: val: C eps val, sat: C eps, hue: C eps (1 + 1/sat)

template <class T>
static void
sub_hsv_roundtrip (Ctx& c, uint64_t idx)
{
    typedef typename FT<T>::hp H;
    const std::string ty = FT<T>::name ();
    const double      eps = FT<T>::eps ();
    Rng               r = c.rng (idx);
    auto U = [&] { return (T) r.uniform (); };
    if (idx % 2 == 0)
    {
        // ------------------------------------------------------------ rgb -> hsv -> rgb
        T           v[3];
        const char* k;
        switch ((idx / 2) % 12)
        {
            case 0: k = "random"; for (T& x: v) x = U (); break;
            case 1: k = "grey_axis"; v[0] = v[1] = v[2] = r.one_in (8) ? (T) (r.range (0, 255) / 255.0) : U (); break;
            case 2: k = "black_white"; v[0] = v[1] = v[2] = (T) (r.coin () ? 0 : 1); break;
            case 3: k = "cube_vertex"; { unsigned m = (unsigned) r.range (1, 6); for (int i = 0; i < 3; ++i) v[i] = (T) ((m >> i) & 1); } break;
            case 4: k = "cube_edge_or_face"; for (T& x: v) x = U (); v[r.range (0, 2)] = (T) (r.coin () ? 0 : 1); if (r.coin ()) v[r.range (0, 2)] = (T) (r.coin () ? 0 : 1); break;
            case 5: // hue wrap: red is the maximum, green ~ blue on either side
            {
                k = "hue_wrap";
                T lo = U () * (T) 0.9;
                v[0] = lo + (T) 0.05 + U () * (T) 0.05; v[1] = lo; v[2] = lo;
                T d = (T) std::ldexp (r.uniform (), -(int) r.range (1, 40)) * (v[0] - lo);
                if (r.coin ()) v[1] += d; else v[2] += d;
                break;
            }
            case 6: // two equal maxima / two equal minima: sector boundaries
            {
                k = "sector_boundary";
                T a = U (), b = U ();
                int i = (int) r.range (0, 2), j = (i + 1 + (int) r.range (0, 1)) % 3;
                for (T& x: v) x = std::min (a, b);
                v[i] = std::max (a, b);
                if (r.coin ()) v[j] = v[i];
                break;
            }
            case 7: k = "near_grey"; { T g = (T) r.uniform (0.05, 1); for (T& x: v) x = g * (T) (1 - std::ldexp (r.uniform (), -(int) r.range (4, 30))); } break;
            case 8: k = "dark"; { T s = (T) std::ldexp (1.0, -(int) r.range (8, 60)); for (T& x: v) x = U () * s; } break;
            case 9: k = "lattice_255"; for (T& x: v) x = (T) (r.range (0, 255) / 255.0); break;
            case 10: k = "one_channel"; v[0] = v[1] = v[2] = 0; v[r.range (0, 2)] = U (); break;
            default: k = "two_channels"; for (T& x: v) x = U (); v[r.range (0, 2)] = 0; break;
        }
        c.cls (k);
        c.eval (3);
        c.nontrivial (hmix (hmix (hbits (v[0]), hbits (v[1]) * 3), hbits (v[2]) * 5));
        IM::Vec3<T> in (v[0], v[1], v[2]);
        IM::Vec3<T> h = IM::rgb2hsv (in);
        IM::Vec3<T> back = IM::hsv2rgb (h);
        auto desc = [&] { double a[3] = {(double) v[0], (double) v[1], (double) v[2]}, b[3] = {(double) h.x, (double) h.y, (double) h.z}, d[3] = {(double) back.x, (double) back.y, (double) back.z};
                          return Obj ().arr ("rgb", a, 3).arr ("rgb2hsv", b, 3).arr ("hsv2rgb_of_that", d, 3).str (); };
        // hsv in [0,1]
        for (int i = 0; i < 3; ++i)
            if (!(h[i] >= 0 && h[i] <= 1)) c.fail ("rgb2hsv." + ty + ":hsv_outside_unit_interval[" + "hsv"[i] + "]", idx, desc);
        H hv[3] = {(H) v[0], (H) v[1], (H) v[2]}, m[3];
        H val = hmax (hv[0], hmax (hv[1], hv[2]));
        H tiny = (H) std::numeric_limits<T>::denorm_min ();
        // round trip
        for (int i = 0; i < 3; ++i)
        {
            H err = habs ((H) back[i] - hv[i]);
            double ratio = (double) (err / ((H) eps * val + tiny));
            c.worst (sizeof (T) == 4 ? "hsv2rgb(rgb2hsv).float.err/(eps*val)" : "hsv2rgb(rgb2hsv).double.err/(eps*val)", ratio, idx, desc);
            if (!(ratio <= C_RT_RGB)) { c.fail ("hsv2rgb_of_rgb2hsv." + ty + ":" + k, idx, desc); break; }
        }
        // definition
        model_rgb2hsv<H> (hv, m);
        {
            H e0 = circ ((H) h[0], m[0]), e1 = habs ((H) h[1] - m[1]), e2 = habs ((H) h[2] - m[2]);
            double r0 = (double) (e0 / (H) eps), r1 = (double) (e1 / (H) eps), r2 = (double) (e2 / ((H) eps * val + tiny));
            c.worst (sizeof (T) == 4 ? "rgb2hsv.float.hue_err/eps" : "rgb2hsv.double.hue_err/eps", r0, idx, desc);
            c.worst (sizeof (T) == 4 ? "rgb2hsv.float.sat_err/eps" : "rgb2hsv.double.sat_err/eps", r1, idx, desc);
            if (!(r0 <= C_MODEL)) c.fail ("rgb2hsv." + ty + ":hue_vs_model", idx, desc);
            if (!(r1 <= C_MODEL)) c.fail ("rgb2hsv." + ty + ":sat_vs_model", idx, desc);
            if (!(r2 <= C_MODEL)) c.fail ("rgb2hsv." + ty + ":val_vs_model", idx, desc);
        }
        c.sample (k, desc);
    }
    else
    {
        // ------------------------------------------------------------ hsv -> rgb -> hsv
        T           h[3];
        const char* k;
        switch ((idx / 2) % 12)
        {
            case 0: k = "hsv_random"; for (T& x: h) x = U (); break;
            case 1: k = "sat_zero"; h[0] = U (); h[1] = 0; h[2] = U (); break;
            case 2: k = "val_zero"; h[0] = U (); h[1] = U (); h[2] = 0; break;
            case 3: k = "hue_zero_or_one"; h[0] = (T) (r.coin () ? 0 : 1); h[1] = U (); h[2] = U (); break;
            case 4: // sector boundaries k/6 +- a few ulps
            {
                k = "hue_sector_boundary";
                T b = (T) (r.range (0, 6) / 6.0);
                for (int n = (int) r.range (-2, 2); n != 0; n += n < 0 ? 1 : -1) b = std::nextafter (b, n > 0 ? (T) 2 : (T) -1);
                h[0] = std::min (std::max (b, (T) 0), (T) 1); h[1] = U (); h[2] = U ();
                break;
            }
            case 5: k = "hue_just_below_one"; h[0] = (T) 1 - (T) std::ldexp (r.uniform (), -(int) r.range (1, 50)); if (h[0] > 1) h[0] = 1; h[1] = U (); h[2] = U (); break;
            case 6: k = "sat_one"; h[0] = U (); h[1] = 1; h[2] = U (); break;
            case 7: k = "val_one"; h[0] = U (); h[1] = U (); h[2] = 1; break;
            case 8: k = "low_saturation"; h[0] = U (); h[1] = (T) std::ldexp (r.uniform (), -(int) r.range (1, 30)); h[2] = (T) r.uniform (0.05, 1); break;
            case 9: k = "low_value"; h[0] = U (); h[1] = U (); h[2] = (T) std::ldexp (1 + r.uniform (), -(int) r.range (8, 60)); break;
            case 10: k = "hsv_lattice"; h[0] = (T) (r.range (0, 12) / 12.0); h[1] = (T) (r.range (0, 4) / 4.0); h[2] = (T) (r.range (0, 4) / 4.0); break;
            default: k = "hsv_cube_corner"; for (T& x: h) x = (T) (r.coin () ? 0 : 1); break;
        }
        c.cls (k);
        c.eval (3);
        c.nontrivial (hmix (hmix (hbits (h[0]), hbits (h[1]) * 3), hbits (h[2]) * 7));
        IM::Vec3<T> in (h[0], h[1], h[2]);
        IM::Vec3<T> rgb = IM::hsv2rgb (in);
        IM::Vec3<T> back = IM::rgb2hsv (rgb);
        auto desc = [&] { double a[3] = {(double) h[0], (double) h[1], (double) h[2]}, b[3] = {(double) rgb.x, (double) rgb.y, (double) rgb.z}, d[3] = {(double) back.x, (double) back.y, (double) back.z};
                          return Obj ().arr ("hsv", a, 3).arr ("hsv2rgb", b, 3).arr ("rgb2hsv_of_that", d, 3).str (); };
        H hh[3] = {(H) h[0], (H) h[1], (H) h[2]}, m[3];
        H val = hh[2], sat = hh[1];
        H tiny = (H) std::numeric_limits<T>::denorm_min ();
        for (int i = 0; i < 3; ++i)
            if (!(rgb[i] >= 0 && rgb[i] <= 1)) c.fail ("hsv2rgb." + ty + ":rgb_outside_unit_interval[" + "rgb"[i] + "]", idx, desc);
        model_hsv2rgb<H> (hh, m);
        for (int i = 0; i < 3; ++i)
        {
            double ratio = (double) (habs ((H) rgb[i] - m[i]) / ((H) eps * val + tiny));
            c.worst (sizeof (T) == 4 ? "hsv2rgb.float.err/(eps*val)" : "hsv2rgb.double.err/(eps*val)", ratio, idx, desc);
            if (!(ratio <= C_MODEL)) { c.fail ("hsv2rgb." + ty + ":channel_" + "rgb"[i] + "_vs_model", idx, desc); break; }
        }
        for (int i = 0; i < 3; ++i)
            if (!(back[i] >= 0 && back[i] <= 1)) c.fail ("rgb2hsv." + ty + ":hsv_outside_unit_interval[" + "hsv"[i] + "]", idx, desc);
        // inverse: value always; saturation where val > 0; hue where val > 0 and sat > 0 (modulo 1)
        {
            double rv = (double) (habs ((H) back[2] - val) / ((H) eps * val + tiny));
            c.worst (sizeof (T) == 4 ? "rgb2hsv(hsv2rgb).float.val_err/(eps*val)" : "rgb2hsv(hsv2rgb).double.val_err/(eps*val)", rv, idx, desc);
            if (!(rv <= C_RT_HSV)) c.fail ("rgb2hsv_of_hsv2rgb." + ty + ":val", idx, desc);
        }
        if (val >= (H) std::numeric_limits<T>::min () * 1024)
        {
            double rs = (double) (habs ((H) back[1] - sat) / (H) eps);
            c.worst (sizeof (T) == 4 ? "rgb2hsv(hsv2rgb).float.sat_err/eps" : "rgb2hsv(hsv2rgb).double.sat_err/eps", rs, idx, desc);
            if (!(rs <= C_RT_HSV)) c.fail ("rgb2hsv_of_hsv2rgb." + ty + ":sat", idx, desc);
            if (sat > 0)
            {
                H unit = (H) eps * (1 + 1 / sat);
                if ((double) ((H) C_RT_HSV * unit) > 1e-2) c.cls ("skipped_hue_illconditioned");
                else
                {
                    c.cls ("hue_inverse_judged");
                    double rh = (double) (circ ((H) back[0], hh[0]) / unit);
                    c.worst (sizeof (T) == 4 ? "rgb2hsv(hsv2rgb).float.hue_err/(eps*(1+1/sat))" : "rgb2hsv(hsv2rgb).double.hue_err/(eps*(1+1/sat))", rh, idx, desc);
                    if (!(rh <= C_RT_HSV)) c.fail ("rgb2hsv_of_hsv2rgb." + ty + ":hue", idx, desc);
                }
            }
            else c.cls ("hue_undefined_sat_zero");
        }
        else c.cls ("sat_hue_undefined_val_zero");
        c.sample (k, desc);
    }
}
static void sub_hsv_rt_f (Ctx& c, uint64_t i) { sub_hsv_roundtrip<float> (c, i); }
static void sub_hsv_rt_d (Ctx& c, uint64_t i) { sub_hsv_roundtrip<double> (c, i); }
#define HSV_REQ                                                                                                                            \
    {"random", "grey_axis", "black_white", "cube_vertex", "cube_edge_or_face", "hue_wrap", "sector_boundary", "near_grey", "dark",           \
     "lattice_255", "one_channel", "two_channels", "hsv_random", "sat_zero", "val_zero", "hue_zero_or_one", "hue_sector_boundary",           \
     "hue_just_below_one", "sat_one", "val_one", "low_saturation", "low_value", "hsv_lattice", "hsv_cube_corner", "hue_inverse_judged",      \
     "hue_undefined_sat_zero", "sat_hue_undefined_val_zero"}
MON_SUB_IDX (sub_hsv_rt_f, "hsv_roundtrip_float", 2400000, 240000000).req (HSV_REQ).over ("Vec3<float> rgb / hsv triples of the unit cube from 12 + 12 classes (even idx: rgb first, odd idx: hsv first)");
MON_SUB_IDX (sub_hsv_rt_d, "hsv_roundtrip_double", 2400000, 240000000).req (HSV_REQ).over ("Vec3<double> rgb / hsv triples of the unit cube from 12 + 12 classes; models in __float128");

// =====================================================================================
// Vec3 / Color4 overloads, alpha, integer scaling
// =====================================================================================
template <class T> struct CT;
template <> struct CT<float> { static const char* name () { return "float"; } };
template <> struct CT<double> { static const char* name () { return "double"; } };
template <> struct CT<unsigned char> { static const char* name () { return "uchar"; } };
template <> struct CT<short> { static const char* name () { return "short"; } };
template <> struct CT<int> { static const char* name () { return "int"; } };

template <class T>
static void
check_overloads (Ctx& c, uint64_t idx, const T v[3], T alpha, const char* k, bool bulk = false, uint64_t* n_borderline = nullptr)
{
    const bool        integer = std::numeric_limits<T>::is_integer;
    const std::string ty = CT<T>::name ();
    const long double mx = integer ? (long double) std::numeric_limits<T>::max () : 1.0L;
    IM::Vec3<T>   v3 (v[0], v[1], v[2]);
    IM::Color4<T> c4 (v[0], v[1], v[2], alpha);
    if (!bulk) c.eval (4);
    for (int dir = 0; dir < 2; ++dir)
    {
        const char*   fn = dir == 0 ? "rgb2hsv" : "hsv2rgb";
        IM::Vec3<T>   o3 = dir == 0 ? IM::rgb2hsv (v3) : IM::hsv2rgb (v3);
        IM::Color4<T> o4 = dir == 0 ? IM::rgb2hsv (c4) : IM::hsv2rgb (c4);
        auto desc = [&] { double a[4] = {(double) v[0], (double) v[1], (double) v[2], (double) alpha}, b[3] = {(double) o3.x, (double) o3.y, (double) o3.z}, d[4] = {(double) o4.r, (double) o4.g, (double) o4.b, (double) o4.a};
                          return Obj ().kv ("function", fn).arr ("input_and_alpha", a, 4).arr ("Vec3_overload", b, 3).arr ("Color4_overload", d, 4).str (); };
        bool same = std::memcmp (&o3.x, &o4.r, sizeof (T)) == 0 && std::memcmp (&o3.y, &o4.g, sizeof (T)) == 0 && std::memcmp (&o3.z, &o4.b, sizeof (T)) == 0;
        if (!same) c.fail (std::string (fn) + "." + ty + ":vec3_color4_overloads_differ", idx, desc);
        if (std::memcmp (&o4.a, &alpha, sizeof (T)) != 0) c.fail (std::string (fn) + "." + ty + ":color4_overload_alpha_not_passed_through", idx, desc);
        if (integer)
        {
            // scaling by the maximum: result = trunc(model(v/max) * max); either neighbour where within rounding of an integer
            long double in[3] = {(long double) v[0] / mx, (long double) v[1] / mx, (long double) v[2] / mx}, m[3];
            if (dir == 0) model_rgb2hsv<long double> (in, m); else model_hsv2rgb<long double> (in, m);
            long double band = 32 * 2.220446049250313e-16L * mx + 1e-12L;
            for (int i = 0; i < 3; ++i)
            {
                long double ref = m[i] * mx;
                long double lo = floorl (ref - band), hi = floorl (ref + band);
                long double got = (long double) o3[i];
                if (lo != hi) { if (bulk) ++*n_borderline; else c.cls ("integer_scaling_borderline"); }
                if (!(got >= lo && got <= hi))
                    c.fail (std::string (fn) + "." + ty + ":integer_scaling_" + (dir == 0 ? "hsv" : "rgb")[i], idx, [&] { return Obj ().raw ("case", desc ()).kv ("component", i).kv ("model_times_max", (double) ref).str (); });
            }
            if (!bulk) c.cls ("integer_scaling_judged");
        }
        if (dir == 0 && !bulk) c.sample (k, desc);
    }
}

template <class T>
static void
sub_overloads_real (Ctx& c, uint64_t idx)
{
    Rng r = c.rng (idx);
    T   v[3], a;
    const char* k;
    switch (idx % 4)
    {
        case 0: k = "random"; for (T& x: v) x = (T) r.uniform (); break;
        case 1: k = "grey_axis"; v[0] = v[1] = v[2] = (T) r.uniform (); break;
        case 2: k = "lattice_255"; for (T& x: v) x = (T) (r.range (0, 255) / 255.0); break;
        default: k = "cube_face"; for (T& x: v) x = (T) r.uniform (); v[r.range (0, 2)] = (T) (r.coin () ? 0 : 1); break;
    }
    switch (r.range (0, 5))
    {
        case 0: a = 0; break;
        case 1: a = 1; break;
        case 2: a = (T) r.logscale (-60, 60); break; // alpha is passed through whatever it is
        case 3: a = -(T) r.uniform (); break;
        default: a = (T) r.uniform (); break;
    }
    c.cls (k);
    c.nontrivial (hmix (hmix (hbits (v[0]), hbits (v[1]) * 3), hmix (hbits (v[2]), hbits (a))));
    check_overloads<T> (c, idx, v, a, k);
}
static void sub_ov_f (Ctx& c, uint64_t i) { sub_overloads_real<float> (c, i); }
static void sub_ov_d (Ctx& c, uint64_t i) { sub_overloads_real<double> (c, i); }
MON_SUB_IDX (sub_ov_f, "hsv_overloads_float", 1000000, 100000000).req ({"random", "grey_axis", "lattice_255", "cube_face"}).over ("Vec3<float> vs Color4<float> rgb2hsv / hsv2rgb on unit-cube triples, alpha arbitrary");
MON_SUB_IDX (sub_ov_d, "hsv_overloads_double", 1000000, 100000000).req ({"random", "grey_axis", "lattice_255", "cube_face"}).over ("Vec3<double> vs Color4<double> rgb2hsv / hsv2rgb on unit-cube triples, alpha arbitrary");

// unsigned char: every one of the 2^24 colours, alpha cycling through all 256 values
static void
sub_overloads_uchar (Ctx& c, uint64_t b, uint64_t e)
{
    uint64_t n_grey = 0, n_max = 0, n_gen = 0, n_border = 0;
    for (uint64_t i = b; i < e; ++i)
    {
        unsigned char v[3] = {(unsigned char) (i & 255), (unsigned char) ((i >> 8) & 255), (unsigned char) ((i >> 16) & 255)};
        unsigned char a = (unsigned char) (splitmix64 (i ^ (c.seed << 32)) & 255);
        if ((i & 0xffff) < 256) a = (unsigned char) (i & 255); // every alpha value, deterministically
        const char* k = (v[0] == v[1] && v[1] == v[2]) ? (++n_grey, "grey_axis") : (v[0] == 255 || v[1] == 255 || v[2] == 255) ? (++n_max, "max_channel") : (++n_gen, "generic");
        check_overloads<unsigned char> (c, i, v, a, k, true, &n_border);
        if ((i & 0xfffff) == 0x12345) check_overloads<unsigned char> (c, i, v, a, k); // a few literal samples for the evidence
    }
    c.eval (4 * (e - b));
    c.nontrivial_enum (e - b);
    c.cls ("grey_axis", n_grey); c.cls ("max_channel", n_max); c.cls ("generic", n_gen);
    c.cls ("integer_scaling_judged", 2 * (e - b)); c.cls ("integer_scaling_borderline", n_border);
}
MON_SUB (sub_overloads_uchar, "hsv_overloads_uchar_all", 1ull << 24, 1ull << 24)
    .req ({"grey_axis", "max_channel", "generic", "integer_scaling_judged"})
    .exh ()
    .chunked (1u << 12)
    .over ("all 2^24 (x,y,z) triples of unsigned char through rgb2hsv and hsv2rgb, Vec3 and Color4 overloads, every alpha value");

template <class T>
static void
sub_overloads_int (Ctx& c, uint64_t idx)
{
    const long mx = std::numeric_limits<T>::max ();
    Rng r = c.rng (idx);
    auto pick = [&] () -> T {
        switch (r.range (0, 7))
        {
            case 0: return (T) 0;
            case 1: return (T) mx;
            case 2: return (T) (mx - r.range (0, 3));
            case 3: return (T) r.range (0, 3);
            case 4: return (T) (mx / 2 + r.range (-1, 1));
            case 5: return (T) ((mx / 255) * r.range (0, 255));
            default: return (T) r.range (0, mx);
        }
    };
    T v[3] = {pick (), pick (), pick ()}, a = pick ();
    const char* k = "random";
    if (idx % 4 == 1) { k = "grey_axis"; v[1] = v[2] = v[0]; }
    if (idx % 4 == 2) { k = "max_channel"; v[r.range (0, 2)] = (T) mx; }
    if (idx % 4 == 3) { k = "close_channels"; v[1] = (T) std::max (0l, std::min (mx, (long) v[0] + r.range (-2, 2))); }
    c.cls (k);
    c.nontrivial (hmix (hmix ((uint64_t) v[0], (uint64_t) v[1] * 3), hmix ((uint64_t) v[2], (uint64_t) a)));
    check_overloads<T> (c, idx, v, a, k);
}
static void sub_ov_s (Ctx& c, uint64_t i) { sub_overloads_int<short> (c, i); }
static void sub_ov_i (Ctx& c, uint64_t i) { sub_overloads_int<int> (c, i); }
MON_SUB_IDX (sub_ov_s, "hsv_overloads_short", 1000000, 100000000).req ({"random", "grey_axis", "max_channel", "close_channels", "integer_scaling_judged"}).over ("Vec3<short> vs Color4<short>, components in [0,32767] (boundary-heavy), scaling by 32767 against the long double model");
MON_SUB_IDX (sub_ov_i, "hsv_overloads_int", 1000000, 100000000).req ({"random", "grey_axis", "max_channel", "close_channels", "integer_scaling_judged"}).over ("Vec3<int> vs Color4<int>, components in [0,2^31-1] (boundary-heavy), scaling by 2^31-1 against the long double model");

// alpha pass-through for the integer types, every value (short: all 2^15, uchar: all 2^8) / sampled (int)
static void
sub_alpha_int (Ctx& c, uint64_t idx)
{
    Rng r = c.rng (idx);
    c.eval (2);
    c.nontrivial_enum (1);
    if (idx < 32768)
    {
        short a = (short) idx;
        IM::Color4<short> in ((short) r.range (0, 32767), (short) r.range (0, 32767), (short) r.range (0, 32767), a);
        IM::Color4<short> h = IM::rgb2hsv (in), g = IM::hsv2rgb (in);
        c.cls ("short_all_values");
        if (h.a != a) c.fail ("rgb2hsv.short:color4_overload_alpha_not_passed_through", idx, [&] { return Obj ().kv ("alpha", (int) a).kv ("got", (int) h.a).str (); });
        if (g.a != a) c.fail ("hsv2rgb.short:color4_overload_alpha_not_passed_through", idx, [&] { return Obj ().kv ("alpha", (int) a).kv ("got", (int) g.a).str (); });
    }
    else
    {
        int a = idx % 8 == 0 ? INT_MAX - (int) r.range (0, 100) : idx % 8 == 1 ? (int) r.range (0, 100) : (int) r.range (0, INT_MAX);
        IM::Color4<int> in ((int) r.range (0, INT_MAX), (int) r.range (0, INT_MAX), (int) r.range (0, INT_MAX), a);
        IM::Color4<int> h = IM::rgb2hsv (in), g = IM::hsv2rgb (in);
        c.cls ("int_sampled");
        if (h.a != a) c.fail ("rgb2hsv.int:color4_overload_alpha_not_passed_through", idx, [&] { return Obj ().kv ("alpha", a).kv ("got", h.a).str (); });
        if (g.a != a) c.fail ("hsv2rgb.int:color4_overload_alpha_not_passed_through", idx, [&] { return Obj ().kv ("alpha", a).kv ("got", g.a).str (); });
    }
}
MON_SUB_IDX (sub_alpha_int, "hsv_alpha_integer", 32768 + 1000000, 32768 + 100000000)
    .req ({"short_all_values", "int_sampled"})
    .over ("alpha of Color4<short> (all 2^15 non-negative values) and Color4<int> (sampled, boundary-heavy) through rgb2hsv / hsv2rgb");

// =====================================================================================
// rgb2packed(packed2rgb(p)) == p for float-element colours : all 2^32 packed values
// =====================================================================================
static void
sub_packed (Ctx& c, uint64_t b, uint64_t e)
{
    static const char* chn[4] = {"r", "g", "b", "a"};
    // a pervasive failure would mean 2^32 calls of c.fail: the first witness per key and chunk is recorded
    // through c.fail, the remaining ones of the chunk are only counted (added to the violation's count below)
    uint64_t nfail[2][4] = {{0, 0, 0, 0}, {0, 0, 0, 0}};
    for (uint64_t i = b; i < e; ++i)
    {
        IM::PackedColor p = (IM::PackedColor) i;
        IM::C4f         c4;
        IM::V3f         v3;
        IM::packed2rgb (p, c4);
        IM::packed2rgb (p, v3);
        IM::PackedColor q4 = IM::rgb2packed (c4), q3 = IM::rgb2packed (v3);
        if (q4 != p)
            for (int k = 0; k < 4; ++k)
                if (((q4 >> (8 * k)) & 255) != ((p >> (8 * k)) & 255) && nfail[0][k]++ == 0)
                    c.fail (std::string ("rgb2packed_packed2rgb.Color4f:channel_") + chn[k], i, [&] { return Obj ().kv ("packed", hex32 (p)).kv ("got", hex32 (q4)).kv ("r", c4.r).kv ("g", c4.g).kv ("b", c4.b).kv ("a", c4.a).str (); });
        if (q3 != (p | 0xFF000000u))
            for (int k = 0; k < 4; ++k)
                if (((q3 >> (8 * k)) & 255) != (((p | 0xFF000000u) >> (8 * k)) & 255) && nfail[1][k]++ == 0)
                    c.fail (std::string ("rgb2packed_packed2rgb.Vec3f:channel_") + chn[k], i, [&] { return Obj ().kv ("packed", hex32 (p)).kv ("got", hex32 (q3)).kv ("x", v3.x).kv ("y", v3.y).kv ("z", v3.z).str (); });
        if ((i & 0xffffffull) == 0x804020ull && ((i >> 24) & 63) == 33)
            c.sample ("packed", [&] { return Obj ().kv ("packed", hex32 (p)).kv ("r", c4.r).kv ("g", c4.g).kv ("b", c4.b).kv ("a", c4.a).kv ("repacked", hex32 (q4)).str (); });
    }
    for (int o = 0; o < 2; ++o)
        for (int k = 0; k < 4; ++k)
            if (nfail[o][k] > 1)
            {
                auto it = c.viols.find (std::string (o == 0 ? "rgb2packed_packed2rgb.Color4f:channel_" : "rgb2packed_packed2rgb.Vec3f:channel_") + chn[k]);
                if (it != c.viols.end ()) it->second.count += nfail[o][k] - 1;
            }
    c.eval (2 * (e - b));
    c.nontrivial_enum (e - b);
    c.cls ("packed_values", e - b);
}
MON_SUB (sub_packed, "packed_roundtrip_float_all", 1ull << 32, 1ull << 32)
    .req ({"packed_values"})
    .exh ()
    .chunked (1u << 18)
    .over ("all 2^32 packed colours: rgb2packed(packed2rgb(p)) == p through Color4<float>; low 24 bits preserved and alpha forced to 0xFF through Vec3<float>");
