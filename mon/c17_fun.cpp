// C17 (part 1 of 3) - scalar utilities of ImathFun.h / ImathMath.h:
//   floor/ceil/trunc            all 2^32 floats (|x| < 2^31) + class-directed doubles, vs std::floor/ceil/trunc
//   succf/predf/finitef         all 2^32 floats vs a bit-level model; succd/predd/finited on class-directed doubles
//   divs/mods/divp/modp         all ordered pairs of a boundary-heavy int set, judged by the defining identities
//                               (x = y*q + r, truncation resp. 0 <= r < |y|) in int64 - no division in the oracle
//   abs sign cmp cmpt iszero equal clamp equalWithAbsError equalWithRelError
//                               float / double / int against their one-line definitions in higher precision
//   lerp ulerp lerpfactor       definitions in higher precision, lerpfactor(lerp(a,b,t),a,b) = t, overflow guard
// The monitor's main() lives here; c17_roots.cpp and c17_color.cpp register further sub-checks.
#include "c17_common.h"
#include <ImathFun.h>
#include <ImathMath.h>

using namespace mon;
using namespace c17;
namespace IM = IMATH_INTERNAL_NAMESPACE;

// =====================================================================================
// floor / ceil / trunc : every float of magnitude < 2^31
// =====================================================================================
static void
sub_fct_float (Ctx& c, uint64_t b, uint64_t e)
{
    uint64_t n_in = 0, n_skip = 0, n_negnon = 0, n_negint = 0, n_posnon = 0, n_posint = 0, n_zero = 0, n_den = 0, n_big = 0,
             n_unit = 0;
    unsigned nf1 = 0, nf2 = 0, nf3 = 0; // at most 64 witnesses per function (zeros: always) are recorded per chunk of 2^18 inputs (a pervasive failure must not cost 2^32 string operations)
    for (uint64_t i = b; i < e; ++i)
    {
        uint32_t u = (uint32_t) i, mag = u & 0x7fffffffu;
        if (mag >= 0x4f000000u) { ++n_skip; continue; } // |x| >= 2^31, inf, NaN: outside the quantifier
        float  f = u2f (u);
        double d = f;
        // mathematical functions: glibc on the exactly converted double; |result| <= 2^31-128 fits int
        long wf = (long) std::floor (d), wc = (long) std::ceil (d), wt = (long) std::trunc (d);
        int  gf = IM::floor (f), gc = IM::ceil (f), gt = IM::trunc (f);
        bool neg = (u >> 31) != 0, isint = (double) wf == d;
        const char* k;
        if (mag == 0) { k = "zero"; ++n_zero; }
        else if (mag < 0x00800000u) { k = "denormal"; ++n_den; }
        else if (mag >= 0x4e800000u) { k = "near_2p31"; ++n_big; }
        else if (mag < 0x3f800000u) { k = neg ? "neg_unit_interval" : "pos_unit_interval"; ++n_unit; }
        else if (neg) { if (isint) { k = "negative_integer"; ++n_negint; } else { k = "negative_noninteger"; ++n_negnon; } }
        else { if (isint) { k = "positive_integer"; ++n_posint; } else { k = "positive_noninteger"; ++n_posnon; } }
        ++n_in;
        if (gf != wf && (mag == 0 || nf1++ < 64)) c.fail (std::string ("floor.float:") + k, i, [&] { return Obj ().kv ("x_bits", hex32 (u)).kv ("x", d).kv ("got", gf).kv ("want", wf).str (); });
        if (gc != wc && (mag == 0 || nf2++ < 64)) c.fail (std::string ("ceil.float:") + k, i, [&] { return Obj ().kv ("x_bits", hex32 (u)).kv ("x", d).kv ("got", gc).kv ("want", wc).str (); });
        if (gt != wt && (mag == 0 || nf3++ < 64)) c.fail (std::string ("trunc.float:") + k, i, [&] { return Obj ().kv ("x_bits", hex32 (u)).kv ("x", d).kv ("got", gt).kv ("want", wt).str (); });
        if ((u & 0x3ffffu) == 0x2aaabu && ((u >> 23) & 7) == 5)
            c.sample (k, [&] { return Obj ().kv ("x_bits", hex32 (u)).kv ("x", d).kv ("floor", gf).kv ("ceil", gc).kv ("trunc", gt).str (); });
    }
    c.eval (3 * n_in);
    c.nontrivial_enum (n_in);
    c.cls ("zero", n_zero); c.cls ("denormal", n_den); c.cls ("near_2p31", n_big); c.cls ("unit_interval", n_unit);
    c.cls ("negative_integer", n_negint); c.cls ("negative_noninteger", n_negnon);
    c.cls ("positive_integer", n_posint); c.cls ("positive_noninteger", n_posnon);
    c.cls ("skipped_magnitude_ge_2p31_or_nonfinite", n_skip);
}
MON_SUB (sub_fct_float, "floor_ceil_trunc_float_all", 1ull << 32, 1ull << 32)
    .req ({"zero", "denormal", "near_2p31", "unit_interval", "negative_integer", "negative_noninteger", "positive_integer", "positive_noninteger"})
    .exh ()
    .chunked (1u << 18)
    .over ("all 2^32 float bit patterns; the 2*0x4f000000 patterns with |x| < 2^31 are judged (floor, ceil, trunc each) against "
           "std::floor/ceil/trunc of the exactly converted double; every judged pattern is a distinct case");

// =====================================================================================
// floor / ceil / trunc : doubles, class directed
// =====================================================================================
static const double TWO31 = 2147483648.0;

static double
nudge (double x, int ulps)
{
    for (; ulps > 0; --ulps) x = std::nextafter (x, INFINITY);
    for (; ulps < 0; ++ulps) x = std::nextafter (x, -INFINITY);
    return x;
}

static void
sub_fct_double (Ctx& c, uint64_t idx)
{
    Rng         r = c.rng (idx);
    double      x;
    const char* k;
    switch (idx % 13)
    {
        case 0: k = "near_integer_ulps"; x = nudge ((double) r.range (-2147483647ll, 2147483647ll), (int) r.range (-3, 3)); break;
        case 1: k = "half_integer"; x = (double) r.range (-2147483647ll, 2147483646ll) + 0.5; break;
        case 2: // within two units of +-2^31, incl. the slivers (-2^31,-2^31+1) and (2^31-1,2^31)
            k = "near_2p31";
            x = TWO31 - (r.coin () ? r.uniform (0, 2.5) : std::ldexp ((double) r.range (1, 1 << 20), -(int) r.range (0, 21)));
            if (r.coin ()) x = nudge (std::floor (x), (int) r.range (-2, 2));
            if (r.coin ()) x = -x;
            break;
        case 3: k = "integer"; x = (double) (r.one_in (4) ? (r.coin () ? 2147483647ll : -2147483647ll) : r.range (-2147483647ll, 2147483647ll)); break;
        case 4: // tiny magnitudes: floor(-tiny) = -1, ceil(+tiny) = 1
            k = "tiny";
            x = r.coin () ? u2d ((uint64_t) r.range (1, 0x001fffffffffffffll)) : std::ldexp (1.0 + r.uniform (), -(int) r.range (1, 1000));
            if (r.coin ()) x = -x;
            break;
        case 5: k = "zero"; x = r.coin () ? 0.0 : -0.0; break;
        case 6: k = "uniform"; x = r.uniform (-TWO31, TWO31); break;
        case 7: k = "logscale"; x = r.logscale (-60, 30); break;
        case 8: k = "small_integer_pm_tiny"; x = (double) r.range (-16, 16) + (r.coin () ? 1 : -1) * std::ldexp (1.0, -(int) r.range (1, 52)); break;
        case 9: k = "unit_boundary"; x = nudge (r.coin () ? 1.0 : -1.0, (int) r.range (-2, 2)); break;
        case 10: k = "power_of_two_ulps"; x = nudge (std::ldexp (r.coin () ? 1.0 : -1.0, (int) r.range (-4, 30)), (int) r.range (-2, 2)); break;
        case 11: k = "large_noninteger"; x = (double) r.range (-2147483647ll, 2147483646ll) + std::ldexp ((double) r.range (1, (1 << 22) - 1), -22); break;
        default: // the sliver itself, where Imath::floor's intermediate int(-x)+1 wraps
            k = "sliver_floor_intermediate_wrap";
            x = -(TWO31 - 1.0 + std::ldexp ((double) r.range (1, (1ll << 22) - 1), -22));
            break;
    }
    if (!(std::fabs (x) < TWO31)) { c.cls ("skipped_magnitude_ge_2p31"); return; }
    c.cls (k);
    double wf = std::floor (x), wc = std::ceil (x), wt = std::trunc (x);
    // mirror of the implementation's intermediates, in 64 bits, to know where IT overflows
    //   floor(x<0) = -(int(-x) + (-x > int(-x)))
    auto floor_wraps = [] (double v) { if (v >= 0) return false; double m = -v; long im = (long) m; return im + (m > (double) im ? 1 : 0) > (long) INT_MAX; };
    bool fl_wrap = floor_wraps (x);
    bool ce_wrap = floor_wraps (-x); // ceil(x) = -floor(-x)
    c.nontrivial (hmix (d2u (x), 17));
    auto in_int = [] (double v) { return v >= -2147483648.0 && v <= 2147483647.0; };
    // ---- floor
    if (!in_int (wf)) c.cls ("skipped_result_unrepresentable");
    else if (fl_wrap && kSanitizerBuild) c.cls ("sliver_skipped_in_sanitizer_build");
    else
    {
        if (fl_wrap) c.cls ("sliver_value_checked");
        c.eval ();
        int g = IM::floor (x);
        if ((double) g != wf) c.fail (std::string ("floor.double:") + k, idx, [&] { return Obj ().kv ("x", x).kv ("x_bits", hex64 (d2u (x))).kv ("got", g).kv ("want", wf).str (); });
    }
    // ---- ceil
    if (!in_int (wc)) c.cls ("skipped_result_unrepresentable");
    else if (ce_wrap && kSanitizerBuild) c.cls ("sliver_skipped_in_sanitizer_build"); // cannot happen: that sliver has ceil = 2^31
    else
    {
        c.eval ();
        int g = IM::ceil (x);
        if ((double) g != wc) c.fail (std::string ("ceil.double:") + k, idx, [&] { return Obj ().kv ("x", x).kv ("x_bits", hex64 (d2u (x))).kv ("got", g).kv ("want", wc).str (); });
    }
    // ---- trunc (|x| < 2^31: result and intermediates always fit)
    {
        c.eval ();
        int g = IM::trunc (x);
        if ((double) g != wt) c.fail (std::string ("trunc.double:") + k, idx, [&] { return Obj ().kv ("x", x).kv ("x_bits", hex64 (d2u (x))).kv ("got", g).kv ("want", wt).str (); });
    }
    c.sample (k, [&] { return Obj ().kv ("x", x).kv ("floor", wf).kv ("ceil", wc).kv ("trunc", wt).str (); });
}
MON_SUB_IDX (sub_fct_double, "floor_ceil_trunc_double", 4000000, 1000000000)
    .req ({"near_integer_ulps", "half_integer", "near_2p31", "integer", "tiny", "zero", "uniform", "logscale", "small_integer_pm_tiny",
           "unit_boundary", "power_of_two_ulps", "large_noninteger", "sliver_floor_intermediate_wrap"})
    .over ("doubles |x| < 2^31 from 13 classes (class = idx mod 13): integers +-0..3 ulps, half integers, within 2.5 of +-2^31, tiny, "
           "+-0, uniform, log-scale, powers of two +-ulps, large non-integers, the sliver (-2^31,-2^31+1); results not representable in int are skipped");

// =====================================================================================
// succf / predf / finitef : all 2^32 floats against a bit-level model
// =====================================================================================
static inline uint32_t
model_succ32 (uint32_t u)
{
    uint32_t mag = u & 0x7fffffffu;
    if (mag >= 0x7f800000u) return u; // infinities and NaNs unchanged
    if (mag == 0) return 1u;          // smallest positive subnormal
    return (u >> 31) ? u - 1 : u + 1; // -min_subnormal -> -0 ; FLT_MAX -> +inf
}
static inline uint32_t
model_pred32 (uint32_t u)
{
    uint32_t mag = u & 0x7fffffffu;
    if (mag >= 0x7f800000u) return u;
    if (mag == 0) return 0x80000001u;
    return (u >> 31) ? u + 1 : u - 1;
}
// same value: bit-identical, or both zeros (the sign of a zero result is not part of "adjacent representable value")
static inline bool same32 (uint32_t a, uint32_t b) { return a == b || (((a | b) & 0x7fffffffu) == 0); }

static void
sub_succ_float (Ctx& c, uint64_t b, uint64_t e)
{
    uint64_t n_zero = 0, n_den = 0, n_bnd = 0, n_inf = 0, n_nan = 0, n_max = 0, n_pow2 = 0, n_norm = 0;
    unsigned nfs = 0, nfp = 0, nff = 0; // at most 64 witnesses per function and chunk, except for the rare classes
    for (uint64_t i = b; i < e; ++i)
    {
        uint32_t u = (uint32_t) i, mag = u & 0x7fffffffu;
        float    f = u2f (u);
        uint32_t gs = f2u (IM::succf (f)), gp = f2u (IM::predf (f));
        uint32_t ws = model_succ32 (u), wp = model_pred32 (u);
        bool     gfin = IM::finitef (f), wfin = std::isfinite (f);
        const char* k;
        if (mag > 0x7f800000u) { k = "nan"; ++n_nan; }
        else if (mag == 0x7f800000u) { k = "inf"; ++n_inf; }
        else if (mag == 0) { k = "zero"; ++n_zero; }
        else if (mag == 0x7f7fffffu) { k = "max"; ++n_max; }
        else if (mag == 1u || mag == 0x007fffffu || mag == 0x00800000u) { k = "subnormal_boundary"; ++n_bnd; }
        else if (mag < 0x00800000u) { k = "denormal"; ++n_den; }
        else if ((mag & 0x7fffffu) == 0 || (mag & 0x7fffffu) == 0x7fffffu) { k = "binade_boundary"; ++n_pow2; }
        else { k = "normal"; ++n_norm; }
        bool okS = mag >= 0x7f800000u ? gs == ws : same32 (gs, ws);
        bool okP = mag >= 0x7f800000u ? gp == wp : same32 (gp, wp);
        bool rare = k[0] != 'n' && k[0] != 'd'; // everything but "normal", "nan", "denormal"
        if (!okS && (rare || nfs++ < 64)) c.fail (std::string ("succf.float:") + k, i, [&] { return Obj ().kv ("f_bits", hex32 (u)).kv ("got", hex32 (gs)).kv ("want", hex32 (ws)).str (); });
        if (!okP && (rare || nfp++ < 64)) c.fail (std::string ("predf.float:") + k, i, [&] { return Obj ().kv ("f_bits", hex32 (u)).kv ("got", hex32 (gp)).kv ("want", hex32 (wp)).str (); });
        if (gfin != wfin && (rare || nff++ < 64)) c.fail (std::string ("finitef.float:") + k, i, [&] { return Obj ().kv ("f_bits", hex32 (u)).kv ("got", gfin).kv ("want", wfin).str (); });
        if ((u & 0xfffffu) == 0x55555u && ((u >> 23) & 15) == 9)
            c.sample (k, [&] { return Obj ().kv ("f_bits", hex32 (u)).kv ("succf", hex32 (gs)).kv ("predf", hex32 (gp)).kv ("finitef", gfin).str (); });
    }
    c.eval (3 * (e - b));
    c.nontrivial_enum (e - b);
    c.cls ("zero", n_zero); c.cls ("denormal", n_den); c.cls ("subnormal_boundary", n_bnd); c.cls ("inf", n_inf); c.cls ("nan", n_nan);
    c.cls ("max", n_max); c.cls ("binade_boundary", n_pow2); c.cls ("normal", n_norm);
}
MON_SUB (sub_succ_float, "succf_predf_finitef_all", 1ull << 32, 1ull << 32)
    .req ({"zero", "denormal", "subnormal_boundary", "inf", "nan", "max", "binade_boundary", "normal"})
    .exh ()
    .chunked (1u << 18)
    .over ("all 2^32 float bit patterns: succf, predf against the ordered-integer model of the float line (inf/NaN bit-identical), finitef against std::isfinite");

// =====================================================================================
// succd / predd / finited : class-directed doubles
// =====================================================================================
static inline uint64_t
model_succ64 (uint64_t u)
{
    uint64_t mag = u & 0x7fffffffffffffffull;
    if (mag >= 0x7ff0000000000000ull) return u;
    if (mag == 0) return 1ull;
    return (u >> 63) ? u - 1 : u + 1;
}
static inline uint64_t
model_pred64 (uint64_t u)
{
    uint64_t mag = u & 0x7fffffffffffffffull;
    if (mag >= 0x7ff0000000000000ull) return u;
    if (mag == 0) return 0x8000000000000001ull;
    return (u >> 63) ? u + 1 : u - 1;
}
static inline bool same64 (uint64_t a, uint64_t b) { return a == b || (((a | b) & 0x7fffffffffffffffull) == 0); }

static void
sub_succ_double (Ctx& c, uint64_t idx)
{
    Rng         r = c.rng (idx);
    uint64_t    u, sgn = (uint64_t) r.coin () << 63;
    const char* k;
    switch (idx % 12)
    {
        case 0: k = "zero"; u = 0; break;
        case 1: k = "min_subnormal"; u = 1 + (uint64_t) r.range (0, 1); break;
        case 2: k = "subnormal_normal_boundary"; u = 0x0010000000000000ull + (uint64_t) r.range (-2, 1); break;
        case 3: k = "max"; u = 0x7fefffffffffffffull - (uint64_t) r.range (0, 1); break;
        case 4: k = "inf"; u = 0x7ff0000000000000ull; break;
        case 5: k = "nan"; u = 0x7ff0000000000000ull | (r.u64 () & 0x000fffffffffffffull); if (!(u & 0x000fffffffffffffull)) u |= 1; break;
        case 6: k = "binade_boundary"; u = ((uint64_t) r.range (1, 2046) << 52) + (uint64_t) r.range (-1, 1); break;
        case 7: k = "denormal"; u = r.u64 () & 0x000fffffffffffffull; if (!u) u = 2; break;
        case 8: k = "float_valued"; u = d2u ((double) u2f (r.u32 () & 0x7f7fffffu)) & 0x7fffffffffffffffull; break;
        case 9: k = "low_word_carry"; u = ((uint64_t) r.range (1, 2046) << 52) | ((uint64_t) (r.u32 () & 0xfffffu) << 32) | (r.coin () ? 0xffffffffull : 0ull); break;
        default: k = "random_bits"; u = r.u64 () & 0x7fffffffffffffffull; if (u >= 0x7ff0000000000000ull) u &= 0x7fefffffffffffffull; break;
    }
    u |= sgn;
    double   d = u2d (u);
    uint64_t mag = u & 0x7fffffffffffffffull;
    c.cls (k);
    c.eval (3);
    c.nontrivial (u);
    uint64_t gs = d2u (IM::succd (d)), gp = d2u (IM::predd (d)), ws = model_succ64 (u), wp = model_pred64 (u);
    bool     gfin = IM::finited (d), wfin = std::isfinite (d);
    bool     okS = mag >= 0x7ff0000000000000ull ? gs == ws : same64 (gs, ws);
    bool     okP = mag >= 0x7ff0000000000000ull ? gp == wp : same64 (gp, wp);
    if (!okS) c.fail (std::string ("succd.double:") + k, idx, [&] { return Obj ().kv ("d_bits", hex64 (u)).kv ("got", hex64 (gs)).kv ("want", hex64 (ws)).str (); });
    if (!okP) c.fail (std::string ("predd.double:") + k, idx, [&] { return Obj ().kv ("d_bits", hex64 (u)).kv ("got", hex64 (gp)).kv ("want", hex64 (wp)).str (); });
    if (gfin != wfin) c.fail (std::string ("finited.double:") + k, idx, [&] { return Obj ().kv ("d_bits", hex64 (u)).kv ("got", gfin).kv ("want", wfin).str (); });
    c.sample (k, [&] { return Obj ().kv ("d_bits", hex64 (u)).kv ("succd", hex64 (gs)).kv ("predd", hex64 (gp)).kv ("finited", gfin).str (); });
}
MON_SUB_IDX (sub_succ_double, "succd_predd_finited", 3000000, 300000000)
    .req ({"zero", "min_subnormal", "subnormal_normal_boundary", "max", "inf", "nan", "binade_boundary", "denormal", "float_valued", "low_word_carry", "random_bits"})
    .over ("doubles from 11 classes (class = idx mod 12, both signs): +-0, smallest subnormals, subnormal/normal boundary, DBL_MAX, inf, NaN payloads, "
           "binade boundaries, denormals, float-valued, all-ones low word, random bit patterns; ordered-integer model of the double line");

// =====================================================================================
// divs / mods / divp / modp : all ordered pairs of a boundary-heavy value set
// =====================================================================================
static const uint64_t DIV_NQ = 1024, DIV_NT = 4096;

static const std::vector<int>&
div_values (const Ctx& c)
{
    // rebuilt per thread when (seed, tier) changes; a pure function of (seed, tier)
    static thread_local std::vector<int> v;
    static thread_local uint64_t         v_seed = ~0ull;
    static thread_local bool             v_th   = false;
    size_t                               want   = c.thorough ? DIV_NT : DIV_NQ;
    if (v.size () == want && v_seed == c.seed && v_th == c.thorough) return v;
    v.clear ();
    std::set<int> seen;
    auto add = [&] (long x) { if (x >= INT_MIN && x <= INT_MAX && v.size () < want && seen.insert ((int) x).second) v.push_back ((int) x); };
    for (long x: {0l, 1l, -1l, 2l, -2l, 3l, -3l, 7l, -7l, (long) INT_MAX, (long) INT_MIN + 1, (long) INT_MIN, (long) INT_MAX - 1, (long) INT_MIN + 2}) add (x);
    for (int k = 1; k <= 31; ++k)
        for (long d = -1; d <= 1; ++d) { add ((1l << k) + d); add (-((1l << k) + d)); }
    for (long x = 4; x <= 40; ++x) { add (x); add (-x); }
    for (long x: {46340l, 46341l, 65535l, 65537l, 1000000007l, 715827882l, 715827883l, 1073741823l, 1431655765l}) { add (x); add (-x); }
    Rng r (c.seed, hash_str ("c17_div_values"), c.thorough ? 1 : 0);
    while (v.size () < want)
    {
        long x;
        switch (r.range (0, 3))
        {
            case 0: x = (int32_t) r.u32 (); break;                                     // uniform over all ints
            case 1: x = r.range (-1000, 1000); break;                                  // small
            case 2: x = (long) std::ldexp (1.0 + r.uniform (), (int) r.range (0, 30)); if (r.coin ()) x = -x; break; // log scale
            default: x = (r.coin () ? (long) INT_MAX : (long) INT_MIN) + (r.coin () ? 1 : -1) * r.range (0, 100000); break; // near the ends
        }
        add (x);
    }
    v_seed = c.seed; v_th = c.thorough;
    return v;
}

static inline bool fits (long v) { return v >= (long) INT_MIN && v <= (long) INT_MAX; }

static void
sub_divmod (Ctx& c, uint64_t b, uint64_t e)
{
    const std::vector<int>& V = div_values (c);
    const uint64_t          N = V.size ();
    uint64_t n_eval = 0, n_skip_zero = 0, n_skip_neg = 0, n_skip_sub = 0, n_skip_mul = 0, n_sign[4] = {0, 0, 0, 0}, n_exact = 0, n_extreme = 0, n_pairs = 0;
    for (uint64_t i = b; i < e; ++i)
    {
        long x = V[i / N], y = V[i % N];
        if (y == 0) { ++n_skip_zero; continue; }
        // ---- where do the implementation's intermediate expressions leave int?  (mirrored in 64 bits)
        // divs/mods: -x when x<0, -y when y<0.
        bool neg_ok = !(x < 0 && !fits (-x)) && !(y < 0 && !fits (-y));
        if (!neg_ok) { ++n_skip_neg; continue; }
        ++n_pairs;
        int  sc = (x < 0 ? 2 : 0) + (y < 0 ? 1 : 0);
        ++n_sign[sc];
        if (x == INT_MAX || x == INT_MIN + 1 || y == INT_MAX || y == INT_MIN + 1) ++n_extreme;
        const char* sk = sc == 0 ? "x>=0,y>0" : sc == 1 ? "x>=0,y<0" : sc == 2 ? "x<0,y>0" : "x<0,y<0";
        long ay = y < 0 ? -y : y;
        {
            long q = IM::divs ((int) x, (int) y), r = IM::mods ((int) x, (int) y);
            n_eval += 2;
            // truncating division: x = y*q + r, |r| < |y|, r == 0 or sign(r) == sign(x)  (defines q and r uniquely)
            bool ok = (x == y * q + r) && (r < 0 ? -r : r) < ay && (r == 0 || (r < 0) == (x < 0));
            if (r == 0) ++n_exact;
            // (64-bit x/y is used only to name the culprit in the key, not for the verdict)
            if (!ok) c.fail (std::string (q != x / y ? "divs.int:" : "mods.int:") + sk, i, [&] { return Obj ().kv ("x", x).kv ("y", y).kv ("divs", q).kv ("mods", r).kv ("y*q+r", y * q + r).str (); });
        }
        // divp/modp are judged wherever no negation overflows (the statement's quantifier).  Pairs where |y|-1-x leaves int
        // are counted as their own class: the implementation used to compute exactly that expression and returned
        // divp(-2000000000, 1000000000) == 1 (fixed in /repo, see known_findings.json).
        if (x < 0 && !fits (ay - 1 - x)) ++n_skip_sub;
        {
            long q = IM::divp ((int) x, (int) y);
            ++n_eval;
            long r = x - y * q; // 64-bit remainder implied by the returned quotient
            bool ok = r >= 0 && r < ay;
            if (!ok) c.fail (std::string ("divp.int:") + sk, i, [&] { return Obj ().kv ("x", x).kv ("y", y).kv ("divp", q).kv ("x-y*divp", r).str (); });
            // modp = x - y*divp(x,y) evaluated in int: y*q must fit (x - y*q then fits, it is the remainder)
            if (!fits (y * q)) { ++n_skip_mul; continue; }
            long m = IM::modp ((int) x, (int) y);
            ++n_eval;
            bool okm = m >= 0 && m < ay && x == y * q + m;
            if (!okm) c.fail (std::string ("modp.int:") + sk, i, [&] { return Obj ().kv ("x", x).kv ("y", y).kv ("divp", q).kv ("modp", m).str (); });
        }
        if ((i % 40009) == 7) c.sample (sk, [&] { return Obj ().kv ("x", x).kv ("y", y).kv ("divs", IM::divs ((int) x, (int) y)).kv ("mods", IM::mods ((int) x, (int) y)).str (); });
    }
    c.eval (n_eval);
    c.nontrivial_enum (n_pairs);
    c.cls ("x>=0,y>0", n_sign[0]); c.cls ("x>=0,y<0", n_sign[1]); c.cls ("x<0,y>0", n_sign[2]); c.cls ("x<0,y<0", n_sign[3]);
    c.cls ("exact_division", n_exact); c.cls ("operand_INT_MAX_or_INT_MIN+1", n_extreme);
    c.cls ("skipped_y_zero", n_skip_zero); c.cls ("skipped_negation_overflows", n_skip_neg);
    c.cls ("divp_large_negative_x_(|y|-1-x_exceeds_int)", n_skip_sub); c.cls ("skipped_modp_product_overflows", n_skip_mul);
}
MON_SUB (sub_divmod, "divs_mods_divp_modp_grid", DIV_NQ* DIV_NQ, DIV_NT* DIV_NT)
    .req ({"x>=0,y>0", "x>=0,y<0", "x<0,y>0", "x<0,y<0", "exact_division", "operand_INT_MAX_or_INT_MIN+1", "skipped_negation_overflows", "divp_large_negative_x_(|y|-1-x_exceeds_int)"})
    .exh ()
    .chunked (1u << 14)
    .over ("all ordered pairs (x,y) of a boundary-heavy int set (0,+-1,+-2,+-3,+-7, 2^k and 2^k+-1 for k<=31, INT_MAX, INT_MIN+1, INT_MIN, 4..40, "
           "sqrt(INT_MAX) neighbours, seeded random fill; 1024 values quick / 4096 thorough); pairs with y = 0, with an overflowing negation "
           "(-x, -y) or, for modp, an overflowing product y*divp are skipped and counted");

// =====================================================================================
// abs sign cmp cmpt iszero equal clamp equalWithAbsError equalWithRelError : float / double
// =====================================================================================
template <class T>
static T
gen_val (Rng& r, bool allow_max)
{
    typedef std::numeric_limits<T> L;
    T v;
    switch (r.range (0, 9))
    {
        case 0: v = T (0); break;
        case 1: v = T (1); break;
        case 2: v = T (r.range (-1024, 1024)) / T (8); break;
        case 3: v = r.coin () ? L::denorm_min () : L::min (); break;
        case 4: v = allow_max ? L::max () : L::max () / T (8); break;
        case 5: v = (T) r.logscale (-40, 40); break;
        case 6: v = (T) r.logscale (-4, 4); break;
        default: v = (T) r.uniform (-10, 10); break;
    }
    return r.coin () ? v : -v;
}

template <class T> static int hp_exponent (T v) { return v == 0 ? INT_MIN : std::ilogb (v); }

// "lhs <= rhs" for lhs = |a-b| (exact in hp when the exponents are close) and a threshold rhs:
// 1 / 0 when decidable, -1 when the two sides are within rounding of each other and T arithmetic is inexact there.
template <class T>
static int
judge_le (typename FT<T>::hp lhs, typename FT<T>::hp rhs, bool hp_exact)
{
    typedef typename FT<T>::hp H;
    bool repr = hp_exact && (H) (T) lhs == lhs && (H) (T) rhs == rhs; // T computes both sides without rounding
    if (repr) return lhs <= rhs ? 1 : 0;
    H band = H (4 * FT<T>::eps ()) * hmax (habs (lhs), habs (rhs)) + H (2) * H (std::numeric_limits<T>::denorm_min ());
    if (habs (lhs - rhs) <= band) return -1;
    return lhs <= rhs ? 1 : 0;
}

template <class T>
static void
sub_scalar (Ctx& c, uint64_t idx)
{
    typedef typename FT<T>::hp H;
    const std::string ty = FT<T>::name ();
    Rng         r = c.rng (idx);
    T           a, b, t;
    const char* k;
    switch (idx % 8)
    {
        case 0: // exact lattice, threshold exactly at / one step off |a-b|
            k = "lattice_threshold";
            a = T (r.range (-1024, 1024)) / T (8); b = T (r.range (-1024, 1024)) / T (8);
            t = std::fabs (a - b) + T (r.range (-1, 1)) / T (8);
            break;
        case 1: k = "equal_operands"; a = gen_val<T> (r, true); b = (a == 0 && r.coin ()) ? -a : a; t = r.coin () ? T (0) : gen_val<T> (r, false); break;
        case 2: // relative-error lattice: e*|x1| exact, x2 at / next to the boundary
        {
            k = "relative_lattice";
            a = T (r.range (-1024, 1024)) / T (8);
            t = T (r.range (0, 32)) / T (16);
            b = a + (r.coin () ? 1 : -1) * t * std::fabs (a) + T (r.range (-1, 1)) / T (128);
            break;
        }
        case 3: k = "random"; a = gen_val<T> (r, false); b = gen_val<T> (r, false); t = gen_val<T> (r, false); break;
        case 4: // threshold within a few ulps of the rounded |a-b|
            k = "threshold_ulps";
            a = (T) r.uniform (-10, 10); b = r.coin () ? (T) r.uniform (-10, 10) : (T) r.logscale (-30, 3);
            t = std::fabs (a - b);
            for (int n = (int) r.range (-2, 2); n != 0; n += n < 0 ? 1 : -1) t = std::nextafter (t, n > 0 ? std::numeric_limits<T>::infinity () : T (0));
            break;
        case 5: k = "extremes"; a = gen_val<T> (r, true); b = gen_val<T> (r, true); t = gen_val<T> (r, true); break;
        case 6: // ordering cases for clamp / cmp: a relative to the other two
        {
            k = "ordering";
            b = gen_val<T> (r, false); t = r.one_in (4) ? b : gen_val<T> (r, false);
            T lo = std::min (b, t), hi = std::max (b, t);
            switch (r.range (0, 6))
            {
                case 0: a = lo; break;
                case 1: a = hi; break;
                case 2: a = std::nextafter (lo, -std::numeric_limits<T>::infinity ()); break;
                case 3: a = std::nextafter (hi, std::numeric_limits<T>::infinity ()); break;
                case 4: a = lo + (hi - lo) * (T) r.uniform (); break;
                case 5: a = lo - std::fabs ((T) r.logscale (-20, 20)); break;
                default: a = hi + std::fabs ((T) r.logscale (-20, 20)); break;
            }
            break;
        }
        default: k = "sign_pairs"; a = gen_val<T> (r, true); b = -a; t = std::fabs (gen_val<T> (r, false)); break;
    }
    c.cls (k);
    c.nontrivial (hmix (hmix (hbits (a), hbits (b)), hbits (t)));
    auto desc = [&] { return Obj ().kv ("a", (double) a).kv ("b", (double) b).kv ("t", (double) t).kv ("a_bits", hex64 (hbits (a))).kv ("b_bits", hex64 (hbits (b))).kv ("t_bits", hex64 (hbits (t))).str (); };
    auto bad = [&] (const char* fn, long got, long want) {
        c.fail (std::string (fn) + "." + ty + ":" + k, idx, [&] { return Obj ().kv ("a", (double) a).kv ("b", (double) b).kv ("t", (double) t).kv ("a_bits", hex64 (hbits (a))).kv ("b_bits", hex64 (hbits (b))).kv ("t_bits", hex64 (hbits (t))).kv ("got", got).kv ("want", want).str (); });
    };
    const T max = std::numeric_limits<T>::max ();
    // ---- abs, sign (value comparisons; the sign of a zero result is not part of the definition)
    {
        T g = IM::abs (a), w = std::fabs (a);
        c.eval ();
        if (!(g == w)) c.fail ("abs." + ty + ":" + k, idx, [&] { return Obj ().kv ("a", (double) a).kv ("got", (double) g).kv ("want", (double) w).str (); });
        int gs = IM::sign (a), ws = a > 0 ? 1 : a < 0 ? -1 : 0;
        c.eval ();
        if (gs != ws) bad ("sign", gs, ws);
    }
    // ---- cmp: -1/0/+1 by the order of a and b (IEEE subtraction of finite numbers is zero only for equal operands)
    {
        int g = IM::cmp (a, b), w = a > b ? 1 : a < b ? -1 : 0;
        c.eval ();
        if (g != w) bad ("cmp", g, w);
    }
    // ---- clamp to [lo,hi]
    {
        T lo = std::min (b, t), hi = std::max (b, t);
        T g = IM::clamp (a, lo, hi), w = a < lo ? lo : (a > hi ? hi : a);
        H wh = hmin (hmax ((H) a, (H) lo), (H) hi); // min(max(a,lo),hi)
        c.eval ();
        if (!((H) g == wh) || !(g == w))
            c.fail ("clamp." + ty + ":" + (a < lo ? "below" : a > hi ? "above" : a == lo ? "at_low" : a == hi ? "at_high" : "inside"), idx,
                    [&] { return Obj ().kv ("a", (double) a).kv ("l", (double) lo).kv ("h", (double) hi).kv ("got", (double) g).kv ("want", (double) w).str (); });
        c.cls (a < lo ? "clamp_below" : a > hi ? "clamp_above" : (lo == hi ? "clamp_degenerate" : a == lo ? "clamp_at_low" : a == hi ? "clamp_at_high" : "clamp_inside"));
    }
    // ---- iszero(a,t): |a| <= t, exact
    {
        bool g = IM::iszero (a, t), w = (H) std::fabs (a) <= (H) t;
        c.eval ();
        if (g != w) bad ("iszero", g, w);
        c.cls (w ? "iszero_true" : "iszero_false");
    }
    // ---- tolerance predicates on |a-b|; operands of huge magnitude would overflow e*|x1| : keep those out
    if (std::fabs (a) <= max / 4 && std::fabs (b) <= max / 4 && std::fabs (t) <= max / 4)
    {
        int  ea = hp_exponent (a), eb = hp_exponent (b);
        bool hp_exact = ea == INT_MIN || eb == INT_MIN || std::abs (ea - eb) <= 30; // hp subtraction exact
        H    d = habs ((H) a - (H) b);
        int  w = judge_le<T> (d, (H) t, hp_exact);
        if (w < 0) c.cls ("borderline_rounding_accepted");
        else
        {
            c.cls (w ? "within_tolerance" : "outside_tolerance");
            if (d == (H) t) c.cls ("exactly_at_threshold");
            bool g1 = IM::equal (a, b, t);
            if (g1 != (bool) w) bad ("equal", g1, w);
            bool g2 = IM::equalWithAbsError (a, b, t);
            if (g2 != (bool) w) bad ("equalWithAbsError", g2, w);
            int g3 = IM::cmpt (a, b, t), w3 = w ? 0 : (a > b ? 1 : a < b ? -1 : 0);
            if (g3 != w3) bad ("cmpt", g3, w3);
            c.eval (3);
        }
        // relative: |a-b| <= t*|a|, with t in [0, 4]
        T e = std::fabs (t) <= 4 ? std::fabs (t) : T (0.5);
        H rhs = (H) e * habs ((H) a); // exact in hp (24+24 < 64, 53+53 < 113 bits)
        int wr = judge_le<T> (d, rhs, hp_exact);
        if (wr < 0) c.cls ("borderline_rounding_accepted");
        else
        {
            bool g = IM::equalWithRelError (a, b, e);
            c.eval ();
            if (d == rhs) c.cls ("rel_exactly_at_threshold");
            c.cls (wr ? "rel_within" : "rel_outside");
            if (g != (bool) wr)
                c.fail ("equalWithRelError." + ty + ":" + k, idx, [&] { return Obj ().kv ("x1", (double) a).kv ("x2", (double) b).kv ("e", (double) e).kv ("got", g).kv ("want", wr).str (); });
        }
    }
    else c.cls ("tolerance_predicates_skipped_huge_operands");
    c.sample (k, desc);
}
static void sub_scalar_f (Ctx& c, uint64_t i) { sub_scalar<float> (c, i); }
static void sub_scalar_d (Ctx& c, uint64_t i) { sub_scalar<double> (c, i); }
#define SCALAR_REQ                                                                                                                     \
    {"lattice_threshold", "equal_operands", "relative_lattice", "random", "threshold_ulps", "extremes", "ordering", "sign_pairs",        \
     "clamp_below", "clamp_above", "clamp_at_low", "clamp_at_high", "clamp_inside", "clamp_degenerate", "iszero_true", "iszero_false",   \
     "within_tolerance", "outside_tolerance", "exactly_at_threshold", "rel_exactly_at_threshold", "rel_within", "rel_outside"}
MON_SUB_IDX (sub_scalar_f, "scalar_predicates_float", 2000000, 250000000)
    .req (SCALAR_REQ)
    .over ("(a,b,t) float triples from 8 classes (idx mod 8): exact 1/8 lattice with the threshold at / one step off |a-b|, equal operands, "
           "relative-error lattice, random, threshold +-2 ulps, extremes (+-max, denormals, zeros), ordering cases, sign pairs; "
           "abs sign cmp cmpt iszero equal clamp equalWithAbsError equalWithRelError vs definitions in long double");
MON_SUB_IDX (sub_scalar_d, "scalar_predicates_double", 2000000, 250000000)
    .req (SCALAR_REQ)
    .over ("as scalar_predicates_float for double, definitions evaluated in __float128");

// ---- the same predicates on int (exact arithmetic, pairs with overflowing a-b / -a excluded)
static int
gen_int (Rng& r)
{
    switch (r.range (0, 6))
    {
        case 0: return 0;
        case 1: return (int) r.range (-3, 3);
        case 2: return r.coin () ? INT_MAX : INT_MIN + 1;
        case 3: return (int) r.range (-100, 100);
        case 4: { long v = (long) std::ldexp (1.0 + r.uniform (), (int) r.range (0, 30)); return (int) (r.coin () ? v : -v); }
        case 5: return (r.coin () ? 1 : -1) * (int) ((1l << r.range (1, 30)) + r.range (-1, 1));
        default: return (int32_t) r.u32 ();
    }
}

static void
sub_scalar_int (Ctx& c, uint64_t idx)
{
    Rng  r = c.rng (idx);
    long a = gen_int (r), b = gen_int (r), t = gen_int (r);
    const char* k;
    switch (idx % 4)
    {
        case 0: k = "random"; break;
        case 1: k = "threshold"; a = r.range (-1000000, 1000000); b = r.coin () ? a + r.range (-50, 50) : r.range (-1000000, 1000000); t = std::labs (a - b) + r.range (-1, 1); break;
        case 2: k = "equal_operands"; b = a; t = r.range (-1, 2); break;
        default: k = "ordering"; { long lo = std::min (b, t), hi = std::max (b, t); int w = (int) r.range (0, 4); a = w == 0 ? lo : w == 1 ? hi : w == 2 ? lo - (lo > INT_MIN + 1) : w == 3 ? hi + (hi < INT_MAX) : lo + (long) ((hi - lo) * r.uniform ()); } break;
    }
    c.cls (k);
    c.nontrivial (hmix (hmix ((uint64_t) a, (uint64_t) b * 3), (uint64_t) t * 7));
    auto bad = [&] (const char* fn, long got, long want) {
        c.fail (std::string (fn) + ".int:" + k, idx, [&] { return Obj ().kv ("a", a).kv ("b", b).kv ("t", t).kv ("got", got).kv ("want", want).str (); });
    };
    if (a != INT_MIN)
    {
        c.eval (3);
        int g = IM::abs ((int) a); if (g != (a < 0 ? -a : a)) bad ("abs", g, a < 0 ? -a : a);
        int s = IM::sign ((int) a); if (s != (a > 0) - (a < 0)) bad ("sign", s, (a > 0) - (a < 0));
        bool z = IM::iszero ((int) a, (int) t); if (z != ((a < 0 ? -a : a) <= t)) bad ("iszero", z, (a < 0 ? -a : a) <= t);
    }
    {
        long lo = std::min (b, t), hi = std::max (b, t);
        int  g = IM::clamp ((int) a, (int) lo, (int) hi);
        long w = std::min (std::max (a, lo), hi);
        c.eval ();
        if (g != w) c.fail (std::string ("clamp.int:") + (a < lo ? "below" : a > hi ? "above" : "inside"), idx, [&] { return Obj ().kv ("a", a).kv ("l", lo).kv ("h", hi).kv ("got", g).kv ("want", w).str (); });
        c.cls (a < lo ? "clamp_below" : a > hi ? "clamp_above" : "clamp_inside_or_at_bound");
    }
    long d = a - b;
    if (d > INT_MIN && d <= INT_MAX) // a-b and abs(a-b) representable
    {
        long ad = d < 0 ? -d : d;
        int  w = ad <= t;
        c.eval (4);
        c.cls (w ? "within_tolerance" : "outside_tolerance");
        if (ad == t) c.cls ("exactly_at_threshold");
        int g = IM::cmp ((int) a, (int) b); if (g != (a > b) - (a < b)) bad ("cmp", g, (a > b) - (a < b));
        int g3 = IM::cmpt ((int) a, (int) b, (int) t), w3 = w ? 0 : (a > b) - (a < b); if (g3 != w3) bad ("cmpt", g3, w3);
        bool g1 = IM::equal ((int) a, (int) b, (int) t); if (g1 != (bool) w) bad ("equal", g1, w);
        bool g2 = IM::equalWithAbsError ((int) a, (int) b, (int) t); if (g2 != (bool) w) bad ("equalWithAbsError", g2, w);
        long e = t < 0 ? -(t % 8) : t % 8, aa = a < 0 ? -a : a;
        if (a != INT_MIN && fits (e * aa))
        {
            bool gr = IM::equalWithRelError ((int) a, (int) b, (int) e), wr = ad <= e * aa;
            c.eval ();
            if (gr != wr) c.fail (std::string ("equalWithRelError.int:") + k, idx, [&] { return Obj ().kv ("x1", a).kv ("x2", b).kv ("e", e).kv ("got", gr).kv ("want", wr).str (); });
        }
    }
    else c.cls ("skipped_difference_overflows");
    c.sample (k, [&] { return Obj ().kv ("a", a).kv ("b", b).kv ("t", t).str (); });
}
MON_SUB_IDX (sub_scalar_int, "scalar_predicates_int", 1000000, 150000000)
    .req ({"random", "threshold", "equal_operands", "ordering", "clamp_below", "clamp_above", "clamp_inside_or_at_bound", "within_tolerance", "outside_tolerance", "exactly_at_threshold", "skipped_difference_overflows"})
    .over ("(a,b,t) int triples (boundary values, powers of two +-1, INT_MAX, INT_MIN+1, random) against 64-bit integer definitions; triples whose a-b or -a overflows int are skipped");

// =====================================================================================
// lerp / ulerp / lerpfactor
// =====================================================================================
// Calibrated bounds (worst ratios observed on the pristine tree are recorded as "worst" in the evidence):
static const double C_LERP = 16.0;       // |lerp - exact| <= C eps (|a||1-t| + |b||t|)
static const double C_ULERP = 16.0;      // |ulerp - exact| <= C eps (|a| + |b-a||t|)
static const double C_LERPFACTOR = 8.0;  // |lerpfactor(lerp(a,b,t),a,b) - t| <= C eps ((|a|(|1-t|+1) + |b||t| + |m|)/|b-a| + |t|)

template <class T, class Q>
static void
sub_lerp (Ctx& c, uint64_t idx, const char* tyname)
{
    typedef typename FT<T>::hp H;
    const std::string ty = tyname;
    const double      eps = FT<T>::eps ();
    const H           tiny = H (std::numeric_limits<T>::denorm_min ());
    Rng         r = c.rng (idx);
    T           a, b;
    Q           t;
    const char* k;
    bool        lattice = false;
    switch (idx % 8)
    {
        case 0: k = "unit_interval"; a = (T) r.uniform (-10, 10); b = (T) r.uniform (-10, 10); t = (Q) r.uniform (); break;
        case 1: k = "extrapolate"; a = (T) r.uniform (-10, 10); b = (T) r.uniform (-10, 10); t = (Q) r.uniform (-2, 3); break;
        case 2: k = "endpoints"; a = (T) r.logscale (-30, 30); b = (T) r.logscale (-30, 30); t = (Q) (r.coin () ? 0 : 1); break;
        case 3: k = "logscale"; a = (T) r.logscale (-30, 30); b = (T) r.logscale (-30, 30); t = (Q) r.uniform (-1, 2); break;
        case 4: // integer lattice: b-a a power of two, t = k/16 -> every operation exact
            k = "exact_lattice"; lattice = true;
            a = (T) r.range (-4096, 4096); b = a + (T) ((r.coin () ? 1 : -1) * (1 << r.range (0, 10))); t = (Q) r.range (-32, 48) / (Q) 16;
            break;
        case 5: k = "a_gt_b"; b = (T) r.uniform (-10, 10); a = b + (T) std::fabs (r.logscale (-10, 6)); t = (Q) r.uniform (-0.5, 1.5); break;
        case 6: k = "close_endpoints"; a = (T) r.logscale (-3, 3); b = a * (T) (1 + r.sym (1) * std::ldexp (1.0, -(int) r.range (1, 12))); t = (Q) r.uniform (); break;
        default: k = "opposite_signs"; a = (T) r.logscale (-8, 8); b = -a * (T) r.uniform (0.5, 2); t = (Q) r.uniform (); break;
    }
    c.cls (k);
    c.nontrivial (hmix (hmix (hbits (a), hbits (b)), d2u ((double) t)));
    H ha = a, hb = b, ht = t;
    // ---- lerp = a(1-t) + b t
    {
        T g = IM::lerp (a, b, t);
        H w = ha * (H (1) - ht) + hb * ht, scale = habs (ha) * habs (H (1) - ht) + habs (hb) * habs (ht);
        H err = habs ((H) g - w);
        double ratio = scale > 0 ? (double) (err / (H (eps) * scale + tiny)) : (err > 0 ? 1e300 : 0);
        c.eval ();
        c.worst (ty == "float" ? "lerp.float.err/(eps*scale)" : ty == "double" ? "lerp.double.err/(eps*scale)" : "lerp.float_dbl_t.err/(eps*scale)", ratio, idx,
                 [&] { return Obj ().kv ("a", (double) a).kv ("b", (double) b).kv ("t", (double) t).kv ("got", (double) g).kv ("want", (double) w).str (); });
        if (!(ratio <= C_LERP) || !std::isfinite (g))
            c.fail ("lerp." + ty + ":" + k, idx, [&] { return Obj ().kv ("a", (double) a).kv ("b", (double) b).kv ("t", (double) t).kv ("got", (double) g).kv ("want", (double) w).kv ("ratio", ratio).str (); });
        if (t == Q (0) && !(g == a)) c.fail ("lerp." + ty + ":t=0", idx, [&] { return Obj ().kv ("a", (double) a).kv ("b", (double) b).kv ("got", (double) g).str (); });
        if (t == Q (1) && !(g == b)) c.fail ("lerp." + ty + ":t=1", idx, [&] { return Obj ().kv ("a", (double) a).kv ("b", (double) b).kv ("got", (double) g).str (); });
        if (lattice && !((H) g == w)) c.fail ("lerp." + ty + ":exact_lattice_inexact", idx, [&] { return Obj ().kv ("a", (double) a).kv ("b", (double) b).kv ("t", (double) t).kv ("got", (double) g).kv ("want", (double) w).str (); });
    }
    // ---- ulerp = a + (b-a) t, written so that no difference is negative
    {
        T g = IM::ulerp (a, b, t);
        H w = ha + (hb - ha) * ht, scale = habs (ha) + habs (hb - ha) * habs (ht);
        H err = habs ((H) g - w);
        double ratio = scale > 0 ? (double) (err / (H (eps) * scale + tiny)) : (err > 0 ? 1e300 : 0);
        c.eval ();
        c.worst (ty == "float" ? "ulerp.float.err/(eps*scale)" : ty == "double" ? "ulerp.double.err/(eps*scale)" : "ulerp.float_dbl_t.err/(eps*scale)", ratio, idx,
                 [&] { return Obj ().kv ("a", (double) a).kv ("b", (double) b).kv ("t", (double) t).kv ("got", (double) g).kv ("want", (double) w).str (); });
        if (!(ratio <= C_ULERP) || !std::isfinite (g))
            c.fail ("ulerp." + ty + ":" + k, idx, [&] { return Obj ().kv ("a", (double) a).kv ("b", (double) b).kv ("t", (double) t).kv ("got", (double) g).kv ("want", (double) w).kv ("ratio", ratio).str (); });
        if (lattice && !((H) g == w)) c.fail ("ulerp." + ty + ":exact_lattice_inexact", idx, [&] { return Obj ().kv ("a", (double) a).kv ("b", (double) b).kv ("t", (double) t).kv ("got", (double) g).kv ("want", (double) w).str (); });
    }
    // ---- lerpfactor inverts lerp (T-valued parameter)
    {
        T tt = (T) t;
        T m  = IM::lerp (a, b, tt);
        H d  = hb - ha;
        if (d != 0)
        {
            T g = IM::lerpfactor (m, a, b);
            H htt = tt;
            H scale = (habs (ha) * (habs (H (1) - htt) + H (1)) + habs (hb) * habs (htt) + habs ((H) m)) / habs (d) + habs (htt);
            H err = habs ((H) g - htt);
            double ratio = err == 0 ? 0.0 : (double) (err / (H (eps) * scale)); // scale = 0 (a = t = 0): exact result required
            if ((double) (H (eps) * scale) > 1e-2) c.cls ("lerpfactor_skipped_illconditioned"); // |b-a| tiny against the operands
            else
            {
                c.eval ();
                c.cls ("lerpfactor_inverse_judged");
                c.worst (ty == "double" ? "lerpfactor.double.err/(eps*scale)" : "lerpfactor.float.err/(eps*scale)", ratio, idx,
                         [&] { return Obj ().kv ("a", (double) a).kv ("b", (double) b).kv ("t", (double) tt).kv ("m", (double) m).kv ("got", (double) g).str (); });
                if (!(ratio <= C_LERPFACTOR))
                    c.fail ("lerpfactor." + ty + ":inverse_of_lerp", idx, [&] { return Obj ().kv ("a", (double) a).kv ("b", (double) b).kv ("t", (double) tt).kv ("m", (double) m).kv ("got", (double) g).kv ("ratio", ratio).str (); });
                if (lattice && !(g == tt)) c.fail ("lerpfactor." + ty + ":exact_lattice_inexact", idx, [&] { return Obj ().kv ("a", (double) a).kv ("b", (double) b).kv ("t", (double) tt).kv ("got", (double) g).str (); });
            }
        }
    }
    c.sample (k, [&] { return Obj ().kv ("a", (double) a).kv ("b", (double) b).kv ("t", (double) t).kv ("lerp", (double) IM::lerp (a, b, t)).str (); });
}
static void sub_lerp_ff (Ctx& c, uint64_t i) { sub_lerp<float, float> (c, i, "float"); }
static void sub_lerp_dd (Ctx& c, uint64_t i) { sub_lerp<double, double> (c, i, "double"); }
static void sub_lerp_fd (Ctx& c, uint64_t i) { sub_lerp<float, double> (c, i, "float_dbl_t"); }
#define LERP_REQ {"unit_interval", "extrapolate", "endpoints", "logscale", "exact_lattice", "a_gt_b", "close_endpoints", "opposite_signs", "lerpfactor_inverse_judged"}
MON_SUB_IDX (sub_lerp_ff, "lerp_ulerp_lerpfactor_float", 2000000, 250000000).req (LERP_REQ).over ("lerp/ulerp<float,float>, lerpfactor<float>: (a,b,t) from 8 classes (idx mod 8) vs long double");
MON_SUB_IDX (sub_lerp_dd, "lerp_ulerp_lerpfactor_double", 2000000, 250000000).req (LERP_REQ).over ("lerp/ulerp<double,double>, lerpfactor<double>: (a,b,t) from 8 classes vs __float128");
MON_SUB_IDX (sub_lerp_fd, "lerp_ulerp_float_double_t", 1000000, 100000000).req (LERP_REQ).over ("lerp/ulerp<float,double> (parameter of a wider type) vs long double");

// ---- ulerp on unsigned (its purpose): exact dyadic lattice
static void
sub_ulerp_unsigned (Ctx& c, uint64_t idx)
{
    Rng      r = c.rng (idx);
    unsigned a = (unsigned) r.range (0, (1 << 24) - 1), b = (unsigned) r.range (0, (1 << 24) - 1);
    if (idx % 4 == 0) b = a;
    if (idx % 4 == 1) { a = (unsigned) r.range (0, 255); b = (unsigned) r.range (0, 255); }
    unsigned kk = (unsigned) r.range (0, 256);
    double   t = kk / 256.0;
    c.cls (a > b ? "a_gt_b" : a < b ? "a_lt_b" : "a_eq_b");
    c.cls (kk == 0 ? "t=0" : kk == 256 ? "t=1" : "t_inside");
    c.nontrivial (hmix (hmix (a, (uint64_t) b << 24), kk));
    c.eval (2);
    // exact value a + (b-a) k/256 >= 0; conversion to unsigned truncates
    long num = (long) a * 256 + ((long) b - (long) a) * (long) kk;
    unsigned w = (unsigned) (num / 256);
    // float parameter: 16-bit operands keep (a-b)*t within 24 bits
    unsigned a16 = a & 0xffffu, b16 = b & 0xffffu;
    unsigned w16 = (unsigned) (((long) a16 * 256 + ((long) b16 - (long) a16) * (long) kk) / 256);
    unsigned g = IM::ulerp (a, b, t), gf = IM::ulerp (a16, b16, (float) t);
    if (g != w) c.fail (std::string ("ulerp.unsigned_double_t:") + (a > b ? "a_gt_b" : "a_le_b"), idx, [&] { return Obj ().kv ("a", a).kv ("b", b).kv ("t", t).kv ("got", g).kv ("want", w).str (); });
    if (gf != w16) c.fail (std::string ("ulerp.unsigned_float_t:") + (a16 > b16 ? "a_gt_b" : "a_le_b"), idx, [&] { return Obj ().kv ("a", a16).kv ("b", b16).kv ("t", t).kv ("got", gf).kv ("want", w16).str (); });
    c.sample (a > b ? "a_gt_b" : "a_le_b", [&] { return Obj ().kv ("a", a).kv ("b", b).kv ("t", t).kv ("ulerp", g).str (); });
}
MON_SUB_IDX (sub_ulerp_unsigned, "ulerp_unsigned", 500000, 50000000)
    .req ({"a_gt_b", "a_lt_b", "a_eq_b", "t=0", "t=1", "t_inside"})
    .over ("ulerp<unsigned,double>(a,b,k/256) with a,b < 2^24 and ulerp<unsigned,float> with a,b < 2^16: every intermediate exact, compared with integer arithmetic");

// ---- lerpfactor: definition and overflow guard
static const double C_LF_DEF = 16.0; // |lerpfactor - (m-a)/(b-a)| <= C eps |quotient| + denorm_min

template <class T>
static void
sub_lerpfactor (Ctx& c, uint64_t idx)
{
    typedef typename FT<T>::hp H;
    typedef std::numeric_limits<T> L;
    const std::string ty = FT<T>::name ();
    const double      eps = FT<T>::eps ();
    Rng         r = c.rng (idx);
    T           m, a, b;
    const char* k;
    const T     big = L::max () / 4;
    switch (idx % 8)
    {
        case 0: k = "a_eq_b"; a = gen_val<T> (r, false); b = a; m = r.coin () ? a : gen_val<T> (r, false); break;
        case 1: // quotient far beyond max: |d| tiny, |n| moderate or large
            k = "quotient_overflows";
            a = r.coin () ? T (0) : (T) r.logscale (-20, 20);
            b = a == 0 ? (T) (std::ldexp (1.0 + r.uniform (), (int) r.range (L::min_exponent - L::digits, L::min_exponent + 10))) : std::nextafter (a, r.coin () ? L::infinity () : -L::infinity ());
            m = (T) (std::ldexp (1.0 + r.uniform (), (int) r.range (L::max_exponent - 30, L::max_exponent - 4))) * (r.coin () ? 1 : -1);
            break;
        case 2: // |d| <= 1 but the quotient is representable
            k = "small_d_representable";
            a = (T) r.uniform (-4, 4); b = a + (T) (r.sym (1) * std::ldexp (1.0, -(int) r.range (0, 20))); m = (T) r.uniform (-100, 100);
            break;
        case 3: k = "d_gt_1"; a = (T) r.logscale (0, 30); b = a + (T) (r.coin () ? 1 : -1) * (T) std::fabs (r.logscale (1, 40)); m = (T) r.logscale (-10, 60); break;
        case 4: // quotient within a factor 4 of max (either side)
        {
            k = "quotient_near_max";
            a = T (0);
            int ed = (int) r.range (L::min_exponent + 2, -4);
            b = (T) std::ldexp (1.0 + r.uniform (), ed);
            if (r.coin ()) m = (T) std::ldexp (1.0 + r.uniform (), ed + L::max_exponent - 1 + (int) r.range (-2, 2));
            else
            {   // |m| = max*|b| +- a few ulps: the quotient is within rounding of max
                m = L::max () * b;
                for (int n = (int) r.range (-3, 3); n != 0; n += n < 0 ? 1 : -1) m = std::nextafter (m, n > 0 ? L::infinity () : T (0));
            }
            if (r.coin ()) m = -m;
            break;
        }
        case 5: k = "denormal_d"; a = T (0); b = L::denorm_min () * (T) r.range (1, 1000) * (r.coin () ? 1 : -1); m = r.coin () ? (T) r.logscale (-140, 100) : b * (T) r.range (-8, 8); break;
        case 6: k = "exact_lattice"; a = (T) r.range (-1000, 1000); b = a + (T) ((r.coin () ? 1 : -1) * (1 << r.range (0, 8))); m = (T) r.range (-4000, 4000); break;
        default: k = "random"; a = gen_val<T> (r, false); b = gen_val<T> (r, false); m = gen_val<T> (r, false); break;
    }
    if (!(std::fabs (a) <= big && std::fabs (b) <= big && std::fabs (m) <= big) || !std::isfinite (m)) { c.cls ("skipped_operand_too_large"); return; }
    c.cls (k);
    c.eval ();
    c.nontrivial (hmix (hmix (hbits (a), hbits (b)), hbits (m)));
    T g = IM::lerpfactor (m, a, b);
    H n = (H) m - (H) a, d = (H) b - (H) a;
    auto desc = [&] { return Obj ().kv ("m", (double) m).kv ("a", (double) a).kv ("b", (double) b).kv ("got", (double) g).kv ("m_bits", hex64 (hbits (m))).kv ("a_bits", hex64 (hbits (a))).kv ("b_bits", hex64 (hbits (b))).str (); };
    if (!std::isfinite (g)) { c.fail ("lerpfactor." + ty + ":nonfinite_result", idx, desc); return; }
    if (d == 0)
    {
        c.cls ("returns_zero_required");
        if (g != 0) c.fail ("lerpfactor." + ty + ":a_eq_b_nonzero", idx, desc);
        return;
    }
    H q = n / d, aq = habs (q), hmaxv = (H) L::max ();
    if (aq > hmaxv * H (1 + 16 * eps))
    {
        c.cls ("returns_zero_required");
        if (g != 0) c.fail ("lerpfactor." + ty + ":overflow_not_zero", idx, desc);
    }
    else if (aq < hmaxv * H (1 - 16 * eps))
    {
        c.cls ("quotient_required");
        // m-a and b-a are rounded once each (relative eps, exact when subnormal), the division once
        // (a subnormal m-a or b-a is exact: IEEE sums that land in the subnormal range do not round);
        // a quotient that underflows is rounded absolutely, by at most half of denorm_min: that part is not calibrated
        H err = habs ((H) g - q) - H (L::denorm_min ());
        if (err < 0) err = 0;
        double ratio = err == 0 ? 0.0 : (double) (err / (H (eps) * aq));
        c.worst (ty == "double" ? "lerpfactor_def.double.err/(eps*|q|)" : "lerpfactor_def.float.err/(eps*|q|)", ratio, idx, desc);
        if (!(ratio <= C_LF_DEF)) c.fail ("lerpfactor." + ty + ":" + k, idx, [&] { return Obj ().kv ("m", (double) m).kv ("a", (double) a).kv ("b", (double) b).kv ("got", (double) g).kv ("want", (double) q).kv ("ratio", ratio).str (); });
        if (idx % 8 == 6 && !((H) g == q) && (H) (T) q == q) c.fail ("lerpfactor." + ty + ":exact_lattice_inexact", idx, desc);
    }
    else
    {
        c.cls ("quotient_at_max_either_accepted");
        H err = habs ((H) g - q);
        if (g != 0 && !(err <= H (64 * eps) * aq)) c.fail ("lerpfactor." + ty + ":near_max_neither_zero_nor_quotient", idx, desc);
    }
    c.sample (k, desc);
}
static void sub_lerpfactor_f (Ctx& c, uint64_t i) { sub_lerpfactor<float> (c, i); }
static void sub_lerpfactor_d (Ctx& c, uint64_t i) { sub_lerpfactor<double> (c, i); }
#define LF_REQ {"a_eq_b", "quotient_overflows", "small_d_representable", "d_gt_1", "quotient_near_max", "denormal_d", "exact_lattice", "random", "returns_zero_required", "quotient_required"}
MON_SUB_IDX (sub_lerpfactor_f, "lerpfactor_guard_float", 1000000, 150000000).req (LF_REQ).over ("lerpfactor<float>(m,a,b), operands <= max/4: a==b, tiny/denormal b-a with overflowing and with representable quotient, quotient within 4x of max, |b-a|>1, lattice; result must be finite, 0 when (m-a)/(b-a) overflows, the quotient otherwise");
MON_SUB_IDX (sub_lerpfactor_d, "lerpfactor_guard_double", 1000000, 150000000).req (LF_REQ).over ("as lerpfactor_guard_float for double");

// ---- equal (T1 a, T2 b, T3 t) with three DIFFERENT argument types: |a - b| <= t evaluated under the usual arithmetic
// conversions (nothing is narrowed to the first argument's type).  Added after seeded change C17-8 (equal -> iszero<T1>).
template <class T1, class T2, class T3>
static void
sub_equal_mixed (Ctx& c, uint64_t idx)
{
    Rng r = c.rng (idx);
    // values on a 1/8 lattice: every conversion and the subtraction are exact in all participating types
    auto gen = [&] (bool integral) { return integral ? (double) r.range (-40, 40) : (double) r.range (-320, 320) / 8.0; };
    double a = gen (std::is_integral<T1>::value), b = gen (std::is_integral<T2>::value);
    double d = std::fabs (a - b), t;
    const char* k;
    switch (idx % 4)
    {
        case 0: k = "tolerance_at_difference"; t = d; break;
        case 1: k = "tolerance_one_step_below"; t = d - 0.125; break;
        case 2: k = "tolerance_one_step_above"; t = d + 0.125; break;
        default: k = "tolerance_random"; t = (double) r.range (0, 80) / 8.0; break;
    }
    if (std::is_integral<T3>::value) t = std::floor (t);
    T1 A = (T1) a; T2 B = (T2) b; T3 Tt = (T3) t;
    c.cls (k);
    c.cls (std::fabs ((double) A - (double) B) != std::floor (std::fabs ((double) A - (double) B)) ? "fractional_difference" : "integral_difference");
    c.nontrivial (hmix (hmix (d2u (a), d2u (b) * 3), d2u (t) * 7));
    c.eval ();
    bool want = std::fabs ((double) A - (double) B) <= (double) Tt;
    bool got  = IM::equal (A, B, Tt);
    if (got != want)
        c.fail (std::string ("equal.mixed_types:") + k, idx, [&] { return Obj ().kv ("a", (double) A).kv ("b", (double) B).kv ("t", (double) Tt).kv ("got", got).kv ("want", want).str (); });
}
#define EQMIX_REQ {"tolerance_at_difference", "tolerance_one_step_below", "tolerance_one_step_above", "tolerance_random", "fractional_difference"}
MON_SUB_IDX ((sub_equal_mixed<int, double, double>), "equal_mixed_int_double_double", 40000, 4000000).req (EQMIX_REQ).over ("equal(a,b,t) with argument types (int,double,double) on a 1/8 lattice: |a-b| <= t under the usual conversions; tolerance at / one step off the difference");
MON_SUB_IDX ((sub_equal_mixed<short, float, float>), "equal_mixed_short_float_float", 40000, 4000000).req (EQMIX_REQ).over ("as above, (short,float,float)");
MON_SUB_IDX ((sub_equal_mixed<int, float, double>), "equal_mixed_int_float_double", 40000, 4000000).req (EQMIX_REQ).over ("as above, (int,float,double)");
MON_SUB_IDX ((sub_equal_mixed<double, int, float>), "equal_mixed_double_int_float", 40000, 4000000).req (EQMIX_REQ).over ("as above, (double,int,float)");
MON_SUB_IDX ((sub_equal_mixed<float, double, int>), "equal_mixed_float_double_int", 40000, 4000000).req ({"tolerance_at_difference", "tolerance_random", "fractional_difference"}).over ("as above, (float,double,int): integer tolerance");

MON_MAIN ("c17_utils")
