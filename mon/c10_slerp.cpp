// C10 (part 3) - slerp, slerpShortestArc, squad, spline:
//   slerp            unit result, endpoints at t = 0 and 1, 4-D angle from q1 equals |t| a and from q2 equals |1-t| a
//                    (a = angle4D(q1,q2) < 0.95 pi, t in [-0.05, 1.05]); also compared with
//                    (sin((1-t)a) q1 + sin(t a) q2) / sin a  evaluated in the reference precision
//   slerp_shortest   never the long way round: 4-D angle from q1 <= pi/2, and it is the slerp towards the nearer of +-q2
//   squad_spline_keys  squad / spline return their key quaternions at t = 0 and t = 1
//   spline_tangent   one-sided second-order difference quotients of consecutive spline segments agree at the shared key
#include "c10_common.h"

using namespace c10;

namespace tol
{
// Calibrated on the unchanged tree (thorough tier: 3e7 float / 2e7 double slerp cases, 2e7 / 1e7 shortest-arc,
// 1e7 key cases, 4e6 tangent cases); worst = float / double; all in units of eps of the type unless stated,
// every constant >= 8x the worst.
static const double slerp_unit  = 16;  // | |s| - 1 | <= C eps                                   worst 1.44 / 1.43
static const double slerp_end   = 8;   // |s - q_end|_inf <= C eps                               worst 0.84 / 0.83
static const double slerp_angle = 16;  // |angle4(q1,s) - |t| a| <= C eps / cos(a/2)              worst 1.67 / 1.63
static const double slerp_point = 16;  // |s - reference|_inf <= C eps / cos(a/2)                worst 1.59 / 1.57
static const double short_angle = 16;  // slerpShortestArc: angles <= C eps (no conditioning: a <= pi/2)   worst 1.49 / 1.58
static const double keys        = 8;   // |squad/spline(t=0,1) - key|_inf <= C eps               worst 0.81 / 0.81
static const double tangent_double = 1e-6; // relative, h = 2^-17 (the design's bound)             worst 3.0e-9
static const double tangent_float  = 2e-2; // relative, h = 2^-7                                  worst 2.2e-3
} // namespace tol

template <class T> static inline double E () { return eps_of<T>::value; }
static const long double PI = 3.141592653589793238462643383279502884L;

template <class H>
static Q4<H>
ref_slerp (const Q4<H>& a, const Q4<H>& b, H t)
{
    H ang = hangle4 (a, b), w1, w2;
    if (ang < (H) 1e-25L) { w1 = 1 - t; w2 = t; }
    else
    {
        H s = hp::sin (ang);
        w1  = hp::sin ((1 - t) * ang) / s;
        w2  = hp::sin (t * ang) / s;
    }
    Q4<H> o;
    for (int i = 0; i < 4; ++i) o.c[i] = w1 * a.c[i] + w2 * b.c[i];
    return hunit (o);
}

template <class T>
static inline bool
has_nan (const Quat<T>& q)
{
    return std::isnan ((double) q.r) || std::isnan ((double) q.v.x) || std::isnan ((double) q.v.y) || std::isnan ((double) q.v.z);
}

template <class T, class H>
static inline double
dist_inf (const Quat<T>& q, const Q4<H>& w)
{
    if (has_nan (q)) return NAN;
    H e = 0;
    for (int k = 0; k < 4; ++k) e = std::max (e, hp::fabs ((H) q[k] - w.c[k]));
    return (double) e;
}

enum
{
    NSA = 6,
    NTC = 7
};
static const char* const kSAClass[NSA] = {"angle_uniform_below_0.95pi", "angle_1e-k", "angle_just_below_0.95pi", "angle_zero", "angle_half_pi_pm_1e-k", "angle_0.90pi_to_0.95pi"};
static const char* const kTClass[NTC]  = {"t_zero", "t_one", "t_inside", "t_below_zero", "t_above_one", "t_1e-k_from_an_end", "t_half"};

template <class T>
static T
gen_t (Rng& r, unsigned tc)
{
    switch (tc % NTC)
    {
        case 0: return T (0);
        case 1: return T (1);
        case 2: return (T) r.uniform ();
        case 3: return (T) -r.uniform (1e-6, 0.05);
        case 4: return (T) (1 + r.uniform (1e-6, 0.05));
        case 5: { double d = r.uniform (0.1, 1.0) * std::pow (10.0, -(double) r.range (1, 10)); return (T) (r.coin () ? d : 1 - d); }
        default: return T (0.5);
    }
}

// ------------------------------------------------------------------ slerp
template <class T>
static void
sub_slerp (Ctx& c, uint64_t idx)
{
    typedef typename HPOf<T>::type H;
    Rng      r  = c.rng (idx);
    unsigned qc = (unsigned) (idx % NQCLS), ac = (unsigned) ((idx / NQCLS) % NSA), tc = (unsigned) ((idx / (NQCLS * NSA)) % NTC);
    UQ       u1 = gen_unit (r, qc), u2;
    long double a;
    switch (ac)
    {
        case 0: a = (long double) r.uniform (0.0, 0.95) * PI; break;
        case 1: a = (long double) r.uniform (0.1, 1.0) * p10 ((int) r.range (0, 11)); break;
        case 2: a = 0.95L * PI - (long double) r.uniform (1e-4, 0.02); break;
        case 3: a = 0; break;
        case 4: a = PI / 2 + (r.coin () ? 1 : -1) * (long double) r.uniform (0.1, 1.0) * p10 ((int) r.range (0, 16)); break;
        default: a = (long double) r.uniform (0.90, 0.949) * PI; break;
    }
    u2 = a == 0 ? u1 : at_angle4 (r, u1, a);
    Quat<T> q1 = mkq<T> (u1), q2 = mkq<T> (u2);
    T       t  = gen_t<T> (r, tc);
    Q4<H>   h1 = hunit (toH (q1)), h2 = hunit (toH (q2));
    H       ang = hangle4 (h1, h2);
    if (!(ang < (H) (0.95L * PI)))
    {
        Quat<T> s = slerp (q1, q2, t); // executed, not judged: the statement is quantified over angle4D < 0.95 pi
        (void) s;
        c.cls ("skipped_beyond_0.95pi");
        return;
    }
    c.eval ();
    c.cls (kQClass[qc]);
    c.cls (kSAClass[ac]);
    c.cls (kTClass[tc]);
    {
        // tiny-argument arm of sinx_over_x (x*x < eps) taken by at least one of its three arguments
        double x = (double) ang, tt = (double) t;
        if (x * x < E<T> () || (tt * x) * (tt * x) < E<T> () || ((1 - tt) * x) * ((1 - tt) * x) < E<T> ()) c.cls ("sinx_over_x_returns_one");
        if (x * x < E<T> ()) c.cls ("sinx_over_x_returns_one_for_the_full_angle");
    }
    c.nontrivial (hash_combine (hash_combine (qhash (q1), qhash (q2)), d2u ((double) t)));

    Quat<T> s  = slerp (q1, q2, t);
    Q4<H>   sh = toH (s);
    H       th = (H) t;
    auto    desc = [&] { return Obj ().raw ("q1", qjson (q1)).raw ("q2", qjson (q2)).kv ("t", (double) t).kv ("angle4D", (double) ang).raw ("slerp", qjson (s)).str (); };
    bool    nan = has_nan (s);
    judge<T> (c, "slerp.unit", kSAClass[ac], nan ? NAN : (double) hp::fabs (hnorm (sh) - 1) / E<T> (), tol::slerp_unit, idx, desc);
    if (t == T (0)) judge<T> (c, "slerp.endpoint_t0", kSAClass[ac], dist_inf (s, h1) / E<T> (), tol::slerp_end, idx, desc);
    if (t == T (1)) judge<T> (c, "slerp.endpoint_t1", kSAClass[ac], dist_inf (s, h2) / E<T> (), tol::slerp_end, idx, desc);
    H a1 = hangle4 (h1, sh), a2 = hangle4 (sh, h2);
    // conditioning: the weights divide by sin(a), and |q1 + q2| = 2 cos(a/2) -> 0 towards the excluded q1 = -q2;
    // 1/cos(a/2) is 1 at a = 0 and 12.7 at a = 0.95 pi
    const double cond = 1.0 / std::cos (0.5 * (double) ang);
    judge<T> (c, "slerp.angle_from_q1", kTClass[tc], nan ? NAN : (double) hp::fabs (a1 - hp::fabs (th) * ang) / (E<T> () * cond), tol::slerp_angle, idx,
              [&] { return Obj ().raw ("q1", qjson (q1)).raw ("q2", qjson (q2)).kv ("t", (double) t).kv ("angle4D(q1,q2)", (double) ang).raw ("slerp", qjson (s)).kv ("angle4D(q1,slerp)", (double) a1).kv ("want", (double) (hp::fabs (th) * ang)).str (); });
    judge<T> (c, "slerp.angle_to_q2", kTClass[tc], nan ? NAN : (double) hp::fabs (a2 - hp::fabs (1 - th) * ang) / (E<T> () * cond), tol::slerp_angle, idx,
              [&] { return Obj ().raw ("q1", qjson (q1)).raw ("q2", qjson (q2)).kv ("t", (double) t).kv ("angle4D(q1,q2)", (double) ang).raw ("slerp", qjson (s)).kv ("angle4D(slerp,q2)", (double) a2).kv ("want", (double) (hp::fabs (1 - th) * ang)).str (); });
    Q4<H> ref = ref_slerp (h1, h2, th);
    judge<T> (c, "slerp.point", kSAClass[ac], dist_inf (s, ref) / (E<T> () * cond), tol::slerp_point, idx, desc);
    if (idx % 1049 == 0) c.sample (kSAClass[ac], desc);
}
static std::vector<std::string>
slerp_req ()
{
    std::vector<std::string> v (kQClass, kQClass + NQCLS);
    v.insert (v.end (), kSAClass, kSAClass + NSA);
    v.insert (v.end (), kTClass, kTClass + NTC);
    v.push_back ("sinx_over_x_returns_one");
    v.push_back ("sinx_over_x_returns_one_for_the_full_angle");
    return v;
}
#define SL_SPACE "q1 from the 10 unit-quaternion classes; q2 at 4-D angle a from q1 in a random direction, a uniform in [0,0.95pi) | 1e-1..1e-12 | just below 0.95pi | 0 | pi/2 +- 1e-k | 0.90pi..0.95pi (pairs that come out at >= 0.95pi after rounding are executed, not judged); t = 0 | 1 | in (0,1) | in [-0.05,0) | in (1,1.05] | 1e-k from an end | 1/2"
MON_SUB_IDX (sub_slerp<float>, "slerp.float", 1500000, 30000000).req (slerp_req ()).over (SL_SPACE);
MON_SUB_IDX (sub_slerp<double>, "slerp.double", 800000, 20000000).req (slerp_req ()).over (SL_SPACE);

// ------------------------------------------------------------------ slerpShortestArc
enum
{
    NSH = 6
};
static const char* const kShClass[NSH] = {"q2_independent", "angle_uniform_0_pi", "angle_half_pi_pm_1e-k", "angle_pi_minus_1e-k", "q2_is_minus_q1", "dot_exactly_zero"};

template <class T>
static void
sub_shortest (Ctx& c, uint64_t idx)
{
    typedef typename HPOf<T>::type H;
    Rng      r  = c.rng (idx);
    unsigned qc = (unsigned) (idx % NQCLS), ac = (unsigned) ((idx / NQCLS) % NSH), tc = (unsigned) ((idx / (NQCLS * NSH)) % 4);
    UQ       u1 = gen_unit (r, qc), u2;
    switch (ac)
    {
        case 0: u2 = gen_unit (r, (unsigned) r.range (0, NQCLS - 1)); break;
        case 1: u2 = at_angle4 (r, u1, (long double) r.uniform () * PI); break;
        case 2: u2 = at_angle4 (r, u1, PI / 2 + (r.coin () ? 1 : -1) * (long double) r.uniform (0.1, 1.0) * p10 ((int) r.range (0, 17))); break;
        case 3: u2 = at_angle4 (r, u1, PI - (long double) r.uniform (0.1, 1.0) * p10 ((int) r.range (0, 17))); break;
        case 4: for (int i = 0; i < 4; ++i) u2.c[i] = -u1.c[i]; break;
        default: { // two different basis quaternions with random signs
            int a = (int) r.range (0, 3), b = (a + 1 + (int) r.range (0, 2)) % 4;
            for (int i = 0; i < 4; ++i) { u1.c[i] = i == a ? (r.coin () ? 1 : -1) : 0; u2.c[i] = i == b ? (r.coin () ? 1 : -1) : 0; }
            break;
        }
    }
    Quat<T> q1 = mkq<T> (u1), q2 = mkq<T> (u2);
    T       t  = tc == 0 ? (T) r.uniform () : tc == 1 ? T (0) : tc == 2 ? T (1) : T (0.5);
    c.eval ();
    c.cls (kQClass[qc]);
    c.cls (kShClass[ac]);
    c.nontrivial (hash_combine (hash_combine (qhash (q1), qhash (q2)), d2u ((double) t)));

    Q4<H> h1 = hunit (toH (q1)), h2 = hunit (toH (q2));
    H     dot = hdot (h1, h2);
    c.cls (dot < 0 ? "q2_flipped" : "q2_kept");
    Quat<T> s  = slerpShortestArc (q1, q2, t);
    Q4<H>   sh = toH (s);
    bool    nan = has_nan (s);
    H       th = (H) t, a1 = hangle4 (h1, sh);
    auto    desc = [&] { return Obj ().raw ("q1", qjson (q1)).raw ("q2", qjson (q2)).kv ("t", (double) t).kv ("q1^q2", (double) dot).raw ("slerpShortestArc", qjson (s)).kv ("angle4D(q1,result)", (double) a1).str (); };
    judge<T> (c, "slerpShortestArc.unit", kShClass[ac], nan ? NAN : (double) hp::fabs (hnorm (sh) - 1) / E<T> (), tol::slerp_unit, idx, desc);
    // never the long way round: the whole short arc lies within pi/2 of q1
    H over = a1 - hp::pi<H> () / 2;
    judge<T> (c, "slerpShortestArc.long_way_round", kShClass[ac], nan ? NAN : (double) (over > 0 ? over : (H) 0) / E<T> (), tol::short_angle, idx, desc);
    // it is the slerp towards the nearer of +-q2 (either, when they are equally near up to rounding)
    auto dev = [&] (int sign) {
        Q4<H> g = sign > 0 ? h2 : hneg (h2);
        H     a = hangle4 (h1, g), a2 = hangle4 (sh, g);
        return (double) std::max (hp::fabs (a1 - th * a), hp::fabs (a2 - (1 - th) * a));
    };
    double d;
    if ((double) hp::fabs (dot) < 64 * E<T> ()) { d = std::min (dev (1), dev (-1)); c.cls ("q2_and_minus_q2_equally_near"); }
    else d = dev (dot < 0 ? -1 : 1);
    judge<T> (c, "slerpShortestArc.angle", kShClass[ac], nan ? NAN : d / E<T> (), tol::short_angle, idx, desc);
    if (idx % 1051 == 0) c.sample (kShClass[ac], desc);
}
static std::vector<std::string>
shortest_req ()
{
    std::vector<std::string> v (kQClass, kQClass + NQCLS);
    v.insert (v.end (), kShClass, kShClass + NSH);
    for (auto s: {"q2_flipped", "q2_kept", "q2_and_minus_q2_equally_near"}) v.push_back (s);
    return v;
}
#define SH_SPACE "q1 from the 10 unit-quaternion classes; q2 independent | at 4-D angle uniform in [0,pi] | pi/2 +- 1e-k | pi - 1e-k | exactly -q1 | a different basis quaternion (dot exactly 0); t uniform in [0,1] | 0 | 1 | 1/2"
MON_SUB_IDX (sub_shortest<float>, "slerp_shortest.float", 1000000, 20000000).req (shortest_req ()).over (SH_SPACE);
MON_SUB_IDX (sub_shortest<double>, "slerp_shortest.double", 600000, 10000000).req (shortest_req ()).over (SH_SPACE);

// ------------------------------------------------------------------ squad / spline keys
enum
{
    NKC = 6
};
static const char* const kKeyClass[NKC] = {"spline_steps_0.1_to_0.9_rad", "spline_steps_up_to_2.4_rad", "spline_steps_1e-k_rad", "squad_generic_quadrangle", "squad_degenerate_quadrangle", "spline_repeated_end_key"};

// next key: previous key times a rotation by phi about a random (or given) axis
static UQ
next_key (Rng& r, const UQ& q, long double phi, const long double* axis = nullptr)
{
    long double ax[3];
    if (axis) for (int i = 0; i < 3; ++i) ax[i] = axis[i];
    else unit3 (r, ax);
    return step_by (q, ax, phi);
}

template <class T>
static void
sub_keys (Ctx& c, uint64_t idx)
{
    typedef typename HPOf<T>::type H;
    Rng      r  = c.rng (idx);
    unsigned qc = (unsigned) (idx % NQCLS), kc = (unsigned) ((idx / NQCLS) % NKC);
    UQ       k[4];
    k[0] = gen_unit (r, qc);
    auto phi = [&] () -> long double {
        switch (kc)
        {
            case 1: return (long double) r.uniform (0.01, 2.4);
            case 2: return (long double) r.uniform (0.1, 1.0) * p10 ((int) r.range (0, 9));
            default: return (long double) r.uniform (0.1, 0.9);
        }
    };
    Quat<T> res0, res1, want0, want1;
    const char* fn;
    Quat<T> Q[4];
    if (kc == 3 || kc == 4)
    {
        // squad (q1, qa, qb, q2, t): q1 -> q2 with inner quadrangle points qa, qb
        k[3] = at_angle4 (r, k[0], (long double) r.uniform (0.0, 0.9) * PI);
        k[1] = kc == 3 ? at_angle4 (r, k[0], (long double) r.uniform (0.0, 1.0)) : k[0];
        k[2] = kc == 3 ? at_angle4 (r, k[3], (long double) r.uniform (0.0, 1.0)) : k[3];
        for (int i = 0; i < 4; ++i) Q[i] = mkq<T> (k[i]);
        res0 = squad (Q[0], Q[1], Q[2], Q[3], T (0));
        res1 = squad (Q[0], Q[1], Q[2], Q[3], T (1));
        want0 = Q[0];
        want1 = Q[3];
        fn    = "squad";
    }
    else
    {
        for (int i = 1; i < 4; ++i) k[i] = next_key (r, k[i - 1], phi ());
        if (kc == 5) { if (r.coin ()) k[0] = k[1]; else k[3] = k[2]; }
        for (int i = 0; i < 4; ++i) Q[i] = mkq<T> (k[i]);
        res0 = spline (Q[0], Q[1], Q[2], Q[3], T (0));
        res1 = spline (Q[0], Q[1], Q[2], Q[3], T (1));
        want0 = Q[1];
        want1 = Q[2];
        fn    = "spline";
    }
    c.eval (2);
    c.cls (kQClass[qc]);
    c.cls (kKeyClass[kc]);
    uint64_t h = 0;
    for (int i = 0; i < 4; ++i) h = hash_combine (h, qhash (Q[i]));
    c.nontrivial (h);
    auto desc = [&] {
        return Obj ().kv ("function", fn).raw ("k0", qjson (Q[0])).raw ("k1", qjson (Q[1])).raw ("k2", qjson (Q[2])).raw ("k3", qjson (Q[3])).raw ("at_t0", qjson (res0)).raw ("at_t1", qjson (res1)).str ();
    };
    double e0 = dist_inf (res0, hunit (toH (want0))) / E<T> (), e1 = dist_inf (res1, hunit (toH (want1))) / E<T> ();
    judge<T> (c, fn[1] == 'q' ? "squad.key_t0" : "spline.key_t0", kKeyClass[kc], e0, tol::keys, idx, desc);
    judge<T> (c, fn[1] == 'q' ? "squad.key_t1" : "spline.key_t1", kKeyClass[kc], e1, tol::keys, idx, desc);
    (void) sizeof (H);
    if (idx % 1061 == 0) c.sample (kKeyClass[kc], desc);
}
static std::vector<std::string>
keys_req ()
{
    std::vector<std::string> v (kQClass, kQClass + NQCLS);
    v.insert (v.end (), kKeyClass, kKeyClass + NKC);
    return v;
}
#define KEY_SPACE "first key from the 10 unit-quaternion classes; spline: 4 keys, consecutive keys differ by a rotation of 0.1..0.9 rad | 0.01..2.4 rad | 1e-1..1e-10 rad about random axes, or with a repeated end key; squad: q2 within 0.9pi of q1, inner points within 1 rad (4-D) of their keys, or equal to them; each evaluated at t = 0 and t = 1"
MON_SUB_IDX (sub_keys<float>, "squad_spline_keys.float", 600000, 10000000).req (keys_req ()).over (KEY_SPACE);
MON_SUB_IDX (sub_keys<double>, "squad_spline_keys.double", 600000, 10000000).req (keys_req ()).over (KEY_SPACE);

// ------------------------------------------------------------------ tangent continuity of consecutive spline segments
template <class T> struct TangentCfg;
template <> struct TangentCfg<double> { static double h () { return 1.0 / 131072; } static double tol () { return tol::tangent_double; } };
template <> struct TangentCfg<float> { static double h () { return 1.0 / 128; } static double tol () { return tol::tangent_float; } };

enum
{
    NTG = 4
};
static const char* const kTgClass[NTG] = {"keys_generic", "keys_equal_step_angles", "keys_coaxial", "keys_steps_near_0.1_or_0.9_rad"};

template <class T>
static void
sub_tangent (Ctx& c, uint64_t idx)
{
    typedef typename HPOf<T>::type H;
    Rng      r  = c.rng (idx);
    unsigned qc = (unsigned) (idx % NQCLS), gc = (unsigned) ((idx / NQCLS) % NTG);
    UQ       k[5];
    k[0] = gen_unit (r, qc);
    long double ax[3], ph = (long double) r.uniform (0.1, 0.9);
    unit3 (r, ax);
    for (int i = 1; i < 5; ++i)
    {
        long double p = gc == 1 ? ph : gc == 3 ? (r.coin () ? (long double) r.uniform (0.1, 0.11) : (long double) r.uniform (0.89, 0.9)) : (long double) r.uniform (0.1, 0.9);
        k[i] = next_key (r, k[i - 1], p, gc == 2 ? ax : nullptr);
    }
    Quat<T> Q[5];
    for (int i = 0; i < 5; ++i) Q[i] = mkq<T> (k[i]);
    c.eval ();
    c.cls (kQClass[qc]);
    c.cls (kTgClass[gc]);
    uint64_t hs = 0;
    for (int i = 0; i < 5; ++i) hs = hash_combine (hs, qhash (Q[i]));
    c.nontrivial (hs);

    const T h = (T) TangentCfg<T>::h (); // a power of two: 1-h, 1-2h, h, 2h are exact
    Quat<T> f1 = spline (Q[0], Q[1], Q[2], Q[3], T (1)), f2 = spline (Q[0], Q[1], Q[2], Q[3], T (1) - h), f3 = spline (Q[0], Q[1], Q[2], Q[3], T (1) - 2 * h);
    Quat<T> g1 = spline (Q[1], Q[2], Q[3], Q[4], T (0)), g2 = spline (Q[1], Q[2], Q[3], Q[4], h), g3 = spline (Q[1], Q[2], Q[3], Q[4], 2 * h);
    H       dn = 0, fn = 0;
    double  Df[4], Dg[4];
    for (int i = 0; i < 4; ++i)
    {
        H a = (3 * (H) f1[i] - 4 * (H) f2[i] + (H) f3[i]) / (2 * (H) h);  // end tangent of segment [k1,k2]
        H b = (-3 * (H) g1[i] + 4 * (H) g2[i] - (H) g3[i]) / (2 * (H) h); // start tangent of segment [k2,k3]
        Df[i] = (double) a;
        Dg[i] = (double) b;
        dn += (a - b) * (a - b);
        fn += a * a;
    }
    bool   nan = has_nan (f1) || has_nan (f2) || has_nan (f3) || has_nan (g1) || has_nan (g2) || has_nan (g3);
    // Relative to the speed of the curve: the larger of the tangent itself and the 4-D angles of the two
    // adjacent key intervals (the tangent at a key is ~ half the difference of the two interval logarithms and
    // can vanish when the keys back-track, which would make a mismatch relative to |tangent| meaningless).
    H scale = std::max (hp::sqrt (fn), std::max (hangle4 (hunit (toH (Q[1])), hunit (toH (Q[2]))), hangle4 (hunit (toH (Q[2])), hunit (toH (Q[3])))));
    double rel = nan ? NAN : (double) (hp::sqrt (dn) / scale);
    if ((double) hp::sqrt (fn) < 0.25 * (double) scale) c.cls ("tangent_much_smaller_than_key_spacing");
    // the ratio recorded is the relative tangent mismatch itself (not in eps units)
    judge<T> (c, "spline.tangent_continuity", kTgClass[gc], rel, TangentCfg<T>::tol (), idx, [&] {
        return Obj ().raw ("k0", qjson (Q[0])).raw ("k1", qjson (Q[1])).raw ("k2", qjson (Q[2])).raw ("k3", qjson (Q[3])).raw ("k4", qjson (Q[4])).kv ("h", (double) h).arr ("end_tangent_of_segment_k1k2", Df, 4).arr ("start_tangent_of_segment_k2k3", Dg, 4).kv ("relative_mismatch", rel).str ();
    });
    if (idx % 1063 == 0)
        c.sample (kTgClass[gc], [&] { return Obj ().raw ("k2", qjson (Q[2])).arr ("end_tangent", Df, 4).arr ("start_tangent", Dg, 4).kv ("relative_mismatch", rel).str (); });
}
static std::vector<std::string>
tangent_req ()
{
    std::vector<std::string> v (kQClass, kQClass + NQCLS);
    v.insert (v.end (), kTgClass, kTgClass + NTG);
    return v;
}
#define TG_SPACE "5 keys: first from the 10 unit-quaternion classes, consecutive keys differ by rotations of 0.1..0.9 rad (random axes | equal angles | one common axis | angles at the ends of the range); segments spline(k0..k3,.) at t = 1, 1-h, 1-2h and spline(k1..k4,.) at t = 0, h, 2h; h = 2^-17 (double), 2^-7 (float)"
MON_SUB_IDX (sub_tangent<double>, "spline_tangent.double", 200000, 4000000).req (tangent_req ()).over (TG_SPACE);
MON_SUB_IDX (sub_tangent<float>, "spline_tangent.float", 200000, 4000000).req (tangent_req ()).over (TG_SPACE);
