// C05, TU 2 of 3: matrix x matrix (operator*, *=, Matrix44::multiply 2-/3-argument),
// vector x matrix (operator*, *=, multVecMatrix, multDirMatrix; plain and homogeneous forms,
// same-type and mixed vector/matrix element types), transpose / transposed, trace.
#include "c05_common.h"

using namespace c05;

static const double C_MATMUL = 16.0; // eps * sum|terms|, see lib/props.d/c05.py for the calibration
static const double C_VECMAT = 16.0;
static const double C_HOMOG  = 24.0; // eps * (S_j + |A_j/W| S_w) / |W|
static const double C_TRACE  = 16.0;

// second operand of a product: same class, but for the structured classes sometimes a dense
// (or plain lattice) partner so that structured x unstructured products are seen too
static int
partner_class (Rng& r, int cls)
{
    if (cls == K_LATSPARSE) return r.one_in (4) ? (int) K_LATTICE : cls;
    if (cls == K_LATTICE || cls == K_DENSE || cls == K_LOG) return cls;
    return r.one_in (4) ? (int) K_DENSE : cls;
}

// ------------------------------------------------------------------ matrix x matrix
template <class T, int N> static void
check_matmul (Ctx& c, uint64_t idx, int cls, Rng& r)
{
    using R = typename Ref<T>::type;
    using M = typename MatOf<T, N>::type;
    static const std::string fn = "matmul" + std::to_string (N) + std::to_string (N) + "." + tname<T> (), fnr = fn + ".ratio";
    T a[N][N], b[N][N];
    GenParam g;
    gen_mat<T, N> (r, cls, a, g);
    gen_mat<T, N> (r, partner_class (r, cls), b, g);
    M A = make_mat<T, N> (a), B = make_mat<T, N> (b);
    M P = A * B;
    M Q = A;
    const M& ret = (Q *= B);
    auto inputs = [&] (Obj& o) -> Obj& { return o.kv ("class", cls_name[cls]).arr ("A(row-major)", &a[0][0], N * N).arr ("B(row-major)", &b[0][0], N * N); };
    bool   any = false;
    double wr = 0;
    int    wi = 0, wj = 0;
    R      wref = 0, ws = 0;
    for (int i = 0; i < N; ++i)
        for (int j = 0; j < N; ++j)
        {
            R ref = 0, s = 0;
            for (int k = 0; k < N; ++k)
            {
                R t = (R) a[i][k] * (R) b[k][j];
                ref += t;
                s += rabs (t);
            }
            if (s > 0) any = true;
            double ratio = err_ratio (P[i][j], ref, s);
            if (ratio > wr) { wr = ratio; wi = i; wj = j; wref = ref; ws = s; }
            if (is_bad (cls, P[i][j], ref, ratio, C_MATMUL))
                c.fail (fn + ":" + slot2 (i, j), idx, [&] { Obj o; return inputs (o).kv ("i", i).kv ("j", j).kv ("got", (double) P[i][j]).kv ("want", (double) ref).kv ("sum_abs_terms", (double) s).kv ("ratio", ratio).str (); });
            if (!same_bits (P[i][j], Q[i][j]))
                c.fail (fn + ":spelling(*=)", idx, [&] { Obj o; return inputs (o).kv ("i", i).kv ("j", j).kv ("operator*", (double) P[i][j]).kv ("operator*=", (double) Q[i][j]).str (); });
        }
    if (&ret != &Q) c.fail (fn + ":spelling(*=,return)", idx, [&] { return Obj ().kv ("what", "operator*= did not return *this").str (); });
    c.eval ();
    if (any) c.nontrivial (hash_arr (hash_arr (10 + N, &a[0][0], N * N), &b[0][0], N * N));
    if (!is_lattice (cls) && std::isfinite (wr))
        c.worst (fnr.c_str (), wr, idx, [&] { Obj o; return inputs (o).kv ("i", wi).kv ("j", wj).kv ("got", (double) P[wi][wj]).kv ("want", (double) wref).kv ("sum_abs_terms", (double) ws).str (); });
    if (N == 4) c.sample (cls_name[cls], [&] { Obj o; return inputs (o).arr ("A*B(row-major)", &P[0][0], N * N).str (); });
    if (r.one_in (8))
    {
        // A *= A against A * A
        M S1 = A * A, S2 = A;
        S2 *= S2;
        c.cls ("self_alias");
        for (int i = 0; i < N; ++i)
            for (int j = 0; j < N; ++j)
                if (!same_bits (S1[i][j], S2[i][j]))
                    c.fail (fn + ":spelling(*=,self_alias)", idx, [&] { return Obj ().arr ("A(row-major)", &a[0][0], N * N).kv ("i", i).kv ("j", j).kv ("A*A", (double) S1[i][j]).kv ("A*=A", (double) S2[i][j]).str (); });
    }
}

// the two static spellings that exist for Matrix44 only
template <class T> static void
check_static_multiply (Ctx& c, uint64_t idx, int cls, Rng& r)
{
    static const std::string fn = "matmul44." + tname<T> ();
    T a[4][4], b[4][4];
    GenParam g;
    gen_mat<T, 4> (r, cls, a, g);
    gen_mat<T, 4> (r, partner_class (r, cls), b, g);
    Matrix44<T> A = make_mat<T, 4> (a), B = make_mat<T, 4> (b);
    Matrix44<T> P = A * B;
    Matrix44<T> S2 = Matrix44<T>::multiply (A, B);
    Matrix44<T> S3; // identity
    Matrix44<T>::multiply (A, B, S3);
    c.eval ();
    for (int i = 0; i < 4; ++i)
        for (int j = 0; j < 4; ++j)
        {
            if (!same_bits (P[i][j], S2[i][j]))
                c.fail (fn + ":spelling(multiply(a,b))", idx, [&] { return Obj ().kv ("class", cls_name[cls]).arr ("A(row-major)", &a[0][0], 16).arr ("B(row-major)", &b[0][0], 16).kv ("i", i).kv ("j", j).kv ("operator*", (double) P[i][j]).kv ("multiply(a,b)", (double) S2[i][j]).str (); });
            if (!same_bits (P[i][j], S3[i][j]))
                c.fail (fn + ":spelling(multiply(a,b,c))", idx, [&] { return Obj ().kv ("class", cls_name[cls]).arr ("A(row-major)", &a[0][0], 16).arr ("B(row-major)", &b[0][0], 16).kv ("i", i).kv ("j", j).kv ("operator*", (double) P[i][j]).kv ("multiply(a,b,c)", (double) S3[i][j]).str (); });
        }
    // A, B must not have been modified by any spelling
    for (int i = 0; i < 4; ++i)
        for (int j = 0; j < 4; ++j)
            if (!same_bits (A[i][j], a[i][j]) || !same_bits (B[i][j], b[i][j]))
                c.fail (fn + ":operand_modified", idx, [&] { return Obj ().kv ("i", i).kv ("j", j).str (); });
}

template <class T> static void
sub_matmul (Ctx& c, uint64_t idx)
{
    Rng r = c.rng (idx);
    int cls = (int) (idx % K_NCLS);
    c.cls (cls_name[cls]);
    check_matmul<T, 2> (c, idx, cls, r);
    check_matmul<T, 3> (c, idx, cls, r);
    check_matmul<T, 4> (c, idx, cls, r);
    check_static_multiply<T> (c, idx, cls, r);
}
MON_SUB_IDX (sub_matmul<float>, "matmul_float", 1000000, 50000000)
    .req ({C05_ALL_CLASSES, "self_alias"})
    .over ("per index one pair each of Matrix22f/33f/44f from 9 classes: operator*, operator*= (also A*=A), Matrix44::multiply(a,b) and (a,b,c) vs index-loop sums in long double");
MON_SUB_IDX (sub_matmul<double>, "matmul_double", 1000000, 10000000)
    .req ({C05_ALL_CLASSES, "self_alias"})
    .over ("per index one pair each of Matrix22d/33d/44d from 9 classes: operator*, operator*= (also A*=A), Matrix44::multiply(a,b) and (a,b,c) vs index-loop sums in __float128");

// ------------------------------------------------------------------ vector x matrix
template <class S, class T> struct Wider { using type = typename Ref<double>::type; };
template <> struct Wider<float, float> { using type = Ref<float>::type; };

template <class S, class T> static std::string
stname ()
{
    if (std::is_same<S, T>::value) return tname<S> ();
    return std::string ("V") + tname<S> () + "xM" + tname<T> ();
}

// plain row-vector x matrix: Vec2 x M22, Vec3 x M33, Vec4 x M44
template <class S, class T, int N> static void
check_plain (Ctx& c, uint64_t idx, int cls, Rng& r)
{
    using R = typename Wider<S, T>::type;
    using V = typename VecOf<S, N>::type;
    using M = typename MatOf<T, N>::type;
    static const std::string fn = "vec" + std::to_string (N) + "xM" + std::to_string (N) + std::to_string (N) + "." + stname<S, T> (), fnr = fn + ".ratio";
    S v[N];
    T a[N][N];
    GenParam g;
    gen_vec<S, N> (r, partner_class (r, cls), v, g);
    gen_mat<T, N> (r, cls, a, g);
    V vv = make_vec<S, N> (v);
    M A = make_mat<T, N> (a);
    V g1 = vv * A, g2 = vv;
    const V& ret = (g2 *= A);
    auto inputs = [&] (Obj& o) -> Obj& { return o.kv ("class", cls_name[cls]).arr ("v", v, N).arr ("M(row-major)", &a[0][0], N * N); };
    bool   any = false;
    double wr = 0;
    int    wj = 0;
    R      wref = 0, ws = 0;
    for (int j = 0; j < N; ++j)
    {
        R ref = 0, s = 0;
        for (int i = 0; i < N; ++i)
        {
            R t = (R) v[i] * (R) a[i][j];
            ref += t;
            s += rabs (t);
        }
        if (s > 0) any = true;
        double ratio = err_ratio (g1[j], ref, s);
        if (ratio > wr) { wr = ratio; wj = j; wref = ref; ws = s; }
        if (is_bad (cls, g1[j], ref, ratio, C_VECMAT))
            c.fail (fn + ":" + slot1 (j), idx, [&] { Obj o; return inputs (o).kv ("j", j).kv ("got", (double) g1[j]).kv ("want", (double) ref).kv ("sum_abs_terms", (double) s).kv ("ratio", ratio).str (); });
        if (!same_bits (g1[j], g2[j]))
            c.fail (fn + ":spelling(*=)", idx, [&] { Obj o; return inputs (o).kv ("j", j).kv ("operator*", (double) g1[j]).kv ("operator*=", (double) g2[j]).str (); });
    }
    if (&ret != &g2) c.fail (fn + ":spelling(*=,return)", idx, [&] { return Obj ().kv ("what", "operator*= did not return its left operand").str (); });
    c.eval ();
    if (any) c.nontrivial (hash_arr (hash_arr (20 + N, v, N), &a[0][0], N * N));
    if (!is_lattice (cls) && std::isfinite (wr))
        c.worst (fnr.c_str (), wr, idx, [&] { Obj o; return inputs (o).kv ("j", wj).kv ("got", (double) g1[wj]).kv ("want", (double) wref).kv ("sum_abs_terms", (double) ws).str (); });
    if (N == 4) c.sample (cls_name[cls], [&] { Obj o; return inputs (o).arr ("v*M", &g1[0], N).str (); });
}

// Matrix22::multDirMatrix is the member spelling of Vec2 x M22
template <class S, class T> static void
check_m22_multdir (Ctx& c, uint64_t idx, int cls, Rng& r)
{
    static const std::string fn = "vec2xM22." + stname<S, T> ();
    S v[2];
    T a[2][2];
    GenParam g;
    gen_vec<S, 2> (r, partner_class (r, cls), v, g);
    gen_mat<T, 2> (r, cls, a, g);
    Vec2<S>     vv = make_vec<S, 2> (v);
    Matrix22<T> A = make_mat<T, 2> (a);
    Vec2<S>     g1 = vv * A, g3 (S (77), S (77)), g4 = vv;
    A.multDirMatrix (vv, g3);
    A.multDirMatrix (g4, g4);
    c.eval ();
    for (int j = 0; j < 2; ++j)
    {
        if (!same_bits (g1[j], g3[j]))
            c.fail (fn + ":spelling(multDirMatrix)", idx, [&] { return Obj ().kv ("class", cls_name[cls]).arr ("v", v, 2).arr ("M(row-major)", &a[0][0], 4).kv ("j", j).kv ("operator*", (double) g1[j]).kv ("multDirMatrix", (double) g3[j]).str (); });
        if (!same_bits (g1[j], g4[j]))
            c.fail (fn + ":spelling(multDirMatrix,aliased_dst)", idx, [&] { return Obj ().kv ("class", cls_name[cls]).arr ("v", v, 2).arr ("M(row-major)", &a[0][0], 4).kv ("j", j).kv ("operator*", (double) g1[j]).kv ("multDirMatrix(v,v)", (double) g4[j]).str (); });
    }
}

// homogeneous forms: Vec2 x M33 and Vec3 x M44 (N = matrix dimension, vector has N-1 components):
// append 1, multiply, divide by the last coordinate
template <class S, class T, int N> static void
check_homog (Ctx& c, uint64_t idx, int cls, Rng& r)
{
    using R = typename Wider<S, T>::type;
    constexpr int n = N - 1;
    using V = typename VecOf<S, n>::type;
    using M = typename MatOf<T, N>::type;
    static const std::string fn = "vec" + std::to_string (n) + "xM" + std::to_string (N) + std::to_string (N) + "." + stname<S, T> (), fnr = fn + ".ratio";
    S v[n];
    T a[N][N];
    GenParam g;
    gen_vec<S, n> (r, partner_class (r, cls), v, g);
    gen_mat<T, N> (r, cls, a, g);
    V vv = make_vec<S, n> (v);
    M A = make_mat<T, N> (a);
    V g1 = vv * A, g2 = vv, g3, g4 = vv;
    for (int j = 0; j < n; ++j) g3[j] = S (77);
    const V& ret = (g2 *= A);
    A.multVecMatrix (vv, g3);
    A.multVecMatrix (g4, g4);
    auto inputs = [&] (Obj& o) -> Obj& { return o.kv ("class", cls_name[cls]).arr ("v", v, n).arr ("M(row-major)", &a[0][0], N * N); };
    c.eval ();
    // spellings agree bit for bit whatever the conditioning
    for (int j = 0; j < n; ++j)
    {
        if (!same_bits (g1[j], g2[j]))
            c.fail (fn + ":spelling(*=)", idx, [&] { Obj o; return inputs (o).kv ("j", j).kv ("operator*", (double) g1[j]).kv ("operator*=", (double) g2[j]).str (); });
        if (!same_bits (g1[j], g3[j]))
            c.fail (fn + ":spelling(multVecMatrix)", idx, [&] { Obj o; return inputs (o).kv ("j", j).kv ("operator*", (double) g1[j]).kv ("multVecMatrix", (double) g3[j]).str (); });
        if (!same_bits (g1[j], g4[j]))
            c.fail (fn + ":spelling(multVecMatrix,aliased_dst)", idx, [&] { Obj o; return inputs (o).kv ("j", j).kv ("operator*", (double) g1[j]).kv ("multVecMatrix(v,v)", (double) g4[j]).str (); });
    }
    if (&ret != &g2) c.fail (fn + ":spelling(*=,return)", idx, [&] { return Obj ().kv ("what", "operator*= did not return its left operand").str (); });

    R num[N], sabs[N];
    for (int j = 0; j < N; ++j)
    {
        R ref = 0, s = 0;
        for (int i = 0; i < N; ++i)
        {
            R t = (i < n ? (R) v[i] : (R) 1) * (R) a[i][j];
            ref += t;
            s += rabs (t);
        }
        num[j] = ref;
        sabs[j] = s;
    }
    R W = num[n], SW = sabs[n];
    if (W == 0)
    {
        c.cls ("skipped_w_zero");
        return;
    }
    if (is_lattice (cls))
    {
        // numerators and w are exact integers; the only rounding is the final IEEE division
        c.cls ("homogeneous_lattice_exact");
        for (int j = 0; j < n; ++j)
        {
            S want = (S) num[j] / (S) W;
            if (!(g1[j] == want))
                c.fail (fn + ":" + slot1 (j), idx, [&] { Obj o; return inputs (o).kv ("j", j).kv ("got", (double) g1[j]).kv ("want", (double) want).kv ("numerator", (double) num[j]).kv ("w", (double) W).str (); });
        }
        c.nontrivial (hash_arr (hash_arr (30 + N, v, n), &a[0][0], N * N));
        return;
    }
    if (rabs (W) < (R) 1e-3 * SW)
    {
        c.cls ("skipped_illconditioned");
        return;
    }
    c.cls (W == 1 ? "w_exactly_one" : "w_projective");
    double wr = 0;
    int    wj = 0;
    for (int j = 0; j < n; ++j)
    {
        R      ref = num[j] / W;
        R      scale = (sabs[j] + rabs (ref) * SW) / rabs (W);
        double ratio = err_ratio (g1[j], ref, scale);
        if (ratio > wr) { wr = ratio; wj = j; }
        if (!(ratio <= C_HOMOG))
            c.fail (fn + ":" + slot1 (j), idx, [&] { Obj o; return inputs (o).kv ("j", j).kv ("got", (double) g1[j]).kv ("want", (double) ref).kv ("w", (double) W).kv ("bound_scale", (double) scale).kv ("ratio", ratio).str (); });
    }
    c.nontrivial (hash_arr (hash_arr (30 + N, v, n), &a[0][0], N * N));
    if (std::isfinite (wr))
        c.worst (fnr.c_str (), wr, idx, [&] { Obj o; return inputs (o).kv ("j", wj).kv ("got", (double) g1[wj]).kv ("want", (double) (num[wj] / W)).kv ("w", (double) W).str (); });
    if (N == 4) c.sample (cls_name[cls], [&] { Obj o; return inputs (o).arr ("v*M", &g1[0], n).kv ("w", (double) W).str (); });
}

// multDirMatrix of Matrix33 (Vec2) and Matrix44 (Vec3): upper-left (N-1)x(N-1) block only
template <class S, class T, int N> static void
check_dir (Ctx& c, uint64_t idx, int cls, Rng& r)
{
    using R = typename Wider<S, T>::type;
    constexpr int n = N - 1;
    using V = typename VecOf<S, n>::type;
    using M = typename MatOf<T, N>::type;
    static const std::string fn = "multDirMatrix" + std::to_string (N) + std::to_string (N) + "." + stname<S, T> (), fnr = fn + ".ratio";
    S v[n];
    T a[N][N];
    GenParam g;
    gen_vec<S, n> (r, partner_class (r, cls), v, g);
    gen_mat<T, N> (r, cls, a, g);
    V vv = make_vec<S, n> (v);
    M A = make_mat<T, N> (a);
    V g1, g2 = vv;
    for (int j = 0; j < n; ++j) g1[j] = S (77);
    A.multDirMatrix (vv, g1);
    A.multDirMatrix (g2, g2);
    auto inputs = [&] (Obj& o) -> Obj& { return o.kv ("class", cls_name[cls]).arr ("v", v, n).arr ("M(row-major)", &a[0][0], N * N); };
    bool   any = false;
    double wr = 0;
    int    wj = 0;
    R      wref = 0, ws = 0;
    for (int j = 0; j < n; ++j)
    {
        R ref = 0, s = 0;
        for (int i = 0; i < n; ++i)
        {
            R t = (R) v[i] * (R) a[i][j];
            ref += t;
            s += rabs (t);
        }
        if (s > 0) any = true;
        double ratio = err_ratio (g1[j], ref, s);
        if (ratio > wr) { wr = ratio; wj = j; wref = ref; ws = s; }
        if (is_bad (cls, g1[j], ref, ratio, C_VECMAT))
            c.fail (fn + ":" + slot1 (j), idx, [&] { Obj o; return inputs (o).kv ("j", j).kv ("got", (double) g1[j]).kv ("want", (double) ref).kv ("sum_abs_terms", (double) s).kv ("ratio", ratio).str (); });
        if (!same_bits (g1[j], g2[j]))
            c.fail (fn + ":spelling(aliased_dst)", idx, [&] { Obj o; return inputs (o).kv ("j", j).kv ("multDirMatrix(v,d)", (double) g1[j]).kv ("multDirMatrix(v,v)", (double) g2[j]).str (); });
    }
    c.eval ();
    if (any) c.nontrivial (hash_arr (hash_arr (40 + N, v, n), &a[0][0], N * N));
    if (!is_lattice (cls) && std::isfinite (wr))
        c.worst (fnr.c_str (), wr, idx, [&] { Obj o; return inputs (o).kv ("j", wj).kv ("got", (double) g1[wj]).kv ("want", (double) wref).kv ("sum_abs_terms", (double) ws).str (); });
    if (N == 4) c.sample (cls_name[cls], [&] { Obj o; return inputs (o).arr ("multDirMatrix", &g1[0], n).str (); });
}

template <class S, class T> static void
sub_vecmat_plain (Ctx& c, uint64_t idx)
{
    Rng r = c.rng (idx);
    int cls = (int) (idx % K_NCLS);
    c.cls (cls_name[cls]);
    check_plain<S, T, 2> (c, idx, cls, r);
    check_plain<S, T, 3> (c, idx, cls, r);
    check_plain<S, T, 4> (c, idx, cls, r);
    check_m22_multdir<S, T> (c, idx, cls, r);
}
template <class S, class T> static void
sub_vecmat_homog (Ctx& c, uint64_t idx)
{
    Rng r = c.rng (idx);
    int cls = (int) (idx % K_NCLS);
    c.cls (cls_name[cls]);
    check_homog<S, T, 3> (c, idx, cls, r);
    check_homog<S, T, 4> (c, idx, cls, r);
}
template <class S, class T> static void
sub_multdir (Ctx& c, uint64_t idx)
{
    Rng r = c.rng (idx);
    int cls = (int) (idx % K_NCLS);
    c.cls (cls_name[cls]);
    check_dir<S, T, 3> (c, idx, cls, r);
    check_dir<S, T, 4> (c, idx, cls, r);
}
static void sub_plain_ff (Ctx& c, uint64_t i) { sub_vecmat_plain<float, float> (c, i); }
static void sub_plain_dd (Ctx& c, uint64_t i) { sub_vecmat_plain<double, double> (c, i); }
static void sub_homog_ff (Ctx& c, uint64_t i) { sub_vecmat_homog<float, float> (c, i); }
static void sub_homog_dd (Ctx& c, uint64_t i) { sub_vecmat_homog<double, double> (c, i); }
static void sub_dir_ff (Ctx& c, uint64_t i) { sub_multdir<float, float> (c, i); }
static void sub_dir_dd (Ctx& c, uint64_t i) { sub_multdir<double, double> (c, i); }
// mixed element types (the vector-matrix family is templated on both): one sub-check for all three kinds
static void
sub_mixed (Ctx& c, uint64_t i)
{
    if (i & 1)
    {
        sub_vecmat_plain<float, double> (c, i);
        sub_vecmat_homog<float, double> (c, i);
        sub_multdir<float, double> (c, i);
        c.cls ("Vec<float> x Matrix<double>");
    }
    else
    {
        sub_vecmat_plain<double, float> (c, i);
        sub_vecmat_homog<double, float> (c, i);
        sub_multdir<double, float> (c, i);
        c.cls ("Vec<double> x Matrix<float>");
    }
}
MON_SUB_IDX (sub_plain_ff, "vecmat_plain_float", 1000000, 50000000)
    .req ({C05_ALL_CLASSES})
    .over ("per index one (vector, matrix) pair each for Vec2f x M22f, Vec3f x M33f, Vec4f x M44f from 9 classes: operator*, operator*=, Matrix22::multDirMatrix (also dst aliasing src) vs index-loop sums in long double");
MON_SUB_IDX (sub_plain_dd, "vecmat_plain_double", 1000000, 20000000)
    .req ({C05_ALL_CLASSES})
    .over ("per index one (vector, matrix) pair each for Vec2d x M22d, Vec3d x M33d, Vec4d x M44d from 9 classes: operator*, operator*=, Matrix22::multDirMatrix (also dst aliasing src) vs index-loop sums in __float128");
MON_SUB_IDX (sub_homog_ff, "vecmat_homogeneous_float", 1000000, 50000000)
    .req ({C05_ALL_CLASSES, "w_exactly_one", "w_projective", "homogeneous_lattice_exact"})
    .over ("per index one pair each for Vec2f x M33f and Vec3f x M44f from 9 classes: operator*, operator*=, multVecMatrix (also dst aliasing src) vs (v,1)*M / w in long double; |w| < 1e-3*sum|terms of w| skipped and counted");
MON_SUB_IDX (sub_homog_dd, "vecmat_homogeneous_double", 1000000, 20000000)
    .req ({C05_ALL_CLASSES, "w_exactly_one", "w_projective", "homogeneous_lattice_exact"})
    .over ("per index one pair each for Vec2d x M33d and Vec3d x M44d from 9 classes: operator*, operator*=, multVecMatrix (also dst aliasing src) vs (v,1)*M / w in __float128; |w| < 1e-3*sum|terms of w| skipped and counted");
MON_SUB_IDX (sub_dir_ff, "multDirMatrix_float", 1000000, 50000000)
    .req ({C05_ALL_CLASSES})
    .over ("per index one pair each for Matrix33f::multDirMatrix(Vec2f) and Matrix44f::multDirMatrix(Vec3f) from 9 classes (translation row and last column populated): vs upper-left block product in long double");
MON_SUB_IDX (sub_dir_dd, "multDirMatrix_double", 1000000, 20000000)
    .req ({C05_ALL_CLASSES})
    .over ("per index one pair each for Matrix33d::multDirMatrix(Vec2d) and Matrix44d::multDirMatrix(Vec3d) from 9 classes (translation row and last column populated): vs upper-left block product in __float128");
MON_SUB_IDX (sub_mixed, "vecmat_mixed_types", 400000, 10000000)
    .req ({C05_ALL_CLASSES, "Vec<float> x Matrix<double>", "Vec<double> x Matrix<float>"})
    .over ("all vector x matrix spellings with Vec<float> x Matrix<double> (odd indices) and Vec<double> x Matrix<float> (even): bound in eps of the vector type, reference in __float128");

// ------------------------------------------------------------------ transpose, transposed, trace
template <class T, int N> static void
check_transpose_trace (Ctx& c, uint64_t idx, int cls, Rng& r)
{
    using R = typename Ref<T>::type;
    using M = typename MatOf<T, N>::type;
    static const std::string NN = std::to_string (N) + std::to_string (N) + "." + tname<T> (), ftr = "trace" + NN + ".ratio";
    T a[N][N];
    GenParam g;
    g.smax = 30;
    g.emax = 30;
    gen_mat<T, N> (r, cls, a, g);
    M A = make_mat<T, N> (a);
    M t1 = A.transposed ();
    M t2 = A;
    const M& ret = t2.transpose ();
    c.eval ();
    for (int i = 0; i < N; ++i)
        for (int j = 0; j < N; ++j)
        {
            if (!same_bits (t1[i][j], a[j][i]))
                c.fail ("transposed" + NN + ":" + slot2 (i, j), idx, [&] { return Obj ().kv ("class", cls_name[cls]).arr ("A(row-major)", &a[0][0], N * N).kv ("i", i).kv ("j", j).kv ("got", (double) t1[i][j]).kv ("want", (double) a[j][i]).str (); });
            if (!same_bits (t2[i][j], a[j][i]))
                c.fail ("transpose" + NN + ":" + slot2 (i, j), idx, [&] { return Obj ().kv ("class", cls_name[cls]).arr ("A(row-major)", &a[0][0], N * N).kv ("i", i).kv ("j", j).kv ("got", (double) t2[i][j]).kv ("want", (double) a[j][i]).str (); });
            if (!same_bits (A[i][j], a[i][j]))
                c.fail ("transposed" + NN + ":operand_modified", idx, [&] { return Obj ().kv ("i", i).kv ("j", j).str (); });
        }
    if (&ret != &t2) c.fail ("transpose" + NN + ":return", idx, [&] { return Obj ().kv ("what", "transpose() did not return *this").str (); });

    R ref = 0, s = 0;
    for (int i = 0; i < N; ++i)
    {
        ref += (R) a[i][i];
        s += rabs ((R) a[i][i]);
    }
    T      tr = A.trace ();
    double ratio = err_ratio (tr, ref, s);
    c.eval ();
    auto desc = [&] { return Obj ().kv ("class", cls_name[cls]).arr ("A(row-major)", &a[0][0], N * N).kv ("got", (double) tr).kv ("want", (double) ref).kv ("sum_abs_terms", (double) s).kv ("ratio", ratio).str (); };
    if (!is_lattice (cls) && std::isfinite (ratio)) c.worst (ftr.c_str (), ratio, idx, desc);
    if (is_bad (cls, tr, ref, ratio, C_TRACE)) c.fail ("trace" + NN + ":" + cls_name[cls], idx, desc);
    bool offdiag = false;
    for (int i = 0; i < N; ++i)
        for (int j = 0; j < N; ++j)
            if (i != j && bits_of (a[i][j]) != bits_of (a[j][i])) offdiag = true;
    if (offdiag) c.nontrivial (hash_arr (50 + N, &a[0][0], N * N));
    if (N == 4) c.sample (cls_name[cls], [&] { return Obj ().arr ("A(row-major)", &a[0][0], N * N).arr ("transposed", &t1[0][0], N * N).kv ("trace", (double) tr).str (); });
}

template <class T> static void
sub_transpose (Ctx& c, uint64_t idx)
{
    Rng r = c.rng (idx);
    int cls = (int) (idx % K_NCLS);
    c.cls (cls_name[cls]);
    check_transpose_trace<T, 2> (c, idx, cls, r);
    check_transpose_trace<T, 3> (c, idx, cls, r);
    check_transpose_trace<T, 4> (c, idx, cls, r);
}
MON_SUB_IDX (sub_transpose<float>, "transpose_trace_float", 1000000, 50000000)
    .req ({C05_ALL_CLASSES})
    .over ("per index one Matrix22f/33f/44f each from 9 classes: transposed() and transpose() entry [i][j] == a[j][i] bit for bit; trace vs diagonal sum in long double");
MON_SUB_IDX (sub_transpose<double>, "transpose_trace_double", 1000000, 50000000)
    .req ({C05_ALL_CLASSES})
    .over ("per index one Matrix22d/33d/44d each from 9 classes: transposed() and transpose() entry [i][j] == a[j][i] bit for bit; trace vs diagonal sum in __float128");
