// C15 (part 3) - ImathLineAlgo.h: line / triangle intersect(), closestVertex
// (line form), rotatePoint; ImathVecAlgo.h: project, orthogonal, reflect,
// closestVertex (point form) for Vec2 / Vec3 / Vec4.
#include "c15_common.h"

using namespace c15;

namespace
{
const double B_TRI_PT = 8, B_TRI_BARY = 8, B_TRI_RECON = 8;
const double B_CV = 16, B_ROT = 64, B_VA = 32, B_VA_REFL = 64, B_VA_INV = 128;

// ------------------------------------------------------------------ triangle
// The line is aimed at bu*v0 + bv*v1 + bw*v2 for chosen barycentrics, but the
// verdict comes from the stored line and vertices: true plane hit and true
// barycentrics are recomputed in the reference type.
template <class T>
void
sub_triangle (Ctx& c, uint64_t idx)
{
    typedef typename Tr<T>::R R;
    const std::string         tn  = Tr<T>::name ();
    const double              eps = eps_of<T>::value;
    Rng                       r   = c.rng (idx);
    unsigned                  k   = (unsigned) (idx % 16);
    static const char* const  kn[] = {"interior", "near_edge_inside", "near_edge_outside", "near_vertex_inside", "near_vertex_outside", "far_outside", "back_facing_interior", "hit_behind_origin",
                                      "large_offset", "sliver_triangle", "lattice", "on_edge_exact_lattice", "grazing_graded", "degenerate_repeated_vertex", "degenerate_collinear_lattice", "parallel_exact_lattice"};
    Vec3<T> v0, v1, v2;
    Line3<T> l;
    double   side_pref = 0; // +1: origin on the front side, -1: back, 0: random
    if (k >= 13)
    {
        // exact degeneracies on the integer lattice
        D3 a = gen_point (r, 1), e = gen_dir (r, 2);
        if (k == 13)
        {
            D3 b = gen_point (r, 1);
            int w = (int) r.range (0, 2);
            v0 = tov<T> (a); v1 = tov<T> (w == 0 ? a : b); v2 = tov<T> (w == 1 ? a : b);
            if (w == 2) { v1 = tov<T> (b); v2 = tov<T> (b); }
        }
        else if (k == 14)
        {
            v0 = tov<T> (a); v1 = tov<T> (axpy (a, (double) r.range (1, 3), e)); v2 = tov<T> (axpy (a, (double) -r.range (1, 3), e));
            int w = (int) r.range (0, 2);
            if (w == 1) std::swap (v0, v1);
            if (w == 2) std::swap (v0, v2);
        }
        else
        {
            // triangle in an axis plane, line direction with zero component along that axis
            int ax = (int) r.range (0, 2);
            D3  b = gen_point (r, 1), cc = gen_point (r, 1);
            b[ax] = a[ax]; cc[ax] = a[ax];
            v0 = tov<T> (a); v1 = tov<T> (b); v2 = tov<T> (cc);
        }
        D3 p0 = gen_point (r, 1), dd = gen_dir (r, 2);
        if (k == 15)
        {
            int ax = (v0.x == v1.x && v0.x == v2.x) ? 0 : (v0.y == v1.y && v0.y == v2.y) ? 1 : 2;
            dd[ax] = 0;
            if (dd[0] == 0 && dd[1] == 0 && dd[2] == 0) dd[(ax + 1) % 3] = 1;
            if (r.coin ()) p0[ax] = (double) v0[ax]; // line inside the triangle's plane
        }
        else if (r.coin ())
        {
            // aim the line at a point of the degenerate triangle
            D3 tgt = D3{{(double) v0.x + (double) v2.x, (double) v0.y + (double) v2.y, (double) v0.z + (double) v2.z}};
            dd     = axpy (scl (tgt, 0.5), -1.0, p0);
            if (dd[0] == 0 && dd[1] == 0 && dd[2] == 0) dd[0] = 1;
        }
        l = Line3<T> (tov<T> (p0), tov<T> (axpy (p0, 1.0, dd)));
    }
    else
    {
        int    pk = k == 8 ? 2 : (k == 10 || k == 11) ? 1 : 0;
        D3     a  = gen_point (r, pk), e1, e2;
        if (pk == 1) { e1 = gen_point (r, 1); e2 = gen_point (r, 1); }
        else
        {
            e1 = scl (gen_dir (r, 0), std::ldexp (1.0 + r.uniform (), (int) r.range (-2, 3)));
            e2 = scl (gen_dir (r, 0), std::ldexp (1.0 + r.uniform (), (int) r.range (-2, 3)));
            if (k == 9)
            {
                double s  = std::pow (10.0, -r.uniform (1.0, 2.5));
                double l1 = std::sqrt (e1[0] * e1[0] + e1[1] * e1[1] + e1[2] * e1[2]);
                e2        = axpy (scl (e1, r.uniform (0.2, 1.5)), s * l1, gen_perp (r, e1));
            }
        }
        v0 = tov<T> (a); v1 = tov<T> (axpy (a, 1.0, e1)); v2 = tov<T> (axpy (a, 1.0, e2));
        // chosen barycentrics
        double b[3];
        auto   interior = [&] { double x = r.uniform (0.05, 1), y = r.uniform (0.05, 1), z = r.uniform (0.05, 1), s = x + y + z; b[0] = x / s; b[1] = y / s; b[2] = z / s; };
        interior ();
        double g = std::pow (10.0, -(double) r.range (1, 7)) * r.uniform (1, 3);
        int    w = (int) r.range (0, 2);
        switch (k)
        {
            case 1: case 2: { // one coordinate +-g
                double rest = 1 - (k == 1 ? g : -g), u = r.uniform (0.1, 0.9);
                b[w] = k == 1 ? g : -g; b[(w + 1) % 3] = rest * u; b[(w + 2) % 3] = rest * (1 - u);
                break;
            }
            case 3: case 4: { // two coordinates small: next to vertex w
                double g2 = g * r.uniform (0.2, 1);
                b[(w + 1) % 3] = k == 3 ? g : -g; b[(w + 2) % 3] = r.coin () || k == 3 ? g2 : -g2; b[w] = 1 - b[(w + 1) % 3] - b[(w + 2) % 3];
                break;
            }
            case 5: { b[w] = -r.uniform (0.1, 5); double u = r.uniform (-1, 2); b[(w + 1) % 3] = (1 - b[w]) * u; b[(w + 2) % 3] = (1 - b[w]) * (1 - u); break; }
            case 6: side_pref = -1; break;
            case 11: { // exactly on an edge: lattice vertices, midpoint of an edge (hit / miss both acceptable: margin is zero)
                b[w] = 0; b[(w + 1) % 3] = 0.5; b[(w + 2) % 3] = 0.5;
                break;
            }
            default: break;
        }
        D3 tgt;
        for (int i = 0; i < 3; ++i) tgt[i] = b[0] * (double) v0[i] + b[1] * (double) v1[i] + b[2] * (double) v2[i];
        // origin off the plane, on a chosen side
        D3 E1 = D3{{(double) v1.x - (double) v0.x, (double) v1.y - (double) v0.y, (double) v1.z - (double) v0.z}};
        D3 E2 = D3{{(double) v2.x - (double) v1.x, (double) v2.y - (double) v1.y, (double) v2.z - (double) v1.z}};
        D3 nn; // documented normal (v2-v1) x (v1-v0)
        for (int i = 0; i < 3; ++i) { int j = (i + 1) % 3, m = (i + 2) % 3; nn[i] = E2[j] * E1[m] - E2[m] * E1[j]; }
        double nl = std::sqrt (nn[0] * nn[0] + nn[1] * nn[1] + nn[2] * nn[2]);
        if (!(nl > 0)) { c.cls ("skipped_degenerate_generated"); return; }
        nn = scl (nn, 1 / nl);
        D3     dd = gen_dir (r, 0);
        double cs = dd[0] * nn[0] + dd[1] * nn[1] + dd[2] * nn[2];
        if (k == 12)
        {
            double s = std::pow (10.0, -(double) r.range (1, 6)) * r.uniform (1, 3) * (r.coin () ? 1 : -1);
            dd       = axpy (scl (gen_perp (r, nn), std::sqrt (1 - s * s)), s, nn);
            cs       = s;
        }
        else if (std::fabs (cs) < 0.05) { dd = axpy (dd, cs > 0 ? 0.3 : -0.3, nn); cs = dd[0] * nn[0] + dd[1] * nn[1] + dd[2] * nn[2]; }
        // the line's direction will be +-dd; front-facing means dir.normal < 0
        double sgn = side_pref != 0 ? side_pref : (r.coin () ? 1.0 : -1.0);
        if ((cs < 0 ? 1.0 : -1.0) != sgn) dd = scl (dd, -1.0); // now travelling along dd hits the front (sgn=+1) / back (sgn=-1) face
        double dist = std::ldexp (1.0 + r.uniform (), (int) r.range (-3, 5));
        D3     p0   = axpy (tgt, -dist, dd);
        if (k == 7)
        {
            // the triangle is behind the origin: pos beyond the target, same direction
            p0 = axpy (tgt, dist, dd);
            Vec3<T> A0 = tov<T> (p0), A1 = tov<T> (axpy (p0, 1.0, dd));
            if (A0 == A1) { c.cls ("skipped_degenerate_line"); return; }
            l = Line3<T> (A0, A1);
        }
        else
        {
            Vec3<T> A0 = tov<T> (p0), A1 = tov<T> (tgt);
            if (A0 == A1) { c.cls ("skipped_degenerate_line"); return; }
            l = Line3<T> (A0, A1);
        }
    }
    c.eval ();
    c.nontrivial (hashv (l.dir, hashv (l.pos, hashv (v2, hashv (v1, hashv (v0))))));

    const Vec3<T> sentinel ((T) 12345, (T) -54321, (T) 777);
    Vec3<T> pt = sentinel, bary = sentinel;
    bool    front = false;
    bool    hit   = intersect (l, v0, v1, v2, pt, bary, front);
    bool    front2 = true;
    Vec3<T> pt2, bary2;
    bool    hit2 = intersect (l, v0, v1, v2, pt2, bary2, front2);

    RV<R, 3> V0 = up<R> (v0), V1 = up<R> (v1), V2 = up<R> (v2), P = up<R> (l.pos), u = up<R> (l.dir);
    RV<R, 3> N = cross (V2 - V1, V1 - V0); // the documented normal
    R        Nl = len (N), ul = len (u);
    auto     desc = [&] { return Obj ().kv ("class", kn[k]).raw ("v0", js (v0)).raw ("v1", js (v1)).raw ("v2", js (v2)).raw ("line", jsl (l)).kv ("returned", hit).raw ("pt", js (pt)).raw ("barycentric", js (bary)).kv ("front", front); };
    if (hit != hit2 || (hit && front != front2)) c.fail ("intersect(triangle)." + tn + ":front_flag_not_written_or_unstable", idx, [&] { return desc ().str (); });

    if (Nl == 0)
    {
        c.cls (kn[k]);
        c.cls ("degenerate_exact");
        if (hit) c.fail ("intersect(triangle)." + tn + ":true_for_zero_area_triangle", idx, [&] { return desc ().str (); });
        c.sample (kn[k], [&] { return desc ().str (); });
        return;
    }
    R nd = dot (N, u);
    if (nd == 0)
    {
        if (k != 15) { c.cls ("skipped_grazing"); return; }
        c.cls (kn[k]);
        c.cls ("parallel_exact");
        if (hit) c.fail ("intersect(triangle)." + tn + ":true_for_parallel_line", idx, [&] { return desc ().str (); });
        c.sample (kn[k], [&] { return desc ().str (); });
        return;
    }
    // conditioning
    R      L  = r_max (len (V1 - V0), r_max (len (V2 - V1), len (V0 - V2)));
    R      h  = Nl / L; // smallest altitude
    double cosang = (double) (r_abs (nd) / (Nl * ul));
    double aspect = (double) (L / h);
    if (cosang < 1e-3) { c.cls ("skipped_grazing"); return; }
    if (aspect > 1e3) { c.cls ("skipped_degenerate_illconditioned"); return; }
    // true hit of the stored line with the plane, true barycentrics (areas of sub-triangles over the whole)
    R        ts = dot (N, V0 - P) / nd;
    RV<R, 3> X  = P + u * ts;
    R        bs[3];
    {
        RV<R, 3> c0 = cross (V2 - V1, X - V1), c1 = cross (V0 - V2, X - V2), c2 = cross (V1 - V0, X - V0);
        // orientation relative to cross(V1-V0, V2-V0) = -N ... use the signed ratio via dot with the total
        RV<R, 3> tot = cross (V1 - V0, V2 - V0);
        R        tt  = dot (tot, tot);
        bs[0] = dot (c0, tot) / tt; bs[1] = dot (c1, tot) / tt; bs[2] = dot (c2, tot) / tt;
    }
    R      bmin = r_min (bs[0], r_min (bs[1], bs[2]));
    double Mtri = (double) r_max (len (V0), r_max (len (V1), len (V2)));
    double tlen = (double) (r_abs (ts) * ul);
    double dpt  = eps * ((double) len (P) + Mtri + (tlen + (double) L) * (1 + aspect)) / cosang;
    double tolb = (dpt + eps * ((double) L + Mtri)) / (double) h;
    auto   descr = [&] { return desc ().kv ("cos_normal_dir", cosang).kv ("aspect", aspect).kv ("true_t", (double) ts).raw ("true_pt", js (Vec3<double> ((double) X[0], (double) X[1], (double) X[2]))).raw ("true_barycentric", js (Vec3<double> ((double) bs[0], (double) bs[1], (double) bs[2]))).kv ("tol_bary_unit", tolb).str (); };
    double margin = std::max (1e-6, B_TRI_BARY * tolb);
    if ((double) r_abs (bmin) <= margin)
    {
        c.cls ("skipped_margin");
        if (k == 11) c.cls (kn[k]);
        return;
    }
    c.cls (kn[k]);
    bool expect = bmin > 0;
    c.cls (expect ? "verdict_hit" : "verdict_miss");
    {
        double am = std::fabs ((double) bmin);
        c.cls (am < 1e-4 ? "judged_|min_bary|<1e-4" : am < 1e-2 ? "judged_|min_bary|<1e-2" : "judged_|min_bary|>=1e-2");
    }
    if (hit != expect)
    {
        c.fail ("intersect(triangle)." + tn + (expect ? ":false_for_interior_hit" : ":true_for_outside_point"), idx, descr);
        return;
    }
    if (!hit) { c.sample (kn[k], descr); return; }
    bool front_want = nd < 0;
    c.cls (front_want ? "front_facing" : "back_facing");
    if (ts < 0) c.cls ("hit_at_negative_parameter");
    if (front != front_want) c.fail ("intersect(triangle)." + tn + ":front_flag", idx, descr);
    if (!all_finite (pt) || !all_finite (bary)) { c.fail ("intersect(triangle)." + tn + ":nonfinite", idx, descr); return; }
    RV<R, 3> G = up<R> (pt), Bg = up<R> (bary);
    judge (c, "intersect(triangle)." + tn + ":hit_point", "intersect(triangle)." + tn + ".pt/tol_pt", (double) len (G - X), dpt, B_TRI_PT, idx, descr);
    double eb = 0;
    for (int i = 0; i < 3; ++i) eb = std::max (eb, (double) r_abs (Bg[i] - bs[i]));
    judge (c, "intersect(triangle)." + tn + ":barycentric", "intersect(triangle)." + tn + ".bary/tol_bary", eb, tolb, B_TRI_BARY, idx, descr);
    // documented: pt = v0*b.x + v1*b.y + v2*b.z
    RV<R, 3> rec = V0 * Bg[0] + V1 * Bg[1] + V2 * Bg[2];
    judge (c, "intersect(triangle)." + tn + ":barycentric_does_not_reproduce_pt", "intersect(triangle)." + tn + ".recon/(tol_bary*L)", (double) len (rec - G), tolb * (double) L + eps * Mtri, B_TRI_RECON, idx, descr);
    c.sample (kn[k], descr);
}

// ------------------------------------------------------------------ closestVertex (line form)
template <class T>
void
sub_closest_vertex_line (Ctx& c, uint64_t idx)
{
    typedef typename Tr<T>::R R;
    const std::string         tn  = Tr<T>::name ();
    const double              eps = eps_of<T>::value;
    Rng                       r   = c.rng (idx);
    unsigned                  k   = (unsigned) (idx % 5);
    static const char* const  kn[] = {"generic", "lattice", "large_offset", "near_tie_graded", "line_through_vertex"};
    int      pk = k == 1 ? 1 : k == 2 ? 2 : 0;
    D3       a = gen_point (r, pk);
    Vec3<T>  v[3] = {tov<T> (a), tov<T> (axpy (a, 1.0, gen_point (r, pk == 1 ? 1 : 0))), tov<T> (axpy (a, 1.0, gen_point (r, pk == 1 ? 1 : 0)))};
    D3       p0 = axpy (a, 1.0, gen_point (r, pk == 1 ? 1 : 0)), dd = gen_dir (r, pk == 1 ? 2 : 0);
    if (k == 3)
    {
        // vertex 1 and 2 at nearly the same distance from the line
        D3     e = gen_perp (r, dd), f = gen_perp (r, dd);
        double rad = r.uniform (0.5, 4), g = std::pow (10.0, -(double) r.range (1, 9)) * (r.coin () ? 1 : -1);
        v[1] = tov<T> (axpy (axpy (p0, r.sym (4), dd), rad, e));
        v[2] = tov<T> (axpy (axpy (p0, r.sym (4), dd), rad * (1 + g), f));
        v[0] = tov<T> (axpy (axpy (p0, r.sym (4), dd), rad * r.uniform (1.5, 3), gen_perp (r, dd)));
    }
    if (k == 4) p0 = D3{{(double) v[1].x, (double) v[1].y, (double) v[1].z}};
    { int s = (int) r.range (0, 2); std::swap (v[0], v[s]); }
    Vec3<T> A0 = tov<T> (p0), A1 = tov<T> (axpy (p0, pk == 1 ? 1.0 : 2.0, dd));
    if (A0 == A1) { c.cls ("skipped_degenerate_line"); return; }
    Line3<T> l (A0, A1);
    c.eval ();
    c.cls (kn[k]);
    c.nontrivial (hashv (l.dir, hashv (l.pos, hashv (v[2], hashv (v[1], hashv (v[0]))))));
    Vec3<T> got = closestVertex (v[0], v[1], v[2], l);
    RV<R, 3> P = up<R> (l.pos), u = up<R> (l.dir);
    R        d[3], dmin = 0;
    double   e = 0;
    for (int i = 0; i < 3; ++i)
    {
        RV<R, 3> X = up<R> (v[i]);
        d[i] = dist_point_line (X, P, u);
        if (i == 0 || d[i] < dmin) dmin = d[i];
        e = std::max (e, eps * (double) (len (X) + len (P) + len (X - P)));
    }
    auto desc = [&] { return Obj ().kv ("class", kn[k]).raw ("v0", js (v[0])).raw ("v1", js (v[1])).raw ("v2", js (v[2])).raw ("line", jsl (l)).raw ("returned", js (got)).kv ("d0", (double) d[0]).kv ("d1", (double) d[1]).kv ("d2", (double) d[2]).str (); };
    int which = -1;
    for (int i = 0; i < 3; ++i) if (got == v[i] && (which < 0 || d[i] < d[which])) which = i;
    if (which < 0) { c.fail ("closestVertex(line)." + tn + ":not_a_vertex", idx, desc); return; }
    // the returned vertex is closest up to the rounding of the squared distances
    judge (c, "closestVertex(line)." + tn + ":not_closest", "closestVertex(line)." + tn + ".excess/e", (double) (d[which] - dmin), e, B_CV, idx, desc);
    if ((double) (d[which] - dmin) > 0) c.cls ("tie_within_rounding_resolved_other_way");
    c.sample (kn[k], desc);
}

// ------------------------------------------------------------------ rotatePoint
template <class T>
void
sub_rotate_point (Ctx& c, uint64_t idx)
{
    typedef typename Tr<T>::R R;
    const std::string         tn  = Tr<T>::name ();
    const double              eps = eps_of<T>::value;
    Rng                       r   = c.rng (idx);
    unsigned                  k   = (unsigned) (idx % 7);
    static const char* const  kn[] = {"generic", "quarter_turns", "small_angle", "many_turns", "axis_aligned_lattice", "point_near_axis", "point_on_axis_exact"};
    int      pk = (k == 4 || k == 6) ? 1 : (r.one_in (5) ? 2 : 0);
    D3       p0 = gen_point (r, pk), dd = gen_dir (r, (k == 4 || k == 6) ? 1 : 0);
    D3       q = axpy (p0, 1.0, gen_point (r, pk == 1 ? 1 : 0));
    double   ang = r.sym (3.14159);
    switch (k)
    {
        case 1: ang = 1.5707963267948966 * (double) r.range (-4, 4); break;
        case 2: ang = std::pow (10.0, -(double) r.range (1, 6)) * (r.coin () ? 1 : -1); break;
        case 3: ang = r.sym (200.0); break;
        case 5: q = axpy (axpy (p0, r.sym (4), dd), std::pow (10.0, -(double) r.range (1, 5)), gen_perp (r, dd)); break;
        case 6: q = axpy (p0, (double) r.range (-5, 5), dd); break;
    }
    Vec3<T> A0 = tov<T> (p0), A1 = tov<T> (axpy (p0, pk == 1 ? 2.0 : 1.5, dd));
    if (A0 == A1) { c.cls ("skipped_degenerate_line"); return; }
    Line3<T> l (A0, A1);
    Vec3<T>  p = tov<T> (q);
    T        a = (T) ang, a2 = (T) r.sym (3.0);
    c.eval ();
    c.cls (kn[k]);
    c.nontrivial (hashv (p, hashv (l.dir, hashv (l.pos, d2u ((double) a)))));
    Vec3<T> g = rotatePoint (p, l, a);
    RV<R, 3> P = up<R> (l.pos), u = up<R> (l.dir), X = up<R> (p), G = up<R> (g);
    R        uu = dot (u, u), ul = r_sqrt (uu);
    R        tx = dot (X - P, u) / uu, tg = dot (G - P, u) / uu;
    RV<R, 3> x = X - (P + u * tx), y = G - (P + u * tg); // radial vectors
    R        rho = len (x), rhog = len (y);
    double   M = (double) (len (P) + len (X));
    double   tol = eps * M;
    auto     desc = [&] { return Obj ().kv ("class", kn[k]).raw ("line", jsl (l)).raw ("p", js (p)).kv ("angle", (double) a).raw ("rotatePoint", js (g)).kv ("radius", (double) rho).str (); };
    if (!all_finite (g)) { c.fail ("rotatePoint." + tn + ":nonfinite", idx, desc); return; }
    judge (c, "rotatePoint." + tn + ":axial_coordinate_changed", "rotatePoint." + tn + ".axial/(eps*M)", (double) (r_abs (tg - tx) * ul), tol, B_ROT, idx, desc);
    judge (c, "rotatePoint." + tn + ":radius_changed", "rotatePoint." + tn + ".radius/(eps*M)", (double) r_abs (rhog - rho), tol, B_ROT, idx, desc);
    // swept angle: x.y = rho^2 cos(a); sense: (x cross y).dir = -rho^2 sin(a)  (l.rotatePoint((2,2,0), pi/2) about +x gives (2,0,-2),
    // the convention fixed by PyImathTest); both compared as vectors: y_expected = cos(a) x + sin(a) (x cross dir)/|dir|
    R        ca = r_cos ((R) a), sa = r_sin ((R) a);
    RV<R, 3> ye = x * ca + cross (x, u) * (sa / ul);
    RV<R, 3> ye_other = x * ca - cross (x, u) * (sa / ul);
    double   tolr = eps * (M + (double) rho);
    double   ecos = (double) (r_abs (dot (x, y) - rho * rho * ca) / r_max (rho, (R) 1e-300));
    judge (c, "rotatePoint." + tn + ":cos_of_swept_angle", "rotatePoint." + tn + ".cos/(eps*(M+rho))", ecos, tolr, B_ROT, idx, desc);
    double e_doc = (double) len (y - ye), e_oth = (double) len (y - ye_other);
    if (e_doc > B_ROT * tolr && e_oth <= B_ROT * tolr)
        c.fail ("rotatePoint." + tn + ":sense_of_rotation", idx, desc);
    else
        judge (c, "rotatePoint." + tn + ":position", "rotatePoint." + tn + ".pos/(eps*(M+rho))", e_doc, tolr, B_ROT, idx, desc);
    // composition: rotating by a then a2 equals rotating by a + a2 (both angles as the type under test; the sum in the reference type)
    Vec3<T>  g2 = rotatePoint (g, l, a2);
    RV<R, 3> G2 = up<R> (g2);
    R        cb = r_cos ((R) a + (R) a2), sb = r_sin ((R) a + (R) a2);
    RV<R, 3> y2e = (P + u * tx) + x * cb + cross (x, u) * (sb / ul);
    judge (c, "rotatePoint." + tn + ":composition", "rotatePoint." + tn + ".compose/(eps*(M+rho))", (double) len (G2 - y2e), 2 * tolr, B_ROT, idx,
           [&] { return Obj ().raw ("case", desc ()).kv ("angle2", (double) a2).raw ("rotated_twice", js (g2)).str (); });
    c.sample (kn[k], desc);
}

// ------------------------------------------------------------------ ImathVecAlgo.h
template <class V> struct VName;
template <> struct VName<V2f> { static const char* n () { return "V2f"; } };
template <> struct VName<V3f> { static const char* n () { return "V3f"; } };
template <> struct VName<V4f> { static const char* n () { return "V4f"; } };
template <> struct VName<V2d> { static const char* n () { return "V2d"; } };
template <> struct VName<V3d> { static const char* n () { return "V3d"; } };
template <> struct VName<V4d> { static const char* n () { return "V4d"; } };

template <class V>
void
sub_vecalgo (Ctx& c, uint64_t idx)
{
    typedef typename V::BaseType T;
    typedef typename Tr<T>::R    R;
    enum { N = V::dimensions () };
    const std::string tn  = VName<V>::n ();
    const double      eps = eps_of<T>::value;
    Rng               r   = c.rng (idx);
    unsigned          k   = (unsigned) (idx % 8);
    static const char* const kn[] = {"generic", "lattice", "axis_aligned_s", "parallel", "perpendicular_lattice", "tiny_s", "huge_scale_mix", "nearly_parallel"};
    V s, t;
    auto gen = [&] (V& o, int lo, int hi) { double sc = std::ldexp (1.0, (int) r.range (lo, hi)); for (int i = 0; i < N; ++i) o[i] = (T) (r.gauss () * sc); };
    gen (s, -3, 3); gen (t, -3, 3);
    switch (k)
    {
        case 1: for (int i = 0; i < N; ++i) { s[i] = (T) (double) r.range (-8, 8); t[i] = (T) (double) r.range (-8, 8); } break;
        case 2: { int a = (int) r.range (0, N - 1); for (int i = 0; i < N; ++i) s[i] = 0; s[a] = (T) r.logscale (-10, 10); break; }
        case 3: { T f = (T) r.logscale (-4, 4); for (int i = 0; i < N; ++i) t[i] = s[i] * f; break; }
        case 4: {
            for (int i = 0; i < N; ++i) { s[i] = 0; t[i] = 0; }
            int a = (int) r.range (0, N - 1), b = (a + 1 + (int) r.range (0, N - 2)) % N;
            T   x = (T) (double) r.range (1, 8), y = (T) (double) r.range (-8, 8);
            s[a] = x; s[b] = y; t[a] = -y; t[b] = x;
            if (r.coin ()) t *= (T) 3;
            break;
        }
        case 5: gen (s, sizeof (T) == 4 ? -75 : -530, sizeof (T) == 4 ? -66 : -515); break;
        case 6: gen (s, -40, 40); gen (t, -40, 40); break;
        case 7: { V e; gen (e, -3, 3); T f = (T) r.logscale (-2, 2); T g = (T) std::pow (10.0, -(double) r.range (2, 7)); for (int i = 0; i < N; ++i) t[i] = s[i] * f + e[i] * g; break; }
    }
    RV<R, N> S = up<R> (s), Tt = up<R> (t);
    R        ss = dot (S, S);
    if (ss == 0) { c.cls ("skipped_zero_s"); return; }
    c.eval ();
    c.cls (kn[k]);
    c.nontrivial (hashv (t, hashv (s)));
    double sl = (double) r_sqrt (ss), tl = (double) len (Tt);
    V      pj = project (s, t), og = orthogonal (s, t), rf = reflect (s, t);
    auto   desc = [&] { return Obj ().kv ("class", kn[k]).raw ("s", js (s)).raw ("t", js (t)).raw ("project", js (pj)).raw ("orthogonal", js (og)).raw ("reflect", js (rf)).str (); };
    if (!all_finite (pj) || !all_finite (og)) { c.fail ("project." + tn + ":nonfinite", idx, desc); return; }
    RV<R, N> PJ = up<R> (pj), OG = up<R> (og);
    RV<R, N> pe = S * (dot (S, Tt) / ss);
    double   tol = eps * tl;
    judge (c, "project." + tn + ":value", "project." + tn + ".err/(eps*|t|)", (double) len (PJ - pe), tol, B_VA, idx, desc);
    // identities: project + orthogonal = t, orthogonal . s = 0, project parallel to s
    judge (c, "orthogonal." + tn + ":project+orthogonal!=t", "orthogonal." + tn + ".sum/(eps*|t|)", (double) len (PJ + OG - Tt), tol, B_VA, idx, desc);
    judge (c, "orthogonal." + tn + ":not_perpendicular_to_s", "orthogonal." + tn + ".perp/(eps*|t|)", (double) r_abs (dot (OG, S)) / sl, tol, B_VA, idx, desc);
    {
        // |PJ|^2 |S|^2 - (PJ.S)^2 = squared area: parallelism without a cross product in N dimensions
        R ar = dot (PJ, PJ) * ss - dot (PJ, S) * dot (PJ, S);
        judge (c, "project." + tn + ":not_parallel_to_s", "project." + tn + ".par/(eps*|t|)", (double) r_sqrt (r_max (ar, (R) 0)) / sl, tol, B_VA, idx, desc);
    }
    // reflect(s,t): the normal t must be non-zero
    R tt = dot (Tt, Tt);
    if (tt == 0) { c.cls ("reflect_skipped_zero_normal"); return; }
    if (!all_finite (rf)) { c.fail ("reflect." + tn + ":nonfinite", idx, desc); return; }
    V        rf2 = reflect (rf, t);
    RV<R, N> RF = up<R> (rf), RF2 = up<R> (rf2);
    RV<R, N> re = Tt * (2 * dot (Tt, S) / tt) - S; // s - 2 (s - project(t,s))
    double   tols = eps * sl;
    judge (c, "reflect." + tn + ":value", "reflect." + tn + ".err/(eps*|s|)", (double) len (RF - re), tols, B_VA_REFL, idx, desc);
    judge (c, "reflect." + tn + ":length_changed", "reflect." + tn + ".len/(eps*|s|)", (double) r_abs (len (RF) - r_sqrt (ss)), tols, B_VA_REFL, idx, desc);
    judge (c, "reflect." + tn + ":not_involution", "reflect." + tn + ".inv/(eps*|s|)", (double) len (RF2 - S), tols, B_VA_INV, idx, desc);
    judge (c, "reflect." + tn + ":normal_component_changed", "reflect." + tn + ".ncomp/(eps*|s|)", (double) r_abs (dot (RF, Tt) - dot (S, Tt)) / tl, tols, B_VA_REFL, idx, desc);
    c.sample (kn[k], desc);
}

template <class V>
void
sub_closest_vertex (Ctx& c, uint64_t idx)
{
    typedef typename V::BaseType T;
    typedef typename Tr<T>::R    R;
    enum { N = V::dimensions () };
    const std::string tn  = VName<V>::n ();
    const double      eps = eps_of<T>::value;
    Rng               r   = c.rng (idx);
    unsigned          k   = (unsigned) (idx % 5);
    static const char* const kn[] = {"generic", "lattice", "large_offset", "near_tie_graded", "p_is_vertex"};
    V v[3], p;
    for (int j = 0; j < 3; ++j)
        for (int i = 0; i < N; ++i) v[j][i] = (T) (k == 1 ? (double) r.range (-8, 8) : r.sym (4.0));
    for (int i = 0; i < N; ++i) p[i] = (T) (k == 1 ? (double) r.range (-8, 8) : r.sym (4.0));
    if (k == 2)
        for (int i = 0; i < N; ++i) { double b = r.logscale (5, 11); for (int j = 0; j < 3; ++j) v[j][i] += (T) b; p[i] += (T) b; }
    if (k == 3)
    {
        // v1 and v2 at nearly the same distance from p
        double rad = r.uniform (0.5, 4), g = std::pow (10.0, -(double) r.range (1, 9)) * (r.coin () ? 1 : -1);
        double l1 = 0, l2 = 0, a[4], b[4];
        for (int i = 0; i < N; ++i) { a[i] = r.gauss (); b[i] = r.gauss (); l1 += a[i] * a[i]; l2 += b[i] * b[i]; }
        for (int i = 0; i < N; ++i)
        {
            v[1][i] = (T) ((double) p[i] + rad * a[i] / std::sqrt (l1));
            v[2][i] = (T) ((double) p[i] + rad * (1 + g) * b[i] / std::sqrt (l2));
            v[0][i] = (T) ((double) p[i] + 3 * rad * a[i] / std::sqrt (l1));
        }
    }
    if (k == 4) p = v[r.range (0, 2)];
    { int s = (int) r.range (0, 2); std::swap (v[0], v[s]); }
    c.eval ();
    c.cls (kn[k]);
    c.nontrivial (hashv (p, hashv (v[2], hashv (v[1], hashv (v[0])))));
    V        got = closestVertex (v[0], v[1], v[2], p);
    RV<R, N> P = up<R> (p);
    R        d[3], dmin = 0;
    double   e = 0;
    for (int j = 0; j < 3; ++j)
    {
        RV<R, N> X = up<R> (v[j]);
        d[j] = len (X - P);
        if (j == 0 || d[j] < dmin) dmin = d[j];
        e = std::max (e, eps * (double) d[j]);
    }
    auto desc = [&] { return Obj ().kv ("class", kn[k]).raw ("v0", js (v[0])).raw ("v1", js (v[1])).raw ("v2", js (v[2])).raw ("p", js (p)).raw ("returned", js (got)).kv ("d0", (double) d[0]).kv ("d1", (double) d[1]).kv ("d2", (double) d[2]).str (); };
    int which = -1;
    for (int j = 0; j < 3; ++j) if (got == v[j] && (which < 0 || d[j] < d[which])) which = j;
    if (which < 0) { c.fail ("closestVertex(point)." + tn + ":not_a_vertex", idx, desc); return; }
    judge (c, "closestVertex(point)." + tn + ":not_closest", "closestVertex(point)." + tn + ".excess/(eps*d)", (double) (d[which] - dmin), e, B_CV, idx, desc);
    if ((double) (d[which] - dmin) > 0) c.cls ("tie_within_rounding_resolved_other_way");
    c.sample (kn[k], desc);
}

} // namespace

#define C15_TRI_REQ {"interior", "near_edge_inside", "near_edge_outside", "near_vertex_inside", "near_vertex_outside", "far_outside", "back_facing_interior", "hit_behind_origin", "large_offset", "sliver_triangle", "lattice", "on_edge_exact_lattice", "grazing_graded", "degenerate_repeated_vertex", "degenerate_collinear_lattice", "parallel_exact_lattice", "degenerate_exact", "parallel_exact", "verdict_hit", "verdict_miss", "front_facing", "back_facing", "hit_at_negative_parameter", "judged_|min_bary|<1e-2", "skipped_margin"}
MON_SUB_IDX (sub_triangle<float>, "triangle_intersect.float", 1600000, 64000000).req (C15_TRI_REQ).over ("Line3f x triangle: intersect(); lines aimed at chosen barycentrics (graded distance to edges and vertices, both faces, hit behind the origin, slivers, grazing), exact degenerate and parallel cases");
MON_SUB_IDX (sub_triangle<double>, "triangle_intersect.double", 1600000, 64000000).req ([] { std::vector<std::string> v = C15_TRI_REQ; v.push_back ("judged_|min_bary|<1e-4"); return v; }()).over ("Line3d x triangle: intersect(); lines aimed at chosen barycentrics (graded distance to edges and vertices, both faces, hit behind the origin, slivers, grazing), exact degenerate and parallel cases");
#define C15_CV_REQ {"generic", "lattice", "large_offset", "near_tie_graded"}
MON_SUB_IDX (sub_closest_vertex_line<float>, "closest_vertex_line.float", 500000, 20000000).req (C15_CV_REQ).over ("closestVertex(v0,v1,v2,Line3f)");
MON_SUB_IDX (sub_closest_vertex_line<double>, "closest_vertex_line.double", 500000, 20000000).req (C15_CV_REQ).over ("closestVertex(v0,v1,v2,Line3d)");
#define C15_ROT_REQ {"generic", "quarter_turns", "small_angle", "many_turns", "axis_aligned_lattice", "point_near_axis", "point_on_axis_exact"}
MON_SUB_IDX (sub_rotate_point<float>, "rotate_point.float", 700000, 28000000).req (C15_ROT_REQ).over ("rotatePoint(p, Line3f, angle): 7 classes of angle / point position");
MON_SUB_IDX (sub_rotate_point<double>, "rotate_point.double", 700000, 28000000).req (C15_ROT_REQ).over ("rotatePoint(p, Line3d, angle): 7 classes of angle / point position");
#define C15_VA_REQ {"generic", "lattice", "axis_aligned_s", "parallel", "perpendicular_lattice", "tiny_s", "huge_scale_mix", "nearly_parallel"}
MON_SUB_IDX (sub_vecalgo<V2f>, "vecalgo.V2f", 400000, 16000000).req (C15_VA_REQ).over ("project/orthogonal/reflect on V2f pairs, 8 classes");
MON_SUB_IDX (sub_vecalgo<V3f>, "vecalgo.V3f", 400000, 16000000).req (C15_VA_REQ).over ("project/orthogonal/reflect on V3f pairs, 8 classes");
MON_SUB_IDX (sub_vecalgo<V4f>, "vecalgo.V4f", 400000, 16000000).req (C15_VA_REQ).over ("project/orthogonal/reflect on V4f pairs, 8 classes");
MON_SUB_IDX (sub_vecalgo<V2d>, "vecalgo.V2d", 400000, 16000000).req (C15_VA_REQ).over ("project/orthogonal/reflect on V2d pairs, 8 classes");
MON_SUB_IDX (sub_vecalgo<V3d>, "vecalgo.V3d", 400000, 16000000).req (C15_VA_REQ).over ("project/orthogonal/reflect on V3d pairs, 8 classes");
MON_SUB_IDX (sub_vecalgo<V4d>, "vecalgo.V4d", 400000, 16000000).req (C15_VA_REQ).over ("project/orthogonal/reflect on V4d pairs, 8 classes");
#define C15_CVP_REQ {"generic", "lattice", "large_offset", "near_tie_graded", "p_is_vertex"}
MON_SUB_IDX (sub_closest_vertex<V2f>, "closest_vertex_point.V2f", 250000, 10000000).req (C15_CVP_REQ).over ("closestVertex(v0,v1,v2,p) on V2f");
MON_SUB_IDX (sub_closest_vertex<V3f>, "closest_vertex_point.V3f", 250000, 10000000).req (C15_CVP_REQ).over ("closestVertex(v0,v1,v2,p) on V3f");
MON_SUB_IDX (sub_closest_vertex<V4f>, "closest_vertex_point.V4f", 250000, 10000000).req (C15_CVP_REQ).over ("closestVertex(v0,v1,v2,p) on V4f");
MON_SUB_IDX (sub_closest_vertex<V2d>, "closest_vertex_point.V2d", 250000, 10000000).req (C15_CVP_REQ).over ("closestVertex(v0,v1,v2,p) on V2d");
MON_SUB_IDX (sub_closest_vertex<V3d>, "closest_vertex_point.V3d", 250000, 10000000).req (C15_CVP_REQ).over ("closestVertex(v0,v1,v2,p) on V3d");
MON_SUB_IDX (sub_closest_vertex<V4d>, "closest_vertex_point.V4d", 250000, 10000000).req (C15_CVP_REQ).over ("closestVertex(v0,v1,v2,p) on V4d");
