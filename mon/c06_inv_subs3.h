// C06 sub-checks, part 3: the overflow guard of the determinant paths, continuity across the affine test.
#pragma once

namespace c06
{

// ---------------------------------------------------------------- (5) overflow guard
// Signed, permuted power-of-two "diagonal" blocks: determinant, cofactors and the exact inverse are powers of two,
// so every product the library forms is exact and the exact quotients cofactor/det are known.
//   q = largest |entry| of the exact inverse of the block (= largest |cofactor/det|)
//   q > max                      -> dividing would overflow: the non-throwing form must return the identity
//   q < max/8, or |det| >= 1     -> no quotient can overflow (|cofactor| <= max, |det| >= 1) resp. the quotient is a factor
//                                   8 below the overflow threshold: the exact inverse must be returned
//   otherwise (max/8 <= q <= max and |det| < 1): the library's guard |det|/min > |cofactor| is conservative by the
//                                   factor max*min ~ 4; either outcome is accepted there.
template <class T> void sub_guard (Ctx& c, uint64_t idx)
{
    typedef typename RefOf<T>::type R;
    const int emax = std::numeric_limits<T>::max_exponent;                                     // 128 / 1024: max < 2^emax
    const int esub = std::numeric_limits<T>::min_exponent - std::numeric_limits<T>::digits;    // -149 / -1074: denorm_min = 2^esub
    Rng       r    = c.rng (idx);
    // shape: 0 = M22, 1 = M33 general (3x3 cofactors), 2 = M33 affine (2x2 block), 3 = M44 affine (3x3 cofactors)
    int      shape = (int) (idx % 4);
    int      Q     = emax - 10 + (int) ((idx / 4) % 15);  // exponent of the largest exact quotient: 2^Q, Q = emax-10 .. emax+4
    int      dsel  = (int) ((idx / 60) % 7);
    uint64_t sel   = idx / 420;
    int      n     = shape == 0 ? 2 : shape == 3 ? 4 : 3;
    int      k     = (shape == 0 || shape == 2) ? 2 : 3;
    // exponent D of the determinant
    int D;
    switch (dsel)
    {
        case 0: D = 0; break;            // |det| == 1 exactly: the >= 1 branch with huge cofactors
        case 1: D = 1; break;
        case 2: D = -1; break;
        case 3: D = -Q; break;           // the other entries multiply to 1
        case 4: D = -Q + 20; break;
        case 5: D = -40; break;
        default: D = (int) r.range (-Q, 2); break;
    }
    // block = diag (2^-Q, 2^eb [, 2^ec]) with eb (+ ec) = D + Q
    int rest = D + Q, eb = rest, ec = 0;
    if (k == 3)
    {
        eb = rest / 2 + (int) r.range (-3, 3);
        ec = rest - eb;
    }
    int ex[3] = {-Q, eb, ec};
    // validity: entries, cofactors and det must be exactly representable (no overflow / total underflow anywhere)
    bool valid = true;
    for (int i = 0; i < k; ++i) valid = valid && ex[i] < emax && ex[i] >= esub;
    valid = valid && D >= esub && D < emax;
    if (k == 3)
        for (int i = 0; i < 3; ++i)
        {
            int ce = ex[(i + 1) % 3] + ex[(i + 2) % 3]; // cofactor exponents
            valid  = valid && ce < emax && ce >= esub;
        }
    // the remaining inverse entries 2^-eb, 2^-ec must not be subnormal (exact division) -- only relevant when not overflowing
    for (int i = 1; i < k; ++i) valid = valid && -ex[i] >= std::numeric_limits<T>::min_exponent - 1 && -ex[i] < emax;
    c.eval ();
    if (!valid) { c.cls ("skipped_not_exactly_representable"); return; }

    int perm[3] = {0, 1, 2};
    for (int i = k - 1; i > 0; --i) std::swap (perm[i], perm[(int) r.range (0, i)]);
    Arr<T> M (n);
    for (int i = 0; i < k; ++i) M.a[i][perm[i]] = (T) std::ldexp (r.coin () ? 1.0 : -1.0, ex[i]);
    if (n > k)
    {
        M.a[n - 1][n - 1] = T (1);
        // a tiny translation entry in the column that meets the huge inverse entry: the product 2^-(Q+j) * 2^Q is exact
        if (sel % 2) M.a[n - 1][perm[0]] = (T) std::ldexp (1.0, -(int) r.range (0, 10));
    }
    Path pinv = inverse_path (M);
    if ((shape == 1 && pinv != P_33_COF) || (shape == 2 && pinv != P_33_AFF) || (shape == 3 && pinv != P_44_AFF) )
    {
        // a 3x3 "general" block that happens to look affine (last column (0,0,1)): not the path this shape is about
        c.cls ("skipped_other_path");
        return;
    }
    c.nontrivial (arr_hash (M));
    c.cls (path_name (pinv));

    Ref<R> ref = ref_inverse (widen<R> (M)); // exact: powers of two
    bool overflow = Q >= emax;               // 2^Q > max
    bool must_inv = !overflow && (Q < emax - 3 || D >= 0);
    const char* zone = overflow ? "quotient_overflows" : must_inv ? (D >= 0 ? "absdet_ge1_huge_cofactor" : "quotient_below_guard") : "guard_band_either";
    c.cls (zone);
    if (D == 0) c.cls ("absdet_eq1");

    Out<T> out[F_COUNT];
    bool   have[F_COUNT];
    call_all (M, out, have);
    check_inplace (c, idx, M, out, have, zone);
    for (int f = F_INVERSE; f <= F_INVERSE_T; ++f)
    {
        const Out<T>& o = out[f];
        if (o.threw == 2) { c.fail (key_of (n, f, TName<T>::s (), "threw_unexpected_type"), idx, [&] { return Obj ().raw ("M", arr_json (M)).str (); }); continue; }
        Arr<T> X     = outcome_matrix (o, n);
        bool   isid  = arr_is_identity (X);
        bool   exact = !isid && !overflow && max_err (X, ref.X) == 0;
        auto   desc  = [&] { return Obj ().kv ("zone", zone).kv ("n", n).kv ("quotient_log2", Q).kv ("det_log2", D).raw ("M", arr_json (M)).kv ("M_bits", arr_bits (M)).raw ("got", arr_json (X)).kv ("threw", o.threw).str (); };
        if (overflow)
        {
            if (!isid) c.fail (key_of (n, f, TName<T>::s (), std::string ("guard_missing.") + path_name (pinv)), idx, desc);
        }
        else if (must_inv)
        {
            if (!exact) c.fail (key_of (n, f, TName<T>::s (), std::string (isid ? "guard_fires_early." : "guard_zone_wrong_inverse.") + path_name (pinv)), idx, desc);
        }
        else if (!isid && !exact)
            c.fail (key_of (n, f, TName<T>::s (), std::string ("guard_zone_wrong_inverse.") + path_name (pinv)), idx, desc);
    }
    if (sel == 0 && dsel < 3) c.sample (zone, [&] { return Obj ().kv ("n", n).kv ("quotient_log2", Q).kv ("det_log2", D).raw ("M", arr_json (M)).str (); });
}

// ---------------------------------------------------------------- (6) continuity across the affine test
template <class T> void sub_continuity (Ctx& c, uint64_t idx)
{
    typedef typename RefOf<T>::type R;
    static const int kinds[] = {K_RANDOM, K_GRADED, K_SVGAP, K_DETNEAR1, K_UNIMOD, K_SCALE, K_PIVOT, K_LATTICE};
    static const std::string wname[2] = {std::string ("continuity.M33.") + TName<T>::s (), std::string ("continuity.M44.") + TName<T>::s ()};
    static const std::string wamp[2]  = {std::string ("continuity_over_amp.M33.") + TName<T>::s (), std::string ("continuity_over_amp.M44.") + TName<T>::s ()};
    const double eps = eps_of<T>::value;
    Rng      r    = c.rng (idx);
    int      n    = 3 + (int) (idx % 2);
    int      kind = kinds[(idx / 2) % 8];
    int      pert = (int) ((idx / 16) % 6);
    uint64_t sel  = idx / 96;
    Arr<T>   M    = gen_matrix<T> (r, n, kind, true, sel, false);
    Arr<T>   Mp   = M;
    const char* pname;
    int         pi = (int) r.range (0, n - 2);
    switch (pert)
    {
        case 0: Mp.a[n - 1][n - 1] = std::nextafter (T (1), T (2)); pname = "one_plus_ulp"; break;
        case 1: Mp.a[n - 1][n - 1] = std::nextafter (T (1), T (0)); pname = "one_minus_ulp"; break;
        case 2: Mp.a[pi][n - 1] = std::numeric_limits<T>::denorm_min (); pname = "zero_plus_denorm_min"; break;
        case 3: Mp.a[pi][n - 1] = -std::numeric_limits<T>::denorm_min (); pname = "zero_minus_denorm_min"; break;
        case 4: Mp.a[pi][n - 1] = std::numeric_limits<T>::min (); pname = "zero_plus_min_normal"; break;
        default: Mp.a[pi][n - 1] = (T) (-eps * eps); pname = "zero_minus_eps2"; break;
    }
    c.eval ();
    Ref<R> ref = ref_inverse (widen<R> (M));
    if (ref.singular) { c.cls ("skipped_exactly_singular"); return; }
    Path p0 = inverse_path (M), p1 = inverse_path (Mp);
    if (!(p0 == P_33_AFF || p0 == P_44_AFF) || !(p1 == P_33_COF || p1 == P_44_GJ))
    {
        c.fail (std::string ("generator.") + TName<T>::s () + ":continuity_pair_not_across_paths", idx, [&] { return Obj ().raw ("M", arr_json (M)).str (); });
        return;
    }
    c.nontrivial (hash_combine (arr_hash (M), (uint64_t) pert));
    c.cls (pname);
    c.cls (kind_name (kind));
    double cond = (double) ref.cond;
    // the cofactor path runs on M' (3x3: the whole matrix) resp. on M (4x4: the linear block)
    double amp = n == 3 ? amp33 (widen<R> (Mp)) : amp33 (widen<R> (M));
    bool   gap = amp > Tol::AMP_KNOWN;
    double C   = Tol::C_CONT;
    if (!(C * cond * eps <= 0.5)) { c.cls ("skipped_beyond_first_order"); return; }
    c.cls (gap ? "judged_cofactor_amp_gt8" : "judged_strict");

    Out<T> o0[F_COUNT], o1[F_COUNT];
    bool   have[F_COUNT];
    call_all (M, o0, have);
    call_all (Mp, o1, have);
    for (int f = F_INVERSE; f <= F_INVERSE_T; ++f)
    {
        if (o0[f].threw == 2 || o1[f].threw == 2) { c.fail (key_of (n, f, TName<T>::s (), "threw_unexpected_type"), idx, [&] { return Obj ().raw ("M", arr_json (M)).str (); }); continue; }
        Arr<T> X0 = outcome_matrix (o0[f], n), X1 = outcome_matrix (o1[f], n);
        R      d  = 0;
        bool   fin = arr_finite (X0) && arr_finite (X1);
        for (int i = 0; i < n && fin; ++i) for (int j = 0; j < n; ++j) { R e = rabs ((R) X0.a[i][j] - (R) X1.a[i][j]); if (e > d) d = e; }
        double ratio = fin ? (double) (d / (ref.cond * (R) eps * ref.normX)) : std::numeric_limits<double>::infinity ();
        if (f == F_INVERSE)
        {
            if (!gap) c.worst (wname[n - 3].c_str (), ratio, idx, [&] { return describe_case<T> (M, kind_name (kind), pname, nullptr, cond, amp, ratio); });
            else if (C * amp * cond * eps <= 0.5) c.worst (wamp[n - 3].c_str (), ratio / amp, idx, [&] { return describe_case<T> (M, kind_name (kind), pname, nullptr, cond, amp, ratio); });
        }
        if (ratio <= C) continue;
        std::string cls = std::string ("jump_across_affine_test.") + pname;
        if (gap && (C * amp * cond * eps > 0.5 || ratio <= C * amp)) cls = "jump_across_affine_test:sv_gap"; // one key per form for the known finding
        c.fail (key_of (n, f, TName<T>::s (), cls), idx, [&] {
            return Obj ().kv ("kind", kind_name (kind)).kv ("perturbation", pname).kv ("n", n).raw ("M", arr_json (M)).kv ("M_bits", arr_bits (M)).raw ("M_perturbed", arr_json (Mp)).raw ("inverse_M", arr_json (X0)).raw ("inverse_M_perturbed", arr_json (X1)).kv ("cond_inf", cond).kv ("amp", amp).kv ("diff_over_cond_eps_normX", ratio).str ();
        });
    }
    if (sel == 0) c.sample (pname, [&] { return Obj ().kv ("n", n).kv ("kind", kind_name (kind)).raw ("M", arr_json (M)).raw ("M_perturbed", arr_json (Mp)).str (); });
}

} // namespace c06
