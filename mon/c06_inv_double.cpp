// C06 monitor, double instantiation (see c06_inv.h for the oracle and conventions)
#include "c06_inv.h"
#define C06_T double
#define C06_TN "double"
#include "c06_inv_reg.h"
