// C07 - Frustum<T>: every ...Exc method against its noexcept twin.
//
// The unchecked Frustum methods have no failure report (they return inf/NaN), so what
// is decided here is: (a) whenever the Exc form returns, the result is bit-identical;
// (b) anything thrown is exactly std::domain_error; (c) whenever an Exc form throws,
// one of the divisions it guards has an exact quotient (from the exact inputs, in
// __float128) of magnitude >= max/4, or a zero denominator - which includes (d): no
// throw on well-conditioned input; setExc throws iff fovx and fovy are both non-zero;
// ZToDepthExc additionally throws when zmax == zmin.
#include "c07_common.h"
#include <ImathFrustum.h>

using namespace c07;
using namespace IMATH_NAMESPACE;

// protected members are reached through a derived class
template <class T> struct Fr : public Frustum<T>
{
    Fr (T n, T f, T l, T r, T t, T b, bool o) : Frustum<T> (n, f, l, r, t, b, o) {}
    Fr () : Frustum<T> () {}
    Vec2<T> l2s (const Vec2<T>& p) const { return this->localToScreen (p); }
    Vec2<T> l2sExc (const Vec2<T>& p) const { return this->localToScreenExc (p); }
};

template <class T> struct FrIn
{
    T    n, f, l, r, t, b;
    bool ortho;
    Fr<T> make () const { return Fr<T> (n, f, l, r, t, b, ortho); }
    uint64_t hash () const
    {
        uint64_t h = ortho;
        h = hbits (h, n); h = hbits (h, f); h = hbits (h, l); h = hbits (h, r); h = hbits (h, t); h = hbits (h, b);
        return h;
    }
    std::string json () const
    {
        T v[6] = {n, f, l, r, t, b};
        return Obj ().raw ("near_far_left_right_top_bottom", jarr_hex (v, 6)).raw ("values", jarr (v, 6)).kv ("ortho", ortho).str ();
    }
};

// ------------------------------------------------------------------ pair generator: (lo, hi) with hi - lo in a class
enum
{
    PC_BENIGN = 0,
    PC_EQUAL,
    PC_DENORM_DIFF,
    PC_THRESH_2_OVER_MAX,
    PC_COUPLED, // difference around 2*near/max (perspective guards) - needs `near`
    PC_TINY_DIFF,
    PC_ULP,
    PC_AROUND_1,
    PC_HUGE,
    PC_REVERSED,
    PC_ANY,
    PC_N
};
static const char* const PCN[PC_N] = {"diff_benign", "diff_zero", "diff_subnormal", "diff_around_2/max", "diff_around_2near/max", "diff_tiny", "diff_one_ulp",
                                      "diff_around_1", "diff_huge", "diff_reversed", "any_exponent"};

template <class T>
static void
gen_pair (Rng& r, int pc, T& lo, T& hi, T coupling, bool positive)
{
    switch (pc)
    {
        case PC_BENIGN:
            if (positive) { lo = (T) r.uniform (0.01, 10.0); hi = lo + (T) r.uniform (1.0, 1000.0); }
            else { lo = -(T) r.uniform (0.1, 4.0); hi = (T) r.uniform (0.1, 4.0); if (r.coin ()) hi = -lo; }
            break;
        case PC_EQUAL: {
            int k = (int) r.range (0, 4);
            lo = k == 0 ? signed_zero<T> (r) : k == 1 ? benign<T> (r) : k == 2 ? subnormal<T> (r) : k == 3 ? lscale<T> (r, FT<T>::EMAX / 2, FT<T>::EMAX - 1) : anyfinite<T> (r);
            if (positive && lo < 0) lo = -lo;
            hi = lo;
            if (k == 0 && r.coin ()) hi = -lo; // +0 vs -0: still equal
            break;
        }
        case PC_DENORM_DIFF: {
            lo = (T) std::ldexp ((double) r.range (positive ? 0 : -4, 4), FT<T>::EMIN);
            int k = (int) r.range (1, 8);
            hi = lo + (T) std::ldexp ((double) (r.one_in (4) ? -k : k), FT<T>::EMIN); // exact
            break;
        }
        case PC_THRESH_2_OVER_MAX: {
            T thr = (T) ((f128) 2 / (f128) tmax<T> ()); // subnormal, just below min/2... exactly 2^(EMIN+MANT-2)
            lo = (T) std::ldexp ((double) r.range (positive ? 0 : -2, 2), FT<T>::EMIN);
            T d = step (thr, (int) r.range (-3, 3));
            hi = r.one_in (5) ? lo - d : lo + d; // exact (all operands multiples of denorm_min)
            break;
        }
        case PC_COUPLED: {
            // difference d with max*d on either side of |2*coupling|
            f128 dd = abs128 ((f128) 2 * (f128) coupling / (f128) tmax<T> ());
            T    d  = step ((T) dd, (int) r.range (-3, 3));
            lo = r.coin () ? T (0) : (T) std::ldexp ((double) r.range (0, 2), FT<T>::EMIN);
            hi = r.one_in (5) ? lo - d : lo + d;
            break;
        }
        case PC_TINY_DIFF: {
            int e = (int) r.range (FT<T>::EMIN + FT<T>::MANT, -20);
            lo = (T) std::ldexp (r.uniform (positive ? 0.0 : -1.0, 1.0), e);
            hi = lo + (T) std::ldexp (r.uniform (0.5, 1.0), e - (int) r.range (0, 10));
            break;
        }
        case PC_ULP:
            lo = r.coin () ? benign<T> (r) : lscale<T> (r, -40, 40);
            if (positive && lo < 0) lo = -lo;
            hi = step (lo, (int) r.range (1, 3) * (r.one_in (4) ? -1 : 1));
            break;
        case PC_AROUND_1: {
            T d = step (T (1), (int) r.range (-3, 3));
            if (r.one_in (4)) d = (T) r.uniform (0.5, 2.0);
            lo = r.coin () ? T (0) : (T) r.range (positive ? 0 : -2, 2);
            hi = r.one_in (5) ? lo - d : lo + d;
            break;
        }
        case PC_HUGE:
            if (r.coin ()) { lo = positive ? lscale<T> (r, FT<T>::EMAX - 2, FT<T>::EMAX - 1) : -(T) (r.uniform (0.5, 1.0) * (double) tmax<T> ()); hi = (T) (r.uniform (0.5, 1.0) * (double) tmax<T> ()); }
            else { lo = lscale<T> (r, FT<T>::EMAX - 30, FT<T>::EMAX - 1); hi = r.coin () ? step (lo, (int) r.range (0, 3)) : lscale<T> (r, FT<T>::EMAX - 30, FT<T>::EMAX - 1); }
            if (positive) { if (lo < 0) lo = -lo; if (hi < 0) hi = -hi; }
            break;
        case PC_REVERSED:
            hi = -(T) r.uniform (0.1, 4.0); lo = (T) r.uniform (0.1, 4.0);
            if (positive) { hi = (T) r.uniform (0.01, 10.0); lo = hi + (T) r.uniform (1.0, 1000.0); }
            break;
        default:
            lo = anyfinite<T> (r); hi = anyfinite<T> (r);
            break;
    }
}

// A frustum whose pair `focus` (0: left/right, 1: bottom/top, 2: near/far) has class pc and whose other
// pairs are benign (3 of 4) or of a random class
template <class T>
static FrIn<T>
gen_frustum (Rng& r, int pc, int focus, int* pcs = nullptr)
{
    FrIn<T> F;
    int     cls[3];
    for (int k = 0; k < 3; ++k) cls[k] = (k == focus) ? pc : (r.one_in (4) ? (int) r.range (0, PC_N - 1) : PC_BENIGN);
    // near/far first: the coupled classes of the other pairs need `near`
    T coupling_nf = (T) r.uniform (0.01, 10.0);
    gen_pair<T> (r, cls[2] == PC_COUPLED ? PC_EQUAL : cls[2], F.n, F.f, coupling_nf, !r.one_in (8));
    if (cls[2] == PC_COUPLED) cls[2] = PC_EQUAL;
    gen_pair<T> (r, cls[0], F.l, F.r, F.n, false);
    gen_pair<T> (r, cls[1], F.b, F.t, F.n, false);
    F.ortho = r.coin ();
    if (pcs) for (int k = 0; k < 3; ++k) pcs[k] = cls[k];
    return F;
}

// ------------------------------------------------------------------ judging one pair of outcomes
template <class T> struct Judge
{
    Ctx&        c;
    uint64_t    idx;
    std::string tag;
    template <class D>
    void pair (const char* fn, ExcKind kc, ExcKind ku, bool identical, const Quot* q, int nq, D&& describe, bool extra_legit_throw = false)
    {
        if (c.verbose)
        {
            std::fprintf (stderr, "[replay] %s checked=%s unchecked=%s identical=%d %s\n", fn, exc_name (kc), exc_name (ku), (int) identical, describe ().c_str ());
            for (int i = 0; i < nq; ++i) std::fprintf (stderr, "[replay]   guarded quotient %d: n=%.17g d=%.17g cond=%g |n/d|/max=%g\n", i, (double) q[i].n, (double) q[i].d, q[i].cond, q[i].d == 0 ? INFINITY : (double) (abs128 (q[i].n / q[i].d) / (f128) tmax<T> ()));
        }
        if (ku != EX_NONE) c.fail (key (fn, tag, "unchecked_threw"), idx, describe);
        if (kc == EX_NONE)
        {
            c.cls (std::string (fn) + ":returned");
            if (ku == EX_NONE && !identical) c.fail (key (fn, tag, "differs_from_unchecked"), idx, describe);
            return;
        }
        c.cls (std::string (fn) + ":threw");
        if (kc != EX_DOMAIN) c.fail (key (fn, tag, "wrong_exception_type"), idx, describe);
        if (extra_legit_throw) return;
        double loq = 0;
        Tight  t   = tightness<T> (q, nq, &loq);
        bool   wellc = true; // every guarded expression is evaluated accurately in T
        for (int i = 0; i < nq; ++i) if (8.0 * teps<T> () * q[i].cond > 0.25) wellc = false;
        if (t == T_OK) { c.cls ("guard_fired_exact_quotient>=max/4_or_zero_denominator"); if (wellc) c.worst ((std::string (fn) + "." + tag + ".(max/4)/exact_quotient_when_fired").c_str (), loq, idx); }
        else if (t == T_SKIP) c.cls ("tightness_skipped_illconditioned");
        else c.fail (key (fn, tag, "guard_fired_early"), idx, describe);
    }
};

static inline Quot Q (f128 n, f128 d, double cond = 1.0) { Quot q; q.n = n; q.d = d; q.cond = cond; return q; }
template <class T> static inline double cond3 (f128 a, f128 b, f128 cc, f128 v) { return cond_of<T> (abs128 (a) + abs128 (b) + abs128 (cc), v); }

// ===================================================================== projectionMatrix / aspect
template <class T>
static void
sub_projection (Ctx& c, uint64_t idx)
{
    Rng     r = c.rng (idx);
    int     pc = (int) (idx % PC_N), focus = (int) ((idx / PC_N) % 3);
    FrIn<T> F = gen_frustum<T> (r, pc, focus);
    Fr<T>   fr = F.make ();
    c.eval (2);
    c.cls (PCN[pc]);
    c.cls (F.ortho ? "orthographic" : "perspective");
    c.nontrivial (F.hash ());
    Judge<T> J{c, idx, FT<T>::tag ()};
    f128     l = F.l, rr = F.r, t = F.t, b = F.b, n = F.n, f = F.f;

    Matrix44<T> mu, mc;
    ExcKind     ku = guarded ([&] { mu = fr.projectionMatrix (); });
    ExcKind     kc = guarded ([&] { mc = fr.projectionMatrixExc (); });
    Quot        q[6];
    q[0] = Q (rr + l, rr - l); q[1] = Q (t + b, t - b); q[2] = Q (f + n, f - n);
    if (F.ortho) { q[3] = Q (2, rr - l); q[4] = Q (2, t - b); q[5] = Q (2, f - n); }
    else { q[3] = Q (2 * f * n, f - n); q[4] = Q (2 * n, rr - l); q[5] = Q (2 * n, t - b); }
    auto d1 = [&] { return Obj ().raw ("frustum", F.json ()).raw ("checked", jarr_hex (&mc[0][0], 16)).raw ("unchecked", jarr_hex (&mu[0][0], 16)).kv ("exception", exc_name (kc)).str (); };
    J.pair ("projectionMatrixExc", kc, ku, same_n (&mc[0][0], &mu[0][0], 16), q, 6, d1);
    if (kc == EX_NONE && pc == PC_BENIGN) c.cls ("well_conditioned_no_throw");

    T       au = 0, ac = 0;
    ExcKind kua = guarded ([&] { au = fr.aspect (); });
    ExcKind kca = guarded ([&] { ac = fr.aspectExc (); });
    Quot    qa = Q (rr - l, t - b);
    auto    d2 = [&] { return Obj ().raw ("frustum", F.json ()).kv ("checked", FT<T>::hex (ac)).kv ("unchecked", FT<T>::hex (au)).kv ("exception", exc_name (kca)).str (); };
    J.pair ("aspectExc", kca, kua, same (ac, au), &qa, 1, d2);
    if (idx < (uint64_t) PC_N * 3) c.sample ((std::string (PCN[pc]) + "/" + (focus == 0 ? "left_right" : focus == 1 ? "bottom_top" : "near_far")).c_str (), d1);
}

// ===================================================================== localToScreen / projectPointToScreen
enum { XC_BENIGN = 0, XC_ZERO, XC_COUPLED, XC_HUGE, XC_DENORM, XC_ANY, XC_N };
static const char* const XCN[XC_N] = {"p_benign", "p_zero", "p_around_max*(l-r)/2", "p_huge", "p_subnormal", "p_any"};
enum { ZC_ZERO = 0, ZC_DENORM, ZC_TINY, ZC_NEAR_1, ZC_BENIGN, ZC_HUGE, ZC_N };
static const char* const ZCN[ZC_N] = {"pz_zero", "pz_subnormal", "pz_tiny", "pz_near_1", "pz_benign", "pz_huge"};

template <class T>
static T
gen_coord (Rng& r, int xc, T lo, T hi)
{
    switch (xc)
    {
        case XC_BENIGN: return benign<T> (r);
        case XC_ZERO: return signed_zero<T> (r);
        case XC_COUPLED: {
            // |l - 2p + r| ~ max*|l - r|  <=>  p ~ (l + r -+ max*|l-r|)/2
            f128 d = abs128 ((f128) lo - (f128) hi) * (f128) tmax<T> ();
            f128 p = ((f128) lo + (f128) hi + (r.coin () ? d : -d)) / 2;
            T    v = (T) p;
            if (!std::isfinite (v)) v = r.coin () ? tmax<T> () : -tmax<T> ();
            return step (v, (int) r.range (-3, 3));
        }
        case XC_HUGE: return r.coin () ? lscale<T> (r, FT<T>::EMAX - 4, FT<T>::EMAX - 1) : (r.coin () ? tmax<T> () : -tmax<T> ());
        case XC_DENORM: return subnormal<T> (r, r.coin ());
        default: return anyfinite<T> (r);
    }
}

template <class T>
static T
gen_pz (Rng& r, int zc)
{
    switch (zc)
    {
        case ZC_ZERO: return signed_zero<T> (r);
        case ZC_DENORM: return subnormal<T> (r, r.coin ());
        case ZC_TINY: return lscale<T> (r, FT<T>::EMIN + FT<T>::MANT, -20);
        case ZC_NEAR_1: { T v = step (T (1), (int) r.range (-3, 3)); return r.one_in (4) ? v : -v; }
        case ZC_BENIGN: return -(T) r.uniform (0.1, 100.0);
        default: return lscale<T> (r, FT<T>::EMAX - 40, FT<T>::EMAX - 1);
    }
}

template <class T>
static void
sub_screen (Ctx& c, uint64_t idx)
{
    Rng     r = c.rng (idx);
    int     pc = (int) (idx % PC_N), focus = (int) ((idx / PC_N) % 2); // left/right or bottom/top
    int     xc = (int) ((idx / (PC_N * 2)) % XC_N), zc = (int) ((idx / (PC_N * 2 * XC_N)) % ZC_N);
    FrIn<T> F = gen_frustum<T> (r, pc, focus);
    Fr<T>   fr = F.make ();
    Vec3<T> p (gen_coord<T> (r, focus == 0 ? xc : (r.coin () ? xc : XC_BENIGN), F.l, F.r), gen_coord<T> (r, focus == 1 ? xc : (r.coin () ? xc : XC_BENIGN), F.b, F.t), gen_pz<T> (r, zc));
    c.eval (2);
    c.cls (PCN[pc]); c.cls (XCN[xc]); c.cls (ZCN[zc]);
    uint64_t h = F.hash ();
    for (int i = 0; i < 3; ++i) h = hbits (h, p[i]);
    c.nontrivial (h);
    Judge<T> J{c, idx, FT<T>::tag ()};
    f128     l = F.l, rr = F.r, t = F.t, b = F.b;

    auto quots = [&] (const Vec2<T>& lp, Quot* q) {
        f128 x = lp.x, y = lp.y;
        f128 nx = l - 2 * x + rr, ny = b - 2 * y + t;
        q[0] = Q (nx, l - rr, cond3<T> (l, 2 * x, rr, nx));
        q[1] = Q (ny, b - t, cond3<T> (b, 2 * y, t, ny));
    };
    // ---- localToScreen directly, on the local point (p.x, p.y)
    {
        Vec2<T> lp (p.x, p.y), su (T (0)), sc (T (0));
        ExcKind ku = guarded ([&] { su = fr.l2s (lp); });
        ExcKind kc = guarded ([&] { sc = fr.l2sExc (lp); });
        Quot    q[2];
        quots (lp, q);
        auto d = [&] { return Obj ().raw ("frustum", F.json ()).raw ("local_point", jarr_hex (&lp[0], 2)).raw ("local_point_value", jarr (&lp[0], 2)).raw ("checked", jarr_hex (&sc[0], 2)).raw ("unchecked", jarr_hex (&su[0], 2)).kv ("exception", exc_name (kc)).str (); };
        J.pair ("localToScreenExc", kc, ku, same_n (&sc[0], &su[0], 2), q, 2, d);
        if (kc == EX_NONE && pc == PC_BENIGN && xc == XC_BENIGN) c.cls ("well_conditioned_no_throw");
    }
    // ---- projectPointToScreen
    {
        Vec2<T> su (T (0)), sc (T (0));
        ExcKind ku = guarded ([&] { su = fr.projectPointToScreen (p); });
        ExcKind kc = guarded ([&] { sc = fr.projectPointToScreenExc (p); });
        // the local point the method hands to localToScreen[Exc], evaluated in T as documented:
        // (x,y) for orthographic frusta or z == 0, else (x,y) * near / -z
        Vec2<T> lp (p.x, p.y);
        if (!F.ortho && p.z != T (0)) { T mz = -p.z; lp.x = (p.x * F.n) / mz; lp.y = (p.y * F.n) / mz; c.cls ("perspective_divide"); }
        Quot q[2];
        quots (lp, q);
        auto d = [&] { return Obj ().raw ("frustum", F.json ()).raw ("point", jarr_hex (&p[0], 3)).raw ("point_value", jarr (&p[0], 3)).raw ("checked", jarr_hex (&sc[0], 2)).raw ("unchecked", jarr_hex (&su[0], 2)).kv ("exception", exc_name (kc)).str (); };
        if (lp.x != lp.x || lp.y != lp.y)
        {
            // inf*0 or inf/inf in the perspective divide: the local point is NaN, every comparison of the guard is false
            c.cls ("local_point_nan(not_judged_for_tightness)");
            J.pair ("projectPointToScreenExc", kc, ku, same_n (&sc[0], &su[0], 2), q, 0, d, true);
        }
        else
            J.pair ("projectPointToScreenExc", kc, ku, same_n (&sc[0], &su[0], 2), q, 2, d);
        if (idx < (uint64_t) PC_N * 2) c.sample ((std::string (PCN[pc]) + "/" + (focus == 0 ? "left_right" : "bottom_top")).c_str (), d);
    }
}

// ===================================================================== radius
enum { RC_PZ_ZERO = 0, RC_PZ_DENORM, RC_PZ_COUPLED, RC_PZ_NEAR_1, RC_BENIGN, RC_NEAR_ZERO, RC_NEAR_DENORM, RC_NEAR_COUPLED, RC_NEAR_NEAR_1, RC_BOTH_ZERO, RC_ANY, RC_N };
static const char* const RCN[RC_N] = {"pz_zero", "pz_subnormal", "pz_around_near/max", "pz_around_1", "benign", "near_zero", "near_subnormal", "near_around_pz/max", "near_around_1", "both_zero", "any_exponent"};

template <class T>
static void
sub_radius (Ctx& c, uint64_t idx)
{
    Rng     r  = c.rng (idx);
    int     rc = (int) (idx % RC_N);
    FrIn<T> F  = gen_frustum<T> (r, PC_BENIGN, 0);
    T       pz = -(T) r.uniform (0.1, 100.0);
    switch (rc)
    {
        case RC_PZ_ZERO: pz = signed_zero<T> (r); if (r.one_in (3)) F.n = anyfinite<T> (r); break;
        case RC_PZ_DENORM: pz = subnormal<T> (r, r.coin ()); if (r.coin ()) F.n = lscale<T> (r, -30, 4); break;
        case RC_PZ_COUPLED: {
            // |near| ~ max*|pz|
            if (r.coin ()) F.n = lscale<T> (r, -18, 60);
            T v = (T) (abs128 ((f128) F.n) / (f128) tmax<T> ());
            pz = step (v, (int) r.range (-3, 3));
            if (r.coin ()) pz = -pz;
            break;
        }
        case RC_PZ_NEAR_1: pz = step (T (1), (int) r.range (-3, 3)); if (r.coin ()) pz = -pz; F.n = r.coin () ? lscale<T> (r, FT<T>::EMAX - 3, FT<T>::EMAX - 1) : F.n; break;
        case RC_BENIGN: break;
        case RC_NEAR_ZERO: F.n = signed_zero<T> (r); if (r.one_in (3)) pz = anyfinite<T> (r); break;
        case RC_NEAR_DENORM: F.n = subnormal<T> (r, r.coin ()); if (r.coin ()) pz = lscale<T> (r, -30, 4); break;
        case RC_NEAR_COUPLED: {
            if (r.coin ()) pz = lscale<T> (r, -18, 60);
            T v = (T) (abs128 ((f128) pz) / (f128) tmax<T> ());
            F.n = step (v, (int) r.range (-3, 3));
            if (r.one_in (4)) F.n = -F.n;
            break;
        }
        case RC_NEAR_NEAR_1: F.n = step (T (1), (int) r.range (-3, 3)); pz = r.coin () ? lscale<T> (r, FT<T>::EMAX - 3, FT<T>::EMAX - 1) : pz; break;
        case RC_BOTH_ZERO: F.n = signed_zero<T> (r); pz = signed_zero<T> (r); break;
        default: F.n = anyfinite<T> (r); pz = anyfinite<T> (r); break;
    }
    Fr<T>   fr = F.make ();
    T       radius = r.one_in (6) ? anyfinite<T> (r) : (r.one_in (8) ? T (0) : benign<T> (r));
    Vec3<T> p (benign<T> (r), benign<T> (r), pz);
    c.eval (2);
    c.cls (RCN[rc]);
    c.nontrivial (hbits (hbits (hbits (0, F.n), pz), radius));
    Judge<T> J{c, idx, FT<T>::tag ()};
    {
        T       ru = 0, rcv = 0;
        ExcKind ku = guarded ([&] { ru = fr.screenRadius (p, radius); });
        ExcKind kc = guarded ([&] { rcv = fr.screenRadiusExc (p, radius); });
        Quot    q = Q ((f128) F.n, (f128) pz);
        auto d = [&] { return Obj ().kv ("near", FT<T>::hex (F.n)).kv ("pz", FT<T>::hex (pz)).kv ("radius", FT<T>::hex (radius)).kv ("near_value", (double) F.n).kv ("pz_value", (double) pz).kv ("checked", FT<T>::hex (rcv)).kv ("unchecked", FT<T>::hex (ru)).kv ("exception", exc_name (kc)).str (); };
        J.pair ("screenRadiusExc", kc, ku, same (rcv, ru), &q, 1, d);
        if (kc == EX_NONE && rc == RC_BENIGN) c.cls ("well_conditioned_no_throw");
        if (idx < (uint64_t) RC_N) c.sample (RCN[rc], d);
    }
    {
        T       ru = 0, rcv = 0;
        ExcKind ku = guarded ([&] { ru = fr.worldRadius (p, radius); });
        ExcKind kc = guarded ([&] { rcv = fr.worldRadiusExc (p, radius); });
        Quot    q = Q ((f128) pz, (f128) F.n);
        auto d = [&] { return Obj ().kv ("near", FT<T>::hex (F.n)).kv ("pz", FT<T>::hex (pz)).kv ("radius", FT<T>::hex (radius)).kv ("near_value", (double) F.n).kv ("pz_value", (double) pz).kv ("checked", FT<T>::hex (rcv)).kv ("unchecked", FT<T>::hex (ru)).kv ("exception", exc_name (kc)).str (); };
        J.pair ("worldRadiusExc", kc, ku, same (rcv, ru), &q, 1, d);
    }
}

// ===================================================================== depth
enum { DC_BENIGN = 0, DC_NF_EQUAL, DC_NF_ULP, DC_NF_TINY, DC_Z_POLE, DC_DEPTH_ZERO, DC_DEPTH_DENORM, DC_DEPTH_COUPLED, DC_DEPTH_TINY, DC_ZRANGE_EMPTY, DC_ANY, DC_N };
static const char* const DCN[DC_N] = {"benign", "far==near", "far-near_one_ulp", "far,near_tiny", "zval_at_pole_of_depth", "depth_zero", "depth_subnormal", "depth_around_2fn/max", "depth_tiny", "zmax==zmin", "any_exponent"};

template <class T>
static void
sub_depth (Ctx& c, uint64_t idx)
{
    Rng     r  = c.rng (idx);
    int     dc = (int) (idx % DC_N);
    FrIn<T> F  = gen_frustum<T> (r, PC_BENIGN, 2);
    T       zval = (T) r.uniform (0.0, 1.0);
    T       depth = -(T) r.uniform (0.1, 1000.0);
    static const long ZR[6] = {1, 255, 65535, 16777215, 1073741823, 1000};
    long    zmin = r.coin () ? 0 : (long) r.range (0, 1000), zmax = zmin + ZR[r.range (0, 5)];
    long    zv   = zmin + (long) r.range (-3, (zmax - zmin) + 3);
    if (r.one_in (8)) zv = zmax + (long) r.range (0, (zmax - zmin) + 5); // wraps (zval > zmax + 1)
    switch (dc)
    {
        case DC_BENIGN: break;
        case DC_NF_EQUAL: gen_pair<T> (r, PC_EQUAL, F.n, F.f, T (1), !r.one_in (4)); break;
        case DC_NF_ULP: gen_pair<T> (r, PC_ULP, F.n, F.f, T (1), !r.one_in (4)); break;
        case DC_NF_TINY: gen_pair<T> (r, r.coin () ? PC_TINY_DIFF : PC_DENORM_DIFF, F.n, F.f, T (1), !r.one_in (4)); break;
        case DC_Z_POLE: {
            // Zp*(f-n) - f - n == 0  <=>  zval = ((f+n)/(f-n) + 1)/2 = f/(f-n)
            if (r.coin ()) gen_pair<T> (r, r.coin () ? PC_AROUND_1 : PC_ULP, F.n, F.f, T (1), true);
            f128 d = (f128) F.f - (f128) F.n;
            T    z = d == 0 ? T (0.5) : (T) ((f128) F.f / d);
            if (!std::isfinite (z)) z = tmax<T> ();
            zval = step (z, (int) r.range (-3, 3));
            break;
        }
        case DC_DEPTH_ZERO: depth = signed_zero<T> (r); if (r.one_in (3)) { F.n = anyfinite<T> (r); F.f = anyfinite<T> (r); } break;
        case DC_DEPTH_DENORM: depth = subnormal<T> (r, r.coin ()); if (r.coin ()) { F.n = lscale<T> (r, -20, 2); F.f = lscale<T> (r, -20, 10); } break;
        case DC_DEPTH_COUPLED: {
            if (r.coin ()) { F.n = lscale<T> (r, -10, 30); F.f = lscale<T> (r, -10, 30); }
            T v = (T) (abs128 ((f128) 2 * (f128) F.f * (f128) F.n) / (f128) tmax<T> ());
            depth = step (v, (int) r.range (-3, 3));
            if (r.coin ()) depth = -depth;
            break;
        }
        case DC_DEPTH_TINY: depth = lscale<T> (r, FT<T>::EMIN + FT<T>::MANT, -10); break;
        case DC_ZRANGE_EMPTY: zmax = zmin; zv = zmin + (long) r.range (-2, 2); break;
        default: F.n = anyfinite<T> (r); F.f = anyfinite<T> (r); depth = anyfinite<T> (r); zval = r.coin () ? anyfinite<T> (r) : (T) r.uniform (-1.0, 2.0); break;
    }
    if (r.one_in (16)) zval = r.coin () ? T (0) : T (1);
    Fr<T> fr = F.make ();
    c.eval (3);
    c.cls (DCN[dc]);
    c.cls (F.ortho ? "orthographic" : "perspective");
    c.nontrivial (hbits (hbits (hbits (hash_combine (F.hash (), (uint64_t) zv * 0x9E37ull + (uint64_t) zmax), zval), depth), T (zmin)));
    Judge<T>   J{c, idx, FT<T>::tag ()};
    const f128 n = F.n, f = F.f;

    // exact operands of the guarded division of normalizedZToDepth (perspective): 2fn / (Zp (f-n) - f - n)
    auto nz_quot = [&] (T z, Quot* q) -> int {
        if (F.ortho) return 0; // the orthographic branch divides by 2 only: nothing to guard
        f128 Zp = (f128) z * 2 - 1;
        f128 D  = Zp * (f - n) - f - n;
        f128 S  = abs128 (Zp) * (abs128 (f) + abs128 (n)) + abs128 (f) + abs128 (n);
        q[0]    = Q (2 * f * n, D, cond_of<T> (S, D));
        return 1;
    };
    // ---- normalizedZToDepth
    {
        T       du = 0, dcv = 0;
        ExcKind ku = guarded ([&] { du = fr.normalizedZToDepth (zval); });
        ExcKind kc = guarded ([&] { dcv = fr.normalizedZToDepthExc (zval); });
        Quot    q[1];
        int     nq = nz_quot (zval, q);
        auto d = [&] { return Obj ().raw ("frustum", F.json ()).kv ("zval", FT<T>::hex (zval)).kv ("zval_value", (double) zval).kv ("checked", FT<T>::hex (dcv)).kv ("unchecked", FT<T>::hex (du)).kv ("exception", exc_name (kc)).str (); };
        J.pair ("normalizedZToDepthExc", kc, ku, same (dcv, du), q, nq, d);
        if (kc == EX_NONE && dc == DC_BENIGN) c.cls ("well_conditioned_no_throw");
        if (idx < (uint64_t) DC_N) c.sample (DCN[dc], d);
    }
    // ---- ZToDepth (long arguments; |z| < 2^31 so that zmax - zmin fits the library's int)
    {
        T       du = 0, dcv = 0;
        ExcKind ku = guarded ([&] { du = fr.ZToDepth (zv, zmin, zmax); });
        ExcKind kc = guarded ([&] { dcv = fr.ZToDepthExc (zv, zmin, zmax); });
        // normalised z as documented: (zval - zmin) / (zmax - zmin), zval first reduced by the range if beyond zmax + 1
        long zz = zv;
        if (zz > zmax + 1) zz -= (zmax - zmin);
        T    fz = (T (zz) - T (zmin)) / T (zmax - zmin);
        Quot q[1];
        int  nq = (zmax == zmin || fz != fz) ? 0 : nz_quot (fz, q);
        auto d = [&] { return Obj ().raw ("frustum", F.json ()).kv ("zval", (long long) zv).kv ("zmin", (long long) zmin).kv ("zmax", (long long) zmax).kv ("checked", FT<T>::hex (dcv)).kv ("unchecked", FT<T>::hex (du)).kv ("exception", exc_name (kc)).str (); };
        J.pair ("ZToDepthExc", kc, ku, same (dcv, du), q, nq, d, zmax == zmin);
        if (zmax == zmin && kc == EX_NONE) c.fail (key ("ZToDepthExc", J.tag, "no_throw_on_zmax==zmin"), idx, d);
    }
    // ---- DepthToZ: the result is long(0.5*(Zp+1)*zdiff) + zmin; converting a non-finite or out-of-range
    // value is undefined, so the pair is driven only where the value is provably in range, and the Exc
    // form alone where its guard is certain to fire first
    {
        const f128 lim = (f128) tmax<T> () / 4, zd = (f128) (zmax - zmin);
        f128       fmn = f - n, ftn = 2 * f * n, de = depth;
        bool       safe = false, sure_throw = false;
        Quot       q[2];
        int        nq = 0;
        if (F.ortho)
        {
            f128 N = 2 * de + f + n, S = 2 * abs128 (de) + abs128 (f) + abs128 (n);
            q[nq++] = Q (N, fmn, cond_of<T> (S, N));
            if (fmn != 0 && S < lim && 0.5 * (S / abs128 (fmn) * 1.01 + 1) * zd < 0x1p60Q) safe = true;
            if (fmn == 0 && S < lim && abs128 (N) >= 4 * (f128) tmin<T> () && S / abs128 (N) < 1024) sure_throw = true;
        }
        else
        {
            q[nq++] = Q (ftn, de);
            if (de != 0)
            {
                f128 t1 = ftn / de, N = t1 + f + n, S = abs128 (t1) + abs128 (f) + abs128 (n);
                q[nq++] = Q (N, fmn, cond_of<T> (S, N));
                if (fmn != 0 && S < lim && abs128 (ftn) < lim && abs128 (f) * 2 < lim && 0.5 * (S / abs128 (fmn) * 1.01 + 1) * zd < 0x1p60Q) safe = true;
                if (fmn == 0 && S < lim && abs128 (ftn) < lim && abs128 (f) * 2 < lim && abs128 (N) >= 4 * (f128) tmin<T> () && S / abs128 (N) < 1024 &&
                    !(abs128 (de) < 1 && abs128 (ftn) * 1.01 >= (f128) tmax<T> () * abs128 (de)))
                    sure_throw = true; // second guard (far == near)
            }
            if (abs128 (de) < 1 && abs128 (ftn) >= 4 * (f128) tmin<T> () && abs128 (ftn) < lim && abs128 (f) * 2 < lim && abs128 (ftn) > 4 * (f128) tmax<T> () * abs128 (de)) sure_throw = true; // first guard
        }
        long    zu = 0, zc = 0;
        ExcKind ku = EX_NONE, kc = EX_NONE;
        auto d = [&] { return Obj ().raw ("frustum", F.json ()).kv ("depth", FT<T>::hex (depth)).kv ("depth_value", (double) depth).kv ("zmin", (long long) zmin).kv ("zmax", (long long) zmax).kv ("checked", (long long) zc).kv ("unchecked", (long long) zu).kv ("exception", exc_name (kc)).str (); };
        if (safe)
        {
            c.cls ("DepthToZ:pair_driven");
            ku = guarded ([&] { zu = fr.DepthToZ (depth, zmin, zmax); });
            kc = guarded ([&] { zc = fr.DepthToZExc (depth, zmin, zmax); });
            J.pair ("DepthToZExc", kc, ku, zc == zu, q, nq, d);
        }
        else if (sure_throw)
        {
            c.cls ("DepthToZ:exc_only_guard_certain");
            kc = guarded ([&] { zc = fr.DepthToZExc (depth, zmin, zmax); });
            if (kc == EX_NONE) c.cls ("DepthToZExc:returned_where_guard_expected(not_judged)");
            else J.pair ("DepthToZExc", kc, EX_NONE, true, q, nq, d);
        }
        else
            c.cls ("DepthToZ:skipped_conversion_would_be_undefined");
    }
}

// ===================================================================== set / setExc (fov, aspect)
enum { SC_FOVX = 0, SC_FOVY, SC_BOTH, SC_NEITHER, SC_EDGE, SC_N };
static const char* const SCN[SC_N] = {"fovx_only", "fovy_only", "both_nonzero", "both_zero", "edge_values"};

template <class T>
static void
sub_set (Ctx& c, uint64_t idx)
{
    Rng r  = c.rng (idx);
    int sc = (int) (idx % SC_N);
    T   n = (T) r.uniform (0.01, 10.0), f = n + (T) r.uniform (1.0, 1000.0), fovx = 0, fovy = 0, aspect = (T) r.uniform (0.3, 3.0);
    auto fov = [&] { return (T) r.uniform (0.05, 3.0); };
    switch (sc)
    {
        case SC_FOVX: fovx = fov (); break;
        case SC_FOVY: fovy = fov (); break;
        case SC_BOTH: fovx = r.coin () ? fov () : subnormal<T> (r, true); fovy = r.coin () ? fov () : subnormal<T> (r, true); break;
        case SC_NEITHER: fovx = signed_zero<T> (r); fovy = signed_zero<T> (r); break;
        default: {
            auto edge = [&] () -> T { int k = (int) r.range (0, 6); return k == 0 ? signed_zero<T> (r) : k == 1 ? subnormal<T> (r, true) : k == 2 ? (T) 3.14159265358979323846 : k == 3 ? anyfinite<T> (r) : k == 4 ? -fov () : k == 5 ? tmax<T> () : fov (); };
            fovx = edge (); fovy = r.coin () ? T (0) : edge ();
            if (r.coin ()) aspect = r.coin () ? signed_zero<T> (r) : anyfinite<T> (r);
            if (r.coin ()) n = anyfinite<T> (r);
            if (r.one_in (4)) f = anyfinite<T> (r);
            break;
        }
    }
    c.eval ();
    c.cls (SCN[sc]);
    c.nontrivial (hbits (hbits (hbits (hbits (hbits (0, n), f), fovx), fovy), aspect));
    const std::string tag = FT<T>::tag ();
    // both objects start from the same, non-default state so that a member left unset shows
    Fr<T> u (T (3), T (7), T (-5), T (6), T (8), T (-9), true), g (T (3), T (7), T (-5), T (6), T (8), T (-9), true);
    ExcKind ku = guarded ([&] { u.set (n, f, fovx, fovy, aspect); });
    ExcKind kc = guarded ([&] { g.setExc (n, f, fovx, fovy, aspect); });
    T       vu[6] = {u.nearPlane (), u.farPlane (), u.left (), u.right (), u.top (), u.bottom ()};
    T       vc[6] = {g.nearPlane (), g.farPlane (), g.left (), g.right (), g.top (), g.bottom ()};
    auto d = [&] {
        T in[5] = {n, f, fovx, fovy, aspect};
        return Obj ().raw ("near_far_fovx_fovy_aspect", jarr_hex (in, 5)).raw ("values", jarr (in, 5)).raw ("checked_state", jarr_hex (vc, 6)).raw ("unchecked_state", jarr_hex (vu, 6)).kv ("checked_ortho", g.orthographic ()).kv ("unchecked_ortho", u.orthographic ()).kv ("exception", exc_name (kc)).str ();
    };
    bool both = fovx != T (0) && fovy != T (0);
    if (ku != EX_NONE) c.fail (key ("set", tag, "unchecked_threw"), idx, d);
    if (kc == EX_NONE)
    {
        c.cls ("setExc:returned");
        if (both) c.fail (key ("setExc", tag, "no_throw_with_both_fov_nonzero"), idx, d);
        else if (!same_n (vc, vu, 6) || g.orthographic () != u.orthographic ()) c.fail (key ("setExc", tag, "differs_from_set"), idx, d);
        if (sc == SC_FOVX || sc == SC_FOVY) c.cls ("well_conditioned_no_throw");
    }
    else
    {
        c.cls ("setExc:threw");
        if (kc != EX_DOMAIN) c.fail (key ("setExc", tag, "wrong_exception_type"), idx, d);
        if (!both) c.fail (key ("setExc", tag, "threw_with_a_zero_fov"), idx, d);
    }
    if (idx < (uint64_t) SC_N) c.sample (SCN[sc], d);
}

// ===================================================================== registration
static void proj_f (Ctx& c, uint64_t i) { sub_projection<float> (c, i); }
static void proj_d (Ctx& c, uint64_t i) { sub_projection<double> (c, i); }
static void scr_f (Ctx& c, uint64_t i) { sub_screen<float> (c, i); }
static void scr_d (Ctx& c, uint64_t i) { sub_screen<double> (c, i); }
static void rad_f (Ctx& c, uint64_t i) { sub_radius<float> (c, i); }
static void rad_d (Ctx& c, uint64_t i) { sub_radius<double> (c, i); }
static void dep_f (Ctx& c, uint64_t i) { sub_depth<float> (c, i); }
static void dep_d (Ctx& c, uint64_t i) { sub_depth<double> (c, i); }
static void set_f (Ctx& c, uint64_t i) { sub_set<float> (c, i); }
static void set_d (Ctx& c, uint64_t i) { sub_set<double> (c, i); }

#define C07_PROJ .req ({"diff_benign", "diff_zero", "diff_subnormal", "diff_around_2/max", "diff_around_2near/max", "diff_tiny", "diff_around_1", "diff_huge", "orthographic", "perspective", "projectionMatrixExc:threw", "projectionMatrixExc:returned", "aspectExc:threw", "aspectExc:returned", "well_conditioned_no_throw", "guard_fired_exact_quotient>=max/4_or_zero_denominator"}) \
    .over ("projectionMatrix/aspect vs Exc twins: frusta whose right-left, top-bottom or far-near (focus = idx/11 mod 3) is benign, 0, subnormal, around 2/max, around 2*near/max, tiny, one ulp, around 1, huge, reversed or arbitrary (idx mod 11); orthographic and perspective")
#define C07_SCR .req ({"diff_benign", "diff_zero", "diff_subnormal", "diff_tiny", "diff_around_1", "p_benign", "p_around_max*(l-r)/2", "p_huge", "pz_zero", "pz_subnormal", "pz_tiny", "pz_benign", "perspective_divide", "localToScreenExc:threw", "localToScreenExc:returned", "projectPointToScreenExc:threw", "projectPointToScreenExc:returned", "well_conditioned_no_throw", "guard_fired_exact_quotient>=max/4_or_zero_denominator"}) \
    .over ("localToScreen (through a derived class) and projectPointToScreen vs Exc twins: frustum classes as above x point coordinate {benign, 0, around the guard value max*|l-r|/2, huge, subnormal, any} x p.z {0, subnormal, tiny, +-1 +-3ulp, benign, huge}")
#define C07_RAD .req ({"pz_zero", "pz_subnormal", "pz_around_near/max", "pz_around_1", "benign", "near_zero", "near_subnormal", "near_around_pz/max", "near_around_1", "both_zero", "screenRadiusExc:threw", "screenRadiusExc:returned", "worldRadiusExc:threw", "worldRadiusExc:returned", "well_conditioned_no_throw", "guard_fired_exact_quotient>=max/4_or_zero_denominator"}) \
    .over ("screenRadius/worldRadius vs Exc twins: p.z and near in {0, subnormal, around the guard value other/max +-3 ulp, +-1 +-3 ulp, benign, any} (idx mod 11)")
#define C07_DEP .req ({"benign", "far==near", "far-near_one_ulp", "far,near_tiny", "zval_at_pole_of_depth", "depth_zero", "depth_subnormal", "depth_around_2fn/max", "depth_tiny", "zmax==zmin", "orthographic", "perspective", "normalizedZToDepthExc:threw", "normalizedZToDepthExc:returned", "ZToDepthExc:threw", "ZToDepthExc:returned", "DepthToZExc:threw", "DepthToZExc:returned", "DepthToZ:pair_driven", "DepthToZ:exc_only_guard_certain", "well_conditioned_no_throw"}) \
    .over ("normalizedZToDepth, ZToDepth, DepthToZ vs Exc twins: far/near equal, one ulp apart, tiny; zval at the pole f/(f-n) +-3 ulp; depth 0, subnormal, around 2fn/max +-3 ulp, tiny; zmax == zmin; z ranges 1..2^30 with wrap-around zval (idx mod 11)")
#define C07_SET .req ({"fovx_only", "fovy_only", "both_nonzero", "both_zero", "edge_values", "setExc:threw", "setExc:returned", "well_conditioned_no_throw"}) \
    .over ("set(near,far,fovx,fovy,aspect) vs setExc: fovx only, fovy only, both non-zero (incl. subnormal), both zero, edge values (pi, negative, max, zero aspect) (idx mod 5)")

MON_SUB_IDX (proj_f, "frustum_projection_f", 660000, 26400000) C07_PROJ;
MON_SUB_IDX (proj_d, "frustum_projection_d", 660000, 26400000) C07_PROJ;
MON_SUB_IDX (scr_f, "frustum_screen_f", 792000, 31680000) C07_SCR;
MON_SUB_IDX (scr_d, "frustum_screen_d", 792000, 31680000) C07_SCR;
MON_SUB_IDX (rad_f, "frustum_radius_f", 660000, 26400000) C07_RAD;
MON_SUB_IDX (rad_d, "frustum_radius_d", 660000, 26400000) C07_RAD;
MON_SUB_IDX (dep_f, "frustum_depth_f", 660000, 26400000) C07_DEP;
MON_SUB_IDX (dep_d, "frustum_depth_d", 660000, 26400000) C07_DEP;
MON_SUB_IDX (set_f, "frustum_set_f", 300000, 12000000) C07_SET;
MON_SUB_IDX (set_d, "frustum_set_d", 300000, 12000000) C07_SET;
