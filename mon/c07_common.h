// C07 - shared helpers of the "checked vs unchecked variant" monitor.
//
// An *outcome* of a call is either a value (compared bit for bit) or the dynamic
// type of the exception that left the call.  Every call into the library - also the
// one into the form that is documented not to throw - goes through guarded(), so an
// unexpected exception becomes a violation with a key, never a monitor crash.
#pragma once
#include "mon.h"
#include <limits>
#include <quadmath.h>
#include <stdexcept>
#include <typeinfo>

namespace c07
{
using namespace mon;
typedef __float128 f128;

// ------------------------------------------------------------------ exceptions
enum ExcKind
{
    EX_NONE = 0,
    EX_DOMAIN,    // exactly std::domain_error
    EX_INVALID,   // exactly std::invalid_argument
    EX_OTHER_STD, // some other class derived from std::exception
    EX_NONSTD     // not derived from std::exception
};

inline const char*
exc_name (ExcKind k)
{
    switch (k)
    {
        case EX_NONE: return "none";
        case EX_DOMAIN: return "std::domain_error";
        case EX_INVALID: return "std::invalid_argument";
        case EX_OTHER_STD: return "other std::exception";
        default: return "non-std exception";
    }
}

template <class F>
inline ExcKind
guarded (F&& f)
{
    try
    {
        f ();
        return EX_NONE;
    }
    catch (const std::exception& e)
    {
        const std::type_info& ti = typeid (e);
        if (ti == typeid (std::domain_error)) return EX_DOMAIN;
        if (ti == typeid (std::invalid_argument)) return EX_INVALID;
        return EX_OTHER_STD;
    }
    catch (...)
    {
        return EX_NONSTD;
    }
}

// ------------------------------------------------------------------ float traits
template <class T> struct FT;
template <> struct FT<float>
{
    typedef uint32_t U;
    static const char* tag () { return "f"; }
    static const char* name () { return "float"; }
    static U           bits (float v) { return f2u (v); }
    static float       from (U u) { return u2f (u); }
    static std::string hex (float v) { return hex32 (f2u (v)); }
    enum { EMIN = -149, EMAX = 127, MANT = 24 };
};
template <> struct FT<double>
{
    typedef uint64_t U;
    static const char* tag () { return "d"; }
    static const char* name () { return "double"; }
    static U           bits (double v) { return d2u (v); }
    static double      from (U u) { return u2d (u); }
    static std::string hex (double v) { return hex64 (d2u (v)); }
    enum { EMIN = -1074, EMAX = 1023, MANT = 53 };
};

template <class T> inline T tmax () { return std::numeric_limits<T>::max (); }
template <class T> inline T tmin () { return std::numeric_limits<T>::min (); }
template <class T> inline T tden () { return std::numeric_limits<T>::denorm_min (); }
template <class T> inline T teps () { return std::numeric_limits<T>::epsilon (); }

// "bit-identical" for results: equal bit patterns; two NaNs count as identical
// whatever their sign/payload (the payload of an invalid operation is not a value
// the library computes; the compiler may commute the operands of + and * in the two
// textual copies, which selects a different NaN operand on x86).
template <class T>
inline bool
same (T a, T b)
{
    if (a != a || b != b) return (a != a) && (b != b);
    return FT<T>::bits (a) == FT<T>::bits (b);
}

template <class T>
inline bool
same_n (const T* a, const T* b, int n, int* slot = nullptr)
{
    for (int i = 0; i < n; ++i)
        if (!same (a[i], b[i]))
        {
            if (slot) *slot = i;
            return false;
        }
    return true;
}

template <class T>
inline bool
all_finite (const T* a, int n)
{
    for (int i = 0; i < n; ++i)
        if (!std::isfinite (a[i])) return false;
    return true;
}

// k representable steps away from x (k may be negative); stays finite
template <class T>
inline T
step (T x, int k)
{
    T dir = k > 0 ? std::numeric_limits<T>::infinity () : -std::numeric_limits<T>::infinity ();
    for (int i = 0; i < (k > 0 ? k : -k); ++i)
    {
        T y = std::nextafter (x, dir);
        if (!std::isfinite (y)) break;
        x = y;
    }
    return x;
}

// round a __float128 to T (round to nearest even; the conversion is done by libgcc)
template <class T> inline T    from128 (f128 v) { return (T) v; }
inline f128                   abs128 (f128 v) { return v < 0 ? -v : v; }
inline double                 to_d (f128 v) { return (double) v; } // for reports only (may overflow to inf for huge ratios)

// ------------------------------------------------------------------ scalar generators
// +-m*2^e, m in [1,2), e uniform in [elo,ehi]; exact in double, rounded once to T
template <class T>
inline T
lscale (Rng& r, int elo, int ehi)
{
    return (T) r.logscale (elo, ehi);
}

// any finite T, exponent uniform over the whole range (subnormals included)
template <class T>
inline T
anyfinite (Rng& r)
{
    T v = (T) r.logscale (FT<T>::EMIN, FT<T>::EMAX);
    if (!std::isfinite (v)) v = r.coin () ? tmax<T> () : -tmax<T> ();
    return v;
}

// a subnormal of T: +-k*denorm_min with k in [1, 2^(MANT-1))
template <class T>
inline T
subnormal (Rng& r, bool small_k = false)
{
    uint64_t kmax = small_k ? 8 : ((uint64_t) 1 << (FT<T>::MANT - 1)) - 1;
    uint64_t k    = 1 + r.u64 () % kmax;
    T        v    = (T) std::ldexp ((double) k, FT<T>::EMIN); // exact: k < 2^52
    return r.coin () ? v : -v;
}

template <class T>
inline T
signed_zero (Rng& r)
{
    return r.coin () ? T (0) : -T (0);
}

// benign value: O(1) magnitude
template <class T>
inline T
benign (Rng& r)
{
    return (T) r.logscale (-4, 4);
}

template <class T>
inline uint64_t
hbits (uint64_t h, T v)
{
    return hash_combine (h, (uint64_t) FT<T>::bits (v));
}

template <class T>
inline std::string
jarr_hex (const T* p, int n)
{
    std::string s = "[";
    for (int i = 0; i < n; ++i)
    {
        if (i) s += ",";
        s += "\"" + FT<T>::hex (p[i]) + "\"";
    }
    return s + "]";
}

template <class T>
inline std::string
jarr (const T* p, int n)
{
    std::string s = "[";
    for (int i = 0; i < n; ++i)
    {
        if (i) s += ",";
        s += jnum ((double) p[i]);
    }
    return s + "]";
}

// key = "<function>.<type tag>:<what>"
inline std::string
key (const char* fn, const std::string& tag, const char* what)
{
    return std::string (fn) + "." + tag + ":" + what;
}

// ------------------------------------------------------------------ guard tightness
// One guarded division n/d, described by *exact* numerator and denominator (from the
// exact inputs, in __float128) and the conditioning of the two expressions
// (sum |terms| / |value|): the library evaluates them in T, so its own operands
// differ from the exact ones by ~eps*cond.
struct Quot
{
    f128   n, d;
    double cond; // max (cond(n), cond(d)); 1 for single-rounding expressions
};

template <class T>
inline double
cond_of (f128 sumabs, f128 value)
{
    if (value == 0) return sumabs == 0 ? 1.0 : std::numeric_limits<double>::infinity ();
    f128 q = sumabs / abs128 (value);
    return q > 1e300 ? 1e300 : (double) q;
}

enum Tight { T_OK = 0, T_SKIP, T_EARLY };

// A guard fired.  OK if for at least one guarded quotient the exact magnitude is
// >= max/4 (d == 0 counts: x/0 and 0/0 are the failures the guards exist for).
// SKIP (ill-conditioned, not judged) if none is, but the T-evaluation of some quotient
// may be off by more than 25 % (8*eps*cond > 1/4).  EARLY otherwise.
template <class T>
inline Tight
tightness (const Quot* q, int nq, double* limit_over_quotient = nullptr)
{
    const f128 lim  = (f128) tmax<T> () / 4;
    bool       skip = false, ok = false;
    f128       mmax = 0;
    for (int i = 0; i < nq; ++i)
    {
        if (q[i].d == 0) { ok = true; mmax = -1; break; }
        f128 m = abs128 (q[i].n / q[i].d);
        if (m > mmax) mmax = m;
        if (m >= lim) ok = true;
        if (8.0 * teps<T> () * q[i].cond > 0.25) skip = true;
    }
    // (max/4) / (largest exact quotient): <= 1 is demanded; 0 stands for a zero denominator
    if (limit_over_quotient) *limit_over_quotient = mmax < 0 ? 0.0 : (mmax == 0 ? 1e300 : (double) (lim / mmax));
    if (ok) return T_OK;
    return skip ? T_SKIP : T_EARLY;
}

} // namespace c07
