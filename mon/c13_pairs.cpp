// C13 - intersects(box) on all pairs of lattice boxes; default / makeEmpty / makeInfinite.
// (see c13_box.cpp for the overview of the monitor)
#include "c13_lattice.h"

using namespace c13;

// ================================================================== intersects_box
// per-axis relation of two integer intervals by brute force over the lattice:
// 0 = no common point, 1 = exactly one common point (touching), 2 = more
static const struct Share1
{
    uint8_t t[7][7][7][7];
    Share1 ()
    {
        for (int a = -3; a <= 3; ++a)
            for (int b = -3; b <= 3; ++b)
                for (int c = -3; c <= 3; ++c)
                    for (int d = -3; d <= 3; ++d)
                    {
                        int n = 0;
                        for (int x = -4; x <= 4; ++x) n += (a <= x && x <= b && c <= x && x <= d);
                        t[a + 3][b + 3][c + 3][d + 3] = (uint8_t) std::min (n, 2);
                    }
    }
} g_share1;
// 0 disjoint, 1 touching, 2 overlapping (for two NON-EMPTY boxes; an empty box shares nothing)
static inline int
m_share (const LBox& a, const LBox& b, int D)
{
    int r = 2;
    for (int x = 0; x < D; ++x) r = std::min<int> (r, g_share1.t[a.lo[x] + 3][a.hi[x] + 3][b.lo[x] + 3][b.hi[x] + 3]);
    return r;
}
static const char* const share_name[3] = {"disjoint", "touching", "overlapping"};

template <class K> static inline void
pair_one (Ctx& c, uint64_t gidx, const LBox& A, const LBox& Bm, bool inverted, int share, const typename K::B& a, const typename K::B& b)
{
    const bool want = !inverted && share > 0;
    const bool gab = a.intersects (b), gba = b.intersects (a);
    if (gab == want && gba == want) return;
    constexpr int D = K::D;
    auto desc = [&] { return Obj ().kv ("a", lbox_str (A, D)).kv ("b", lbox_str (Bm, D)).kv ("a.intersects(b)", gab).kv ("b.intersects(a)", gba).kv ("sets_share_a_point", want).str (); };
    if (inverted)
    {
        // the statement quantifies over inverted (= empty) boxes: an empty set shares no point with anything
        c.fail ("intersects(box)." + K::name () + ":inverted_operand", gidx, desc);
        if (gab != gba) c.fail ("intersects(box)." + K::name () + ":asymmetric_inverted_operand", gidx, desc);
    }
    else
    {
        c.fail ("intersects(box)." + K::name () + ":" + share_name[share], gidx, desc);
        if (gab != gba) c.fail ("intersects(box)." + K::name () + ":asymmetric", gidx, desc);
    }
}
template <class K1, class K2> struct Pairs
{
    static void run (Ctx& c, uint64_t gidx, uint64_t codeA, int R)
    {
        constexpr int  D   = K1::D;
        constexpr bool two = !std::is_same<K2, NoKind>::value;
        const LTab&    lt  = lbox_table (D, R);
        const auto&    B1  = box_table<K1> (R);
        using K2e          = std::conditional_t<two, K2, K1>;
        const auto&    B2  = box_table<K2e> (R);
        const LBox&    A   = lt.b[codeA];
        const bool     invA = lt.inv[codeA];
        uint64_t       cnt[4] = {0, 0, 0, 0};
        const size_t   n = lt.b.size ();
        for (size_t cb = codeA; cb < n; ++cb)
        {
            const bool inverted = invA || lt.inv[cb];
            const int  share    = inverted ? 0 : m_share (A, lt.b[cb], D);
            ++cnt[inverted ? 3 : share];
            pair_one<K1> (c, gidx, A, lt.b[cb], inverted, share, B1[codeA], B1[cb]);
            if constexpr (two) pair_one<K2e> (c, gidx, A, lt.b[cb], inverted, share, B2[codeA], B2[cb]);
        }
        c.eval ((n - codeA) * (two ? 4 : 2));
        c.cls ("disjoint", cnt[0]);
        c.cls ("touching", cnt[1]);
        c.cls ("overlapping", cnt[2]);
        c.cls ("inverted_operand", cnt[3]);
        c.nontrivial_enum (cnt[0] + cnt[1] + cnt[3]);
        if (codeA % 401 == 7)
            c.sample (K1::name ().c_str (), [&] { return Obj ().kv ("a", lbox_str (A, D)).kv ("partners", (unsigned long long) (n - codeA)).kv ("touching", (unsigned long long) cnt[1]).kv ("overlapping", (unsigned long long) cnt[2]).str (); });
    }
};
// random pairs from the larger lattice {-2..2}^d where the full square is too big for the tier
template <class K1, class K2> struct PairsSampled
{
    static void run (Ctx& c, uint64_t gidx, uint64_t, int R)
    {
        constexpr int  D   = K1::D;
        constexpr bool two = !std::is_same<K2, NoKind>::value;
        Rng            r   = c.rng (gidx);
        const uint64_t nb  = n_boxes (D, R);
        uint64_t       cnt[4] = {0, 0, 0, 0};
        for (int k = 0; k < 64; ++k)
        {
            LBox A, Bm;
            uint64_t ca = r.u64 () % nb, cb = r.u64 () % nb;
            decode_box (ca, D, R, A);
            decode_box (cb, D, R, Bm);
            if (k % 4 == 1) // bias towards non-inverted pairs (rare in high dimension)
                for (int a = 0; a < D; ++a)
                {
                    if (A.hi[a] < A.lo[a]) std::swap (A.hi[a], A.lo[a]);
                    if (Bm.hi[a] < Bm.lo[a]) std::swap (Bm.hi[a], Bm.lo[a]);
                }
            const bool inverted = m_empty (A, D) || m_empty (Bm, D);
            const int  share    = inverted ? 0 : m_share (A, Bm, D);
            ++cnt[inverted ? 3 : share];
            pair_one<K1> (c, gidx, A, Bm, inverted, share, mkbox<K1> (A), mkbox<K1> (Bm));
            if constexpr (two) pair_one<K2> (c, gidx, A, Bm, inverted, share, mkbox<K2> (A), mkbox<K2> (Bm));
            c.nontrivial (hash_combine (hash_combine (ca, cb), hash_str (K1::name ().c_str ())));
        }
        c.eval (64 * (two ? 4 : 2));
        c.cls ("disjoint", cnt[0]);
        c.cls ("touching", cnt[1]);
        c.cls ("overlapping", cnt[2]);
        c.cls ("inverted_operand", cnt[3]);
        c.cls ("sampled_pairs", 64);
    }
};
template <class T> static void
add_pairs_sampled (VarTable& t)
{
    // d=3, {-2..2}: sampled in quick (the full square runs in thorough); d=4, {-2..2}: sampled in both tiers
    t.add ("sampled:" + VKind<Vec3<T>>::name (), 4096, 0, [] (Ctx& c, uint64_t g, uint64_t l) { PairsSampled<VKind<Vec3<T>>, VKind<W3<T>>>::run (c, g, l, 2); });
    t.add ("sampled:" + VKind<Vec4<T>>::name (), 4096, 262144, [] (Ctx& c, uint64_t g, uint64_t l) { PairsSampled<VKind<Vec4<T>>, NoKind>::run (c, g, l, 2); });
}
// (the sampled sub-check is registered first so that, for a key reported by both, the witness kept in the
// summary is the small lattice one of the exhaustive sub-check)
static const VarTable&
tab_pairs_sampled ()
{
    static const VarTable t = [] {
        VarTable t;
#define X(T) add_pairs_sampled<T> (t);
        C13_TYPES (X)
#undef X
        t.seal (true);
        return t;
    }();
    return t;
}
MON_SUB ([] (Ctx& c, uint64_t b, uint64_t e) { tab_pairs_sampled ().run (c, b, e); }, "intersects_box_sampled", tab_pairs_sampled ().total (false), tab_pairs_sampled ().total (true))
    .req ({"disjoint", "touching", "overlapping", "inverted_operand", "sampled_pairs"})
    .chunked (64)
    .over ("as intersects_box on random pairs from the larger lattices whose full square does not fit the tier: {-2..2}^3 (quick only; enumerated in thorough) and {-2..2}^4 (both tiers), 64 pairs per index; distinct = hash of the pair");

static const VarTable&
tab_pairs ()
{
    static const VarTable t = make_table<Pairs, true> (R_PAIRS);
    return t;
}
MON_SUB ([] (Ctx& c, uint64_t b, uint64_t e) { tab_pairs ().run (c, b, e); }, "intersects_box", tab_pairs ().total (false), tab_pairs ().total (true))
    .req ({"disjoint", "touching", "overlapping", "inverted_operand"})
    .exh ()
    .chunked (32)
    .over ("intersects(box), both directions, against 'the two sets share a lattice point' (per-axis brute force; empty = inverted boxes share nothing): all unordered pairs of lattice boxes over {-3..3} (Interval), {-2..2}^2, {-1..1}^3 quick / {-2..2}^3 thorough, {-1..1}^4; all copies and element types; non-trivial = disjoint, touching or with an inverted operand");

// ================================================================== empty_infinite
template <class S> static std::vector<S>
extreme_pool ()
{
    using L = std::numeric_limits<S>;
    std::vector<S> v;
    v.push_back (L::lowest ());
    v.push_back (L::max ());
    v.push_back (from_i<S> (-1));
    v.push_back (from_i<S> (0));
    v.push_back (from_i<S> (1));
    if constexpr (is_int_v<S>)
    {
        v.push_back ((S) (L::lowest () + 1));
        v.push_back ((S) (L::max () - 1));
    }
    else
    {
        v.push_back (L::denorm_min ());
        v.push_back (-L::denorm_min ());
        v.push_back (L::min ());
        v.push_back (-from_i<S> (0)); // -0
        if constexpr (std::is_floating_point<S>::value)
        {
            v.push_back (std::nextafter (L::lowest (), (S) 0));
            v.push_back (std::nextafter (L::max (), (S) 0));
        }
    }
    return v;
}
template <class S> static S
near_extreme (bool upper)
{
    using L = std::numeric_limits<S>;
    if constexpr (is_int_v<S>) return upper ? (S) (L::max () - 1) : (S) (L::lowest () + 1);
    else if constexpr (std::is_floating_point<S>::value) return upper ? std::nextafter (L::max (), (S) 0) : std::nextafter (L::lowest (), (S) 0);
    else return upper ? from_i<S> (60000) : from_i<S> (-60000);
}
template <class K> static const std::vector<typename K::P>&
extreme_points ()
{
    static thread_local std::vector<typename K::P> pts;
    if (pts.empty ())
    {
        auto     pool = extreme_pool<typename K::S> ();
        uint64_t n    = ipow (pool.size (), K::D);
        for (uint64_t k = 0; k < n; ++k)
        {
            typename K::P p = typename K::P ();
            uint64_t      x = k;
            for (int a = 0; a < K::D; ++a) { K::set (p, a, pool[x % pool.size ()]); x /= pool.size (); }
            pts.push_back (p);
        }
    }
    return pts;
}
template <class K> static void
check_canonical_empty (Ctx& c, uint64_t gidx, const typename K::B& b, const char* how)
{
    using L           = std::numeric_limits<typename K::S>;
    constexpr int D   = K::D;
    std::string   key = std::string (how) + "." + K::name ();
    auto desc = [&] (const char* what) { return Obj ().kv ("made_by", how).kv ("box", box_str<K> (b)).kv ("failed", what).str (); };
    if (!b.isEmpty ()) c.fail (key + ":isEmpty_false", gidx, [&] { return desc ("isEmpty"); });
    if (b.hasVolume ()) c.fail (key + ":hasVolume_true", gidx, [&] { return desc ("hasVolume"); });
    if (b.isInfinite ()) c.fail (key + ":isInfinite_true", gidx, [&] { return desc ("isInfinite"); });
    auto s = b.size ();
    for (int a = 0; a < D; ++a)
    {
        if (to_d (K::get (s, a)) != 0.0) c.fail (key + ":size_nonzero", gidx, [&] { return desc ("size"); });
        // documented representation: min = max(), max = lowest()
        if (!(K::get (b.min, a) == L::max ()) || !(K::get (b.max, a) == L::lowest ())) c.fail (key + ":bounds", gidx, [&] { return desc ("min/max representation"); });
    }
    if constexpr (!K::is_interval)
        if (b.majorAxis () >= (unsigned) D) c.fail (key + ":majorAxis_range", gidx, [&] { return desc ("majorAxis"); });
    const auto& pts = extreme_points<K> ();
    for (auto& p: pts)
        if (b.intersects (p)) c.fail (key + ":contains_point", gidx, [&] { return Obj ().kv ("made_by", how).kv ("box", box_str<K> (b)).kv ("point", pt_str<K> (p)).str (); });
    c.eval (pts.size () + 5);
    c.cls ("empty_contains_nothing", pts.size ());
}
template <class K> static void
check_infinite (Ctx& c, uint64_t gidx, const typename K::B& b, const char* how)
{
    using L           = std::numeric_limits<typename K::S>;
    constexpr int D   = K::D;
    std::string   key = std::string ("makeInfinite.") + K::name ();
    auto desc = [&] (const char* what) { return Obj ().kv ("made_by", how).kv ("box", box_str<K> (b)).kv ("failed", what).str (); };
    if (b.isEmpty ()) c.fail (key + ":isEmpty_true", gidx, [&] { return desc ("isEmpty"); });
    if (!b.hasVolume ()) c.fail (key + ":hasVolume_false", gidx, [&] { return desc ("hasVolume"); });
    if (!b.isInfinite ()) c.fail (key + ":isInfinite_false", gidx, [&] { return desc ("isInfinite"); });
    for (int a = 0; a < D; ++a)
        if (!(K::get (b.min, a) == L::lowest ()) || !(K::get (b.max, a) == L::max ())) c.fail (key + ":bounds", gidx, [&] { return desc ("min/max representation"); });
    const auto& pts = extreme_points<K> ();
    for (auto& p: pts)
        if (!b.intersects (p)) c.fail (key + ":misses_representable_point", gidx, [&] { return Obj ().kv ("made_by", how).kv ("box", box_str<K> (b)).kv ("point", pt_str<K> (p)).str (); });
    c.eval (pts.size () + 4);
    c.cls ("infinite_contains_extremes", pts.size ());
}
template <class K> static void
run_empty_infinite (Ctx& c, uint64_t gidx, uint64_t k)
{
    using S         = typename K::S;
    using P         = typename K::P;
    using B         = typename K::B;
    using L         = std::numeric_limits<S>;
    constexpr int D = K::D;
    LBox seed;
    decode_box ((k * 7919 + 3) % n_boxes (D, 2), D, 2, seed);
    B b0;
    check_canonical_empty<K> (c, gidx, b0, "default_ctor");
    B b = mkbox<K> (seed);
    b.makeEmpty ();
    check_canonical_empty<K> (c, gidx, b, "makeEmpty");
    b = mkbox<K> (seed);
    b.makeInfinite ();
    check_infinite<K> (c, gidx, b, "lattice box, makeInfinite");
    b0.makeInfinite ();
    check_infinite<K> (c, gidx, b0, "default, makeInfinite");
    b0.makeEmpty ();
    check_canonical_empty<K> (c, gidx, b0, "makeEmpty");
    // partially infinite boxes: every subset of the 2D slots at its extreme, the others at a
    // lattice value (filler 0) or one step inside the extreme (filler 1)
    for (int filler = 0; filler < 2; ++filler)
        for (unsigned mask = 0; mask < (1u << (2 * D)); ++mask)
        {
            P mn = P (), mx = P ();
            for (int a = 0; a < D; ++a)
            {
                K::set (mn, a, (mask >> a) & 1 ? L::lowest () : filler ? near_extreme<S> (false) : from_i<S> (seed.lo[a]));
                K::set (mx, a, (mask >> (D + a)) & 1 ? L::max () : filler ? near_extreme<S> (true) : from_i<S> (seed.hi[a]));
            }
            B    pb (mn, mx);
            bool full = mask + 1 == (1u << (2 * D));
            bool wante = false, wantv = true;
            for (int a = 0; a < D; ++a)
            {
                long double lo = to_ld (K::get (mn, a)), hi = to_ld (K::get (mx, a));
                if (hi < lo) wante = true;
                if (hi <= lo) wantv = false;
            }
            const char* cl = full ? "all_slots_extreme" : (mask == 0 ? "no_slot_extreme" : "some_slots_extreme");
            c.cls (cl);
            if (pb.isInfinite () != full)
                c.fail ("isInfinite." + K::name () + ":" + cl, gidx, [&] { return Obj ().kv ("box", box_str<K> (pb)).kv ("mask", mask).kv ("got", pb.isInfinite ()).kv ("want", full).str (); });
            if (pb.isEmpty () != wante)
                c.fail ("isEmpty." + K::name () + ":" + cl, gidx, [&] { return Obj ().kv ("box", box_str<K> (pb)).kv ("got", pb.isEmpty ()).kv ("want", wante).str (); });
            if (pb.hasVolume () != wantv)
                c.fail ("hasVolume." + K::name () + ":" + cl, gidx, [&] { return Obj ().kv ("box", box_str<K> (pb)).kv ("got", pb.hasVolume ()).kv ("want", wantv).str (); });
            c.eval (3);
            c.nontrivial (hash_combine (hash_combine (mask * 2 + filler, k), hash_str (K::name ().c_str ())));
        }
    if (k == 0) c.sample (K::name ().c_str (), [&] { return Obj ().kv ("seed_box", lbox_str (seed, D)).kv ("extreme_points", (unsigned long long) extreme_points<K> ().size ()).str (); });
}
template <class T> static void
add_ei (VarTable& t)
{
    auto reg = [&t] (std::string nm, void (*f) (Ctx&, uint64_t, uint64_t)) { t.add (nm, 8, 8, f); };
    reg (IKind<T>::name (), run_empty_infinite<IKind<T>>);
    reg (VKind<Vec2<T>>::name (), run_empty_infinite<VKind<Vec2<T>>>);
    reg (VKind<W2<T>>::name (), run_empty_infinite<VKind<W2<T>>>);
    reg (VKind<Vec3<T>>::name (), run_empty_infinite<VKind<Vec3<T>>>);
    reg (VKind<W3<T>>::name (), run_empty_infinite<VKind<W3<T>>>);
    reg (VKind<Vec4<T>>::name (), run_empty_infinite<VKind<Vec4<T>>>);
}
static const VarTable&
tab_ei ()
{
    static const VarTable t = [] {
        VarTable t;
#define X(T) add_ei<T> (t);
        C13_TYPES (X)
#undef X
        t.seal ();
        return t;
    }();
    return t;
}
MON_SUB ([] (Ctx& c, uint64_t b, uint64_t e) { tab_ei ().run (c, b, e); }, "empty_infinite", tab_ei ().total (false), tab_ei ().total (true))
    .req ({"empty_contains_nothing", "infinite_contains_extremes", "all_slots_extreme", "some_slots_extreme", "no_slot_extreme"})
    .exh ()
    .noscale ()
    .chunked (1)
    .over ("default construction and makeEmpty contain none of the points {lowest,max,0,+-1,neighbours of the extremes,+-denormal,-0}^d and are isEmpty/!hasVolume/!isInfinite/size 0 with the documented min/max; makeInfinite contains all of them and isInfinite; isInfinite/isEmpty/hasVolume on every box with a subset of its 2d slots at the extreme value (others at a lattice value or one step inside the extreme); all copies and element types");

