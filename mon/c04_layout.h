// C04 - accessors and layout (battery shared by c04_layout.cpp and c04_layout2.cpp): operator[], named members, getValue/setValue, raw
// pointers, copy / converting constructors and the foreign-type interop
// constructors / assignments all address ONE contiguous block of exactly N
// elements in declaration order (matrices row-major), converting element types
// by component-wise cast.
//
// Oracle: every aggregate is filled with distinct values through its NAMED
// data members (Tr<V>::at), every other access path must then see value i in
// position i (and vice versa); conversions must yield T(s_i) - the scalar cast
// expression itself.  All objects live on the stack, every accessor is driven
// over exactly 0..N-1, so the ASan/UBSan build checks the reinterpret_cast
// based accessors for out-of-object accesses.
#pragma once
#include "c04_common.h"

using namespace c04;

namespace c04l
{

// ---------------------------------------------------------------- distinct values, exactly representable in every
// element type involved (|v| <= 211.75, multiples of 1/4; non-negative where unsigned char takes part)
template <class S> typename std::enable_if<is_fp_t<S>::value>::type
gen_vals (Rng& r, int n, bool nonneg, S* out, unsigned salt)
{
    PrimePick pp (r);
    for (int i = 0; i < n; ++i)
    {
        double v = pp ((unsigned) i + salt) + 0.25 * (double) (r.u64 () % 4);
        out[i]   = cvt<S> ((!nonneg && r.coin ()) ? -v : v);
    }
}
template <class S> typename std::enable_if<!is_fp_t<S>::value>::type
gen_vals (Rng& r, int n, bool nonneg, S* out, unsigned salt)
{
    PrimePick pp (r);
    for (int i = 0; i < n; ++i)
    {
        int v  = pp ((unsigned) i + salt);
        out[i] = S ((!nonneg && std::is_signed<S>::value && r.coin ()) ? -v : v);
    }
}

template <class V, class T, size_t... I> V ctor_scalars (const T* in, std::index_sequence<I...>) { return V (in[I]...); }
template <class V, class S, size_t... I> void set_scalars (V& v, const S* in, std::index_sequence<I...>) { v.setValue (in[I]...); }
template <class V, class S, size_t... I> void get_scalars (const V& v, S* out, std::index_sequence<I...>) { v.getValue (out[I]...); }

// ---------------------------------------------------------------- reporting helper
template <class V> struct Rep
{
    typedef typename Tr<V>::E T;
    Ctx&     c;
    uint64_t idx;
    uint64_t n = 0;
    Rep (Ctx& c_, uint64_t i) : c (c_), idx (i) {}
    void bad (const char* what, const std::string& where, const std::string& detail)
    {
        c.fail (std::string (what) + "." + Tr<V>::name () + ":" + where, idx, [&] { return detail; });
    }
    // slot i read through some path must be `want`
    template <class U> void slot (const char* what, int i, U got, U want)
    {
        ++n;
        if (!same (got, want)) bad (what, Tr<V>::slot (i), Obj ().kv ("slot", i).kv ("got", sval (got)).kv ("want", sval (want)).str ());
    }
    void addr (const char* what, int i, const void* got, const void* want)
    {
        ++n;
        if (got != want) bad (what, Tr<V>::slot (i) + ".address", Obj ().kv ("slot", i).kv ("offset_got", (long) ((const char*) got - (const char*) want)).str ());
    }
    // whole aggregate, read through the named members, must equal want[0..N)
    void all (const char* what, const V& v, const T* want)
    {
        for (int i = 0; i < Tr<V>::N; ++i) slot (what, i, Tr<V>::at (v, i), want[i]);
    }
};

// ---------------------------------------------------------------- raw pointer access (getValue() / &v[0] / m[i])
template <class V, bool HasPtr> struct PtrCheck
{
    static void run (Rep<V>&, V&, const typename Tr<V>::E*, const typename Tr<V>::E*) {}
};
template <class V> struct PtrCheck<V, true>
{
    typedef typename Tr<V>::E T;
    static void run (Rep<V>& rep, V& v, const T* p, const T* q)
    {
        constexpr int N = Tr<V>::N;
        const V& cv   = v;
        T*       base = reinterpret_cast<T*> (&v);
        rep.addr ("getValue()", 0, v.getValue (), base);
        rep.addr ("getValue()const", 0, cv.getValue (), base);
        for (int i = 0; i < N; ++i)
        {
            rep.slot ("getValue()", i, v.getValue ()[i], p[i]);
            rep.slot ("getValue()const", i, cv.getValue ()[i], p[i]);
        }
        for (int i = 0; i < N; ++i)
        {
            V w = make<V> (q);
            w.getValue ()[i] = p[i];
            for (int j = 0; j < N; ++j) rep.slot ("getValue()write", j, Tr<V>::at (w, j), j == i ? p[i] : q[j]);
        }
    }
};

// ---------------------------------------------------------------- setValue / getValue with scalar arguments and with an aggregate of type S
template <class V, bool Has> struct SetGetCheck
{
    static void run (Rep<V>&, Rng&, const V&, const typename Tr<V>::E*, bool) {}
};
template <class V> struct SetGetCheck<V, true>
{
    typedef typename Tr<V>::E T;
    static void run (Rep<V>& rep, Rng& r, const V& v, const T* p, bool nonneg)
    {
        constexpr int N = Tr<V>::N;
        for_types (typename Tr<V>::types (), [&] (auto tag) {
            typedef typename decltype (tag)::type S;
            typedef typename Tr<V>::template rebind<S> VS;
            S in[N], out[N];
            T want[N];
            gen_vals<S> (r, N, nonneg, in, 7);
            for (int i = 0; i < N; ++i) want[i] = T (in[i]);
            // setValue (S, S, ...)
            V w;
            set_scalars (w, in, std::make_index_sequence<N> ());
            rep.all ("setValue(scalars)", w, want);
            // getValue (S&, S&, ...)
            get_scalars (v, out, std::make_index_sequence<N> ());
            for (int i = 0; i < N; ++i) rep.slot ("getValue(scalars)", i, out[i], S (p[i]));
            // setValue (const V<S>&), getValue (V<S>&)
            const VS src = make<VS> (in);
            V        w2;
            w2.setValue (src);
            rep.all ("setValue(aggregate)", w2, want);
            VS dst;
            v.getValue (dst);
            for (int i = 0; i < N; ++i) rep.slot ("getValue(aggregate)", i, Tr<VS>::at (dst, i), S (p[i]));
        });
    }
};

// matrices: setValue / setTheMatrix / getValue with a matrix of element type S
template <class V, bool IsMatrix> struct MatrixSetGetCheck
{
    static void run (Rep<V>&, Rng&, const V&, const typename Tr<V>::E*) {}
};
template <class V> struct MatrixSetGetCheck<V, true>
{
    typedef typename Tr<V>::E T;
    static void run (Rep<V>& rep, Rng& r, const V& v, const T* p)
    {
        constexpr int N = Tr<V>::N, D = Tr<V>::DIM;
        for_types (typename Tr<V>::types (), [&] (auto tag) {
            typedef typename decltype (tag)::type S;
            typedef typename Tr<V>::template rebind<S> VS;
            S in[N];
            T want[N];
            gen_vals<S> (r, N, false, in, 7);
            for (int i = 0; i < N; ++i) want[i] = T (in[i]);
            const VS src = make<VS> (in);
            V        w, w2;
            w.setValue (src);
            rep.all ("setValue(aggregate)", w, want);
            w2.setTheMatrix (src);
            rep.all ("setTheMatrix", w2, want);
            VS dst;
            v.getValue (dst);
            for (int i = 0; i < N; ++i) rep.slot ("getValue(aggregate)", i, Tr<VS>::at (dst, i), S (p[i]));
        });
        // row pointers: m[i] is row i of one row-major block
        V        m    = make<V> (p);
        const V& cm   = m;
        T*       base = reinterpret_cast<T*> (&m);
        for (int i = 0; i < D; ++i)
        {
            rep.addr ("operator[](row)", i * D, m[i], base + i * D);
            rep.addr ("operator[](row)const", i * D, cm[i], base + i * D);
        }
        // T a[D][D] constructor and the scalar broadcast assignment
        T arr[D][D];
        for (int i = 0; i < N; ++i) arr[i / D][i % D] = p[i];
        const T (*rows)[D] = arr; // a pointer argument selects the non-template Matrix (const T a[N][N]) constructor
        const V fromarr (rows);
        rep.all ("ctor(const T[N][N])", fromarr, p);
        V bc = make<V> (p);
        bc   = p[N - 1];
        T allp[N];
        for (int i = 0; i < N; ++i) allp[i] = p[N - 1];
        rep.all ("operator=(T)", bc, allp);
    }
};

// ---------------------------------------------------------------- broadcast constructor V(a)
template <class V, bool Has> struct BroadcastCheck
{
    static void run (Rep<V>&, const typename Tr<V>::E*) {}
};
template <class V> struct BroadcastCheck<V, true>
{
    typedef typename Tr<V>::E T;
    static void run (Rep<V>& rep, const T* p)
    {
        const V bc (p[0]);
        T       want[Tr<V>::N];
        for (int i = 0; i < Tr<V>::N; ++i) want[i] = p[0];
        rep.all ("ctor(T)", bc, want);
    }
};

// ---------------------------------------------------------------- foreign-type interop
template <class T, int N> struct Named;
template <class T> struct Named<T, 2> { T x, y;       void fill (const T* p) { x = p[0]; y = p[1]; } };
template <class T> struct Named<T, 3> { T x, y, z;    void fill (const T* p) { x = p[0]; y = p[1]; z = p[2]; } };
template <class T> struct Named<T, 4> { T x, y, z, w; void fill (const T* p) { x = p[0]; y = p[1]; z = p[2]; w = p[3]; } };

// a class with only a subscript operator (returns by value from the const overload, like many application types)
template <class T, int N> struct Sub1
{
    T e[N];
    constexpr T operator[] (int i) const { return e[i]; }
    T&          operator[] (int i) { return e[i]; }
};
template <class T, int D> struct Sub2
{
    T        e[D][D];
    const T* operator[] (int i) const { return e[i]; }
    T*       operator[] (int i) { return e[i]; }
};

template <class V> struct IsVec : std::false_type {};
template <class T> struct IsVec<Vec2<T>> : std::true_type {};
template <class T> struct IsVec<Vec3<T>> : std::true_type {};
template <class T> struct IsVec<Vec4<T>> : std::true_type {};

template <class V, int Kind /*0 none, 1 vector, 2 matrix*/> struct InteropCheck
{
    static void run (Rep<V>&, const typename Tr<V>::E*, const typename Tr<V>::E*) {}
};
#if IMATH_FOREIGN_VECTOR_INTEROP
template <class V> struct InteropCheck<V, 1>
{
    typedef typename Tr<V>::E T;
    static void run (Rep<V>& rep, const T* p, const T* q)
    {
        constexpr int N = Tr<V>::N;
        {
            Named<T, N> f;
            f.fill (p);
            const V a (f);
            rep.all ("interop_ctor(struct{x,y..})", a, p);
            V b = make<V> (q);
            b   = f;
            rep.all ("interop_assign(struct{x,y..})", b, p);
        }
        {
            T f[N];
            for (int i = 0; i < N; ++i) f[i] = p[i];
            const V a (f);
            rep.all ("interop_ctor(T[N])", a, p);
            V b = make<V> (q);
            b   = f;
            rep.all ("interop_assign(T[N])", b, p);
        }
        {
            std::array<T, N> f;
            for (int i = 0; i < N; ++i) f[(size_t) i] = p[i];
            const V a (f);
            rep.all ("interop_ctor(std::array)", a, p);
            V b = make<V> (q);
            b   = f;
            rep.all ("interop_assign(std::array)", b, p);
        }
        {
            Sub1<T, N> f;
            for (int i = 0; i < N; ++i) f[i] = p[i];
            const V a (f);
            rep.all ("interop_ctor(subscript class)", a, p);
            V b = make<V> (q);
            b   = f;
            rep.all ("interop_assign(subscript class)", b, p);
        }
    }
};
template <class V> struct InteropCheck<V, 2>
{
    typedef typename Tr<V>::E T;
    static void run (Rep<V>& rep, const T* p, const T* q)
    {
        constexpr int N = Tr<V>::N, D = Tr<V>::DIM;
        {
            T f[D][D];
            for (int i = 0; i < N; ++i) f[i / D][i % D] = p[i];
            const V a (f);
            rep.all ("interop_ctor(T[N][N])", a, p);
            V b = make<V> (q);
            b   = f;
            rep.all ("interop_assign(T[N][N])", b, p);
        }
        {
            std::array<std::array<T, D>, D> f;
            for (int i = 0; i < N; ++i) f[(size_t) (i / D)][(size_t) (i % D)] = p[i];
            const V a (f);
            rep.all ("interop_ctor(std::array<std::array>)", a, p);
            V b = make<V> (q);
            b   = f;
            rep.all ("interop_assign(std::array<std::array>)", b, p);
        }
        {
            Sub2<T, D> f;
            for (int i = 0; i < N; ++i) f[i / D][i % D] = p[i];
            const V a (f);
            rep.all ("interop_ctor(subscript class)", a, p);
            V b = make<V> (q);
            b   = f;
            rep.all ("interop_assign(subscript class)", b, p);
        }
    }
};
#endif

// ---------------------------------------------------------------- type-specific extras
template <class V> struct Extra
{
    static void run (Rep<V>&, Rng&, const typename Tr<V>::E*, const typename Tr<V>::E*) {}
};
// Color3: constructors from / assignment through its Vec3 base
template <class T> struct Extra<Color3<T>>
{
    static void run (Rep<Color3<T>>& rep, Rng&, const T* p, const T*)
    {
        const Vec3<T>   v = make<Vec3<T>> (p);
        const Color3<T> a (v);
        rep.all ("ctor(Vec3)", a, p);
    }
};
// Shear6: the Vec3 forms fill (xy,xz,yz) and zero the rest
template <class T> struct Extra<Shear6<T>>
{
    static void run (Rep<Shear6<T>>& rep, Rng& r, const T* p, const T* q)
    {
        T want[6] = {p[0], p[1], p[2], T (0), T (0), T (0)};
        const Shear6<T> a (p[0], p[1], p[2]);
        rep.all ("ctor(XY,XZ,YZ)", a, want);
        const Shear6<T> b (make<Vec3<T>> (p));
        rep.all ("ctor(Vec3<T>)", b, want);
        for_types (FloatTypes (), [&] (auto tag) {
            typedef typename decltype (tag)::type S;
            S in[3];
            gen_vals<S> (r, 3, false, in, 11);
            T w2[6] = {T (in[0]), T (in[1]), T (in[2]), T (0), T (0), T (0)};
            const Shear6<T> c (make<Vec3<S>> (in));
            rep.all ("ctor(Vec3<S>)", c, w2);
            Shear6<T> d = make<Shear6<T>> (q);
            d           = make<Vec3<S>> (in);
            rep.all ("operator=(Vec3<S>)", d, w2);
        });
        const Shear6<T> z;
        T               zero[6] = {T (0), T (0), T (0), T (0), T (0), T (0)};
        rep.all ("ctor()", z, zero);
    }
};
// Quat: (s, Vec3) constructor; r and v are the block [r, v.x, v.y, v.z]
template <class T> struct Extra<Quat<T>>
{
    static void run (Rep<Quat<T>>& rep, Rng&, const T* p, const T*)
    {
        const Quat<T> a (p[0], make<Vec3<T>> (p + 1));
        rep.all ("ctor(T,Vec3)", a, p);
        Quat<T> b = make<Quat<T>> (p);
        rep.addr ("member_address(v)", 1, &b.v, reinterpret_cast<T*> (&b) + 1);
    }
};

// ---------------------------------------------------------------- the battery
template <class V> void run_layout (Ctx& c, uint64_t idx)
{
    typedef typename Tr<V>::E T;
    constexpr int  N      = Tr<V>::N;
    constexpr bool nonneg = std::is_same<typename Tr<V>::types, ColorTypes>::value; // unsigned char takes part
    Rng r = c.rng (idx);
    T   p[N], q[N];
    gen_vals<T> (r, N, nonneg, p, 0);
    gen_vals<T> (r, N, nonneg, q, (unsigned) N);
    Rep<V> rep (c, idx);
    c.nontrivial (hash_vals (hash_vals (4, p, N), q, N));
    if (idx == 0) c.sample ("values", [&] { return Obj ().kv ("type", Tr<V>::name ()).raw ("p", sarr (p, N)).raw ("q", sarr (q, N)).str (); });

    // -- size: exactly N elements
    ++rep.n;
    if (sizeof (V) != N * sizeof (T)) rep.bad ("sizeof", "size", Obj ().kv ("sizeof", (unsigned long) sizeof (V)).kv ("want", (unsigned long) (N * sizeof (T))).str ());

    // -- written through the named members, read through every other path
    V        v    = make<V> (p);
    const V& cv   = v;
    T*       base = reinterpret_cast<T*> (&v);
    for (int i = 0; i < N; ++i)
    {
        rep.addr ("member", i, &Tr<V>::at (v, i), base + i); // declaration order, contiguous
        rep.slot ("operator[]", i, T (Tr<V>::idx (v, i)), p[i]);
        rep.slot ("operator[]const", i, T (Tr<V>::idx (cv, i)), p[i]);
        rep.addr ("operator[]", i, &Tr<V>::idx (v, i), base + i);
        T raw;
        std::memcpy (&raw, reinterpret_cast<const char*> (&v) + (size_t) i * sizeof (T), sizeof (T));
        rep.slot ("raw_block", i, raw, p[i]);
    }
    // -- written through operator[] (one slot at a time), read through the named members
    for (int i = 0; i < N; ++i)
    {
        V w = make<V> (q);
        Tr<V>::idx (w, i) = p[i];
        for (int j = 0; j < N; ++j) rep.slot ("operator[]write", j, Tr<V>::at (w, j), j == i ? p[i] : q[j]);
    }
    PtrCheck<V, Tr<V>::has_ptr>::run (rep, v, p, q);

    // -- constructors / assignment
    {
        const V cs = ctor_scalars<V> (p, std::make_index_sequence<N> ());
        rep.all ("ctor(scalars)", cs, p);
        const V cc (v);
        rep.all ("copy_ctor", cc, p);
        V ca = make<V> (q);
        ca   = v;
        rep.all ("operator=", ca, p);
        BroadcastCheck<V, Tr<V>::has_broadcast>::run (rep, p);
    }
    // -- converting constructors: element i -> T(element i), every source element type
    for_types (typename Tr<V>::types (), [&] (auto tag) {
        typedef typename decltype (tag)::type S;
        typedef typename Tr<V>::template rebind<S> VS;
        S in[N];
        T want[N];
        gen_vals<S> (r, N, nonneg, in, 3);
        for (int i = 0; i < N; ++i) want[i] = T (in[i]);
        const VS src = make<VS> (in);
        const V  d (src);
        rep.all ((std::string ("converting_ctor(from ") + TN<S>::s () + ")").c_str (), d, want);
    });
    SetGetCheck<V, Tr<V>::has_setget>::run (rep, r, v, p, nonneg);
    MatrixSetGetCheck<V, (Tr<V>::DIM > 0)>::run (rep, r, v, p);
    InteropCheck<V, IsVec<V>::value ? 1 : (Tr<V>::DIM > 0 ? 2 : 0)>::run (rep, p, q);
    Extra<V>::run (rep, r, p, q);
    c.eval (rep.n);
    c.cls ("accessor_battery");
}

} // namespace c04l
using namespace c04l;

#define C04_LAYOUT_Q 8000
#define C04_LAYOUT_T 400000
#define C04_REG_LAYOUT(V, tag)                                                                                      \
    MON_SUB_IDX (run_layout<V>, "layout_" tag, C04_LAYOUT_Q, C04_LAYOUT_T)                                           \
        .req ({"accessor_battery"})                                                                                  \
        .over ("accessor/layout battery of " + c04::Tr<V>::name () + " on distinct exactly-convertible values per slot: sizeof, member addresses, operator[] (read/write/address), getValue()/raw block, setValue/getValue (scalars and aggregates of every element type), scalar/copy/broadcast/converting constructors from every element type, foreign-type interop constructors and assignments")

