// C13 - shared helpers of the Box / Interval monitor (see c13_box.cpp for the overview).
//
// * "kinds": a uniform compile-time view on Box<Vec2<T>>, Box<Vec3<T>> (the two hand-unrolled
//   specialisations), the GENERIC Box<V> template instantiated on Vec4<T> and on the thin
//   wrappers W2<T>/W3<T> (classes derived from Vec2<T>/Vec3<T>, which therefore do NOT select
//   the specialisations, so the generic loops run on the same data), and Interval<T>.
// * the integer-lattice model of a box: the set {p : lo <= p <= hi} with int coordinates.
// * VarTable: a sub-check whose index range is the concatenation of several typed variants.
#pragma once
#include "mon.h"
#include <ImathBox.h>
#include <ImathBoxAlgo.h>
#include <ImathInterval.h>
#include <ImathMatrix.h>
#include <ImathVec.h>
#include <half.h>
#include <limits>
#include <quadmath.h>
#include <type_traits>

namespace c13
{
using namespace mon;
using namespace IMATH_NAMESPACE;

// ------------------------------------------------------------------ wrapper vector types
template <class T> struct W2 : public Vec2<T>
{
    W2 () noexcept {}
    constexpr W2 (const Vec2<T>& v) noexcept : Vec2<T> (v) {}
    constexpr explicit W2 (T a) noexcept : Vec2<T> (a) {}
    constexpr W2 (T a, T b) noexcept : Vec2<T> (a, b) {}
};
template <class T> struct W3 : public Vec3<T>
{
    W3 () noexcept {}
    constexpr W3 (const Vec3<T>& v) noexcept : Vec3<T> (v) {}
    constexpr explicit W3 (T a) noexcept : Vec3<T> (a) {}
    constexpr W3 (T a, T b, T c) noexcept : Vec3<T> (a, b, c) {}
};

// ------------------------------------------------------------------ scalar helpers
template <class T> struct TN;
template <> struct TN<short> { static const char* s () { return "s"; } };
template <> struct TN<int> { static const char* s () { return "i"; } };
template <> struct TN<int64_t> { static const char* s () { return "i64"; } };
template <> struct TN<float> { static const char* s () { return "f"; } };
template <> struct TN<double> { static const char* s () { return "d"; } };
template <> struct TN<half> { static const char* s () { return "h"; } };

template <class S> inline S
from_i (int v)
{
    if constexpr (std::is_same<S, half>::value) return half ((float) v);
    else return (S) v;
}
template <class S> inline double
to_d (S v)
{
    if constexpr (std::is_same<S, half>::value) return (double) (float) v;
    else return (double) v;
}
template <class S> inline long double
to_ld (S v)
{
    if constexpr (std::is_same<S, half>::value) return (long double) (float) v;
    else return (long double) v;
}
template <class S> constexpr bool is_int_v = std::numeric_limits<S>::is_integer;

// ------------------------------------------------------------------ kinds
template <class V> struct VName;
template <class T> struct VName<Vec2<T>> { static const char* p () { return "Box2"; } };
template <class T> struct VName<Vec3<T>> { static const char* p () { return "Box3"; } };
template <class T> struct VName<Vec4<T>> { static const char* p () { return "GBox4"; } };
template <class T> struct VName<W2<T>> { static const char* p () { return "GBox2"; } };
template <class T> struct VName<W3<T>> { static const char* p () { return "GBox3"; } };

template <class V> struct VKind
{
    using P = V;
    using S = typename V::BaseType;
    using B = Box<V>;
    static constexpr int  D           = (int) V::dimensions ();
    static constexpr bool is_interval = false;
    static S    get (const P& p, int i) { return p[i]; }
    static void set (P& p, int i, S x) { p[i] = x; }
    static std::string name () { return std::string (VName<V>::p ()) + TN<S>::s (); }
};
template <class T> struct IKind
{
    using P = T;
    using S = T;
    using B = Interval<T>;
    static constexpr int  D           = 1;
    static constexpr bool is_interval = true;
    static S    get (const P& p, int) { return p; }
    static void set (P& p, int, S x) { p = x; }
    static std::string name () { return std::string ("Interval") + TN<T>::s (); }
};
struct NoKind {}; // "no second copy" marker

// ------------------------------------------------------------------ lattice model
struct LBox
{
    int lo[4], hi[4];
};
inline uint64_t
ipow (uint64_t b, int e)
{
    uint64_t r = 1;
    while (e-- > 0) r *= b;
    return r;
}
inline uint64_t n_boxes (int D, int R) { return ipow (2 * R + 1, 2 * D); }
inline uint64_t n_points (int D, int R) { return ipow (2 * R + 1, D); }
inline void
decode_box (uint64_t code, int D, int R, LBox& b)
{
    uint64_t n = 2 * R + 1;
    for (int a = 0; a < 4; ++a) b.lo[a] = b.hi[a] = 0;
    for (int a = 0; a < D; ++a) { b.lo[a] = (int) (code % n) - R; code /= n; }
    for (int a = 0; a < D; ++a) { b.hi[a] = (int) (code % n) - R; code /= n; }
}
inline void
decode_pt (uint64_t code, int D, int R, int* p)
{
    uint64_t n = 2 * R + 1;
    for (int a = 0; a < 4; ++a) p[a] = 0;
    for (int a = 0; a < D; ++a) { p[a] = (int) (code % n) - R; code /= n; }
}
inline bool
m_empty (const LBox& b, int D)
{
    for (int a = 0; a < D; ++a) if (b.hi[a] < b.lo[a]) return true;
    return false;
}
inline bool
m_contains (const LBox& b, int D, const int* p)
{
    for (int a = 0; a < D; ++a) if (p[a] < b.lo[a] || p[a] > b.hi[a]) return false;
    return true;
}

template <class K> inline typename K::P
mkpt (const int* p)
{
    typename K::P r = typename K::P ();
    for (int a = 0; a < K::D; ++a) K::set (r, a, from_i<typename K::S> (p[a]));
    return r;
}
template <class K> inline typename K::B
mkbox (const LBox& b)
{
    return typename K::B (mkpt<K> (b.lo), mkpt<K> (b.hi));
}
inline std::string
lbox_str (const LBox& b, int D)
{
    std::string s = "min=(";
    for (int a = 0; a < D; ++a) s += (a ? "," : "") + std::to_string (b.lo[a]);
    s += ") max=(";
    for (int a = 0; a < D; ++a) s += (a ? "," : "") + std::to_string (b.hi[a]);
    return s + ")";
}
inline std::string
ipt_str (const int* p, int D)
{
    std::string s = "(";
    for (int a = 0; a < D; ++a) s += (a ? "," : "") + std::to_string (p[a]);
    return s + ")";
}
template <class K> inline std::string
pt_str (const typename K::P& p)
{
    std::string s = "(";
    for (int a = 0; a < K::D; ++a) s += (a ? "," : "") + jnum (to_d (K::get (p, a)));
    return s + ")";
}
template <class K> inline std::string
box_str (const typename K::B& b)
{
    return "min=" + pt_str<K> (b.min) + " max=" + pt_str<K> (b.max);
}

// ------------------------------------------------------------------ variant tables
struct Variant
{
    std::string name;
    uint64_t    nq, nt; // local index counts (quick, thorough)
    std::function<void (Ctx&, uint64_t gidx, uint64_t local)> fn;
};
struct VarTable
{
    std::vector<Variant>  v;
    std::vector<uint64_t> pq, pt; // prefix sums (concatenated layout)
    // interleaved layout (random sub-checks): index i -> variant i % n, local i / n, so that a
    // shortened index range (sanitizer runs) still visits every variant; requires equal counts
    bool                interleave = false;
    std::vector<size_t> aq, at;   // variants active in the tier
    void add (std::string name, uint64_t nq, uint64_t nt, std::function<void (Ctx&, uint64_t, uint64_t)> fn)
    {
        v.push_back (Variant{std::move (name), nq, nt, std::move (fn)});
    }
    void seal (bool interleaved = false)
    {
        pq.assign (1, 0); pt.assign (1, 0);
        for (auto& x: v) { pq.push_back (pq.back () + x.nq); pt.push_back (pt.back () + x.nt); }
        interleave = interleaved;
        for (size_t k = 0; k < v.size (); ++k)
        {
            if (v[k].nq) aq.push_back (k);
            if (v[k].nt) at.push_back (k);
        }
        if (interleave)
        {
            for (size_t k: aq) if (v[k].nq != v[aq[0]].nq) interleave = false;
            for (size_t k: at) if (v[k].nt != v[at[0]].nt) interleave = false;
        }
    }
    uint64_t total (bool thorough) const { return thorough ? pt.back () : pq.back (); }
    void run (Ctx& c, uint64_t b, uint64_t e) const
    {
        if (interleave)
        {
            const std::vector<size_t>& a = c.thorough ? at : aq;
            if (a.empty ()) return;
            for (uint64_t i = b; i < e; ++i) v[a[i % a.size ()]].fn (c, i, i / a.size ());
            return;
        }
        const std::vector<uint64_t>& p = c.thorough ? pt : pq;
        size_t k = (size_t) (std::upper_bound (p.begin (), p.end (), b) - p.begin ()) - 1;
        for (uint64_t i = b; i < e; ++i)
        {
            while (k + 1 < p.size () && i >= p[k + 1]) ++k;
            if (k >= v.size ()) break;
            v[k].fn (c, i, i - p[k]);
        }
    }
};

#define C13_TYPES(X) X (short) X (int) X (int64_t) X (float) X (double) X (half)

} // namespace c13
