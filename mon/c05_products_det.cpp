// C05, TU 3 of 3: minorOf, fastMinor, determinant (Leibniz permutation sums as reference) and the
// algebraic relations det(A*B) = det A det B, det(A^T) = det A, cofactor expansion by minorOf
// along every row and every column = determinant.
#include "c05_common.h"

using namespace c05;

static const double C_DET   = 40.0; // eps * sum over permutations |prod|
static const double C_MINOR = 40.0;
static const double C_REL   = 96.0; // relations: eps * permanent-like sum, see below

// ------------------------------------------------------------------ determinant
template <class T, int N> static void
check_det (Ctx& c, uint64_t idx, int cls, Rng& r)
{
    using R = typename Ref<T>::type;
    using M = typename MatOf<T, N>::type;
    static const std::string fn = "determinant" + std::to_string (N) + std::to_string (N) + "." + tname<T> (), fnr = fn + ".ratio";
    static const int id[4] = {0, 1, 2, 3};
    T a[N][N];
    GenParam g;
    gen_mat<T, N> (r, cls, a, g);
    M A = make_mat<T, N> (a);
    T got = A.determinant ();
    R ref, s;
    ref_det<R, T, N> (a, id, id, N, ref, s);
    double ratio = err_ratio (got, ref, s);
    c.eval ();
    auto desc = [&] { return Obj ().kv ("class", cls_name[cls]).arr ("A(row-major)", &a[0][0], N * N).kv ("got", (double) got).kv ("want", (double) ref).kv ("sum_abs_terms", (double) s).kv ("ratio", ratio).str (); };
    if (!is_lattice (cls) && std::isfinite (ratio)) c.worst (fnr.c_str (), ratio, idx, desc);
    if (is_bad (cls, got, ref, ratio, C_DET)) c.fail (fn + ":" + cls_name[cls], idx, desc);
    if (s > 0) c.nontrivial (hash_arr (60 + N, &a[0][0], N * N));
    if (N == 4)
    {
        // which of the four zero-skipping branches of Matrix44::determinant were taken
        int nz = 0;
        for (int i = 0; i < N; ++i)
            if (a[i][N - 1] == 0) ++nz;
        if (nz) c.cls ("m44_lastcol_zero_entries_" + std::to_string (nz));
        c.sample (cls_name[cls], desc);
    }
}

template <class T> static void
sub_det (Ctx& c, uint64_t idx)
{
    Rng r = c.rng (idx);
    int cls = (int) (idx % K_NCLS);
    c.cls (cls_name[cls]);
    check_det<T, 2> (c, idx, cls, r);
    check_det<T, 3> (c, idx, cls, r);
    check_det<T, 4> (c, idx, cls, r);
}
MON_SUB_IDX (sub_det<float>, "determinant_float", 1000000, 50000000)
    .req ({C05_ALL_CLASSES, "m44_lastcol_zero_entries_1", "m44_lastcol_zero_entries_2", "m44_lastcol_zero_entries_3", "m44_lastcol_zero_entries_4"})
    .over ("per index one Matrix22f/33f/44f each from 9 classes (incl. 1..4 zero entries of either sign in the last column of the 4x4): determinant() vs Leibniz sum over permutations in long double");
MON_SUB_IDX (sub_det<double>, "determinant_double", 1000000, 10000000)
    .req ({C05_ALL_CLASSES, "m44_lastcol_zero_entries_1", "m44_lastcol_zero_entries_2", "m44_lastcol_zero_entries_3", "m44_lastcol_zero_entries_4"})
    .over ("per index one Matrix22d/33d/44d each from 9 classes (incl. 1..4 zero entries of either sign in the last column of the 4x4): determinant() vs Leibniz sum over permutations in __float128");

// ------------------------------------------------------------------ minorOf / fastMinor
// minorOf(r,c) = determinant of the matrix with row r and column c deleted;
// fastMinor(rows.., cols..) = determinant of the sub-matrix of the listed rows and columns, in the listed order
template <class T> static void
sub_minors (Ctx& c, uint64_t idx)
{
    using R = typename Ref<T>::type;
    Rng r = c.rng (idx);
    int cls = (int) (idx % K_NCLS);
    c.cls (cls_name[cls]);
    static const std::string tn = tname<T> ();
    GenParam g;
    // ---- 3x3
    {
        T a[3][3];
        gen_mat<T, 3> (r, cls, a, g);
        Matrix33<T> A = make_mat<T, 3> (a);
        auto inputs = [&] (Obj& o) -> Obj& { return o.kv ("class", cls_name[cls]).arr ("A(row-major)", &a[0][0], 9); };
        double wr = 0;
        bool   any = false;
        for (int rr = 0; rr < 3; ++rr)
            for (int cc = 0; cc < 3; ++cc)
            {
                int rows[2], cols[2], k = 0, l = 0;
                for (int i = 0; i < 3; ++i) { if (i != rr) rows[k++] = i; if (i != cc) cols[l++] = i; }
                R ref, s;
                ref_det<R, T, 3> (a, rows, cols, 2, ref, s);
                if (s > 0) any = true;
                T      got = A.minorOf (rr, cc);
                double ratio = err_ratio (got, ref, s);
                wr = std::max (wr, ratio);
                c.eval ();
                if (is_bad (cls, got, ref, ratio, C_MINOR))
                    c.fail ("minorOf33." + tn + ":(" + std::to_string (rr) + "," + std::to_string (cc) + ")", idx, [&] { Obj o; return inputs (o).kv ("r", rr).kv ("c", cc).kv ("got", (double) got).kv ("want", (double) ref).kv ("sum_abs_terms", (double) s).kv ("ratio", ratio).str (); });
                // the same minor through fastMinor with ascending indices
                T      gf = A.fastMinor (rows[0], rows[1], cols[0], cols[1]);
                double rf = err_ratio (gf, ref, s);
                wr = std::max (wr, rf);
                c.eval ();
                if (is_bad (cls, gf, ref, rf, C_MINOR))
                    c.fail ("fastMinor33." + tn + ":ascending", idx, [&] { Obj o; return inputs (o).arr ("rows", rows, 2).arr ("cols", cols, 2).kv ("got", (double) gf).kv ("want", (double) ref).kv ("sum_abs_terms", (double) s).kv ("ratio", rf).str (); });
            }
        // fastMinor with arbitrary (ordered, possibly descending) distinct rows / columns
        for (int rep = 0; rep < 2; ++rep)
        {
            int rows[2], cols[2];
            rows[0] = (int) r.range (0, 2);
            rows[1] = (rows[0] + 1 + (int) r.range (0, 1)) % 3;
            cols[0] = (int) r.range (0, 2);
            cols[1] = (cols[0] + 1 + (int) r.range (0, 1)) % 3;
            R ref, s;
            ref_det<R, T, 3> (a, rows, cols, 2, ref, s);
            T      gf = A.fastMinor (rows[0], rows[1], cols[0], cols[1]);
            double rf = err_ratio (gf, ref, s);
            wr = std::max (wr, rf);
            c.eval ();
            c.cls ("fastMinor_any_order");
            if (is_bad (cls, gf, ref, rf, C_MINOR))
                c.fail ("fastMinor33." + tn + ":any_order", idx, [&] { Obj o; return inputs (o).arr ("rows", rows, 2).arr ("cols", cols, 2).kv ("got", (double) gf).kv ("want", (double) ref).kv ("sum_abs_terms", (double) s).kv ("ratio", rf).str (); });
        }
        if (any) c.nontrivial (hash_arr (73, &a[0][0], 9));
        if (!is_lattice (cls) && std::isfinite (wr)) c.worst (("minors33." + tn + ".ratio").c_str (), wr, idx, [&] { Obj o; return inputs (o).str (); });
    }
    // ---- 4x4
    {
        T a[4][4];
        gen_mat<T, 4> (r, cls, a, g);
        Matrix44<T> A = make_mat<T, 4> (a);
        auto inputs = [&] (Obj& o) -> Obj& { return o.kv ("class", cls_name[cls]).arr ("A(row-major)", &a[0][0], 16); };
        double wr = 0;
        bool   any = false;
        for (int rr = 0; rr < 4; ++rr)
            for (int cc = 0; cc < 4; ++cc)
            {
                int rows[3], cols[3], k = 0, l = 0;
                for (int i = 0; i < 4; ++i) { if (i != rr) rows[k++] = i; if (i != cc) cols[l++] = i; }
                R ref, s;
                ref_det<R, T, 4> (a, rows, cols, 3, ref, s);
                if (s > 0) any = true;
                T      got = A.minorOf (rr, cc);
                double ratio = err_ratio (got, ref, s);
                wr = std::max (wr, ratio);
                c.eval ();
                if (is_bad (cls, got, ref, ratio, C_MINOR))
                    c.fail ("minorOf44." + tn + ":(" + std::to_string (rr) + "," + std::to_string (cc) + ")", idx, [&] { Obj o; return inputs (o).kv ("r", rr).kv ("c", cc).kv ("got", (double) got).kv ("want", (double) ref).kv ("sum_abs_terms", (double) s).kv ("ratio", ratio).str (); });
                T      gf = A.fastMinor (rows[0], rows[1], rows[2], cols[0], cols[1], cols[2]);
                double rf = err_ratio (gf, ref, s);
                wr = std::max (wr, rf);
                c.eval ();
                if (is_bad (cls, gf, ref, rf, C_MINOR))
                    c.fail ("fastMinor44." + tn + ":ascending", idx, [&] { Obj o; return inputs (o).arr ("rows", rows, 3).arr ("cols", cols, 3).kv ("got", (double) gf).kv ("want", (double) ref).kv ("sum_abs_terms", (double) s).kv ("ratio", rf).str (); });
            }
        for (int rep = 0; rep < 2; ++rep)
        {
            int pr[4] = {0, 1, 2, 3}, pc[4] = {0, 1, 2, 3};
            for (int i = 3; i > 0; --i) { std::swap (pr[i], pr[(int) r.range (0, i)]); std::swap (pc[i], pc[(int) r.range (0, i)]); }
            R ref, s;
            ref_det<R, T, 4> (a, pr, pc, 3, ref, s);
            T      gf = A.fastMinor (pr[0], pr[1], pr[2], pc[0], pc[1], pc[2]);
            double rf = err_ratio (gf, ref, s);
            wr = std::max (wr, rf);
            c.eval ();
            c.cls ("fastMinor_any_order");
            if (is_bad (cls, gf, ref, rf, C_MINOR))
                c.fail ("fastMinor44." + tn + ":any_order", idx, [&] { Obj o; return inputs (o).arr ("rows", pr, 3).arr ("cols", pc, 3).kv ("got", (double) gf).kv ("want", (double) ref).kv ("sum_abs_terms", (double) s).kv ("ratio", rf).str (); });
        }
        if (any) c.nontrivial (hash_arr (74, &a[0][0], 16));
        if (!is_lattice (cls) && std::isfinite (wr)) c.worst (("minors44." + tn + ".ratio").c_str (), wr, idx, [&] { Obj o; return inputs (o).str (); });
        c.sample (cls_name[cls], [&] { Obj o; return inputs (o).kv ("minorOf(1,2)", (double) A.minorOf (1, 2)).kv ("fastMinor(0,2,3;0,1,3)", (double) A.fastMinor (0, 2, 3, 0, 1, 3)).str (); });
    }
}
MON_SUB_IDX (sub_minors<float>, "minors_float", 500000, 20000000)
    .req ({C05_ALL_CLASSES, "fastMinor_any_order"})
    .over ("per index one Matrix33f and one Matrix44f from 9 classes: minorOf(r,c) for ALL (r,c), fastMinor for all ascending index sets and 2 random ordered index sets, vs Leibniz sums of the sub-matrix in long double");
MON_SUB_IDX (sub_minors<double>, "minors_double", 300000, 4000000)
    .req ({C05_ALL_CLASSES, "fastMinor_any_order"})
    .over ("per index one Matrix33d and one Matrix44d from 9 classes: minorOf(r,c) for ALL (r,c), fastMinor for all ascending index sets and 2 random ordered index sets, vs Leibniz sums of the sub-matrix in __float128");

// ------------------------------------------------------------------ algebraic relations
// Bounds (every library value is within C_DET*eps*S of the true value, S = sum over permutations of |prod|):
//   det(A^T) vs det(A):                 |diff| <= C_REL * eps * S(A)
//   cofactor expansion (minorOf values combined in the reference type) vs determinant():
//                                        |diff| <= C_REL * eps * S(A)   since sum_j |a_ij| S(minor_ij) = S(A)
//   det(A*B) vs det(A)*det(B):          |diff| <= C_REL * eps * S(|A||B|), S(|A||B|) >= S(A) S(B) covers the
//                                        rounding of the product's entries, of its determinant and of det A, det B
template <class T, int N> static void
check_relations (Ctx& c, uint64_t idx, int cls, Rng& r)
{
    using R = typename Ref<T>::type;
    using M = typename MatOf<T, N>::type;
    static const std::string NN = std::to_string (N) + std::to_string (N) + "." + tname<T> ();
    static const std::string k_t = "det(transposed)" + NN, k_c = "cofactor_expansion" + NN, k_p = "det(A*B)" + NN;
    static const std::string w_t = k_t + ".ratio", w_c = k_c + ".ratio", w_p = k_p + ".ratio";
    static const int id[4] = {0, 1, 2, 3};
    T a[N][N], b[N][N];
    GenParam g;
    g.smax = 4;
    g.emax = 4;
    // lattice range such that det(A*B) stays exact: n! (n L^2)^n < 2^24 (float) / 2^53 (double)
    g.L = std::is_same<T, float>::value ? (N == 4 ? 2 : N == 3 ? 6 : 8) : 8;
    gen_mat<T, N> (r, cls, a, g);
    int clsb = cls;
    if (!is_lattice (cls) && cls != K_DENSE && cls != K_LOG && r.one_in (4)) clsb = K_DENSE;
    gen_mat<T, N> (r, clsb, b, g);
    M A = make_mat<T, N> (a), B = make_mat<T, N> (b);
    auto inputs = [&] (Obj& o) -> Obj& { return o.kv ("class", cls_name[cls]).arr ("A(row-major)", &a[0][0], N * N).arr ("B(row-major)", &b[0][0], N * N); };
    R dref, SA;
    ref_det<R, T, N> (a, id, id, N, dref, SA);
    T dA = A.determinant (), dB = B.determinant ();
    if (SA > 0) c.nontrivial (hash_arr (hash_arr (80 + N, &a[0][0], N * N), &b[0][0], N * N));

    // ---- det(A^T) = det(A)
    {
        T      dT = A.transposed ().determinant ();
        double ratio = err_ratio (dT, (R) dA, SA);
        c.eval ();
        auto desc = [&] { Obj o; return inputs (o).kv ("det(A)", (double) dA).kv ("det(A.transposed())", (double) dT).kv ("sum_abs_terms", (double) SA).kv ("ratio", ratio).str (); };
        if (!is_lattice (cls) && std::isfinite (ratio)) c.worst (w_t.c_str (), ratio, idx, desc);
        if (is_bad (cls, dT, (R) dA, ratio, C_REL)) c.fail (k_t + ":" + cls_name[cls], idx, desc);
    }
    // ---- cofactor expansion along every row and every column (N >= 3: minorOf exists for 33 and 44)
    if constexpr (N >= 3)
    {
        T mn[N][N];
        for (int i = 0; i < N; ++i)
            for (int j = 0; j < N; ++j) mn[i][j] = A.minorOf (i, j);
        for (int line = 0; line < 2 * N; ++line)
        {
            bool row = line < N;
            int  k = row ? line : line - N;
            R    e = 0;
            for (int j = 0; j < N; ++j)
            {
                int i0 = row ? k : j, j0 = row ? j : k;
                R   t = (R) a[i0][j0] * (R) mn[i0][j0];
                e += ((i0 + j0) & 1) ? -t : t;
            }
            // judge the library determinant against the expansion (expansion plays the reference)
            double ratio = err_ratio (dA, e, SA);
            c.eval ();
            auto desc = [&] { Obj o; return inputs (o).kv (row ? "row" : "column", k).kv ("determinant()", (double) dA).kv ("expansion", (double) e).arr ("minorOf(row-major)", &mn[0][0], N * N).kv ("sum_abs_terms", (double) SA).kv ("ratio", ratio).str (); };
            if (!is_lattice (cls) && std::isfinite (ratio)) c.worst (w_c.c_str (), ratio, idx, desc);
            if (is_lattice (cls) ? !((R) dA == e) : !(ratio <= C_REL))
                c.fail (k_c + ":" + (row ? "row" : "column") + std::to_string (k), idx, desc);
        }
    }
    // ---- det(A*B) = det(A) det(B)
    {
        M P = A * B;
        T dP = P.determinant ();
        T ab[N][N];
        for (int i = 0; i < N; ++i)
            for (int j = 0; j < N; ++j)
            {
                R s = 0;
                for (int k = 0; k < N; ++k) s += rabs ((R) a[i][k] * (R) b[k][j]);
                ab[i][j] = (T) s; // |A||B|, rounding to T is irrelevant for a bound's scale
            }
        R dummy, SP;
        ref_det<R, T, N> (ab, id, id, N, dummy, SP);
        R      want = (R) dA * (R) dB;
        double ratio = err_ratio (dP, want, SP);
        c.eval ();
        auto desc = [&] { Obj o; return inputs (o).kv ("det(A*B)", (double) dP).kv ("det(A)", (double) dA).kv ("det(B)", (double) dB).kv ("det(A)*det(B)", (double) want).kv ("sum_abs_terms(|A||B|)", (double) SP).kv ("ratio", ratio).str (); };
        if (!is_lattice (cls) && std::isfinite (ratio)) c.worst (w_p.c_str (), ratio, idx, desc);
        if (is_bad (cls, dP, want, ratio, C_REL)) c.fail (k_p + ":" + cls_name[cls], idx, desc);
        if (N == 4) c.sample (cls_name[cls], desc);
    }
}

template <class T> static void
sub_relations (Ctx& c, uint64_t idx)
{
    Rng r = c.rng (idx);
    int cls = (int) (idx % K_NCLS);
    c.cls (cls_name[cls]);
    check_relations<T, 2> (c, idx, cls, r);
    check_relations<T, 3> (c, idx, cls, r);
    check_relations<T, 4> (c, idx, cls, r);
}
MON_SUB_IDX (sub_relations<float>, "det_relations_float", 1000000, 30000000)
    .req ({C05_ALL_CLASSES})
    .over ("per index one pair each of Matrix22f/33f/44f from 9 classes: det(A^T) vs det(A), det(A*B) vs det(A)det(B), cofactor expansion with minorOf along every row and column (33, 44) vs determinant(); exact on lattices");
MON_SUB_IDX (sub_relations<double>, "det_relations_double", 500000, 5000000)
    .req ({C05_ALL_CLASSES})
    .over ("per index one pair each of Matrix22d/33d/44d from 9 classes: det(A^T) vs det(A), det(A*B) vs det(A)det(B), cofactor expansion with minorOf along every row and column (33, 44) vs determinant(); exact on lattices");
