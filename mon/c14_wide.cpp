// C14 - sampled wider lattice: coordinates in {-8..8}/S (S = 1, 2, 4), directions in
// {-7..7}^3 \ {0}.  Quotients such as 5/3 or 4/7 are NOT exactly representable, but any
// two distinct quotients of such small integers differ by >= 1/49 relative, and equal
// rationals round to equal floats (division is correctly rounded), so the truth value is
// still decided exactly by the int64 rational oracle.  Reported points are compared
// exactly when the binding parameter has a power-of-two denominator, otherwise they must
// lie in the closed box, on its surface, and within PT_TOL*eps*(|pos_j|+|t*dir_j|) of
// pos + t*dir.
//
// class = idx % 8 picks a generator aimed at one boundary class (see gen()).  In half of the
// cases zero direction components are passed as -0.0 at random (same geometric line).
#include "c14_common.h"

using namespace c14;

namespace
{
constexpr int R = 8, D = 7;

inline void
rand_dir (Rng& r, int d[3], bool all_nonzero)
{
    do
    {
        for (int j = 0; j < 3; ++j) d[j] = (int) r.range (-D, D);
        if (all_nonzero)
            for (int j = 0; j < 3; ++j)
                while (d[j] == 0) d[j] = (int) r.range (-D, D);
    } while (!d[0] && !d[1] && !d[2]);
}

inline void
gen (Rng& r, uint64_t idx, LatCase& k)
{
    static const int SS[4] = {1, 1, 2, 4};
    uint64_t bits = r.u64 ();
    k.S       = SS[bits & 3];
    k.negzero = (bits & 4) ? (int) ((bits >> 3) & 7) : 0; // half of the cases: zero direction components randomly as -0.0
    int cls = (int) (idx % 8);
    // a non-empty box (flat with probability 1/17 per axis)
    for (int j = 0; j < 3; ++j)
    {
        int a = (int) r.range (-R, R), b = (int) r.range (-R, R);
        k.lo[j] = std::min (a, b);
        k.hi[j] = std::max (a, b);
    }
    auto inbox = [&] (int q[3]) { for (int j = 0; j < 3; ++j) q[j] = (int) r.range (k.lo[j], k.hi[j]); };
    int  q[3];
    switch (cls)
    {
    case 0: // generic
        for (int j = 0; j < 3; ++j) k.p[j] = (int) r.range (-R - 3, R + 3);
        rand_dir (r, k.d, false);
        break;
    case 1: // line through a corner
    case 2: // line through a point of an edge
    {
        inbox (q);
        int free_axis = cls == 2 ? (int) r.range (0, 2) : -1;
        for (int j = 0; j < 3; ++j)
            if (j != free_axis) q[j] = r.coin () ? k.lo[j] : k.hi[j];
        rand_dir (r, k.d, r.coin ());
        int m = (int) r.range (-3, 3);
        for (int j = 0; j < 3; ++j) k.p[j] = q[j] - m * k.d[j];
        break;
    }
    case 3: // flat box (1, 2 or 3 degenerate axes), half of the lines aimed at it
    {
        int nflat = 1 + (int) (r.u64 () % 8 == 0) + (int) (r.u64 () % 8 == 0), a0 = (int) r.range (0, 2);
        for (int i = 0; i < nflat; ++i) k.hi[(a0 + i) % 3] = k.lo[(a0 + i) % 3];
        rand_dir (r, k.d, false);
        if (r.coin ())
        {
            inbox (q);
            int m = (int) r.range (-3, 3);
            for (int j = 0; j < 3; ++j) k.p[j] = q[j] - m * k.d[j];
        }
        else
            for (int j = 0; j < 3; ++j) k.p[j] = (int) r.range (-R - 3, R + 3);
        break;
    }
    case 4: // axis-parallel: one or two zero components; the origin coordinate of such an axis below / on / inside / on / above the slab
    {
        rand_dir (r, k.d, true);
        int nz = 1 + (int) r.coin (), a0 = (int) r.range (0, 2);
        inbox (q);
        int m = (int) r.range (-3, 3);
        for (int j = 0; j < 3; ++j) k.p[j] = q[j] - m * k.d[j];
        for (int i = 0; i < nz; ++i)
        {
            int j = (a0 + i) % 3;
            k.d[j] = 0;
            switch (r.u64 () % 5)
            {
            case 0: k.p[j] = k.lo[j] - 1; break;
            case 1: k.p[j] = k.lo[j]; break;
            case 2: k.p[j] = (int) r.range (k.lo[j], k.hi[j]); break;
            case 3: k.p[j] = k.hi[j]; break;
            default: k.p[j] = k.hi[j] + 1; break;
            }
        }
        break;
    }
    case 5: // origin inside or on the surface
    {
        inbox (k.p);
        if (r.coin ())
        {
            int j = (int) r.range (0, 2);
            k.p[j] = r.coin () ? k.lo[j] : k.hi[j];
        }
        rand_dir (r, k.d, false);
        break;
    }
    case 6: // empty box: 1..3 inverted axes
    {
        int a0 = (int) r.range (0, 2), n = 1 + (int) (r.u64 () % 3);
        for (int i = 0; i < n; ++i)
        {
            int j = (a0 + i) % 3;
            if (k.lo[j] == k.hi[j]) k.hi[j] = k.lo[j] + 1;
            std::swap (k.lo[j], k.hi[j]);
        }
        rand_dir (r, k.d, false);
        for (int j = 0; j < 3; ++j) q[j] = (int) r.range (std::min (k.lo[j], k.hi[j]), std::max (k.lo[j], k.hi[j]));
        int m = (int) r.range (-3, 3);
        for (int j = 0; j < 3; ++j) k.p[j] = q[j] - m * k.d[j];
        break;
    }
    default: // aimed at a lattice point of the box (interior or surface), possibly from behind
    {
        inbox (q);
        rand_dir (r, k.d, false);
        int m = (int) r.range (-3, 3);
        for (int j = 0; j < 3; ++j) k.p[j] = q[j] - m * k.d[j];
        // half of the time: shift the origin sideways by one unit -> near misses and edge grazes
        if (r.coin ()) k.p[(int) r.range (0, 2)] += r.coin () ? 1 : -1;
        break;
    }
    }
}

template <class T>
void
sub_wide (Ctx& c, uint64_t b, uint64_t e)
{
    Acc      A;
    uint64_t n_negzero = 0;
    for (uint64_t idx = b; idx < e; ++idx)
    {
        Rng     r = c.rng (idx);
        LatCase k;
        gen (r, idx, k);
        uint64_t nt0 = A.n[K_NONTRIV];
        lat_check<T> (c, idx, k, A);
        if (k.negzero && ((k.d[0] == 0 && (k.negzero & 1)) || (k.d[1] == 0 && (k.negzero & 2)) || (k.d[2] == 0 && (k.negzero & 4)))) ++n_negzero;
        if (A.n[K_NONTRIV] != nt0 && (idx & 3) == 0)
        {
            uint64_t h = (uint64_t) k.S * 8 + (uint64_t) k.negzero;
            for (int j = 0; j < 3; ++j)
                h = hash_combine (h, ((uint64_t) (uint8_t) k.lo[j] << 24) | ((uint64_t) (uint8_t) k.hi[j] << 16) | ((uint64_t) (uint8_t) k.p[j] << 8) | (uint8_t) k.d[j]);
            c.nontrivial (h);
        }
        if (idx % 65536 < 8)
        {
            LatTruth t = lat_oracle (k);
            c.sample (lat_keyclass (t), [&] { return Obj ().raw ("case", lat_json (k)).kv ("ray_hit", t.ray_hit).kv ("line_hit", t.line_hit).str (); });
        }
    }
    acc_flush<T> (c, A, false);
    if (n_negzero) c.cls ("negative_zero_dir_component", n_negzero);
}

#define C14_REQ_W {"empty_box", "grazing", "flat_box", "single_point_on_flat_box", "axis_parallel", "origin_inside", "origin_on_surface", "in_face_plane", \
                   "box_behind_origin", "ray_hit", "ray_miss", "line_hit", "line_miss", "inexact_parameter", "negative_zero_dir_component"}

MON_SUB (sub_wide<float>, "wide_float", 60000000ull, 1000000000ull)
    .req (C14_REQ_W).chunked (65536)
    .over ("Box3f/Line3f sampled from the lattice {-8..8}/S (S=1,2,4) with directions {-7..7}^3\\{0} (inexact quotients); 8 generators: generic, through a corner, "
           "through an edge point, flat box, axis-parallel, origin inside/on surface, empty box, aimed/near miss; exact truth values, points exact or within "
           "16*eps*(|pos|+|t*dir|), inside the closed box and on its surface; distinct = hash of the 12 integers (every 4th non-trivial case recorded, capped: a lower bound)");
MON_SUB (sub_wide<double>, "wide_double", 60000000ull, 1000000000ull)
    .req (C14_REQ_W).chunked (65536)
    .over ("Box3d/Line3d: same generators as wide_float");
} // namespace
