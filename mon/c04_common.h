// C04 - aggregates are component-wise (operators, equality, accessors, layout, text).
// Shared machinery of the C04 monitor (see c04_vec.cpp, c04_color_shear_quat.cpp,
// c04_matrix.cpp, c04_layout.cpp, c04_text.cpp).
//
//  * Tr<V>: per aggregate type: element type, number of slots, slot names and
//    slot access THROUGH THE NAMED DATA MEMBERS (x,y,z,w / r,g,b,a / xy..zy /
//    r,v.x.. / x[i][j]) - never through the operator[] / getValue() paths that
//    are themselves under test.
//  * operand generators with the boundary classes named by the property
//    (distinct primes per slot, signed zeros, extremes, inf, NaN, random bits;
//    for integers only operands for which the SCALAR operation is defined are
//    judged - spellings whose scalar operation is undefined in some slot are
//    skipped and counted).
//  * run_ops<V>: every operator spelling of V against the scalar oracle
//    T(a[i] op b[i]) evaluated with the element type's own operator.
//  * run_eq<V>: ==, !=, equalWithAbsError, equalWithRelError depend on every slot.
#pragma once
#include "mon.h"

#include <ImathColor.h>
#include <ImathMatrix.h>
#include <ImathQuat.h>
#include <ImathShear.h>
#include <ImathVec.h>
#include <half.h>

#include <array>
#include <iomanip>
#include <limits>
#include <sstream>
#include <type_traits>
#include <utility>

namespace c04
{
using namespace mon;
using namespace IMATH_INTERNAL_NAMESPACE;
typedef unsigned char uchar;

// ------------------------------------------------------------------ element types
template <class T> struct TN;
template <> struct TN<short>   { static const char* s () { return "short"; } };
template <> struct TN<int>     { static const char* s () { return "int"; } };
template <> struct TN<int64_t> { static const char* s () { return "int64"; } };
template <> struct TN<half>    { static const char* s () { return "half"; } };
template <> struct TN<float>   { static const char* s () { return "float"; } };
template <> struct TN<double>  { static const char* s () { return "double"; } };
template <> struct TN<uchar>   { static const char* s () { return "uchar"; } };

template <class T> struct is_half_t : std::is_same<T, half> {};
template <class T> struct is_fp_t : std::integral_constant<bool, std::is_floating_point<T>::value || is_half_t<T>::value> {};

template <class... S> struct TL {};
template <class S> struct Tag { typedef S type; };
template <class F, class... S> inline void for_types (TL<S...>, F&& f) { int d[] = {0, (f (Tag<S> ()), 0)...}; (void) d; }

typedef TL<short, int, int64_t, half, float, double> VecTypes;
typedef TL<half, float, uchar>                       ColorTypes;
typedef TL<float, double>                            FloatTypes;

inline uint64_t bits_of (half v) { return v.bits (); }
inline uint64_t bits_of (float v) { return f2u (v); }
inline uint64_t bits_of (double v) { return d2u (v); }
inline uint64_t bits_of (short v) { return (uint64_t) (uint16_t) v; }
inline uint64_t bits_of (int v) { return (uint64_t) (uint32_t) v; }
inline uint64_t bits_of (int64_t v) { return (uint64_t) v; }
inline uint64_t bits_of (uchar v) { return v; }

inline bool is_nan (half v) { return v.isNan (); }
inline bool is_nan (float v) { return std::isnan (v); }
inline bool is_nan (double v) { return std::isnan (v); }
inline bool is_nan (short) { return false; }
inline bool is_nan (int) { return false; }
inline bool is_nan (int64_t) { return false; }
inline bool is_nan (uchar) { return false; }

// bitwise identity (so -0 != +0), any NaN matches any NaN
template <class T> inline bool same (T g, T w) { return (is_nan (g) && is_nan (w)) || bits_of (g) == bits_of (w); }

inline std::string sval (half v) { char b[64]; std::snprintf (b, sizeof b, "%.9g/0x%04x", (double) (float) v, (unsigned) v.bits ()); return b; }
inline std::string sval (float v) { char b[64]; std::snprintf (b, sizeof b, "%.9g/0x%08x", (double) v, f2u (v)); return b; }
inline std::string sval (double v) { char b[64]; std::snprintf (b, sizeof b, "%.17g/0x%016" PRIx64, v, d2u (v)); return b; }
inline std::string sval (short v) { return std::to_string ((int) v); }
inline std::string sval (int v) { return std::to_string (v); }
inline std::string sval (int64_t v) { return std::to_string ((long long) v); }
inline std::string sval (uchar v) { return std::to_string ((int) v); }
template <class T> inline std::string sarr (const T* p, int n)
{
    std::string s = "[";
    for (int i = 0; i < n; ++i) { if (i) s += ","; s += "\"" + sval (p[i]) + "\""; }
    return s + "]";
}

// value of type T from a double that is exactly representable in T
template <class T> inline T cvt (double d) { return T (d); }
template <> inline half cvt<half> (double d) { return half ((float) d); }

template <class T> inline T from_bits (uint64_t u);
template <> inline half   from_bits<half> (uint64_t u) { half h; h.setBits ((uint16_t) u); return h; }
template <> inline float  from_bits<float> (uint64_t u) { return u2f ((uint32_t) u); }
template <> inline double from_bits<double> (uint64_t u) { return u2d (u); }

template <class T> struct FpInfo;
template <> struct FpInfo<half>   { static constexpr uint64_t exp_mask = 0x7c00, sign = 0x8000, quiet = 0x0200, man_mask = 0x03ff; static constexpr int elo = -10, ehi = 10; };
template <> struct FpInfo<float>  { static constexpr uint64_t exp_mask = 0x7f800000u, sign = 0x80000000u, quiet = 0x00400000u, man_mask = 0x007fffffu; static constexpr int elo = -60, ehi = 60; };
template <> struct FpInfo<double> { static constexpr uint64_t exp_mask = 0x7ff0000000000000ull, sign = 0x8000000000000000ull, quiet = 0x0008000000000000ull, man_mask = 0x000fffffffffffffull; static constexpr int elo = -500, ehi = 500; };

template <class T> inline T fp_zero (bool neg) { return from_bits<T> (neg ? FpInfo<T>::sign : 0); }
template <class T> inline T fp_inf (bool neg) { return from_bits<T> (FpInfo<T>::exp_mask | (neg ? FpInfo<T>::sign : 0)); }
template <class T> inline T fp_nan (Rng& r)
{
    uint64_t m = r.u64 () & FpInfo<T>::man_mask;
    if (r.coin ()) m |= FpInfo<T>::quiet; // quiet, else possibly signalling
    if (m == 0) m = FpInfo<T>::quiet;
    return from_bits<T> (FpInfo<T>::exp_mask | m | (r.coin () ? FpInfo<T>::sign : 0));
}
template <class T> inline T fp_extreme (Rng& r)
{
    typedef std::numeric_limits<T> L;
    switch (r.u64 () % 9)
    {
        case 0: return L::max ();
        case 1: return L::lowest ();
        case 2: return L::min ();
        case 3: return -T (L::min ());
        case 4: return L::denorm_min ();
        case 5: return -T (L::denorm_min ());
        case 6: return L::epsilon ();
        case 7: return cvt<T> (1.0);
        default: return cvt<T> (-1.0);
    }
}
template <class T> inline T fp_random_bits (Rng& r) { return from_bits<T> (r.u64 ()); }

// ------------------------------------------------------------------ distinct primes per slot
static const int NPRIMES = 47; // a prime count, so that any stride 1..46 visits 47 distinct entries
static const int PRIMES[NPRIMES] = {2, 3, 5, 7, 11, 13, 17, 19, 23, 29, 31, 37, 41, 43, 47, 53, 59, 61, 67, 71, 73, 79, 83, 89, 97, 101, 103, 107, 109, 113, 127, 131, 137, 139, 149, 151, 157, 163, 167, 173, 179, 181, 191, 193, 197, 199, 211};
struct PrimePick
{
    unsigned start, step;
    explicit PrimePick (Rng& r) : start ((unsigned) (r.u64 () % NPRIMES)), step (1 + (unsigned) (r.u64 () % (NPRIMES - 1))) {}
    int operator() (unsigned k) const { return PRIMES[(start + k * step) % NPRIMES]; } // distinct for k < 47
};

// ------------------------------------------------------------------ scalar oracle
enum Op { ADD, SUB, MUL, DIV, NEG, CONJ };
enum Kind { VV, VS, SV, UN, SELF, AL0, AL1 }; // AL0/AL1: the scalar argument IS component 0 / 1 of the left operand (aliasing)

// CONJ (Quat operator~): slot 0 is kept, the others negated
inline Op slot_op (Op op, int i) { return op == CONJ ? (i == 0 ? ADD /*unused*/ : NEG) : op; }

// the element type's own operator, same C++ expression as the property implies: T(a op b)
template <class T> inline T sop (Op op, T a, T b)
{
    switch (op)
    {
        case ADD: return T (a + b);
        case SUB: return T (a - b);
        case MUL: return T (a * b);
        case DIV: return T (a / b);
        default: return T (-a);
    }
}

// is the scalar operation defined (no signed overflow, no division by zero, no -MIN)?
template <class T> inline typename std::enable_if<is_fp_t<T>::value, bool>::type sdefined (Op, T, T) { return true; }
template <class T> inline typename std::enable_if<!is_fp_t<T>::value, bool>::type sdefined (Op op, T a, T b)
{
    typedef std::numeric_limits<T> L;
    if (sizeof (T) < sizeof (int)) return op != DIV || b != 0; // promoted to int: cannot overflow
    T t;
    switch (op)
    {
        case ADD: return !__builtin_add_overflow (a, b, &t);
        case SUB: return !__builtin_sub_overflow (a, b, &t);
        case MUL: return !__builtin_mul_overflow (a, b, &t);
        case DIV: return b != 0 && !(std::is_signed<T>::value && a == L::min () && b == T (-1));
        default: return !(std::is_signed<T>::value && a == L::min ());
    }
}

// ------------------------------------------------------------------ operand generators
// floating element types: class = idx % 8
template <class T>
inline typename std::enable_if<is_fp_t<T>::value, const char*>::type
gen_operands (Rng& r, uint64_t idx, int N, T* a, T* b, T& s)
{
    PrimePick pp (r);
    auto prime = [&] (unsigned k) { int p = pp (k); return cvt<T> (r.coin () ? p : -p); };
    for (int i = 0; i < N; ++i) { a[i] = prime ((unsigned) i); b[i] = prime ((unsigned) (N + i)); }
    s = prime ((unsigned) (2 * N));
    const int force = (int) ((idx / 8) % (uint64_t) N);
    // plant(v): with probability 1/3 per slot and operand, and always in slot `force` of one operand
    auto plant = [&] (const std::function<T ()>& v) {
        for (int i = 0; i < N; ++i)
        {
            if (r.one_in (3)) a[i] = v ();
            if (r.one_in (3)) b[i] = v ();
        }
        (r.coin () ? a : b)[force] = v ();
        if (r.one_in (3)) s = v ();
    };
    switch (idx % 8)
    {
        case 0: return "primes";
        case 1:
        {
            // exact power-of-two scalings: still distinct values in every slot
            for (int i = 0; i < N; ++i)
            {
                a[i] = cvt<T> (std::ldexp ((double) (float) a[i], (int) r.range (-4, 4)));
                b[i] = cvt<T> (std::ldexp ((double) (float) b[i], (int) r.range (-4, 4)));
            }
            s = cvt<T> (std::ldexp ((double) (float) s, (int) r.range (-4, 4)));
            return "primes_scaled";
        }
        case 2: plant ([&] { return fp_zero<T> (r.coin ()); }); return "signed_zero";
        case 3: plant ([&] { return fp_extreme<T> (r); }); return "extreme";
        case 4: plant ([&] { return fp_inf<T> (r.coin ()); }); return "inf";
        case 5: plant ([&] { return r.one_in (4) ? fp_inf<T> (r.coin ()) : fp_nan<T> (r); }); (r.coin () ? a : b)[force] = fp_nan<T> (r); return "nan";
        case 6:
            for (int i = 0; i < N; ++i) { a[i] = fp_random_bits<T> (r); b[i] = fp_random_bits<T> (r); }
            s = fp_random_bits<T> (r);
            return "random_bits";
        default:
            for (int i = 0; i < N; ++i) { a[i] = cvt<T> (r.logscale (FpInfo<T>::elo, FpInfo<T>::ehi)); b[i] = cvt<T> (r.logscale (FpInfo<T>::elo, FpInfo<T>::ehi)); }
            s = cvt<T> (r.logscale (FpInfo<T>::elo, FpInfo<T>::ehi));
            return "logscale";
    }
}

// integer element types: class = idx % 5
template <class T>
inline typename std::enable_if<!is_fp_t<T>::value, const char*>::type
gen_operands (Rng& r, uint64_t idx, int N, T* a, T* b, T& s)
{
    typedef std::numeric_limits<T> L;
    constexpr bool sg = std::is_signed<T>::value;
    PrimePick pp (r);
    auto prime = [&] (unsigned k) { int p = pp (k); return T ((sg && r.coin ()) ? -p : p); };
    for (int i = 0; i < N; ++i) { a[i] = prime ((unsigned) i); b[i] = prime ((unsigned) (N + i)); }
    s = prime ((unsigned) (2 * N));
    const int force = (int) ((idx / 5) % (uint64_t) N);
    auto plant = [&] (const std::function<T ()>& v) {
        for (int i = 0; i < N; ++i)
        {
            if (r.one_in (3)) a[i] = v ();
            if (r.one_in (3)) b[i] = v ();
        }
        (r.coin () ? a : b)[force] = v ();
        if (r.one_in (3)) s = v ();
    };
    const int64_t lo = (int64_t) L::min (), hi = (int64_t) L::max ();
    switch (idx % 5)
    {
        case 0: return "primes";
        case 1: plant ([&] { return T (0); }); return "zero";
        case 2:
            plant ([&] {
                switch (r.u64 () % 8)
                {
                    case 0: return L::max ();
                    case 1: return L::min ();
                    case 2: return T (L::max () - 1);
                    case 3: return T (L::min () + 1);
                    case 4: return T (sg ? -1 : 1);
                    case 5: return T (0);
                    case 6: return T (1);
                    default: return T (2);
                }
            });
            return "extreme";
        case 3:
        {
            // wide operands for which + and - are defined
            int64_t l = sizeof (T) < sizeof (int) ? lo : lo / 2, h = sizeof (T) < sizeof (int) ? hi : hi / 2;
            for (int i = 0; i < N; ++i) { a[i] = T (r.range (l, h)); b[i] = T (r.range (l, h)); }
            s = T (r.range (l, h));
            return "wide_addsub";
        }
        default:
        {
            // wide operands for which * is defined (|x| <= sqrt(max)); the narrow types promote to int
            int64_t h = sizeof (T) < sizeof (int) ? hi : (sizeof (T) == 4 ? 46340 : 3037000499ll);
            int64_t l = sizeof (T) < sizeof (int) ? lo : -h;
            for (int i = 0; i < N; ++i) { a[i] = T (r.range (l, h)); b[i] = T (r.range (l, h)); }
            s = T (r.range (l, h));
            return "wide_mul";
        }
    }
}

template <class T> inline std::vector<std::string> op_classes (std::true_type) { return {"primes", "primes_scaled", "signed_zero", "extreme", "inf", "nan", "random_bits", "logscale", "spellings_judged"}; }
template <class T> inline std::vector<std::string> op_classes (std::false_type) { return {"primes", "zero", "extreme", "wide_addsub", "wide_mul", "spellings_judged"}; }
template <class T> inline std::vector<std::string> op_classes () { return op_classes<T> (is_fp_t<T> ()); }

// ------------------------------------------------------------------ aggregate traits
template <class V> struct Tr;
template <class V> struct Sp
{
    const char* name;
    Op          op;
    Kind        kind;
    V (*fn) (const V&, const V&, typename V::BaseType);
};

// compound forms are judged through the reference they return (it must be the modified *this)
#define C04_L(body) [] (const V& a, const V& b, T s) -> V { (void) a; (void) b; (void) s; body }

// Vec2/3/4, Color3, Color4, Shear6: the full set of component-wise spellings
template <class V> inline std::vector<Sp<V>> veclike_spellings ()
{
    typedef typename V::BaseType T;
    return {
        {"operator+", ADD, VV, C04_L (return V (a + b);)},
        {"operator+=", ADD, VV, C04_L (V x (a); return V (x += b);)},
        {"operator+=(self)", ADD, SELF, C04_L (V x (a); return V (x += x);)},
        {"operator-", SUB, VV, C04_L (return V (a - b);)},
        {"operator-=", SUB, VV, C04_L (V x (a); return V (x -= b);)},
        {"operator-=(self)", SUB, SELF, C04_L (V x (a); return V (x -= x);)},
        {"operator*(V,V)", MUL, VV, C04_L (return V (a * b);)},
        {"operator*=(V)", MUL, VV, C04_L (V x (a); return V (x *= b);)},
        {"operator*=(self)", MUL, SELF, C04_L (V x (a); return V (x *= x);)},
        {"operator/(V,V)", DIV, VV, C04_L (return V (a / b);)},
        {"operator/=(V)", DIV, VV, C04_L (V x (a); return V (x /= b);)},
        {"operator/=(self)", DIV, SELF, C04_L (V x (a); return V (x /= x);)},
        {"operator*(V,T)", MUL, VS, C04_L (return V (a * s);)},
        {"operator*=(T)", MUL, VS, C04_L (V x (a); return V (x *= s);)},
        {"operator*(T,V)", MUL, SV, C04_L (return V (s * a);)},
        {"operator/(V,T)", DIV, VS, C04_L (return V (a / s);)},
        {"operator/=(T)", DIV, VS, C04_L (V x (a); return V (x /= s);)},
        {"operator*=(T=self[0])", MUL, AL0, C04_L (V x (a); return V (x *= Tr<V>::at (x, 0));)},
        {"operator*=(T=self[1])", MUL, AL1, C04_L (V x (a); return V (x *= Tr<V>::at (x, 1));)},
        {"operator/=(T=self[0])", DIV, AL0, C04_L (V x (a); return V (x /= Tr<V>::at (x, 0));)},
        {"operator/=(T=self[1])", DIV, AL1, C04_L (V x (a); return V (x /= Tr<V>::at (x, 1));)},
        {"operator-(unary)", NEG, UN, C04_L (return V (-a);)},
        {"negate()", NEG, UN, C04_L (V x (a); return V (x.negate ());)},
    };
}

// Quat: +, -, scalar * and /, unary -, ~
template <class V> inline std::vector<Sp<V>> quat_spellings ()
{
    typedef typename V::BaseType T;
    return {
        {"operator+", ADD, VV, C04_L (return V (a + b);)},
        {"operator+=", ADD, VV, C04_L (V x (a); return V (x += b);)},
        {"operator+=(self)", ADD, SELF, C04_L (V x (a); return V (x += x);)},
        {"operator-", SUB, VV, C04_L (return V (a - b);)},
        {"operator-=", SUB, VV, C04_L (V x (a); return V (x -= b);)},
        {"operator-=(self)", SUB, SELF, C04_L (V x (a); return V (x -= x);)},
        {"operator*(V,T)", MUL, VS, C04_L (return V (a * s);)},
        {"operator*=(T)", MUL, VS, C04_L (V x (a); return V (x *= s);)},
        {"operator*(T,V)", MUL, SV, C04_L (return V (s * a);)},
        {"operator/(V,T)", DIV, VS, C04_L (return V (a / s);)},
        {"operator/=(T)", DIV, VS, C04_L (V x (a); return V (x /= s);)},
        {"operator*=(T=self[0])", MUL, AL0, C04_L (V x (a); return V (x *= Tr<V>::at (x, 0));)},
        {"operator*=(T=self[1])", MUL, AL1, C04_L (V x (a); return V (x *= Tr<V>::at (x, 1));)},
        {"operator/=(T=self[0])", DIV, AL0, C04_L (V x (a); return V (x /= Tr<V>::at (x, 0));)},
        {"operator/=(T=self[1])", DIV, AL1, C04_L (V x (a); return V (x /= Tr<V>::at (x, 1));)},
        {"operator-(unary)", NEG, UN, C04_L (return V (-a);)},
        {"operator~", CONJ, UN, C04_L (return V (~a);)},
    };
}

// Matrix22/33/44: element-wise +,-, unary -, negate(), scalar += -= *= /= * / (both sides for *)
template <class V> inline std::vector<Sp<V>> matrix_spellings ()
{
    typedef typename V::BaseType T;
    return {
        {"operator+", ADD, VV, C04_L (return V (a + b);)},
        {"operator+=", ADD, VV, C04_L (V x (a); return V (x += b);)},
        {"operator+=(self)", ADD, SELF, C04_L (V x (a); return V (x += x);)},
        {"operator-", SUB, VV, C04_L (return V (a - b);)},
        {"operator-=", SUB, VV, C04_L (V x (a); return V (x -= b);)},
        {"operator-=(self)", SUB, SELF, C04_L (V x (a); return V (x -= x);)},
        {"operator+=(T)", ADD, VS, C04_L (V x (a); return V (x += s);)},
        {"operator-=(T)", SUB, VS, C04_L (V x (a); return V (x -= s);)},
        {"operator*(V,T)", MUL, VS, C04_L (return V (a * s);)},
        {"operator*=(T)", MUL, VS, C04_L (V x (a); return V (x *= s);)},
        {"operator*(T,V)", MUL, SV, C04_L (return V (s * a);)},
        {"operator/(V,T)", DIV, VS, C04_L (return V (a / s);)},
        {"operator/=(T)", DIV, VS, C04_L (V x (a); return V (x /= s);)},
        {"operator*=(T=self[0])", MUL, AL0, C04_L (V x (a); return V (x *= Tr<V>::at (x, 0));)},
        {"operator*=(T=self[1])", MUL, AL1, C04_L (V x (a); return V (x *= Tr<V>::at (x, 1));)},
        {"operator/=(T=self[0])", DIV, AL0, C04_L (V x (a); return V (x /= Tr<V>::at (x, 0));)},
        {"operator/=(T=self[1])", DIV, AL1, C04_L (V x (a); return V (x /= Tr<V>::at (x, 1));)},
        {"operator+=(T=self[0])", ADD, AL0, C04_L (V x (a); return V (x += Tr<V>::at (x, 0));)},
        {"operator-=(T=self[1])", SUB, AL1, C04_L (V x (a); return V (x -= Tr<V>::at (x, 1));)},
        {"operator-(unary)", NEG, UN, C04_L (return V (-a);)},
        {"negate()", NEG, UN, C04_L (V x (a); return V (x.negate ());)},
    };
}

template <class V> struct Tr;

template <class T> struct Tr<Vec2<T>>
{
    typedef Vec2<T> V; typedef T E;
    static constexpr int N = 2, DIM = 0;
    static constexpr bool has_approx = true, eq_template = true, has_ptr = true, has_setget = true, has_broadcast = true, has_negate = true;
    template <class S> using rebind = Vec2<S>;
    typedef VecTypes types;
    static std::string name () { return std::string ("Vec2<") + TN<T>::s () + ">"; }
    static std::string slot (int i) { static const char* n[] = {"x", "y"}; return n[i]; }
    static T& at (V& v, int i) { return i == 0 ? v.x : v.y; }
    static const T& at (const V& v, int i) { return i == 0 ? v.x : v.y; }
    static T& idx (V& v, int i) { return v[i]; }
    static const T& idx (const V& v, int i) { return v[i]; }
    static std::vector<Sp<V>> spellings () { return veclike_spellings<V> (); }
};
template <class T> struct Tr<Vec3<T>>
{
    typedef Vec3<T> V; typedef T E;
    static constexpr int N = 3, DIM = 0;
    static constexpr bool has_approx = true, eq_template = true, has_ptr = true, has_setget = true, has_broadcast = true, has_negate = true;
    template <class S> using rebind = Vec3<S>;
    typedef VecTypes types;
    static std::string name () { return std::string ("Vec3<") + TN<T>::s () + ">"; }
    static std::string slot (int i) { static const char* n[] = {"x", "y", "z"}; return n[i]; }
    static T& at (V& v, int i) { return i == 0 ? v.x : i == 1 ? v.y : v.z; }
    static const T& at (const V& v, int i) { return i == 0 ? v.x : i == 1 ? v.y : v.z; }
    static T& idx (V& v, int i) { return v[i]; }
    static const T& idx (const V& v, int i) { return v[i]; }
    static std::vector<Sp<V>> spellings () { return veclike_spellings<V> (); }
};
template <class T> struct Tr<Vec4<T>>
{
    typedef Vec4<T> V; typedef T E;
    static constexpr int N = 4, DIM = 0;
    static constexpr bool has_approx = true, eq_template = true, has_ptr = true, has_setget = true, has_broadcast = true, has_negate = true;
    template <class S> using rebind = Vec4<S>;
    typedef VecTypes types;
    static std::string name () { return std::string ("Vec4<") + TN<T>::s () + ">"; }
    static std::string slot (int i) { static const char* n[] = {"x", "y", "z", "w"}; return n[i]; }
    static T& at (V& v, int i) { return i == 0 ? v.x : i == 1 ? v.y : i == 2 ? v.z : v.w; }
    static const T& at (const V& v, int i) { return i == 0 ? v.x : i == 1 ? v.y : i == 2 ? v.z : v.w; }
    static T& idx (V& v, int i) { return v[i]; }
    static const T& idx (const V& v, int i) { return v[i]; }
    static std::vector<Sp<V>> spellings () { return veclike_spellings<V> (); }
};
template <class T> struct Tr<Color3<T>>
{
    typedef Color3<T> V; typedef T E;
    static constexpr int N = 3, DIM = 0;
    static constexpr bool has_approx = true, eq_template = true, has_ptr = true, has_setget = true, has_broadcast = true, has_negate = true;
    template <class S> using rebind = Color3<S>;
    typedef ColorTypes types;
    static std::string name () { return std::string ("Color3<") + TN<T>::s () + ">"; }
    static std::string slot (int i) { static const char* n[] = {"x", "y", "z"}; return n[i]; }
    static T& at (V& v, int i) { return i == 0 ? v.x : i == 1 ? v.y : v.z; }
    static const T& at (const V& v, int i) { return i == 0 ? v.x : i == 1 ? v.y : v.z; }
    static T& idx (V& v, int i) { return v[i]; }
    static const T& idx (const V& v, int i) { return v[i]; }
    static std::vector<Sp<V>> spellings () { return veclike_spellings<V> (); }
};
template <class T> struct Tr<Color4<T>>
{
    typedef Color4<T> V; typedef T E;
    static constexpr int N = 4, DIM = 0;
    static constexpr bool has_approx = false, eq_template = true, has_ptr = true, has_setget = true, has_broadcast = true, has_negate = true;
    template <class S> using rebind = Color4<S>;
    typedef ColorTypes types;
    static std::string name () { return std::string ("Color4<") + TN<T>::s () + ">"; }
    static std::string slot (int i) { static const char* n[] = {"r", "g", "b", "a"}; return n[i]; }
    static T& at (V& v, int i) { return i == 0 ? v.r : i == 1 ? v.g : i == 2 ? v.b : v.a; }
    static const T& at (const V& v, int i) { return i == 0 ? v.r : i == 1 ? v.g : i == 2 ? v.b : v.a; }
    static T& idx (V& v, int i) { return v[i]; }
    static const T& idx (const V& v, int i) { return v[i]; }
    static std::vector<Sp<V>> spellings () { return veclike_spellings<V> (); }
};
template <class T> struct Tr<Shear6<T>>
{
    typedef Shear6<T> V; typedef T E;
    static constexpr int N = 6, DIM = 0;
    static constexpr bool has_approx = true, eq_template = true, has_ptr = true, has_setget = true, has_broadcast = false, has_negate = true;
    template <class S> using rebind = Shear6<S>;
    typedef FloatTypes types;
    static std::string name () { return std::string ("Shear6<") + TN<T>::s () + ">"; }
    static std::string slot (int i) { static const char* n[] = {"xy", "xz", "yz", "yx", "zx", "zy"}; return n[i]; }
    static T& at (V& v, int i) { return i == 0 ? v.xy : i == 1 ? v.xz : i == 2 ? v.yz : i == 3 ? v.yx : i == 4 ? v.zx : v.zy; }
    static const T& at (const V& v, int i) { return i == 0 ? v.xy : i == 1 ? v.xz : i == 2 ? v.yz : i == 3 ? v.yx : i == 4 ? v.zx : v.zy; }
    static T& idx (V& v, int i) { return v[i]; }
    static const T& idx (const V& v, int i) { return v[i]; }
    static std::vector<Sp<V>> spellings () { return veclike_spellings<V> (); }
};
template <class T> struct Tr<Quat<T>>
{
    typedef Quat<T> V; typedef T E;
    static constexpr int N = 4, DIM = 0;
    static constexpr bool has_approx = false, eq_template = true, has_ptr = false, has_setget = false, has_broadcast = false, has_negate = false;
    template <class S> using rebind = Quat<S>;
    typedef FloatTypes types;
    static std::string name () { return std::string ("Quat<") + TN<T>::s () + ">"; }
    static std::string slot (int i) { static const char* n[] = {"r", "v.x", "v.y", "v.z"}; return n[i]; }
    static T& at (V& q, int i) { return i == 0 ? q.r : i == 1 ? q.v.x : i == 2 ? q.v.y : q.v.z; }
    static const T& at (const V& q, int i) { return i == 0 ? q.r : i == 1 ? q.v.x : i == 2 ? q.v.y : q.v.z; }
    static T& idx (V& v, int i) { return v[i]; }
    static T idx (const V& v, int i) { return v[i]; } // const operator[] returns by value
    static std::vector<Sp<V>> spellings () { return quat_spellings<V> (); }
};
template <class M, int D> struct TrMatrix
{
    typedef M V; typedef typename M::BaseType E; typedef E T;
    static constexpr int N = D * D, DIM = D;
    static constexpr bool has_approx = true, eq_template = false, has_ptr = true, has_setget = false, has_broadcast = true, has_negate = true;
    typedef FloatTypes types;
    static std::string slot (int k) { return "x[" + std::to_string (k / D) + "][" + std::to_string (k % D) + "]"; }
    static T& at (V& m, int k) { return m.x[k / D][k % D]; }
    static const T& at (const V& m, int k) { return m.x[k / D][k % D]; }
    static T& idx (V& m, int k) { return m[k / D][k % D]; }
    static const T& idx (const V& m, int k) { return m[k / D][k % D]; }
    static std::vector<Sp<V>> spellings () { return matrix_spellings<V> (); }
};
template <class T> struct Tr<Matrix22<T>> : TrMatrix<Matrix22<T>, 2>
{
    template <class S> using rebind = Matrix22<S>;
    static std::string name () { return std::string ("Matrix22<") + TN<T>::s () + ">"; }
};
template <class T> struct Tr<Matrix33<T>> : TrMatrix<Matrix33<T>, 3>
{
    template <class S> using rebind = Matrix33<S>;
    static std::string name () { return std::string ("Matrix33<") + TN<T>::s () + ">"; }
};
template <class T> struct Tr<Matrix44<T>> : TrMatrix<Matrix44<T>, 4>
{
    template <class S> using rebind = Matrix44<S>;
    static std::string name () { return std::string ("Matrix44<") + TN<T>::s () + ">"; }
};

// build an aggregate by assigning every named data member (no constructor argument order involved)
template <class V> inline V make (const typename Tr<V>::E* p)
{
    V v;
    for (int i = 0; i < Tr<V>::N; ++i) Tr<V>::at (v, i) = p[i];
    return v;
}

template <class T> inline uint64_t hash_vals (uint64_t h, const T* p, int n)
{
    for (int i = 0; i < n; ++i) h = hash_combine (h, bits_of (p[i]));
    return h;
}

// ------------------------------------------------------------------ operators
template <class V> inline const std::vector<Sp<V>>& spellings_of ()
{
    static const std::vector<Sp<V>> t = Tr<V>::spellings ();
    return t;
}

template <class V> void run_ops (Ctx& c, uint64_t idx)
{
    typedef typename Tr<V>::E T;
    constexpr int N = Tr<V>::N;
    Rng r = c.rng (idx);
    T   a[N], b[N], s;
    const char* cls = gen_operands<T> (r, idx, N, a, b, s);
    c.cls (cls);
    const V va = make<V> (a), vb = make<V> (b);
    c.nontrivial (hash_combine (hash_vals (hash_vals (1, a, N), b, N), bits_of (s)));
    if (idx < 64) c.sample (cls, [&] { return Obj ().kv ("type", Tr<V>::name ()).raw ("a", sarr (a, N)).raw ("b", sarr (b, N)).kv ("s", sval (s)).str (); });
    uint64_t judged = 0, skipped = 0;
    for (const Sp<V>& sp: spellings_of<V> ())
    {
        T    want[N];
        bool defined = true;
        for (int i = 0; i < N && defined; ++i)
        {
            T x = a[i], y = b[i];
            switch (sp.kind)
            {
                case VV: break;
                case VS: y = s; break;
                case SV: x = s; y = a[i]; break;
                case SELF: y = a[i]; break;
                case AL0: y = a[0]; break;
                case AL1: y = a[1]; break;
                case UN: break;
            }
            if (sp.op == CONJ && i == 0) { want[i] = a[i]; continue; }
            Op op = slot_op (sp.op, i);
            if (!sdefined (op, x, y)) { defined = false; break; }
            want[i] = sop (op, x, y);
        }
        if (!defined) { ++skipped; continue; } // the scalar operation is undefined: says nothing about the property
        const V got = sp.fn (va, vb, s);
        ++judged;
        for (int i = 0; i < N; ++i)
        {
            const T g = Tr<V>::at (got, i);
            if (!same (g, want[i]))
                c.fail (std::string (sp.name) + "." + Tr<V>::name () + ":" + Tr<V>::slot (i), idx, [&] {
                    return Obj ().kv ("class", cls).raw ("a", sarr (a, N)).raw ("b", sarr (b, N)).kv ("s", sval (s)).kv ("slot", i).kv ("got", sval (g)).kv ("want", sval (want[i])).str ();
                });
        }
        // the operands must be left untouched
        for (int i = 0; i < N; ++i)
            if (!same (Tr<V>::at (va, i), a[i]) || !same (Tr<V>::at (vb, i), b[i]))
                c.fail (std::string (sp.name) + "." + Tr<V>::name () + ":operand_modified", idx, [&] { return Obj ().kv ("slot", i).str (); });
    }
    c.eval (judged);
    c.cls ("spellings_judged", judged);
    if (skipped) c.cls ("spellings_skipped_scalar_undefined", skipped);
}

// ------------------------------------------------------------------ equality
// values for which all four comparisons are defined for every element type
template <class T> inline typename std::enable_if<is_fp_t<T>::value, const char*>::type
gen_eq_values (Rng& r, uint64_t k, int N, T* a)
{
    PrimePick pp (r);
    for (int i = 0; i < N; ++i) { int p = pp ((unsigned) i); a[i] = cvt<T> (r.coin () ? p : -p); }
    switch (k % 4)
    {
        case 0: return "primes";
        case 1: for (int i = 0; i < N; ++i) if (r.one_in (2)) a[i] = fp_zero<T> (r.coin ()); a[k / 4 % N] = fp_zero<T> (r.coin ()); return "signed_zero";
        case 2: for (int i = 0; i < N; ++i) if (r.one_in (3)) a[i] = r.coin () ? fp_inf<T> (r.coin ()) : fp_nan<T> (r); a[k / 4 % N] = r.coin () ? fp_inf<T> (r.coin ()) : fp_nan<T> (r); return "inf_nan";
        default: for (int i = 0; i < N; ++i) if (r.one_in (2)) a[i] = fp_extreme<T> (r); a[k / 4 % N] = fp_extreme<T> (r); return "extreme";
    }
}
template <class T> inline typename std::enable_if<!is_fp_t<T>::value, const char*>::type
gen_eq_values (Rng& r, uint64_t k, int N, T* a)
{
    constexpr bool sg = std::is_signed<T>::value;
    PrimePick pp (r);
    for (int i = 0; i < N; ++i) { int p = pp ((unsigned) i); a[i] = T ((sg && r.coin ()) ? -p : p); }
    switch (k % 4)
    {
        case 0: return "primes";
        case 1: for (int i = 0; i < N; ++i) if (r.one_in (2)) a[i] = T (0); a[k / 4 % N] = T (0); return "zero";
        // |x| < 2^14: differences and e*|x| cannot overflow in any element type
        default: for (int i = 0; i < N; ++i) a[i] = T (r.range (sg ? -16000 : 0, sizeof (T) == 1 ? 255 : 16000)); return "wide";
    }
}

// directed step: a value different from x by exactly 1 (exact in every element type for |x| <= 211)
template <class T> inline T step1 (T x, bool up) { return cvt<T> ((double) (float) x + (up ? 1.0 : -1.0)); }
template <> inline short step1<short> (short x, bool up) { return (short) (x + (up ? 1 : -1)); }
template <> inline int step1<int> (int x, bool up) { return x + (up ? 1 : -1); }
template <> inline int64_t step1<int64_t> (int64_t x, bool up) { return x + (up ? 1 : -1); }
template <> inline uchar step1<uchar> (uchar x, bool up) { return (uchar) (x + (up ? 1 : -1)); }

template <class T> inline T absval (T x) { return x < T (0) ? T (-x) : x; }
template <> inline uchar absval<uchar> (uchar x) { return x; }

template <class V, bool Approx> struct ApproxCheck
{
    template <class F> static void generic (Ctx&, uint64_t, const V&, const V&, const typename Tr<V>::E*, const typename Tr<V>::E*, Rng&, F&&) {}
    static void directed (Ctx&, uint64_t, const V&, const V&, int, typename Tr<V>::E, typename Tr<V>::E) {}
};
template <class V> struct ApproxCheck<V, true>
{
    typedef typename Tr<V>::E T;
    // aggregate result must be the AND over the slots of the scalar comparison
    template <class F> static void generic (Ctx& c, uint64_t idx, const V& va, const V& vb, const T* a, const T* b, Rng& r, F&& detail)
    {
        constexpr int N = Tr<V>::N;
        T es[3] = {cvt<T> (0), cvt<T> (1), cvt<T> (is_fp_t<T>::value ? 0.125 : 3)};
        T e = es[r.u64 () % 3];
        bool wa = true, wr = true;
        for (int i = 0; i < N; ++i)
        {
            wa = wa && IMATH_INTERNAL_NAMESPACE::equalWithAbsError (a[i], b[i], e);
            wr = wr && IMATH_INTERNAL_NAMESPACE::equalWithRelError (a[i], b[i], e);
        }
        c.eval (2);
        if (va.equalWithAbsError (vb, e) != wa) c.fail ("equalWithAbsError." + Tr<V>::name () + ":and_of_slots", idx, detail);
        if (va.equalWithRelError (vb, e) != wr) c.fail ("equalWithRelError." + Tr<V>::name () + ":and_of_slots", idx, detail);
        c.cls (wa ? "approx_abs_true" : "approx_abs_false");
        c.cls (wr ? "approx_rel_true" : "approx_rel_false");
    }
    // va and vb differ by exactly 1 in slot i only (ai -> bi); tolerances on either side of that
    static void directed (Ctx& c, uint64_t idx, const V& va, const V& vb, int i, T ai, T bi)
    {
        const std::string sl = Tr<V>::slot (i);
        auto d = [&] { return Obj ().kv ("slot", i).kv ("a_i", sval (ai)).kv ("b_i", sval (bi)).str (); };
        T abs_lo, abs_hi, rel_lo, rel_hi;
        if (is_fp_t<T>::value)
        {
            double m = std::max ((double) (float) absval (ai), (double) (float) absval (bi)), mn = std::min ((double) (float) absval (ai), (double) (float) absval (bi));
            abs_lo = cvt<T> (0.5); abs_hi = cvt<T> (2.0);
            rel_lo = cvt<T> (0.5 / m);  // e*|x| <= 0.5 < 1 for both operand orders
            rel_hi = cvt<T> (4.0 / mn); // e*|x| >= 4 > 1 for both operand orders
        }
        else
        {
            abs_lo = T (0); abs_hi = T (2); rel_lo = T (0); rel_hi = T (1); // |x| >= 1 in both operands
        }
        c.eval (10);
        if (va.equalWithAbsError (vb, abs_lo) || vb.equalWithAbsError (va, abs_lo)) c.fail ("equalWithAbsError." + Tr<V>::name () + ":" + sl, idx, d);
        if (!va.equalWithAbsError (vb, abs_hi) || !vb.equalWithAbsError (va, abs_hi)) c.fail ("equalWithAbsError." + Tr<V>::name () + ":" + sl + ".below_tolerance", idx, d);
        if (va.equalWithRelError (vb, rel_lo) || vb.equalWithRelError (va, rel_lo)) c.fail ("equalWithRelError." + Tr<V>::name () + ":" + sl, idx, d);
        if (!va.equalWithRelError (vb, rel_hi) || !vb.equalWithRelError (va, rel_hi)) c.fail ("equalWithRelError." + Tr<V>::name () + ":" + sl + ".below_tolerance", idx, d);
        if (!va.equalWithAbsError (va, abs_lo) || !va.equalWithRelError (va, rel_lo)) c.fail ("equalWithError." + Tr<V>::name () + ":identical_operands", idx, d);
    }
};

// operator== / != against an aggregate of another element type (only where the operator is a template)
template <class V, bool Cross> struct CrossEq
{
    static void run (Ctx&, uint64_t, const V&, const typename Tr<V>::E*, int) {}
};
template <class V> struct CrossEq<V, true>
{
    typedef typename Tr<V>::E T;
    typedef typename std::conditional<std::is_same<T, float>::value, double, float>::type S; // the other type, exact for our values
    typedef typename Tr<V>::template rebind<S> VS;
    static void run (Ctx& c, uint64_t idx, const V& va, const T* b, int i)
    {
        constexpr int N = Tr<V>::N;
        S bs[N], as[N];
        for (int k = 0; k < N; ++k) { bs[k] = S (b[k]); as[k] = S (Tr<V>::at (va, k)); }
        const VS vbs = make<VS> (bs), vas = make<VS> (as);
        c.eval (4);
        auto d = [&] { return Obj ().kv ("slot", i).kv ("other_type", TN<S>::s ()).str (); };
        if ((va == vbs) || !(va != vbs)) c.fail (std::string ("operator==(other element type).") + Tr<V>::name () + ":" + Tr<V>::slot (i), idx, d);
        if (!(va == vas) || (va != vas)) c.fail (std::string ("operator==(other element type).") + Tr<V>::name () + ":identical_operands", idx, d);
    }
};

template <class V> void run_eq (Ctx& c, uint64_t idx)
{
    typedef typename Tr<V>::E T;
    constexpr int N = Tr<V>::N;
    Rng r = c.rng (idx);
    T   a[N], b[N];
    if (idx % 4 == 0)
    {
        // generic: the aggregate comparison is the AND / OR over the slots of the scalar comparison
        const char* cls = gen_eq_values<T> (r, idx / 4, N, a);
        T other[N];
        gen_eq_values<T> (r, idx / 4, N, other);
        unsigned mode = (unsigned) (r.u64 () % 4); // 0: all slots equal, else each slot differs with probability 1/4
        for (int i = 0; i < N; ++i) b[i] = (mode != 0 && r.one_in (4)) ? other[i] : a[i];
        const V va = make<V> (a), vb = make<V> (b);
        bool weq = true, wne = false;
        for (int i = 0; i < N; ++i) { weq = weq && (a[i] == b[i]); wne = wne || (a[i] != b[i]); }
        c.eval (2);
        c.cls (cls);
        c.cls (weq ? "generic_equal" : "generic_different");
        c.nontrivial (hash_vals (hash_vals (2, a, N), b, N));
        auto d = [&] { return Obj ().kv ("class", cls).raw ("a", sarr (a, N)).raw ("b", sarr (b, N)).str (); };
        if ((va == vb) != weq) c.fail ("operator==." + Tr<V>::name () + ":and_of_slots", idx, d);
        if ((va != vb) != wne) c.fail ("operator!=." + Tr<V>::name () + ":or_of_slots", idx, d);
        // approximate comparisons only on finite values (inf-inf, NaN are the scalar function's business, but
        // integer differences must not overflow: gen_eq_values guarantees that)
        ApproxCheck<V, Tr<V>::has_approx>::generic (c, idx, va, vb, a, b, r, d);
        return;
    }
    // directed: only slot i differs, by exactly 1
    PrimePick pp (r);
    constexpr bool sg = std::is_signed<T>::value || is_fp_t<T>::value;
    for (int i = 0; i < N; ++i) { int p = pp ((unsigned) i); a[i] = cvt<T> ((sg && r.coin ()) ? -p : p); b[i] = a[i]; }
    const int  i  = (int) ((idx / 4) % (uint64_t) N);
    const bool up = (idx / 4 / N) & 1;
    b[i] = step1<T> (a[i], up);
    const V va = make<V> (a), vb = make<V> (b), va2 = make<V> (a);
    c.eval (8);
    c.cls ("directed_single_slot");
    c.cls (up ? "directed_up" : "directed_down");
    c.nontrivial (hash_vals (hash_vals (3, a, N), b, N));
    auto d = [&] { return Obj ().raw ("a", sarr (a, N)).raw ("b", sarr (b, N)).kv ("slot", i).str (); };
    const std::string sl = Tr<V>::slot (i);
    if ((va == vb) || (vb == va)) c.fail ("operator==." + Tr<V>::name () + ":" + sl, idx, d);
    if (!(va != vb) || !(vb != va)) c.fail ("operator!=." + Tr<V>::name () + ":" + sl, idx, d);
    if (!(va == va2) || !(va == va)) c.fail ("operator==." + Tr<V>::name () + ":identical_operands", idx, d);
    if ((va != va2) || (va != va)) c.fail ("operator!=." + Tr<V>::name () + ":identical_operands", idx, d);
    ApproxCheck<V, Tr<V>::has_approx>::directed (c, idx, va, vb, i, a[i], b[i]);
    CrossEq<V, Tr<V>::eq_template>::run (c, idx, va, b, i);
}

inline std::vector<std::string> eq_classes (bool fp, bool approx)
{
    std::vector<std::string> v = {"primes", "directed_single_slot", "directed_up", "directed_down", "generic_equal", "generic_different"};
    if (fp) { v.push_back ("signed_zero"); v.push_back ("inf_nan"); v.push_back ("extreme"); }
    else { v.push_back ("zero"); v.push_back ("wide"); }
    if (approx) { v.push_back ("approx_abs_true"); v.push_back ("approx_abs_false"); v.push_back ("approx_rel_true"); v.push_back ("approx_rel_false"); }
    return v;
}

} // namespace c04

// case counts (per aggregate type x element type)
#define C04_OPS_Q 300000
#define C04_OPS_T 20000000
#define C04_EQ_Q 100000
#define C04_EQ_T 4000000

#define C04_REG_OPS(V, tag)                                                                                         \
    MON_SUB_IDX (c04::run_ops<V>, "ops_" tag, C04_OPS_Q, C04_OPS_T)                                                  \
        .req (c04::op_classes<c04::Tr<V>::E> ())                                                                     \
        .over ("every operator spelling of " + c04::Tr<V>::name () + " (binary, compound, self-aliased compound, scalar right/left, unary/negate) on one operand set per index; operand class = idx mod K; each slot compared bitwise with T(a[i] op b[i])")
#define C04_REG_EQ(V, tag)                                                                                          \
    MON_SUB_IDX (c04::run_eq<V>, "eq_" tag, C04_EQ_Q, C04_EQ_T)                                                      \
        .req (c04::eq_classes (c04::is_fp_t<c04::Tr<V>::E>::value, c04::Tr<V>::has_approx))                          \
        .over ("==, != (and equalWithAbsError/RelError where the type has them) of " + c04::Tr<V>::name () + ": idx mod 4 == 0: result = AND/OR over slots of the scalar comparison on values incl. signed zeros, inf, NaN, extremes; otherwise exactly one slot (idx/4 mod N) differs by 1, up or down, tolerances on either side")
