// C06 generators: every matrix is a pure function of the Rng stream and the class selector.
#pragma once

namespace c06
{

// random orthogonal k x k (Gram-Schmidt, two passes) in double
inline void rand_orth (Rng& r, int k, double Q[4][4])
{
    for (int i = 0; i < k; ++i)
    {
        for (;;)
        {
            double v[4];
            for (int j = 0; j < k; ++j) v[j] = r.gauss ();
            for (int pass = 0; pass < 2; ++pass)
                for (int p = 0; p < i; ++p)
                {
                    double d = 0;
                    for (int j = 0; j < k; ++j) d += v[j] * Q[p][j];
                    for (int j = 0; j < k; ++j) v[j] -= d * Q[p][j];
                }
            double nn = 0;
            for (int j = 0; j < k; ++j) nn += v[j] * v[j];
            if (nn < 1e-6) continue; // (practically never) draw again
            nn = std::sqrt (nn);
            for (int j = 0; j < k; ++j) Q[i][j] = v[j] / nn;
            break;
        }
    }
}

// B = U diag(s) V^T * scale, rounded to T
template <class T> inline void usv_block (Rng& r, int k, const double s[4], double scale, T B[4][4])
{
    double U[4][4], V[4][4];
    rand_orth (r, k, U);
    rand_orth (r, k, V);
    for (int i = 0; i < k; ++i)
        for (int j = 0; j < k; ++j)
        {
            long double acc = 0;
            for (int p = 0; p < k; ++p) acc += (long double) U[i][p] * s[p] * V[j][p];
            B[i][j] = (T) (acc * scale);
        }
}

enum Kind
{
    K_RANDOM = 0, // dense uniform entries: well conditioned with overwhelming probability
    K_GRADED,     // U diag(s) V^T, smallest singular value 10^-k, k up to 2.1*(-log10 eps)
    K_SVGAP,      // U diag(1, 10^-a, 10^-b[, ..]) V^T: two small singular values (known finding *:sv_gap)
    K_LATTICE,    // integer entries -8..8 (often zero diagonal)
    K_UNIMOD,     // integer matrix with determinant exactly +-1
    K_PIVOT,      // signed permutation times diagonally dominant: zero / tiny diagonal, negative pivots
    K_DETNEAR1,   // |det| within a factor (1+delta)^k of 1, both sides and exactly on it
    K_SCALE,      // random or graded, whole matrix scaled by 2^e, e in [-20,20]
    K_COUNT
};
inline const char* kind_name (int k)
{
    static const char* n[] = {"random", "graded_cond", "sv_gap", "lattice", "det_exactly_pm1", "needs_pivot", "det_near_1", "scale_sweep"};
    return n[k];
}

// fill the leading k x k block of B according to `kind`; `sel` is a deterministic sub-selector (case index / period)
template <class T> inline void gen_block (Rng& r, int kind, int k, uint64_t sel, T B[4][4])
{
    const double la = -std::log10 (eps_of<T>::value);
    switch (kind)
    {
        case K_RANDOM:
        {
            double sc = std::ldexp (1.0, (int) r.range (-2, 2));
            for (int i = 0; i < k; ++i) for (int j = 0; j < k; ++j) B[i][j] = (T) (r.sym () * sc);
            break;
        }
        case K_GRADED:
        case K_SCALE:
        {
            double s[4] = {1, 1, 1, 1};
            double kk   = r.uniform (0.0, 2.1 * la);
            if (kind == K_SCALE) kk = r.uniform (0.0, 0.6 * la);
            if (sel % 5 == 0) kk = (double) ((sel / 5) % (uint64_t) (2.1 * la + 1)); // grid cond = 10^0, 10^1, ...
            s[k - 1] = std::pow (10.0, -kk);
            for (int i = 1; i < k - 1; ++i) s[i] = std::pow (10.0, -r.uniform (0.0, kk));
            if (k == 4 && s[2] > s[1]) std::swap (s[1], s[2]);
            double sc = kind == K_SCALE ? std::ldexp (1.0 + r.uniform (), (int) (sel % 41) - 20) : std::ldexp (1.0, (int) r.range (-2, 2));
            usv_block<T> (r, k, s, sc, B);
            break;
        }
        case K_SVGAP:
        {
            double s[4] = {1, 1, 1, 1};
            if (k >= 3)
            {
                double a = r.uniform (0.2 * la, 0.4 * la), b = a + r.uniform (0.0, 0.13 * la);
                if (sel % 4 == 0) { a = 0.32 * la; b = a + 1.0; } // double: (1, 1e-5, 1e-6); float: (1, 5.8e-3, 5.8e-4)
                // the two small values go LAST among the first three; a 4th value (k == 4) stays at 1 or joins the small ones
                s[1] = std::pow (10.0, -a);
                s[2] = std::pow (10.0, -b);
                if (k == 4) { s[3] = s[2]; s[2] = s[1]; s[1] = r.coin () ? 1.0 : s[2]; }
            }
            else
                s[1] = std::pow (10.0, -r.uniform (0.0, 0.5 * la));
            usv_block<T> (r, k, s, std::ldexp (1.0, (int) r.range (-1, 1)), B);
            break;
        }
        case K_LATTICE:
        {
            for (int i = 0; i < k; ++i) for (int j = 0; j < k; ++j) B[i][j] = (T) (double) r.range (-8, 8);
            if (sel % 2 == 0) for (int i = 0; i < k; ++i) if (r.coin ()) B[i][i] = 0;
            break;
        }
        case K_UNIMOD:
        {
            // signed permutation, then integer shears: determinant stays exactly +-1
            int64_t m[4][4] = {};
            int     perm[4] = {0, 1, 2, 3};
            for (int i = k - 1; i > 0; --i) std::swap (perm[i], perm[(int) r.range (0, i)]);
            for (int i = 0; i < k; ++i) m[i][perm[i]] = r.coin () ? 1 : -1;
            int nshear = (int) r.range (1, 5);
            for (int t = 0; t < nshear; ++t)
            {
                int i = (int) r.range (0, k - 1), j = (int) r.range (0, k - 2);
                if (j >= i) ++j;
                int64_t f = r.range (-2, 2);
                if (r.coin ()) for (int c = 0; c < k; ++c) m[i][c] += f * m[j][c];
                else for (int c = 0; c < k; ++c) m[c][i] += f * m[c][j];
            }
            for (int i = 0; i < k; ++i) for (int j = 0; j < k; ++j) B[i][j] = (T) (double) m[i][j];
            break;
        }
        case K_PIVOT:
        {
            int perm[4] = {0, 1, 2, 3};
            // a derangement-ish permutation: rotate by 1..k-1 so that no diagonal entry is the dominant one
            int rot = 1 + (int) (sel % (uint64_t) (k - 1 > 0 ? k - 1 : 1));
            for (int i = 0; i < k; ++i) perm[i] = (i + rot) % k;
            double noise = (sel / 4) % 3 == 0 ? 0.0 : ((sel / 4) % 3 == 1 ? 1e-3 : 0.2);
            for (int i = 0; i < k; ++i)
                for (int j = 0; j < k; ++j)
                {
                    double v = r.sym () * noise;
                    if (j == perm[i]) v = -(1.0 + r.uniform ()) * (r.one_in (4) ? -1.0 : 1.0); // dominant entries mostly NEGATIVE
                    B[i][j] = (T) v;
                }
            break;
        }
        case K_DETNEAR1:
        default:
        {
            static const double deltas[] = {0.0, 9.765625e-4, -9.765625e-4, 9.5367431640625e-7, -9.5367431640625e-7, 1e-3, -1e-3, 0.3, -0.3, 0.0};
            double              A[4][4];
            double              d = 0;
            for (int tries = 0; tries < 20; ++tries)
            {
                for (int i = 0; i < k; ++i) for (int j = 0; j < k; ++j) A[i][j] = r.sym ();
                for (int i = 0; i < k; ++i) A[i][i] += r.coin () ? 1.5 : -1.5; // keeps the block comfortably regular
                Arr<long double> W (k);
                for (int i = 0; i < k; ++i) for (int j = 0; j < k; ++j) W.a[i][j] = A[i][j];
                Ref<long double> rf = ref_inverse (W);
                d                   = (double) rf.det;
                if (std::fabs (d) > 1e-2) break;
            }
            double f = std::pow (std::fabs (d), -1.0 / k) * (1.0 + deltas[sel % 10]);
            for (int i = 0; i < k; ++i) for (int j = 0; j < k; ++j) B[i][j] = (T) (A[i][j] * f);
            break;
        }
    }
}

// assemble the n x n matrix: full (k = n) or affine embedding (k = n-1, last column (0,..,0,1), translation row)
// (when `near_affine_ok`, every 5th affine matrix gets a last column that only LOOKS affine: (0,..,0,w) with w != 1, or one
//  of the zeros replaced by 1/4 -- these must take the general path)
template <class T> inline Arr<T> gen_matrix (Rng& r, int n, int kind, bool affine, uint64_t sel, bool near_affine_ok = true)
{
    Arr<T> m (n);
    T      B[4][4] = {};
    if (!affine || n == 2)
    {
        gen_block<T> (r, kind, n, sel, B);
        for (int i = 0; i < n; ++i) for (int j = 0; j < n; ++j) m.a[i][j] = B[i][j];
        return m;
    }
    gen_block<T> (r, kind, n - 1, sel, B);
    for (int i = 0; i < n - 1; ++i) for (int j = 0; j < n - 1; ++j) m.a[i][j] = B[i][j];
    for (int i = 0; i < n - 1; ++i) m.a[i][n - 1] = T (0);
    m.a[n - 1][n - 1] = T (1);
    bool integer = (kind == K_LATTICE || kind == K_UNIMOD);
    double tscale = std::ldexp (1.0, (int) r.range (-3, 3));
    for (int j = 0; j < n - 1; ++j) m.a[n - 1][j] = integer ? (T) (double) r.range (-8, 8) : (T) (r.sym () * tscale);
    if (sel % 7 == 3) for (int j = 0; j < n - 1; ++j) m.a[n - 1][j] = T (0); // pure linear map
    if (near_affine_ok && sel % 5 == 4)
    {
        static const double w[3] = {2.0, 0.5, -1.0};
        int                 v    = (int) ((sel / 5) % 4);
        if (v < 3) m.a[n - 1][n - 1] = (T) w[v];
        else m.a[(sel / 20) % (uint64_t) (n - 1)][n - 1] = (T) 0.25;
    }
    return m;
}

} // namespace c06
