// C12, family C - procrustesRotationAndTranslation (weighted / unweighted, with /
// without uniform scale, V3f / V3d input; the result is always an M44d).
//
// (1) "exact" sub-checks: B_i = s * A_i * R + t holds EXACTLY for the stored
//     points (integer-lattice points and rational rotations from integer
//     quaternions, dyadic scales, integer translations - exact in float too),
//     or up to the rounding of B to T ("real" classes).  The result must be that
//     transform: linear part, translation and image of every point, tolerance
//     C * eps * K with K = big * spread1 / spread2^2 (big: largest coordinate,
//     spread_i: weighted RMS extent of A along its i-th principal axis), the
//     conditioning of the singular vectors the rotation is built from; K > 1e6
//     is counted and skipped.  For point sets that do not determine
//     the rotation (1 point, collinear) only "maps every A_i onto B_i" is judged.
// (2) "optimal" sub-checks: no exact transform exists; the result must be a
//     proper (det > 0) uniformly scaled rotation + translation, and none of 64
//     small rotations about the centroid of B (8 axes x angles 1e-1..1e-8) may
//     reduce the weighted residual sum_i w_i |A_i M - B_i|^2.  With
//     u_i = A_i M - bc, v_i = B_i - bc and K = sum w_i u_i^T v_i the reduction is
//     exactly 2 tr((dR - I)^T K), which is evaluated in long double without
//     cancellation.  Inputs whose optimum is not unique (rank <= 1 correlation,
//     or equal smallest singular values with negative determinant) are counted
//     and skipped.
#include "c12_common.h"
#include <ImathMatrixAlgo.h>

using namespace mon;
using namespace c12;
using namespace IMATH_NAMESPACE;

namespace
{

// calibrated constants; worst ratios observed on the pristine tree (thorough tier): exact classes 8.2,
// rounded classes 0.29 (float) / 4.6 (double), structure 2.7e-15, residual gain: never positive
const LD C_EXACT     = 128;   // exact classes: errors in units of eps_double * K
const LD C_ROUNDED   = 64;    // "real" classes: units of eps_T * K (B is rounded to T)
const LD C_STRUCT    = 1e-13; // |L L^T / s^2 - I|, |s - 1| without scaling (double arithmetic inside)
const LD TOL_IMPROVE_REL = 1e-9;  // allowed residual reduction relative to the residual
const LD TOL_IMPROVE_ABS = 1e-22; // ... plus this times sum w |u||v|

const LD EPS_D = (LD) std::numeric_limits<double>::epsilon ();
template <class T> LD epsT () { return (LD) std::numeric_limits<T>::epsilon (); }

struct P3 { LD v[3]; };

template <class T>
struct Data
{
    std::vector<Vec3<T>> A, B;
    std::vector<T>       w;       // used if weighted
    bool                 weighted = false, doScale = false;
    // the generating transform (exact classes)
    Mat<3> R = ident<3> ();
    LD     s = 1, t[3] = {0, 0, 0};
};

template <class T>
M44d
run (const Data<T>& d)
{
    size_t n = d.A.size ();
    if (d.weighted) return procrustesRotationAndTranslation (d.A.data (), d.B.data (), d.w.data (), n, d.doScale);
    return procrustesRotationAndTranslation (d.A.data (), d.B.data (), n, d.doScale);
}

template <class T>
uint64_t
hash_data (const Data<T>& d)
{
    uint64_t h = d.weighted * 2 + d.doScale;
    for (size_t i = 0; i < d.A.size (); ++i)
    {
        for (int j = 0; j < 3; ++j) h = hash_combine (h, hash_combine (d2u ((double) d.A[i][j]), d2u ((double) d.B[i][j])));
        if (d.weighted) h = hash_combine (h, d2u ((double) d.w[i]));
    }
    return h;
}

template <class T>
std::string
data_json (const Data<T>& d, size_t maxpts = 12)
{
    std::string a = "[", b = "[", w = "[";
    for (size_t i = 0; i < d.A.size () && i < maxpts; ++i)
    {
        if (i) { a += ","; b += ","; w += ","; }
        a += "[" + jnum ((double) d.A[i].x) + "," + jnum ((double) d.A[i].y) + "," + jnum ((double) d.A[i].z) + "]";
        b += "[" + jnum ((double) d.B[i].x) + "," + jnum ((double) d.B[i].y) + "," + jnum ((double) d.B[i].z) + "]";
        w += d.weighted ? jnum ((double) d.w[i]) : "1";
    }
    return Obj ().kv ("numPoints", (unsigned long) d.A.size ()).kv ("weighted", d.weighted).kv ("doScale", d.doScale).raw ("A", a + "]").raw ("B", b + "]").raw ("w", w + "]").str ();
}

// weighted statistics of the stored points, in long double
struct Stats
{
    LD W = 0, ac[3] = {0, 0, 0}, bc[3] = {0, 0, 0};
    LD lamA[3] = {0, 0, 0}; // eigenvalues of sum w (a-ac)(a-ac)^T, descending
    LD big = 0;             // largest |coordinate| of A (scaled by s) and B among points with w > 0
};

template <class T>
Stats
stats (const Data<T>& d, LD s)
{
    Stats  st;
    size_t n = d.A.size ();
    for (size_t i = 0; i < n; ++i)
    {
        LD w = d.weighted ? (LD) d.w[i] : 1.0L;
        st.W += w;
        for (int j = 0; j < 3; ++j) { st.ac[j] += w * (LD) d.A[i][j]; st.bc[j] += w * (LD) d.B[i][j]; }
    }
    if (st.W > 0) for (int j = 0; j < 3; ++j) { st.ac[j] /= st.W; st.bc[j] /= st.W; }
    Mat<3> sc = zero<3> ();
    for (size_t i = 0; i < n; ++i)
    {
        LD w = d.weighted ? (LD) d.w[i] : 1.0L;
        if (w == 0) continue;
        for (int j = 0; j < 3; ++j)
        {
            st.big = std::max (st.big, std::max (fabsl (s * (LD) d.A[i][j]), fabsl ((LD) d.B[i][j])));
            for (int k = 0; k < 3; ++k) sc[j][k] += w * ((LD) d.A[i][j] - st.ac[j]) * ((LD) d.A[i][k] - st.ac[k]);
        }
    }
    ref_sym_eigenvalues (sc, st.lamA);
    std::sort (st.lamA, st.lamA + 3, [] (LD x, LD y) { return x > y; });
    for (int j = 0; j < 3; ++j) if (st.lamA[j] < 0) st.lamA[j] = 0;
    return st;
}

// common structural judgement: affine, linear part = s * proper rotation.  Returns s (or -1).
template <class F>
LD
judge_structure (Ctx& c, const std::string& fn, uint64_t idx, const M44d& M, bool doScale, F describe)
{
    Mat<4> m = toLD (M);
    if (!all_finite (m)) { c.fail (fn + ":non_finite_result", idx, describe ("NaN/inf in the result", 0)); return -1; }
    if (!(M[0][3] == 0 && M[1][3] == 0 && M[2][3] == 0 && M[3][3] == 1)) c.fail (fn + ":last_column", idx, describe ("last column is not (0,0,0,1)", 0));
    Mat<3> L = topleft<3> (m), G = mul (L, transpose (L));
    LD     s2 = (G[0][0] + G[1][1] + G[2][2]) / 3;
    if (!(s2 > 0))
    {
        // scale 0 is the legitimate optimum when tr(Q^T C) = 0; nothing else to check then
        if (doScale && maxabs (L) == 0) return 0;
        c.fail (fn + ":linear_part_not_a_scaled_rotation", idx, describe ("L L^T has no positive trace", s2));
        return -1;
    }
    LD dev = 0;
    for (int i = 0; i < 3; ++i) for (int j = 0; j < 3; ++j) dev = std::max (dev, fabsl (G[i][j] / s2 - (i == j ? 1 : 0)));
    c.worst ("structure.|LL^T/s^2-I|", (double) dev, idx);
    if (!(dev <= C_STRUCT)) c.fail (fn + ":linear_part_not_a_scaled_rotation", idx, describe ("max|L L^T / s^2 - I|", dev));
    if (!(det (L) > 0)) c.fail (fn + ":reflection_returned", idx, describe ("det of the linear part <= 0", det (L)));
    LD s = sqrtl (s2);
    if (!doScale)
    {
        c.worst ("structure.|s-1|_noscale", (double) fabsl (s - 1), idx);
        if (!(fabsl (s - 1) <= C_STRUCT)) c.fail (fn + ":scaled_although_doScale_false", idx, describe ("|s - 1|", fabsl (s - 1)));
    }
    return s;
}

// =================================================================== (1) exact transforms
enum { NEX = 12 };
const char* const ex_names[NEX] = {"lattice_rigid", "lattice_similarity", "real_rigid", "real_similarity", "single_point", "two_points", "collinear",
                                   "coplanar", "zero_weights", "coincident_points", "many_points", "wide_weights"};

// integer quaternion -> n * R (integer matrix) and n
void
int_rotation (Rng& r, LD Rn[3][3], LD& n)
{
    int64_t q[4];
    do { for (int i = 0; i < 4; ++i) q[i] = r.range (-3, 3); } while (q[0] == 0 && q[1] == 0 && q[2] == 0 && q[3] == 0);
    LD w = (LD) q[0], x = (LD) q[1], y = (LD) q[2], z = (LD) q[3];
    n = w * w + x * x + y * y + z * z;
    Rn[0][0] = n - 2 * (y * y + z * z); Rn[0][1] = 2 * (x * y + w * z);     Rn[0][2] = 2 * (x * z - w * y);
    Rn[1][0] = 2 * (x * y - w * z);     Rn[1][1] = n - 2 * (x * x + z * z); Rn[1][2] = 2 * (y * z + w * x);
    Rn[2][0] = 2 * (x * z + w * y);     Rn[2][1] = 2 * (y * z - w * x);     Rn[2][2] = n - 2 * (x * x + y * y);
}

// rank of the centred point set by construction: 3/2 -> rotation determined, 1 -> collinear, 0 -> a single location
template <class T>
int
gen_exact (Rng& r, uint64_t idx, Data<T>& d, const char*& cls, bool& rounded)
{
    int k = (int) (idx % NEX);
    cls   = ex_names[k];
    d.weighted = (idx / NEX) & 1;
    d.doScale  = (idx / (2 * NEX)) & 1;
    rounded    = (k == 2 || k == 3);
    if (k == 8 || k == 11) d.weighted = true;
    if (k == 1 || k == 3) d.doScale = true;
    int n = (int) r.range (3, 12), rank = 3;
    if (k == 4) { n = 1; rank = 0; }
    if (k == 5) { n = 2; rank = 1; }
    if (k == 6) rank = 1;
    if (k == 7) rank = 2;
    if (k == 9) { rank = 0; n = (int) r.range (2, 6); }
    if (k == 10) n = (int) r.range (50, 200);
    if (k == 8) n = (int) r.range (6, 14);
    d.A.resize (n); d.B.resize (n); d.w.assign (n, (T) 1);
    if (d.weighted)
        for (int i = 0; i < n; ++i) d.w[i] = k == 11 ? (T) std::ldexp (1.0 + r.uniform (), (int) r.range (-12, 12)) : (T) (0.25 + 4 * r.uniform ());
    // local integer coordinates of the points (rank-restricted), later mapped into 3-D by an integer basis
    std::vector<P3> P (n);
    for (int i = 0; i < n; ++i)
    {
        for (int j = 0; j < 3; ++j) P[i].v[j] = (LD) r.range (-20, 20);
        if (rank <= 2) P[i].v[2] = 0;
        if (rank <= 1) P[i].v[1] = 0;
        if (rank == 0) P[i] = P[0];
    }
    if (rank >= 1 && rank <= 2)
    {
        // make sure the restricted set really has that rank: fix two/three points
        P[0].v[0] = 0; P[0].v[1] = 0;
        P[1].v[0] = (LD) r.range (1, 20); if (rank == 2) P[1].v[1] = 0;
        if (rank == 2) { P[2].v[0] = (LD) r.range (-20, 20); P[2].v[1] = (LD) r.range (1, 20) * (r.coin () ? 1 : -1); }
    }
    else if (rank == 3)
    {
        LD base[4][3] = {{0, 0, 0}, {(LD) r.range (3, 20), 0, 0}, {(LD) r.range (-20, 20), (LD) r.range (3, 20), 0}, {(LD) r.range (-20, 20), (LD) r.range (-20, 20), (LD) r.range (3, 20)}};
        for (int i = 0; i < 4 && i < n; ++i) for (int j = 0; j < 3; ++j) P[i].v[j] = base[i][j];
        if (n < 4) rank = 2; // three points: coplanar
    }
    if (!rounded)
    {
        // lattice: A = n * (P * basis + offset), B = s * (A * R) + t, everything an exactly representable integer / dyadic
        LD Rn[3][3], nn, Bn[3][3], bn;
        int_rotation (r, Rn, nn);
        int_rotation (r, Bn, bn); // a second rational rotation used as (non axis-aligned) integer basis for degenerate sets
        bool axis_basis = r.coin ();
        LD off[3] = {(LD) r.range (-10, 10), (LD) r.range (-10, 10), (LD) r.range (-10, 10)};
        LD s = 1;
        // similarity: always in class 1, and in half of the doScale cases of every other lattice class
        // (2 points, collinear, coplanar, zero weights, ...): the scale must be recovered there too
        if (k == 1 || (d.doScale && r.coin ())) { static const LD ss[6] = {0.25L, 0.5L, 2, 3, 5, 0.125L}; s = ss[r.range (0, 5)]; }
        for (int j = 0; j < 3; ++j) d.t[j] = (LD) r.range (-1000, 1000);
        d.s = s;
        for (int i = 0; i < 3; ++i) for (int j = 0; j < 3; ++j) d.R[i][j] = Rn[i][j] / nn;
        for (int i = 0; i < n; ++i)
        {
            // p = P * basis + offset (integers, |p| <= 20*36*3 + 10); A = n p, so that A R = p (n R) is integral
            LD p[3];
            for (int j = 0; j < 3; ++j)
            {
                LD x = 0;
                if (axis_basis) x = P[i].v[j];
                else for (int m = 0; m < 3; ++m) x += P[i].v[m] * Bn[m][j];
                p[j] = x + off[j];
            }
            for (int j = 0; j < 3; ++j) d.A[i][j] = (T) (p[j] * nn);
            for (int j = 0; j < 3; ++j)
            {
                LD b = 0;
                for (int m = 0; m < 3; ++m) b += p[m] * Rn[m][j];
                d.B[i][j] = (T) (b * s + d.t[j]); // |.| < 2^21, multiples of 1/8: exact in float
            }
        }
    }
    else
    {
        d.R = random_rotation3 (r);
        d.s = k == 3 ? expl ((LD) r.sym (2.0)) : 1.0L;
        LD spread = expl ((LD) r.sym (3.0));
        for (int j = 0; j < 3; ++j) d.t[j] = (LD) r.sym (10.0) * spread;
        Mat<3> basis = random_rotation3 (r);
        for (int i = 0; i < n; ++i)
        {
            for (int j = 0; j < 3; ++j)
            {
                LD x = 0;
                for (int m = 0; m < 3; ++m) x += (i < 4 ? P[i].v[m] / 10 : (LD) r.gauss ()) * basis[m][j];
                d.A[i][j] = (T) (x * spread);
            }
            for (int j = 0; j < 3; ++j)
            {
                LD b = 0;
                for (int m = 0; m < 3; ++m) b += (LD) d.A[i][m] * d.R[m][j];
                d.B[i][j] = (T) (b * d.s + d.t[j]);
            }
        }
    }
    if (k == 8)
    {
        // zero-weight points carry unrelated B's and must be ignored
        int nz = (int) r.range (1, n - 5);
        for (int i = 0; i < nz; ++i)
        {
            int p = 4 + (int) r.range (0, n - 5); // keep the four base points
            d.w[p] = 0;
            for (int j = 0; j < 3; ++j) d.B[p][j] = (T) r.range (-5000, 5000);
        }
    }
    return rank;
}

template <class T>
void
sub_exact (Ctx& c, uint64_t idx)
{
    const std::string fn = std::string ("procrustes.") + tname<T>::s ();
    Rng               r  = c.rng (idx);
    Data<T>           d;
    const char*       cls;
    bool              rounded;
    int               rank = gen_exact<T> (r, idx, d, cls, rounded);
    c.eval ();
    auto describe = [&] (const char* what, LD ratio) { return [&, what, ratio] { return Obj ().kv ("class", cls).kv ("what", what).raw ("input", data_json (d)).kv ("ratio", (double) ratio).str (); }; };
    if (rank == 0 && d.doScale && d.A.size () > 1)
    {
        // coincident points: every scale is optimal (the library divides 0 by 0) - not unique, not judged
        c.cls ("skipped_scale_not_unique");
        (void) run (d);
        return;
    }
    c.cls (cls);
    c.cls (d.weighted ? "weighted" : "unweighted");
    c.cls (d.doScale ? "doScale" : "rigid");
    c.nontrivial (hash_data (d));
    M44d M = run (d);
    LD   sgot = judge_structure (c, fn, idx, M, d.doScale, describe);
    if (sgot < 0) return;
    Stats st = stats (d, d.s);
    // conditioning of the problem.  The library centres the points (absolute error eps*big per coordinate),
    // accumulates C = sum w (b-bc)(a-ac)^T (singular values W s spread_i^2) and takes the singular vectors of
    // the two largest singular values: rotation error ~ eps * big * spread1 / spread2^2 (rank >= 2), resp.
    // eps * big / spread1 for a collinear set (only the direction of the line is determined).
    LD sp1 = sqrtl (st.lamA[0] / st.W) * d.s, sp2 = sqrtl (st.lamA[1] / st.W) * d.s;
    if ((rank >= 1 && !(sp1 > 0)) || (rank >= 2 && !(sp2 > 0))) { c.cls ("skipped_degenerate_by_rounding"); return; }
    LD K = (rank == 0 || st.big == 0) ? 1 : std::max ((LD) 1, rank >= 2 ? st.big * sp1 / (sp2 * sp2) : st.big / sp1);
    if (K > 1e6L) { c.cls ("skipped_illconditioned_point_set"); return; }
    LD unit = (rounded ? epsT<T> () : EPS_D) * K;
    LD C    = rounded ? C_ROUNDED : C_EXACT;
    Mat<4> m = toLD (M);
    // (a) every point with non-zero weight is mapped onto its partner
    LD maperr = 0;
    for (size_t i = 0; i < d.A.size (); ++i)
    {
        if (d.weighted && d.w[i] == 0) continue;
        for (int j = 0; j < 3; ++j)
        {
            LD x = m[3][j];
            for (int k = 0; k < 3; ++k) x += (LD) d.A[i][k] * m[k][j];
            maperr = std::max (maperr, fabsl (x - (LD) d.B[i][j]));
        }
    }
    LD big = st.big > 0 ? st.big : 1;
    LD qm  = maperr / big / unit;
    c.worst (rounded ? "rounded.map_error/(eps_T*K*scale)" : "exact.map_error/(eps_d*K*scale)", (double) qm, idx, [&] { return Obj ().kv ("class", cls).kv ("K", (double) K).kv ("n", (unsigned long) d.A.size ()).str (); });
    if (!(qm <= C)) c.fail (fn + ":points_not_mapped_onto_partners", idx, describe ("max |A_i M - B_i| / (scale * eps * K)", qm));
    // (b) the transform itself, when the point set determines it
    if (rank >= 2)
    {
        LD le = 0;
        for (int i = 0; i < 3; ++i) for (int j = 0; j < 3; ++j) le = std::max (le, fabsl (m[i][j] - d.s * d.R[i][j]));
        LD ql = le / d.s / unit;
        c.worst (rounded ? "rounded.linear_error/(eps_T*K)" : "exact.linear_error/(eps_d*K)", (double) ql, idx, [&] { return Obj ().kv ("class", cls).kv ("K", (double) K).kv ("n", (unsigned long) d.A.size ()).str (); });
        if (!(ql <= C)) c.fail (fn + ":linear_part_differs_from_the_transform", idx, describe ("max |L - s R| / (s * eps * K)", ql));
        LD te = 0;
        for (int j = 0; j < 3; ++j) te = std::max (te, fabsl (m[3][j] - d.t[j]));
        LD qt = te / big / unit;
        c.worst (rounded ? "rounded.translation_error/(eps_T*K*scale)" : "exact.translation_error/(eps_d*K*scale)", (double) qt, idx, [&] { return Obj ().kv ("class", cls).kv ("K", (double) K).str (); });
        if (!(qt <= C)) c.fail (fn + ":translation_differs_from_the_transform", idx, describe ("max |t_got - t| / (scale * eps * K)", qt));
    }
    else c.cls ("rotation_not_determined_points_only");
    if (c.verbose) std::fprintf (stderr, "[replay] class=%s rank=%d K=%Lg map=%Lg (units of C-less tolerance) s_got=%Lg s=%Lg\n", cls, rank, K, qm, sgot, d.s);
    if (idx % 499 < (uint64_t) NEX) c.sample (cls, [&] { return Obj ().raw ("input", data_json (d, 6)).raw ("result", mat_json (M)).str (); });
}

// =================================================================== (2) first-order optimality
struct Thetas
{
    LD th[9], sn[9], omc[9];
    Thetas ()
    {
        for (int i = 0; i < 9; ++i)
        {
            th[i]  = powl (10.0L, -(LD) i);
            sn[i]  = sinl (th[i]);
            LD hc  = sinl (th[i] / 2);
            omc[i] = 2 * hc * hc; // 1 - cos without cancellation
        }
    }
};
const Thetas thetas;

enum { NOPT = 8 };
const char* const opt_names[NOPT] = {"noise_small", "noise_medium", "unrelated", "reflected", "coplanar_noise", "affine_nonrigid", "rounded_exact", "collinear_noise"};

template <class T>
void
sub_optimal (Ctx& c, uint64_t idx)
{
    const std::string fn = std::string ("procrustes.") + tname<T>::s ();
    Rng               r  = c.rng (idx);
    int               k  = (int) (idx % NOPT);
    const char*       cls = opt_names[k];
    Data<T>           d;
    d.weighted = (idx / NOPT) & 1;
    d.doScale  = (idx / (2 * NOPT)) & 1;
    int n = (int) r.range (3, 24);
    if (r.one_in (16)) n = (int) r.range (1, 2);
    d.A.resize (n); d.B.resize (n); d.w.assign (n, (T) 1);
    if (d.weighted) for (int i = 0; i < n; ++i) d.w[i] = r.one_in (10) ? (T) 0 : (T) std::ldexp (1.0 + r.uniform (), (int) r.range (-6, 6));
    Mat<3> R = random_rotation3 (r), basis = random_rotation3 (r), G;
    for (int i = 0; i < 3; ++i) for (int j = 0; j < 3; ++j) G[i][j] = r.gauss ();
    LD s = d.doScale ? expl ((LD) r.sym (1.5)) : 1.0L, spread = expl ((LD) r.sym (3.0)), t[3];
    for (int j = 0; j < 3; ++j) t[j] = (LD) r.sym (10.0) * spread;
    LD noise = k == 0 ? powl (10.0L, -(LD) r.uniform (3, 6)) : k == 1 ? powl (10.0L, -(LD) r.uniform (0.5, 2)) : k == 6 ? 0 : powl (10.0L, -(LD) r.uniform (1, 3));
    if (k == 3) for (int j = 0; j < 3; ++j) R[0][j] = -R[0][j]; // improper
    for (int i = 0; i < n; ++i)
    {
        LD p[3] = {(LD) r.gauss (), (LD) r.gauss (), (LD) r.gauss ()};
        if (k == 4) p[2] = 0;
        if (k == 7) p[1] = p[2] = 0;
        for (int j = 0; j < 3; ++j)
        {
            LD x = 0;
            for (int m = 0; m < 3; ++m) x += p[m] * basis[m][j];
            d.A[i][j] = (T) (x * spread + (k == 7 ? 0 : 0));
        }
        for (int j = 0; j < 3; ++j)
        {
            LD b = 0;
            for (int m = 0; m < 3; ++m) b += (LD) d.A[i][m] * (k == 5 ? G[m][j] : R[m][j]);
            b = b * s + t[j] + noise * spread * s * (LD) r.gauss ();
            if (k == 2) b = (LD) r.gauss () * spread + t[j];
            d.B[i][j] = (T) b;
        }
    }
    c.eval ();
    auto describe = [&] (const char* what, LD ratio) { return [&, what, ratio] { return Obj ().kv ("class", cls).kv ("what", what).raw ("input", data_json (d)).kv ("ratio", (double) ratio).str (); }; };
    Stats st = stats (d, 1);
    // reference correlation matrix sum w (b-bc)^T... (rows: a, columns: b) and its singular values
    Mat<3> Cm = zero<3> ();
    for (int i = 0; i < n; ++i)
    {
        LD w = d.weighted ? (LD) d.w[i] : 1.0L;
        for (int j = 0; j < 3; ++j) for (int m = 0; m < 3; ++m) Cm[j][m] += w * ((LD) d.A[i][j] - st.ac[j]) * ((LD) d.B[i][m] - st.bc[m]);
    }
    LD sv2[3];
    ref_sym_eigenvalues (mul (transpose (Cm), Cm), sv2);
    std::sort (sv2, sv2 + 3, [] (LD x, LD y) { return x > y; });
    LD sg[3];
    for (int j = 0; j < 3; ++j) sg[j] = sqrtl (std::max ((LD) 0, sv2[j]));
    LD dsign = det (Cm) < 0 ? -1 : 1;
    bool unique = st.W > 0 && sg[0] > 0 && (sg[1] + dsign * sg[2]) >= 1e-6L * sg[0];
    if (d.doScale && !(st.lamA[0] > 0)) unique = false;
    M44d M = run (d);
    if (!unique)
    {
        c.cls ("skipped_optimum_not_unique");
        return;
    }
    c.cls (cls);
    c.cls (d.weighted ? "weighted" : "unweighted");
    c.cls (d.doScale ? "doScale" : "rigid");
    if (dsign < 0) c.cls ("best_orthogonal_map_is_a_reflection");
    c.nontrivial (hash_data (d));
    LD sgot = judge_structure (c, fn, idx, M, d.doScale, describe);
    if (sgot < 0) return;
    // K = sum w u^T v, E0 = sum w |u - v|^2
    Mat<4> m = toLD (M);
    Mat<3> K = zero<3> ();
    LD     E0 = 0, Ksum = 0;
    for (int i = 0; i < n; ++i)
    {
        LD w = d.weighted ? (LD) d.w[i] : 1.0L;
        if (w == 0) continue;
        LD u[3], v[3], uu = 0, vv = 0;
        for (int j = 0; j < 3; ++j)
        {
            LD x = m[3][j];
            for (int q = 0; q < 3; ++q) x += (LD) d.A[i][q] * m[q][j];
            u[j] = x - st.bc[j];
            v[j] = (LD) d.B[i][j] - st.bc[j];
            E0 += w * (u[j] - v[j]) * (u[j] - v[j]);
            uu += u[j] * u[j]; vv += v[j] * v[j];
        }
        Ksum += w * sqrtl (uu * vv);
        for (int j = 0; j < 3; ++j) for (int q = 0; q < 3; ++q) K[j][q] += w * u[j] * v[q];
    }
    LD worst_gain = 0, worst_theta = 0;
    for (int ai = 0; ai < 8; ++ai)
    {
        LD ax[3] = {0, 0, 0};
        if (ai < 6) ax[ai % 3] = ai < 3 ? 1 : -1;
        else { LD l = 0; for (int j = 0; j < 3; ++j) { ax[j] = r.gauss (); l += ax[j] * ax[j]; } l = sqrtl (l); if (l < 1e-6L) { ax[0] = 1; ax[1] = ax[2] = 0; l = 1; } for (int j = 0; j < 3; ++j) ax[j] /= l; }
        // cross-product matrix N (row vectors: p -> p N = p x axis ... sign immaterial, both signs of the axis are used)
        Mat<3> N = zero<3> ();
        N[0][1] = ax[2]; N[0][2] = -ax[1]; N[1][0] = -ax[2]; N[1][2] = ax[0]; N[2][0] = ax[1]; N[2][1] = -ax[0];
        Mat<3> N2 = mul (N, N);
        for (int ti = 1; ti <= 8; ++ti)
        {
            LD th = thetas.th[ti], sn = thetas.sn[ti], omc = thetas.omc[ti]; // sin, 1 - cos
            LD gain = 0; // E0 - E(dR) = 2 tr((dR - I)^T K)
            for (int j = 0; j < 3; ++j) for (int q = 0; q < 3; ++q) gain += (sn * N[j][q] + omc * N2[j][q]) * K[j][q];
            gain *= 2;
            if (gain > worst_gain) { worst_gain = gain; worst_theta = th; }
        }
    }
    LD allowed = TOL_IMPROVE_REL * E0 + TOL_IMPROVE_ABS * Ksum;
    c.worst ("residual_gain/residual", E0 > 0 ? (double) (worst_gain / E0) : 0.0, idx, [&] { return Obj ().kv ("class", cls).kv ("theta", (double) worst_theta).str (); });
    c.worst ("residual_gain/sum_w|u||v|", Ksum > 0 ? (double) (worst_gain / Ksum) : 0.0, idx, [&] { return Obj ().kv ("class", cls).kv ("theta", (double) worst_theta).str (); });
    if (!(worst_gain <= allowed))
        c.fail (fn + ":residual_improved_by_small_rotation", idx, [&] { return Obj ().kv ("class", cls).raw ("input", data_json (d)).raw ("result", mat_json (M)).kv ("residual", (double) E0).kv ("gain", (double) worst_gain).kv ("theta", (double) worst_theta).str (); });
    if (c.verbose) std::fprintf (stderr, "[replay] class=%s n=%d E0=%Lg best gain=%Lg at theta=%Lg allowed=%Lg sigma=(%Lg,%Lg,%Lg) det sign %Lg\n", cls, n, E0, worst_gain, worst_theta, allowed, sg[0], sg[1], sg[2], dsign);
    if (idx % 499 < (uint64_t) NOPT) c.sample (cls, [&] { return Obj ().raw ("input", data_json (d, 5)).raw ("result", mat_json (M)).kv ("residual", (double) E0).str (); });
}

void exf (Ctx& c, uint64_t i) { sub_exact<float> (c, i); }
void exd (Ctx& c, uint64_t i) { sub_exact<double> (c, i); }
void opf (Ctx& c, uint64_t i) { sub_optimal<float> (c, i); }
void opd (Ctx& c, uint64_t i) { sub_optimal<double> (c, i); }

#define EX_REQ {"lattice_rigid", "lattice_similarity", "real_rigid", "real_similarity", "single_point", "two_points", "collinear", "coplanar", "zero_weights", "coincident_points", "many_points", "wide_weights", "weighted", "unweighted", "doScale", "rigid", "rotation_not_determined_points_only", "skipped_scale_not_unique", "skipped_illconditioned_point_set"}
#define OPT_REQ {"noise_small", "noise_medium", "unrelated", "reflected", "coplanar_noise", "affine_nonrigid", "rounded_exact", "weighted", "unweighted", "doScale", "rigid", "best_orthogonal_map_is_a_reflection", "skipped_optimum_not_unique"}

} // namespace

MON_SUB_IDX (exf, "procrustes_exact_float", 480000, 14400000).req (EX_REQ).over ("1..200 points; B = s*A*R + t exactly (integer lattice points, rational rotations from integer quaternions, dyadic scales) or rounded to float; single point, 2 points, collinear, coplanar, coincident, zero weights, weights 2^-12..2^12; weighted x doScale");
MON_SUB_IDX (exd, "procrustes_exact_double", 480000, 14400000).req (EX_REQ).over ("1..200 points; B = s*A*R + t exactly (integer lattice points, rational rotations from integer quaternions, dyadic scales) or rounded to double; single point, 2 points, collinear, coplanar, coincident, zero weights, weights 2^-12..2^12; weighted x doScale");
MON_SUB_IDX (opf, "procrustes_optimal_float", 320000, 9600000).req (OPT_REQ).over ("1..24 points, B = noisy / unrelated / reflected / affine image of A; 64 rotations (8 axes x 1e-1..1e-8 rad) about the centroid of B must not reduce the weighted residual");
MON_SUB_IDX (opd, "procrustes_optimal_double", 320000, 9600000).req (OPT_REQ).over ("1..24 points, B = noisy / unrelated / reflected / affine image of A; 64 rotations (8 axes x 1e-1..1e-8 rad) about the centroid of B must not reduce the weighted residual");
