// C09 part 1 - the set* builders of Matrix22/33/44 build the DOCUMENTED matrices.
//
//  * every entry of the built matrix is compared with the documented matrix written out
//    below from the doc comments of ImathMatrix.h (exact for translation / scale / shear,
//    C*eps for sin/cos based entries); the builders start from a GARBAGE matrix so that an
//    entry a builder forgets to reset is seen;
//  * the matrix is applied to a point through operator*(Vec, Matrix) and compared with the
//    documented action (p+t and per-axis scale bit-exactly, shear and rotations against a
//    long double evaluation; exact on integer lattices);
//  * rotations: orthonormal, det +1, reference = Rodrigues formula in long double;
//  * translation() returns row N-1 (on arbitrary matrices and after setTranslation).
#include "c09_common.h"
using namespace c09;

// ---- tolerances, in units of eps (calibration: thorough tier, unchanged tree; see c09.py)
// (worst ratio seen = full thorough tier, seed 1, 0.8-1.2*10^8 cases per sub-check; every bound >= 8x that)
static const double C_SHEAR_POINT = 12;  // |got-ref| <= C (eps sum|terms| + underflow)   worst seen 1.42
static const double C_ROT2_ENTRY  = 4;   // |entry - cosl/sinl| <= C eps                  worst seen 0.27
static const double C_ROT2_ORTHO  = 8;   // |row.row - delta|, |det-1| <= C eps           worst seen 0.73
static const double C_ROT2_POINT  = 12;  // |p*M - ref| <= C eps sum|p_i|                 worst seen 1.22
static const double C_AA_ENTRY    = 64;  // setAxisAngle entries vs Rodrigues             worst seen 6.6 (tiny axes, Vec3::lengthTiny path)
static const double C_AA_ORTHO    = 128; // orthonormality / det / handedness             worst seen 13.2
static const double C_AA_POINT    = 64;  // point action of setAxisAngle                  worst seen 6.5
static const double C_EU_ENTRY    = 12;  // setEulerAngles entries vs Rx*Ry*Rz            worst seen 1.41
static const double C_EU_ORTHO    = 32;  //                                               worst seen 3.2
static const double C_EU_POINT    = 24;  //                                               worst seen 2.06

// ================================================================== translation / scale / shear / translation()
static const char* const AFF_FN[12] = {"Matrix33.setTranslation", "Matrix33.setScale(T)",    "Matrix33.setScale(Vec2)",
                                       "Matrix33.setShear(S)",    "Matrix33.setShear(Vec2)", "Matrix44.setTranslation",
                                       "Matrix44.setScale(T)",    "Matrix44.setScale(Vec3)", "Matrix44.setShear(Vec3)",
                                       "Matrix44.setShear(Shear6)", "Matrix22.setScale(T)",  "Matrix22.setScale(Vec2)"};
static const int         AFF_N[12]  = {3, 3, 3, 3, 3, 4, 4, 4, 4, 4, 2, 2};
static const int         AFF_NP[12] = {2, 1, 2, 1, 2, 3, 1, 3, 3, 6, 1, 2};
enum { K_TRANS = 1, K_SCALE = 2, K_SHEAR = 3 };
static const int AFF_KIND[12] = {K_TRANS, K_SCALE, K_SCALE, K_SHEAR, K_SHEAR, K_TRANS, K_SCALE, K_SCALE, K_SHEAR, K_SHEAR, K_SCALE, K_SCALE};

template <class T> static void
sub_affine (Ctx& c, Local& L, uint64_t idx)
{
    Rng            r  = c.rng (idx);
    const unsigned b  = (unsigned) (idx % 12);
    const unsigned pc = (unsigned) ((idx / 12) % 8);
    const bool     F  = TN<T>::is_float;
    const int      N = AFF_N[b], np = AFF_NP[b], kind = AFF_KIND[b];
    const bool     homog = N > 2;
    const int      n = homog ? N - 1 : N; // dimension of the points
    const char *fn = AFF_FN[b], *ty = TN<T>::n ();

    // ---- parameters and point by class
    T           par[6] = {0, 0, 0, 0, 0, 0}, p[3] = {0, 0, 0};
    const char* pcn = "";
    bool        lattice_par = false, lattice_pt = false;
    auto        generic = [&] { return (T) (r.gauss () * 4); };
    switch (pc)
    {
        case 0: pcn = "lattice"; lattice_par = lattice_pt = true; break;
        case 2: pcn = "wide_exponent"; break;
        case 3: pcn = "zero_params"; break;
        case 4: pcn = "identity_params"; break;
        case 5: pcn = "one_nonzero_param"; break;
        case 6: pcn = "generic_params_lattice_point"; lattice_pt = true; break;
        default: pcn = "generic"; break;
    }
    int nz = (int) r.range (0, np - 1);
    for (int i = 0; i < np; ++i)
    {
        if (pc == 0) par[i] = (T) r.range (-8, 8);
        else if (pc == 2) par[i] = (T) r.logscale (F ? -40 : -250, F ? 40 : 250);
        else if (pc == 3) par[i] = r.coin () ? (T) 0 : -(T) 0;
        else if (pc == 4) par[i] = kind == K_SCALE ? (T) 1 : (T) 0;
        else if (pc == 5) par[i] = i == nz ? generic () : (T) 0;
        else par[i] = generic ();
    }
    for (int i = 0; i < n; ++i)
    {
        if (lattice_pt) p[i] = (T) r.range (-8, 8);
        else if (pc == 2) p[i] = (T) r.logscale (F ? -40 : -250, F ? 40 : 250);
        else p[i] = generic ();
    }
    T g0[4][4]; // garbage the builder has to overwrite completely
    for (int i = 0; i < 4; ++i)
        for (int j = 0; j < 4; ++j) g0[i][j] = (T) (r.gauss () * 100 + 3);

    // ---- the documented matrix D: D[i][j] = coefficient of input coordinate i in output coordinate j
    T D[4][4];
    for (int i = 0; i < 4; ++i)
        for (int j = 0; j < 4; ++j) D[i][j] = i == j ? (T) 1 : (T) 0;
    // "shear a for each b coord. by a factor of f": a' = a + f*b
    auto shear_doc = [&] (int a, int bb, T f) { D[bb][a] = f; };
    enum { X = 0, Y = 1, Z = 2 };
    switch (b)
    {
        case 0: case 5: for (int j = 0; j < n; ++j) D[n][j] = par[j]; break;               // p -> p + t
        case 1: case 6: case 10: for (int i = 0; i < n; ++i) D[i][i] = par[0]; break;      // uniform scale
        case 2: case 7: case 11: for (int i = 0; i < n; ++i) D[i][i] = par[i]; break;      // per-axis scale
        case 3: shear_doc (X, Y, par[0]); break;                                           // "shear x for each y coord. by given factor xy"
        case 4: shear_doc (X, Y, par[0]); shear_doc (Y, X, par[1]); break;                 // h.x: x for each y; h.y: y for each x
        case 8: shear_doc (X, Y, par[0]); shear_doc (X, Z, par[1]); shear_doc (Y, Z, par[2]); break; // h[0], h[1], h[2]
        case 9: // Shear6 members in declaration order xy, xz, yz, yx, zx, zy; "h.ab: shear a for each b"
            shear_doc (X, Y, par[0]); shear_doc (X, Z, par[1]); shear_doc (Y, Z, par[2]);
            shear_doc (Y, X, par[3]); shear_doc (Z, X, par[4]); shear_doc (Z, Y, par[5]);
            break;
    }

    // ---- run the library
    T    G[4][4], gp[3] = {0, 0, 0}, tr0[3] = {0, 0, 0}, tr1[3] = {0, 0, 0};
    bool retref = false;
    if (N == 3)
    {
        Matrix33<T> m;
        for (int i = 0; i < 3; ++i) for (int j = 0; j < 3; ++j) m[i][j] = g0[i][j];
        Vec2<T> t0 = m.translation ();
        tr0[0] = t0.x; tr0[1] = t0.y;
        const Matrix33<T>* ret = nullptr;
        switch (b)
        {
            case 0: ret = &m.setTranslation (Vec2<T> (par[0], par[1])); break;
            case 1: ret = &m.setScale (par[0]); break;
            case 2: ret = &m.setScale (Vec2<T> (par[0], par[1])); break;
            case 3: ret = &m.setShear (par[0]); break;
            default: ret = &m.setShear (Vec2<T> (par[0], par[1])); break;
        }
        retref = ret == &m;
        for (int i = 0; i < 3; ++i) for (int j = 0; j < 3; ++j) G[i][j] = m[i][j];
        Vec2<T> q = Vec2<T> (p[0], p[1]) * m;
        gp[0] = q.x; gp[1] = q.y;
        Vec2<T> t1 = m.translation ();
        tr1[0] = t1.x; tr1[1] = t1.y;
    }
    else if (N == 4)
    {
        Matrix44<T> m;
        for (int i = 0; i < 4; ++i) for (int j = 0; j < 4; ++j) m[i][j] = g0[i][j];
        Vec3<T> t0 = m.translation ();
        tr0[0] = t0.x; tr0[1] = t0.y; tr0[2] = t0.z;
        const Matrix44<T>* ret = nullptr;
        switch (b)
        {
            case 5: ret = &m.setTranslation (Vec3<T> (par[0], par[1], par[2])); break;
            case 6: ret = &m.setScale (par[0]); break;
            case 7: ret = &m.setScale (Vec3<T> (par[0], par[1], par[2])); break;
            case 8: ret = &m.setShear (Vec3<T> (par[0], par[1], par[2])); break;
            default: {
                Shear6<T> h;
                h.xy = par[0]; h.xz = par[1]; h.yz = par[2]; h.yx = par[3]; h.zx = par[4]; h.zy = par[5];
                ret = &m.setShear (h);
                break;
            }
        }
        retref = ret == &m;
        for (int i = 0; i < 4; ++i) for (int j = 0; j < 4; ++j) G[i][j] = m[i][j];
        Vec3<T> q = Vec3<T> (p[0], p[1], p[2]) * m;
        gp[0] = q.x; gp[1] = q.y; gp[2] = q.z;
        Vec3<T> t1 = m.translation ();
        tr1[0] = t1.x; tr1[1] = t1.y; tr1[2] = t1.z;
    }
    else
    {
        Matrix22<T> m;
        for (int i = 0; i < 2; ++i) for (int j = 0; j < 2; ++j) m[i][j] = g0[i][j];
        const Matrix22<T>* ret = b == 10 ? &m.setScale (par[0]) : &m.setScale (Vec2<T> (par[0], par[1]));
        retref = ret == &m;
        for (int i = 0; i < 2; ++i) for (int j = 0; j < 2; ++j) G[i][j] = m[i][j];
        Vec2<T> q = Vec2<T> (p[0], p[1]) * m;
        gp[0] = q.x; gp[1] = q.y;
    }

    c.eval ();
    L.cls (pcn);
    L.cls (fn);
    c.nontrivial (hash_combine (hash_arr (par, np, b), hash_arr (p, n)));
    auto desc = [&] {
        Obj o;
        o.kv ("fn", fn).kv ("type", ty).kv ("class", pcn).raw ("params", vstr (par, np)).raw ("point", vstr (p, n));
        std::string g = "[", d = "[";
        for (int i = 0; i < N; ++i) for (int j = 0; j < N; ++j) { if (i || j) { g += ","; d += ","; } g += jnum ((double) G[i][j]); d += jnum ((double) D[i][j]); }
        o.raw ("got_matrix", g + "]").raw ("documented_matrix", d + "]").raw ("got_point", vstr (gp, n));
        return o.str ();
    };

    // (a) every entry equals the documented one (exact: the builders only copy their arguments)
    for (int i = 0; i < N; ++i)
        for (int j = 0; j < N; ++j)
            if (!(G[i][j] == D[i][j]))
                c.fail (K (fn, ty) + "slot[" + std::to_string (i) + "][" + std::to_string (j) + "]", idx, desc);
    if (!retref) c.fail (K (fn, ty) + "return_ref", idx, desc);

    // (b) action on a point through operator*(Vec, Matrix)
    for (int j = 0; j < n; ++j)
    {
        bool ok;
        if (kind == K_TRANS) { T want = p[j] + par[j]; ok = gp[j] == want; }              // p + t, bit for bit
        else if (kind == K_SCALE) { T want = p[j] * par[np == 1 ? 0 : j]; ok = gp[j] == want; } // per-axis scale, bit for bit
        else
        {
            LD ref = 0, sa = 0;
            for (int i = 0; i < n; ++i) { LD t = (LD) p[i] * (LD) D[i][j]; ref += t; sa += fabsl (t); }
            if (lattice_par && lattice_pt) ok = (LD) gp[j] == ref; // integers: every operation is exact
            else
            {
                LD err = fabsl ((LD) gp[j] - ref), den = (LD) EPS<T> () * sa + uflow<T> (n);
                double ratio = (double) (err / den);
                L.worst (F ? "setShear.float.point_err_over_eps_sumabs" : "setShear.double.point_err_over_eps_sumabs", ratio, idx, desc);
                ok = ratio <= C_SHEAR_POINT;
            }
        }
        if (!ok) c.fail (K (fn, ty) + "point_action." + pcn, idx, desc);
    }

    // (c) translation() returns row N-1
    if (homog)
    {
        bool ok0 = true, ok1 = true;
        for (int j = 0; j < n; ++j)
        {
            if (!(tr0[j] == g0[n][j])) ok0 = false;
            if (!(tr1[j] == D[n][j])) ok1 = false;
        }
        L.cls ("translation()_of_arbitrary_matrix");
        std::string mn = N == 3 ? "Matrix33" : "Matrix44";
        if (!ok0)
            c.fail (K ((mn + ".translation").c_str (), ty) + "arbitrary_matrix", idx, [&] {
                std::string g = "[";
                for (int i = 0; i < N; ++i) for (int j = 0; j < N; ++j) { if (i || j) g += ","; g += jnum ((double) g0[i][j]); }
                return Obj ().raw ("matrix", g + "]").raw ("got", vstr (tr0, n)).raw ("want_row", vstr (g0[n], n)).str ();
            });
        if (!ok1) c.fail (K ((mn + ".translation").c_str (), ty) + "after_" + (AFF_FN[b] + 9), idx, desc);
    }
    if (idx < 12 * 8) c.sample ((std::string (fn) + "/" + pcn).c_str (), desc);
}
#define AFF_REQ                                                                                                              \
    {"lattice", "generic", "wide_exponent", "zero_params", "identity_params", "one_nonzero_param",                            \
     "generic_params_lattice_point", "translation()_of_arbitrary_matrix", "Matrix33.setTranslation", "Matrix33.setScale(T)", \
     "Matrix33.setScale(Vec2)", "Matrix33.setShear(S)", "Matrix33.setShear(Vec2)", "Matrix44.setTranslation",                 \
     "Matrix44.setScale(T)", "Matrix44.setScale(Vec3)", "Matrix44.setShear(Vec3)", "Matrix44.setShear(Shear6)",               \
     "Matrix22.setScale(T)", "Matrix22.setScale(Vec2)"}
MON_SUB (ranged<sub_affine<float>>, "set_translation_scale_shear_float", 1200000, 120000000)
    .req (AFF_REQ)
    .over ("12 builders (M33/M44 setTranslation, M22/M33/M44 setScale scalar+vector, M33 setShear S/Vec2, M44 setShear Vec3/Shear6) x 8 parameter classes, "
           "from a garbage matrix: all entries vs documented matrix (exact), p*M vs documented action, translation()");
MON_SUB (ranged<sub_affine<double>>, "set_translation_scale_shear_double", 1200000, 120000000)
    .req (AFF_REQ)
    .over ("as set_translation_scale_shear_float, for double");

// ================================================================== Matrix22 / Matrix33 setRotation
template <class T> static void
sub_rot2d (Ctx& c, Local& L, uint64_t idx)
{
    Rng         r  = c.rng (idx);
    const bool  F  = TN<T>::is_float;
    const bool  m33 = idx & 1;
    const char* acls = "";
    T           a    = gen_angle<T> (r, (unsigned) (idx / 2), acls);
    const char *fn = m33 ? "Matrix33.setRotation" : "Matrix22.setRotation", *ty = TN<T>::n ();
    // counter-clockwise for row vectors: (1,0) -> (cos a, sin a), (0,1) -> (-sin a, cos a)
    LD cs = cosl ((LD) a), sn = sinl ((LD) a);
    LD R[2][2] = {{cs, sn}, {-sn, cs}};
    unsigned ptc = (unsigned) ((idx / 16) % 3);
    T  p[2];
    for (int i = 0; i < 2; ++i) p[i] = ptc == 0 ? (T) r.range (-8, 8) : ptc == 1 ? (T) (r.gauss () * 4) : (T) r.logscale (-30, 30);

    T    G[3][3] = {{0, 0, 0}, {0, 0, 0}, {0, 0, 0}}, gp[2];
    bool retref;
    LD   od, dt;
    if (m33)
    {
        Matrix33<T> m;
        for (int i = 0; i < 3; ++i) for (int j = 0; j < 3; ++j) m[i][j] = (T) (r.gauss () * 100 + 3);
        retref = &m.setRotation (a) == &m;
        for (int i = 0; i < 3; ++i) for (int j = 0; j < 3; ++j) G[i][j] = m[i][j];
        Vec2<T> q = Vec2<T> (p[0], p[1]) * m;
        gp[0] = q.x; gp[1] = q.y;
        od = ortho_dev (m, 3); dt = det2 (m);
    }
    else
    {
        Matrix22<T> m;
        for (int i = 0; i < 2; ++i) for (int j = 0; j < 2; ++j) m[i][j] = (T) (r.gauss () * 100 + 3);
        retref = &m.setRotation (a) == &m;
        for (int i = 0; i < 2; ++i) for (int j = 0; j < 2; ++j) G[i][j] = m[i][j];
        Vec2<T> q = Vec2<T> (p[0], p[1]) * m;
        gp[0] = q.x; gp[1] = q.y;
        od = ortho_dev (m, 2); dt = det2 (m);
    }
    c.eval ();
    L.cls (acls);
    L.cls (fn);
    c.nontrivial (hash_combine (hb (a), hash_arr (p, 2, m33)));
    auto desc = [&] {
        return Obj ().kv ("fn", fn).kv ("type", ty).kv ("angle_class", acls).kv ("angle", (double) a).raw ("point", vstr (p, 2))
            .raw ("got_matrix", mstr (G, m33 ? 3 : 2)).kv ("ref_cos", (double) cs).kv ("ref_sin", (double) sn).raw ("got_point", vstr (gp, 2)).str ();
    };
    const double eps = EPS<T> ();
    for (int i = 0; i < 2; ++i)
        for (int j = 0; j < 2; ++j)
        {
            double ratio = (double) (fabsl ((LD) G[i][j] - R[i][j]) / eps);
            L.worst (F ? "setRotation.float.entry_err_over_eps" : "setRotation.double.entry_err_over_eps", ratio, idx, desc);
            if (!(ratio <= C_ROT2_ENTRY)) c.fail (K (fn, ty) + "slot[" + std::to_string (i) + "][" + std::to_string (j) + "]", idx, desc);
        }
    if (m33)
        for (int i = 0; i < 3; ++i)
            for (int j = 0; j < 3; ++j)
                if ((i == 2 || j == 2) && !(G[i][j] == (T) (i == j ? 1 : 0)))
                    c.fail (K (fn, ty) + "slot[" + std::to_string (i) + "][" + std::to_string (j) + "]", idx, desc);
    if (!retref) c.fail (K (fn, ty) + "return_ref", idx, desc);
    double ro = (double) (std::max (od, fabsl (dt - 1)) / eps);
    L.worst (F ? "setRotation.float.ortho_det_err_over_eps" : "setRotation.double.ortho_det_err_over_eps", ro, idx, desc);
    if (!(ro <= C_ROT2_ORTHO)) c.fail (K (fn, ty) + "orthonormal_det1", idx, desc);
    LD pa = fabsl ((LD) p[0]) + fabsl ((LD) p[1]);
    for (int j = 0; j < 2; ++j)
    {
        LD ref = (LD) p[0] * R[0][j] + (LD) p[1] * R[1][j];
        LD err = fabsl ((LD) gp[j] - ref);
        double ratio = (double) (err / (eps * pa + uflow<T> (2)));
        L.worst (F ? "setRotation.float.point_err_over_eps_norm1" : "setRotation.double.point_err_over_eps_norm1", ratio, idx, desc);
        bool ok = ratio <= C_ROT2_POINT;
        if (!ok) c.fail (K (fn, ty) + "point_action", idx, desc);
    }
    if (idx < 16) c.sample ((std::string (fn) + "/" + acls).c_str (), desc);
}
MON_SUB (ranged<sub_rot2d<float>>, "setRotation_float", 800000, 80000000)
    .req ({C09_ANGLE_CLASSES, "Matrix22.setRotation", "Matrix33.setRotation"})
    .over ("Matrix22/Matrix33::setRotation x 8 angle classes (many periods, k*pi/2 +- 1e-j, +- ulps, tiny, huge) from a garbage matrix: entries vs cosl/sinl, "
           "orthonormal, det 1, counter-clockwise action on a point");
MON_SUB (ranged<sub_rot2d<double>>, "setRotation_double", 800000, 80000000)
    .req ({C09_ANGLE_CLASSES, "Matrix22.setRotation", "Matrix33.setRotation"})
    .over ("as setRotation_float, for double");

// ================================================================== shared judgement of a 4x4 rotation against a 3x3 reference
struct RotNames
{
    const char *fn, *ty;
    std::string w_entry, w_ortho, w_point;
    RotNames (const char* f, const char* t) : fn (f), ty (t)
    {
        std::string wn = std::string (f).substr (9) + "." + t;
        w_entry = wn + ".entry_err_over_eps";
        w_ortho = wn + ".ortho_det_err_over_eps";
        w_point = wn + ".point_err_over_eps_norm1";
    }
};
template <class T, class DescF> static void
judge_rotation44 (Ctx& c, Local& L, uint64_t idx, const RotNames& nm, const Matrix44<T>& m, bool retref, const LD R[3][3], const T p[3], const Vec3<T>& gp,
                  double c_entry, double c_ortho, double c_point, DescF& desc)
{
    const char *fn = nm.fn, *ty = nm.ty;
    const double      eps = EPS<T> ();
    for (int i = 0; i < 3; ++i)
        for (int j = 0; j < 3; ++j)
        {
            double ratio = (double) (fabsl ((LD) m[i][j] - R[i][j]) / eps);
            L.worst (nm.w_entry.c_str (), ratio, idx, desc);
            if (!(ratio <= c_entry)) c.fail (K (fn, ty) + "slot[" + std::to_string (i) + "][" + std::to_string (j) + "]", idx, desc);
        }
    for (int i = 0; i < 4; ++i)
        for (int j = 0; j < 4; ++j)
            if ((i == 3 || j == 3) && !(m[i][j] == (T) (i == j ? 1 : 0)))
                c.fail (K (fn, ty) + "slot[" + std::to_string (i) + "][" + std::to_string (j) + "]", idx, desc);
    if (!retref) c.fail (K (fn, ty) + "return_ref", idx, desc);
    double ro = (double) (std::max (std::max (ortho_dev (m, 3), fabsl (det3 (m) - 1)), rh_dev (m)) / eps);
    L.worst (nm.w_ortho.c_str (), ro, idx, desc);
    if (!(ro <= c_ortho)) c.fail (K (fn, ty) + "orthonormal_det1", idx, desc);
    LD pa = fabsl ((LD) p[0]) + fabsl ((LD) p[1]) + fabsl ((LD) p[2]);
    T  g[3] = {gp.x, gp.y, gp.z};
    for (int j = 0; j < 3; ++j)
    {
        LD ref = 0;
        for (int i = 0; i < 3; ++i) ref += (LD) p[i] * R[i][j];
        LD     err   = fabsl ((LD) g[j] - ref);
        double ratio = (double) (err / (eps * pa + uflow<T> (3)));
        L.worst (nm.w_point.c_str (), ratio, idx, desc);
        bool ok = ratio <= c_point;
        if (!ok) c.fail (K (fn, ty) + "point_action", idx, desc);
    }
}

// ================================================================== Matrix44::setAxisAngle
template <class T> static void
sub_axisangle (Ctx& c, Local& L, uint64_t idx)
{
    Rng         r  = c.rng (idx);
    const bool  F  = TN<T>::is_float;
    const unsigned ac = (unsigned) (idx % 10);
    const char* acls = "";
    T           ang  = gen_angle<T> (r, (unsigned) (idx / 10), acls);
    double      d[3];
    gen_dir (r, d);
    T           ax[3];
    const char* xcls = "";
    bool        judged = true;
    auto        setlen = [&] (double len) { for (int i = 0; i < 3; ++i) ax[i] = (T) (d[i] * len); };
    switch (ac)
    {
        case 0: xcls = "axis_generic"; setlen (r.uniform (0.5, 2.0)); break;
        case 1: {
            xcls = "axis_aligned";
            int k = (int) r.range (0, 2);
            double len = std::pow (10.0, r.uniform (-30.0, F ? 18.0 : 30.0)) * (r.coin () ? 1 : -1);
            for (int i = 0; i < 3; ++i) ax[i] = i == k ? (T) len : (r.coin () ? (T) 0 : -(T) 0);
            break;
        }
        case 2: xcls = "axis_len_1e-30"; setlen (1e-30 * r.uniform (1.0, 10.0)); break;
        case 3: xcls = F ? "axis_len_1e18" : "axis_len_1e30"; setlen ((F ? 1e18 : 1e30) * r.uniform (0.1, 1.0)); break;
        case 4: xcls = "axis_len_log_uniform"; setlen (std::pow (10.0, r.uniform (-30.0, F ? 18.0 : 30.0))); break;
        case 5: {
            xcls = "axis_mixed_magnitude";
            for (int i = 0; i < 3; ++i) ax[i] = (T) std::ldexp (r.gauss () + (r.coin () ? 0.1 : -0.1), -(int) r.range (0, F ? 40 : 200));
            ax[r.range (0, 2)] = (T) (r.coin () ? 1.5 : -0.75);
            break;
        }
        case 6: {
            xcls = "axis_lattice";
            do { for (int i = 0; i < 3; ++i) ax[i] = (T) r.range (-8, 8); } while (ax[0] == 0 && ax[1] == 0 && ax[2] == 0);
            break;
        }
        case 7: xcls = "axis_unit"; setlen (1.0); break;
        case 8: {
            // neighbourhood of the length() threshold dot < 2*min where Vec3::lengthTiny takes over
            xcls = "axis_len_lengthTiny_threshold";
            setlen (std::sqrt (2.0 * (double) std::numeric_limits<T>::min ()) * r.uniform (0.25, 4.0));
            break;
        }
        default:
            if (F)
            {
                // |axis|^2 overflows float: Vec3::length() is inf and the normalised axis is 0.  Outside "as far as the
                // element type allows"; executed (must not crash) but not judged.
                xcls = "skipped_float_axis_len2_overflow";
                setlen (std::pow (10.0, r.uniform (20.0, 30.0)));
                judged = false;
            }
            else { xcls = "axis_generic"; setlen (r.uniform (0.5, 2.0)); }
            break;
    }
    unsigned ptc = (unsigned) ((idx / 80) % 3);
    T        p[3];
    for (int i = 0; i < 3; ++i) p[i] = ptc == 0 ? (T) r.range (-8, 8) : ptc == 1 ? (T) (r.gauss () * 4) : (T) r.logscale (-30, 30);

    Matrix44<T> m;
    for (int i = 0; i < 4; ++i) for (int j = 0; j < 4; ++j) m[i][j] = (T) (r.gauss () * 100 + 3);
    bool    retref = &m.setAxisAngle (Vec3<T> (ax[0], ax[1], ax[2]), ang) == &m;
    Vec3<T> gp     = Vec3<T> (p[0], p[1], p[2]) * m;

    c.eval ();
    L.cls (xcls);
    L.cls (acls);
    V3 u = unit (mk ((LD) ax[0], (LD) ax[1], (LD) ax[2]));
    LD R[3][3];
    rodrigues (u, (LD) ang, R);
    auto desc = [&] {
        T g[3] = {gp.x, gp.y, gp.z};
        return Obj ().kv ("fn", "Matrix44.setAxisAngle").kv ("type", TN<T>::n ()).kv ("axis_class", xcls).kv ("angle_class", acls)
            .raw ("axis", vstr (ax, 3)).kv ("angle", (double) ang).raw ("point", vstr (p, 3)).raw ("got_matrix", mstr (m, 4))
            .raw ("reference_3x3", "[" + vstr (R[0], 3) + "," + vstr (R[1], 3) + "," + vstr (R[2], 3) + "]").raw ("got_point", vstr (g, 3)).str ();
    };
    if (!judged) { c.sample (xcls, desc); return; }
    c.nontrivial (hash_combine (hash_arr (ax, 3, hb (ang)), hash_arr (p, 3)));
    static const RotNames nm ("Matrix44.setAxisAngle", TN<T>::n ());
    judge_rotation44<T> (c, L, idx, nm, m, retref, R, p, gp, C_AA_ENTRY, C_AA_ORTHO, C_AA_POINT, desc);
    if (idx < 80) c.sample ((std::string (xcls) + "/" + acls).c_str (), desc);
}
#define AA_AXIS_COMMON "axis_generic", "axis_aligned", "axis_len_1e-30", "axis_len_log_uniform", "axis_mixed_magnitude", "axis_lattice", "axis_unit", "axis_len_lengthTiny_threshold"
MON_SUB (ranged<sub_axisangle<float>>, "setAxisAngle_float", 1000000, 100000000)
    .req ({C09_ANGLE_CLASSES, AA_AXIS_COMMON, "axis_len_1e18", "skipped_float_axis_len2_overflow"})
    .over ("Matrix44::setAxisAngle: 9 axis classes (lengths 1e-30..1e18, axis aligned, mixed magnitudes, lattice, lengthTiny threshold) x 8 angle classes, from a garbage matrix: "
           "entries vs Rodrigues (long double), orthonormal, det +1, right-handed, action on a point; float axes whose squared length overflows are executed but not judged");
MON_SUB (ranged<sub_axisangle<double>>, "setAxisAngle_double", 1000000, 100000000)
    .req ({C09_ANGLE_CLASSES, AA_AXIS_COMMON, "axis_len_1e30"})
    .over ("as setAxisAngle_float, for double, axis lengths 1e-30..1e30");

// ================================================================== Matrix44::setEulerAngles
template <class T> static void
sub_euler (Ctx& c, Local& L, uint64_t idx)
{
    Rng         r = c.rng (idx);
    const char *c0 = "", *c1 = "", *c2 = "";
    T           e[3];
    // the three angles walk through the 8 classes at different rates: all 512 class triples occur
    e[0] = gen_angle<T> (r, (unsigned) idx, c0);
    e[1] = gen_angle<T> (r, (unsigned) (idx / 8), c1);
    e[2] = gen_angle<T> (r, (unsigned) (idx / 64), c2);
    unsigned ptc = (unsigned) ((idx / 512) % 3);
    T        p[3];
    for (int i = 0; i < 3; ++i) p[i] = ptc == 0 ? (T) r.range (-8, 8) : ptc == 1 ? (T) (r.gauss () * 4) : (T) r.logscale (-30, 30);

    Matrix44<T> m;
    for (int i = 0; i < 4; ++i) for (int j = 0; j < 4; ++j) m[i][j] = (T) (r.gauss () * 100 + 3);
    bool    retref = &m.setEulerAngles (Vec3<T> (e[0], e[1], e[2])) == &m;
    Vec3<T> gp     = Vec3<T> (p[0], p[1], p[2]) * m;

    c.eval ();
    L.cls (c0);
    if (c1 == c2 && c0 == c1) L.cls ("all_three_same_class");
    // "rotation by XYZ euler angles", row vectors: first about X, then Y, then Z, each by the right-hand rule
    LD Rx[3][3], Ry[3][3], Rz[3][3], Rxy[3][3], R[3][3];
    rodrigues (mk (1, 0, 0), (LD) e[0], Rx);
    rodrigues (mk (0, 1, 0), (LD) e[1], Ry);
    rodrigues (mk (0, 0, 1), (LD) e[2], Rz);
    mul33 (Rx, Ry, Rxy);
    mul33 (Rxy, Rz, R);
    auto desc = [&] {
        T g[3] = {gp.x, gp.y, gp.z};
        return Obj ().kv ("fn", "Matrix44.setEulerAngles").kv ("type", TN<T>::n ()).kv ("class_x", c0).kv ("class_y", c1).kv ("class_z", c2)
            .raw ("angles_xyz", vstr (e, 3)).raw ("point", vstr (p, 3)).raw ("got_matrix", mstr (m, 4))
            .raw ("reference_3x3", "[" + vstr (R[0], 3) + "," + vstr (R[1], 3) + "," + vstr (R[2], 3) + "]").raw ("got_point", vstr (g, 3)).str ();
    };
    c.nontrivial (hash_combine (hash_arr (e, 3), hash_arr (p, 3)));
    static const RotNames nm ("Matrix44.setEulerAngles", TN<T>::n ());
    judge_rotation44<T> (c, L, idx, nm, m, retref, R, p, gp, C_EU_ENTRY, C_EU_ORTHO, C_EU_POINT, desc);
    if (idx < 8) c.sample (c0, desc);
}
MON_SUB (ranged<sub_euler<float>>, "setEulerAngles_float", 1000000, 100000000)
    .req ({C09_ANGLE_CLASSES, "all_three_same_class"})
    .over ("Matrix44::setEulerAngles: all 8^3 triples of angle classes, from a garbage matrix: entries vs Rx*Ry*Rz built from Rodrigues in long double, orthonormal, det +1, action on a point");
MON_SUB (ranged<sub_euler<double>>, "setEulerAngles_double", 1000000, 100000000)
    .req ({C09_ANGLE_CLASSES, "all_three_same_class"})
    .over ("as setEulerAngles_float, for double");

MON_MAIN ("c09_transform")
