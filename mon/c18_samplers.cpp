// C18 - sphere / gauss samplers: solidSphereRand, hollowSphereRand, gaussSphereRand for
// Vec2/3/4 x float/double x Rand32/Rand48, gaussRand for both generators.
// Oracle: the geometric statement itself evaluated in long double (|v|^2 <= 1, |v| = 1,
// finiteness); every draw is repeated on a same-state twin generator (determinism).
#include "c18_common.h"

using namespace mon;
using namespace c18;
namespace IM = IMATH_NAMESPACE;

// ---------------------------------------------------------------- termination probe + watchdog
#include <unistd.h>
namespace c18
{
std::atomic<uint32_t>        g_sampler_epoch (1);
static std::atomic<uint32_t> g_slots[1024];
static std::atomic<unsigned> g_next_slot (0);

std::atomic<uint32_t>&
sampler_slot ()
{
    thread_local unsigned s = g_next_slot.fetch_add (1) % 1024;
    return g_slots[s];
}

static std::atomic<int>  g_stage[2];
static std::atomic<bool> g_done[2];
static volatile double   g_sink;
static const char* const STAGES[5] = {"(none)", "solidSphereRand", "hollowSphereRand", "gaussRand", "gaussSphereRand"};

template <class R>
static void
probe_thread (int gi)
{
    static const unsigned long seeds[] = {0ul, 1ul, 12345ul, 0xfffffffful, ~0ul};
    double acc = 0;
    for (unsigned long seed: seeds)
    {
        R g (seed);
        for (int k = 0; k < 64; ++k)
        {
            g_stage[gi] = 1;
            acc += IM::solidSphereRand<V2f> (g)[0] + IM::solidSphereRand<V3d> (g)[0] + IM::solidSphereRand<V4f> (g)[0];
            g_stage[gi] = 2;
            acc += IM::hollowSphereRand<V2d> (g)[0] + IM::hollowSphereRand<V3f> (g)[0] + IM::hollowSphereRand<V4d> (g)[0];
            g_stage[gi] = 3;
            acc += IM::gaussRand (g);
            g_stage[gi] = 4;
            acc += IM::gaussSphereRand<V3f> (g)[0];
        }
    }
    g_sink     = acc;
    g_done[gi] = true;
}

static void
watchdog_thread ()
{
    for (;;)
    {
        std::this_thread::sleep_for (std::chrono::seconds (1));
        uint32_t now = g_sampler_epoch.fetch_add (1) + 1;
        for (auto& s: g_slots)
        {
            uint32_t v = s.load (std::memory_order_relaxed);
            if (v && now - v > 60)
            {
                std::fprintf (stderr, "c18: a solidSphereRand/hollowSphereRand/gaussRand/gaussSphereRand call did not return within 60 s (rejection loop does not terminate)\n");
                std::fflush (stderr);
                _exit (3);
            }
        }
    }
}

const ProbeResult&
sampler_probe ()
{
    static ProbeResult    res;
    static std::once_flag once;
    std::call_once (once, [] {
        std::thread (probe_thread<Rand32>, 0).detach ();
        std::thread (probe_thread<Rand48>, 1).detach ();
        for (int ms = 0; ms < 20000 && !(g_done[0] && g_done[1]); ++ms) std::this_thread::sleep_for (std::chrono::milliseconds (1));
        for (int g = 0; g < 2; ++g)
        {
            res.hang[g]  = !g_done[g];
            res.stage[g] = STAGES[g_stage[g].load ()];
        }
        std::thread (watchdog_thread).detach ();
    });
    return res;
}
} // namespace c18

static const unsigned N_COMBO = 12;
static const char* const COMBO_NAMES[N_COMBO] = {"V2f.Rand32", "V3f.Rand32", "V4f.Rand32", "V2d.Rand32", "V3d.Rand32", "V4d.Rand32",
                                                 "V2f.Rand48", "V3f.Rand48", "V4f.Rand48", "V2d.Rand48", "V3d.Rand48", "V4d.Rand48"};
static const unsigned ROUNDS = 4;

struct Tally
{
    uint64_t n_combo[N_COMBO] = {0}, n_mode[3] = {0, 0, 0}, n_draws = 0, n_on_boundary = 0, n_skipped = 0;
    struct W { double r = -1e300; uint64_t idx = 0, state = 0; } solid[N_COMBO], hollow[N_COMBO];
};

static const unsigned long EXTREME_SEEDS[] = {0ul, 1ul, 0x7ffffffful, 0x80000000ul, 0xfffffffful, 0x100000000ul, 0x5a5a5a5aul, ~0ul, (unsigned long) LONG_MAX, 0x8000000000000000ul};

static uint64_t
inj_state (Rng& r, Rand32*)
{
    unsigned k = (unsigned) (r.u64 () % 6);
    return k == 0 ? 0 : k == 1 ? 0xffffffffull : k == 2 ? ~0ull : k == 3 ? 0x80000000ull : r.u64 ();
}
static uint64_t
inj_state (Rng& r, Rand48*)
{
    return r.coin () ? boundary_state (r, (unsigned) (r.u64 () % B_COUNT)) : (r.u64 () & MASK48);
}

template <class Vec, class R>
static void
run_combo (Ctx& c, uint64_t idx, unsigned combo, Tally& T)
{
    if (sampler_probe ().hang[Gen<R>::index]) { ++T.n_skipped; return; }
    SamplerGuard guard;
    Rng      r    = c.rng (idx);
    unsigned mode = (unsigned) ((idx / N_COMBO) % 4); // 0,1 random seed; 2 extreme seed; 3 injected state
    Slot<R>  sg, st;
    unsigned long seed = mode < 2 ? (mode ? (unsigned long) r.u64 () : (unsigned long) r.u32 ()) : mode == 2 ? EXTREME_SEEDS[(idx / (4 * N_COMBO)) % (sizeof EXTREME_SEEDS / sizeof EXTREME_SEEDS[0])] : 0ul;
    R& g = sg.make (seed, 0x00);
    R& t = st.make (seed, 0xff);
    if (mode == 3) { uint64_t x = inj_state (r, (R*) nullptr); inject (g, x); inject (t, x); }
    ++T.n_combo[combo];
    ++T.n_mode[mode < 2 ? 0 : mode - 1];
    if ((idx & 3) == 0) c.nontrivial (hash_combine (state_of (g), combo));
    bool twin_ok = true;
    auto twin = [&] (const char* fn, uint64_t s, uint64_t a, uint64_t b) {
        if (a != b && twin_ok)
        {
            twin_ok = false;
            c.fail (std::string (fn) + "." + COMBO_NAMES[combo] + ":same_state_different_result", idx, [&] { return Obj ().kv ("state_before", hex64 (s)).kv ("first_bits_hash", hex64 (a)).kv ("twin_bits_hash", hex64 (b)).str (); });
        }
    };
    for (unsigned k = 0; k < ROUNDS; ++k)
    {
        uint64_t s = state_of (g);
        {
            Vec    v = IM::solidSphereRand<Vec> (g), w = IM::solidSphereRand<Vec> (t);
            double q = judge_solid<Vec, R> (c, idx, v, s);
            if (q > T.solid[combo].r) { T.solid[combo].r = q; T.solid[combo].idx = idx; T.solid[combo].state = s; }
            if (q >= 0) ++T.n_on_boundary;
            twin ("solidSphereRand", s, vec_bits (v), vec_bits (w));
        }
        s = state_of (g);
        {
            Vec    v = IM::hollowSphereRand<Vec> (g), w = IM::hollowSphereRand<Vec> (t);
            double q = judge_hollow<Vec, R> (c, idx, v, s);
            if (q > T.hollow[combo].r) { T.hollow[combo].r = q; T.hollow[combo].idx = idx; T.hollow[combo].state = s; }
            twin ("hollowSphereRand", s, vec_bits (v), vec_bits (w));
        }
        s = state_of (g);
        {
            float v = IM::gaussRand (g), w = IM::gaussRand (t);
            judge_gauss<R> (c, idx, v, s);
            twin ("gaussRand", s, f2u (v), f2u (w));
        }
        s = state_of (g);
        {
            Vec v = IM::gaussSphereRand<Vec> (g), w = IM::gaussSphereRand<Vec> (t);
            judge_gsphere<Vec, R> (c, idx, v, s);
            twin ("gaussSphereRand", s, vec_bits (v), vec_bits (w));
        }
    }
    T.n_draws += 4 * ROUNDS;
    if (idx < 4 * N_COMBO && mode == 0)
    {
        Slot<R> ss;
        R&      h = ss.make (seed, 0);
        Vec     v = IM::hollowSphereRand<Vec> (h);
        c.sample (COMBO_NAMES[combo], [&] { return Obj ().kv ("combo", COMBO_NAMES[combo]).kv ("seed", hex64 (seed)).raw ("hollowSphereRand", vec_json (v)).kv ("length", (double) sqrtl (len2_ld (v))).str (); });
    }
}

static void
sub_samplers (Ctx& c, uint64_t b, uint64_t e)
{
    Tally T;
    report_probe (c, b);
    for (uint64_t idx = b; idx < e; ++idx)
    {
        unsigned combo = (unsigned) (idx % N_COMBO);
        switch (combo)
        {
            case 0: run_combo<V2f, Rand32> (c, idx, combo, T); break;
            case 1: run_combo<V3f, Rand32> (c, idx, combo, T); break;
            case 2: run_combo<V4f, Rand32> (c, idx, combo, T); break;
            case 3: run_combo<V2d, Rand32> (c, idx, combo, T); break;
            case 4: run_combo<V3d, Rand32> (c, idx, combo, T); break;
            case 5: run_combo<V4d, Rand32> (c, idx, combo, T); break;
            case 6: run_combo<V2f, Rand48> (c, idx, combo, T); break;
            case 7: run_combo<V3f, Rand48> (c, idx, combo, T); break;
            case 8: run_combo<V4f, Rand48> (c, idx, combo, T); break;
            case 9: run_combo<V2d, Rand48> (c, idx, combo, T); break;
            case 10: run_combo<V3d, Rand48> (c, idx, combo, T); break;
            default: run_combo<V4d, Rand48> (c, idx, combo, T); break;
        }
    }
    c.eval (T.n_draws);
    for (unsigned k = 0; k < N_COMBO; ++k)
    {
        if (T.n_combo[k]) c.cls (COMBO_NAMES[k], T.n_combo[k]);
        if (T.solid[k].r > -1e299) // clamped at 0: points strictly inside the ball have a negative excess
            c.worst ((std::string ("solidSphereRand.") + COMBO_NAMES[k] + ".max(0,len2-1)/eps").c_str (), std::max (T.solid[k].r, 0.0), T.solid[k].idx, [&] { return Obj ().kv ("state_before", hex64 (T.solid[k].state)).str (); });
        if (T.hollow[k].r > -1e299)
            c.worst ((std::string ("hollowSphereRand.") + COMBO_NAMES[k] + ".|len-1|/eps").c_str (), T.hollow[k].r, T.hollow[k].idx, [&] { return Obj ().kv ("state_before", hex64 (T.hollow[k].state)).str (); });
    }
    c.cls ("seed_random", T.n_mode[0]);
    c.cls ("seed_extreme", T.n_mode[1]);
    c.cls ("state_injected", T.n_mode[2]);
    c.cls ("solid_length2_at_or_above_1", T.n_on_boundary);
    if (T.n_skipped) c.cls ("skipped_generator_makes_samplers_hang", T.n_skipped);
}
MON_SUB (sub_samplers, "sphere_gauss_samplers", 2400000, 240000000)
    .req ({"V2f.Rand32", "V3f.Rand32", "V4f.Rand32", "V2d.Rand32", "V3d.Rand32", "V4d.Rand32", "V2f.Rand48", "V3f.Rand48", "V4f.Rand48", "V2d.Rand48", "V3d.Rand48", "V4d.Rand48", "seed_random",
           "seed_extreme", "state_injected"})
    .chunked (4096)
    .over ("per index one (Vec2/3/4 x float/double x Rand32/Rand48) combination (idx mod 12) and one generator state (2/4 random 32/64-bit seed, 1/4 of 10 extreme seeds, 1/4 injected "
           "uniform / boundary state); 4 rounds of solidSphereRand, hollowSphereRand, gaussRand, gaussSphereRand = 16 draws, each repeated on a same-state twin");
