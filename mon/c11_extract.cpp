// C11 - rotation -> Euler angles: Euler(M,o) / extract(M33|M44|Quat) in all 24 orders,
// 3x3 vs 4x4 copies, re-ordering constructor, extractEulerXYZ/ZYX/extractEuler of ImathMatrixAlgo.h.
#include "c11_euler.h"

using namespace c11;

// Calibrated bounds (multiples of eps of T).  Worst ratios on the unchanged tree (thorough tier, seed 1,
// 4.8*10^7 extraction / 2.3*10^7 re-ordering / 5.1*10^7 MatrixAlgo cases per type; recorded in the evidence on every run):
static const double C_ROUNDTRIP   = 64; // ref(o, extracted angles) vs input rotation: worst 2.02 (double) / 2.74 (float); via toMatrix33 2.38 / 3
static const double C_ROUNDTRIP_Q = 64; // same through extract(Quat): 2.62 / 3.2; back through toQuat 3.61 / 4.22
static const double C_ANGLE_T     = 32; // angles with / without translation, modulo 2 pi: 1.1 / 1.47 (float: 2*pi_f - 2*pi when -pi becomes +pi)
static const double C_REORDER     = 64; // 2.5 / 2.96
static const double C_ALGO3       = 64; // extractEulerXYZ/ZYX, matrices: 2.5 / 3
static const double C_ALGO2       = 32; // extractEuler 2x2/3x3, angle modulo 2 pi 1.31 / 2.13, rebuilt matrix 1.25 / 2

// ------------------------------------------------------------------ rotations to extract from
static std::vector<std::string>
rotation_class_names ()
{
    std::vector<std::string> v = {"rotation_random_quaternion", "rotation_axis_aligned_exact", "rotation_at_gimbal_exact", "rotation_small_angle", "rotation_near_half_turn", "rotation_from_euler_angles", "rotation_half_turns"};
    for (int k = 1; k <= 15; ++k) v.push_back (std::string ("rotation_") + gimbal_class_name (k));
    return v;
}

// returns class name; M = rotation in long double (then rounded to T by the caller)
static std::string
gen_rotation (Rng& r, unsigned slot, const OrderInfo& o, M3& M)
{
    const LD gim[3] = {0, PI_LD, -PI_LD};
    auto     gimbal = [&] () -> LD { return o.rep ? gim[r.range (0, 2)] : (r.coin () ? PI_LD / 2 : -PI_LD / 2); };
    if (slot <= 7 || slot == 31)
    {
        M = random_rotation (r);
        return "rotation_random_quaternion";
    }
    if (slot <= 9)
    {
        LD a[3];
        for (int i = 0; i < 3; ++i) a[i] = (LD) r.range (-2, 2) * (PI_LD / 2);
        M = ref_rotation (orders ()[(size_t) r.range (0, 23)], a);
        for (int i = 0; i < 3; ++i)
            for (int j = 0; j < 3; ++j) M.a[i][j] = nearbyintl (M.a[i][j]) + 0.0L; // exact 0 / +-1 (no -0)
        return "rotation_axis_aligned_exact";
    }
    if (slot <= 25)
    {
        LD a[3] = {(LD) r.sym (3.14159265358979323846), gimbal (), (LD) r.sym (3.14159265358979323846)};
        std::string name = "rotation_at_gimbal_exact";
        if (slot > 10)
        {
            int k = (int) slot - 10;
            LD  d = powl (10.0L, -(LD) k) * (r.coin () ? 1.0L : (LD) r.uniform (0.5, 2.0));
            a[1] += r.coin () ? d : -d;
            name = std::string ("rotation_") + gimbal_class_name (k);
        }
        if (r.one_in (4)) a[0] = (LD) r.range (-2, 2) * (PI_LD / 2);
        if (r.one_in (4)) a[2] = (LD) r.range (-2, 2) * (PI_LD / 2);
        M = ref_rotation (o, a);
        return name;
    }
    if (slot == 26 || slot == 27)
    {
        LD ax[3], n2 = 0;
        do
        {
            n2 = 0;
            for (int i = 0; i < 3; ++i)
            {
                ax[i] = (LD) r.gauss ();
                n2 += ax[i] * ax[i];
            }
        } while (n2 < 1e-6L);
        LD ang = powl (10.0L, -(LD) r.range (1, 12)) * (LD) r.uniform (1.0, 10.0);
        if (slot == 27) ang = PI_LD - (r.one_in (8) ? 0.0L : ang);
        LD s = sinl (ang / 2) / sqrtl (n2);
        LD v[3] = {ax[0] * s, ax[1] * s, ax[2] * s};
        M       = quat_to_m3 (cosl (ang / 2), v);
        return slot == 26 ? "rotation_small_angle" : "rotation_near_half_turn";
    }
    if (slot <= 29)
    {
        double a[3];
        gen_angles<double> (r, (unsigned) r.range (0, 31), o.rep, a);
        LD la[3] = {(LD) a[0], (LD) a[1], (LD) a[2]};
        M        = ref_rotation (o, la);
        return "rotation_from_euler_angles";
    }
    LD a[3];
    for (int i = 0; i < 3; ++i) a[i] = (LD) r.range (-2, 2) * PI_LD;
    M = ref_rotation (o, a);
    return "rotation_half_turns";
}

template <class T>
static Vec3<T>
gen_translation (Rng& r)
{
    Vec3<T> t;
    for (int i = 0; i < 3; ++i)
    {
        unsigned k = (unsigned) r.range (0, 5);
        t[i]       = k == 0 ? T (0) : (k == 1 ? T (-0.0) : (T) r.logscale (-10, 10));
    }
    if (t.x == 0 && t.y == 0 && t.z == 0) t[(size_t) r.range (0, 2)] = (T) r.logscale (-3, 3);
    return t;
}

// ------------------------------------------------------------------ extract in all 24 orders
template <class T>
static void
sub_extract (Ctx& c, uint64_t idx)
{
    typedef Euler<T>          E;
    typedef typename E::Order Ord;
    const double              eps = eps_of<T>::value;
    const std::string         tn  = tname<T>::s ();
    Rng                       r   = c.rng (idx);
    const OrderInfo&          o   = orders ()[idx % 24];
    const Ord                 ord = (Ord) o.value;
    unsigned                  slot = (unsigned) ((idx / 24) % 32);
    M3                        Mld;
    std::string               cl = gen_rotation (r, slot, o, Mld);
    Matrix33<T>               m33 = to_m33<T> (Mld);
    M3                        Mt  = m3_from (m33); // the rotation actually handed to the library
    Matrix44<T>               m44 = embed44 (m33);
    Vec3<T>                   tr  = gen_translation<T> (r);
    Matrix44<T>               m44t = embed44 (m33, tr);
    c.eval ();
    c.cls (cl);
    c.cls (std::string ("order_") + o.name);
    {
        uint64_t h = (uint64_t) o.value * 2 + sizeof (T) / 8;
        for (int i = 0; i < 3; ++i) h = hash3<T> (h, m33[i][0], m33[i][1], m33[i][2]);
        c.nontrivial (h);
    }

    E e33c (m33, ord), e44c (m44, ord), e33 (ord), e44 (ord), e44t (ord);
    e33.extract (m33);
    e44.extract (m44);
    e44t.extract (m44t);

    auto desc = [&] { return Obj ().kv ("order", o.name).kv ("class", cl).raw ("matrix", m33_str (m33)).raw ("translation", v3_str (tr)).raw ("extract33", v3_str (Vec3<T> (e33))).raw ("extract44", v3_str (Vec3<T> (e44))).raw ("extract44_translated", v3_str (Vec3<T> (e44t))).raw ("ctor33", v3_str (Vec3<T> (e33c))).raw ("ctor44", v3_str (Vec3<T> (e44c))).str (); };

    // (1) constructor == setOrder + extract; 3x3 and (purely embedded) 4x4 give bit-identical angles
    if (!bits_equal<T> (Vec3<T> (e33c), Vec3<T> (e33))) c.fail ("extract." + tn + ":ctor(Matrix33)_differs_from_extract(Matrix33)", idx, desc);
    if (!bits_equal<T> (Vec3<T> (e44c), Vec3<T> (e44))) c.fail ("extract." + tn + ":ctor(Matrix44)_differs_from_extract(Matrix44)", idx, desc);
    if (!bits_equal<T> (Vec3<T> (e44), Vec3<T> (e33)))
        c.fail ("extract." + tn + ":Matrix44_angles_differ_from_Matrix33" + (o.rep ? "_repeated" : "_nonrepeated"), idx, desc);

    // (2) with a translation in the 4x4 the angles are the same modulo 2 pi
    {
        double w = 0;
        for (int i = 0; i < 3; ++i)
        {
            double d = (double) angle_diff_mod_2pi ((LD) e44t[i], (LD) e33[i]) / eps;
            if (!(d <= w)) w = d;
        }
        bool flipped = !bits_equal<T> (Vec3<T> (e44t), Vec3<T> (e33));
        if (flipped) c.cls ("translation_changed_an_angle_by_2pi_or_zero_sign");
        c.worst (("extract." + tn + ".translated_vs_plain_angle_mod_2pi_eps").c_str (), w, idx, desc);
        if (!(w <= C_ANGLE_T)) c.fail ("extract." + tn + ":translated_Matrix44_angles_differ_mod_2pi", idx, desc);
    }

    // (3) converting back reproduces the rotation: independent composition and the library's own toMatrix33
    {
        M3     back = ref_rotation (o, Vec3<T> (e33));
        double d    = (double) m3_maxdiff (back, Mt) / eps;
        c.worst (("extract." + tn + ".roundtrip_vs_reference_eps").c_str (), d, idx, desc);
        if (!(d <= C_ROUNDTRIP))
            c.fail ("extract." + tn + ":Matrix33_roundtrip" + (o.rel ? "_rotating" : "_static") + (o.rep ? "_repeated" : "_nonrepeated") + (cl.find ("gimbal") != std::string::npos ? "_gimbal" : ""), idx, desc);
        double dl = (double) m3_maxdiff (m3_from (e33.toMatrix33 ()), Mt) / eps;
        c.worst (("extract." + tn + ".roundtrip_toMatrix33_eps").c_str (), dl, idx, desc);
        if (!(dl <= C_ROUNDTRIP)) c.fail ("extract." + tn + ":Matrix33_roundtrip_through_toMatrix33", idx, desc);
        M3     back4 = ref_rotation (o, Vec3<T> (e44t));
        double d4    = (double) m3_maxdiff (back4, Mt) / eps;
        c.worst (("extract." + tn + ".roundtrip44_vs_reference_eps").c_str (), d4, idx, desc);
        if (!(d4 <= C_ROUNDTRIP)) c.fail ("extract." + tn + ":Matrix44_roundtrip", idx, desc);
        double d44 = (double) m3_maxdiff (m3_from (e44t.toMatrix44 ()), Mt) / eps;
        if (!(d44 <= C_ROUNDTRIP)) c.fail ("extract." + tn + ":Matrix44_roundtrip_through_toMatrix44", idx, desc);
    }

    // (4) quaternion of the same rotation
    {
        LD qr, qv[3];
        m3_to_quat (Mld, qr, qv);
        if (r.coin ()) // q and -q are the same rotation
        {
            qr = -qr;
            for (int i = 0; i < 3; ++i) qv[i] = -qv[i];
        }
        Quat<T> q ((T) qr, (T) qv[0], (T) qv[1], (T) qv[2]);
        LD      tv[3] = {(LD) q.v.x, (LD) q.v.y, (LD) q.v.z};
        M3      Mq    = quat_to_m3 ((LD) q.r, tv); // rotation of the quaternion actually handed over
        // oracle self-check: the long double quaternion must reproduce the long double matrix
        {
            M3 chk = quat_to_m3 (qr, qv);
            if (!(m3_maxdiff (chk, Mld) <= 1e-17L)) c.fail ("oracle:matrix_to_quaternion_selfcheck", idx, desc);
        }
        E eq (ord);
        eq.extract (q);
        auto   qdesc = [&] { return Obj ().kv ("order", o.name).kv ("class", cl).kv ("q.r", (double) q.r).raw ("q.v", v3_str (q.v)).raw ("extracted", v3_str (Vec3<T> (eq))).raw ("rotation_of_q", m3_str (Mq)).str (); };
        M3     back = ref_rotation (o, Vec3<T> (eq));
        double d    = (double) m3_maxdiff (back, Mq) / eps;
        c.cls ("quat_extracted");
        c.worst (("extract." + tn + ".quat_roundtrip_vs_reference_eps").c_str (), d, idx, qdesc);
        if (!(d <= C_ROUNDTRIP_Q)) c.fail ("extract." + tn + ":Quat_roundtrip" + (o.rep ? "_repeated" : "_nonrepeated"), idx, qdesc);
        // and back to a quaternion: toQuat() of the extracted angles is +-q
        Quat<T> q2    = eq.toQuat ();
        LD      t2[3] = {(LD) q2.v.x, (LD) q2.v.y, (LD) q2.v.z};
        double  dq    = (double) m3_maxdiff (quat_to_m3 ((LD) q2.r, t2), Mq) / eps;
        c.worst (("extract." + tn + ".quat_roundtrip_toQuat_eps").c_str (), dq, idx, qdesc);
        if (!(dq <= C_ROUNDTRIP_Q)) c.fail ("extract." + tn + ":Quat_roundtrip_through_toQuat", idx, qdesc);
    }
    if ((idx & 0xffff) < 24 * 32) c.sample (cl.c_str (), desc);
    if (c.verbose) std::fprintf (stderr, "[replay] %s\n", desc ().c_str ());
}
static const std::vector<std::string> REQ_EXTRACT = concat (concat (order_class_names (), rotation_class_names ()), {"quat_extracted", "translation_changed_an_angle_by_2pi_or_zero_sign"});
MON_SUB_IDX (sub_extract<double>, "extract_double", 24 * 160000, 24 * 2000000)
    .req (REQ_EXTRACT)
    .over ("24 orders x 32 rotation-class slots (random unit quaternions, exact signed permutation matrices, middle angle at / within 1e-1..1e-15 of gimbal lock in this order, tiny and near-180-degree rotations, multi-period Euler angles), double: Euler(M,o), extract(M33), extract(M44 embedded / translated), extract(Quat)");
MON_SUB_IDX (sub_extract<float>, "extract_float", 24 * 160000, 24 * 2000000)
    .req (REQ_EXTRACT)
    .over ("same as extract_double for Euler<float>");

// ------------------------------------------------------------------ re-ordering constructor
template <class T>
static void
sub_reorder (Ctx& c, uint64_t idx)
{
    typedef Euler<T>          E;
    typedef typename E::Order Ord;
    const double              eps = eps_of<T>::value;
    const std::string         tn  = tname<T>::s ();
    Rng                       r   = c.rng (idx);
    const OrderInfo&          o1  = orders ()[idx % 24];
    const OrderInfo&          o2  = orders ()[(idx / 24) % 24];
    unsigned                  kind = (unsigned) ((idx / 576) % 4);
    E                         e1 ((Ord) o1.value);
    std::string               cl;
    if (kind == 1)
    {
        // a rotation at / next to the gimbal lock of the NEW order, expressed in the old order by the library
        M3 M;
        cl = "target_" + gen_rotation (r, 10 + (unsigned) r.range (0, 15), o2, M);
        e1 = E (to_m33<T> (M), (Ord) o1.value);
        c.cls ("target_order_gimbal");
    }
    else
    {
        T a[3];
        cl = gen_angles<T> (r, (unsigned) r.range (0, 31), o1.rep, a);
        e1 = E (a[0], a[1], a[2], (Ord) o1.value);
        c.cls ("source_angle_classes");
    }
    c.eval ();
    c.cls (std::string ("order_") + o2.name);
    if (o1.value == o2.value) c.cls ("same_order");
    c.nontrivial (hash3<T> ((uint64_t) o1.value * 0x10000 + (uint64_t) o2.value * 2 + sizeof (T) / 8, e1.x, e1.y, e1.z));

    E      e2 (e1, (Ord) o2.value);
    M3     want = ref_rotation (o1, Vec3<T> (e1));
    M3     got  = ref_rotation (o2, Vec3<T> (e2));
    double d    = (double) m3_maxdiff (want, got) / eps;
    auto   desc = [&] { return Obj ().kv ("from", o1.name).kv ("to", o2.name).kv ("class", cl).raw ("angles", v3_str (Vec3<T> (e1))).raw ("reordered", v3_str (Vec3<T> (e2))).raw ("rotation_before", m3_str (want)).raw ("rotation_after", m3_str (got)).str (); };
    c.worst (("reorder." + tn + ".rotation_change_eps").c_str (), d, idx, desc);
    if (e2.order () != (Ord) o2.value) c.fail ("reorder." + tn + ":order_not_set", idx, desc);
    if (!(d <= C_REORDER)) c.fail ("reorder." + tn + ":rotation_changed", idx, desc);
    double dl = (double) m3_maxdiff (m3_from (e2.toMatrix33 ()), m3_from (e1.toMatrix33 ())) / eps;
    c.worst (("reorder." + tn + ".toMatrix33_change_eps").c_str (), dl, idx, desc);
    if (!(dl <= C_REORDER)) c.fail ("reorder." + tn + ":toMatrix33_changed", idx, desc);
    if ((idx & 0xffff) < 8) c.sample (cl.c_str (), desc);
    if (c.verbose) std::fprintf (stderr, "[replay] %s\n", desc ().c_str ());
}
static const std::vector<std::string> REQ_REORDER = concat (order_class_names (), {"target_order_gimbal", "source_angle_classes", "same_order"});
MON_SUB_IDX (sub_reorder<double>, "reorder_double", 576 * 1000, 576 * 40000)
    .req (REQ_REORDER)
    .over ("all 24x24 (from,to) order pairs x {angle classes of the source order, rotations at / near gimbal lock of the target order}: Euler(e,newOrder)");
MON_SUB_IDX (sub_reorder<float>, "reorder_float", 576 * 1000, 576 * 40000).req (REQ_REORDER).over ("same for Euler<float>");

// ------------------------------------------------------------------ ImathMatrixAlgo.h extractors
// single angle classes for the 2-D extractors
template <class T>
static const char*
gen_angle_2d (Rng& r, unsigned slot, T& out)
{
    const double pi = 3.14159265358979323846;
    double       a;
    const char*  name;
    slot %= 16;
    if (slot <= 4)
    {
        a    = r.sym (pi);
        name = "uniform_pm_pi";
    }
    else if (slot <= 7)
    {
        a    = r.sym (8 * pi);
        name = "multi_period";
    }
    else if (slot <= 10)
    {
        double d = r.one_in (4) ? 0.0 : std::pow (10.0, -(double) r.range (1, 15));
        a        = (r.coin () ? pi : -pi) + (r.coin () ? d : -d) + (slot == 10 ? (double) r.range (-3, 3) * 2 * pi : 0.0);
        name     = "near_half_turn";
    }
    else if (slot <= 12)
    {
        double d = r.one_in (4) ? 0.0 : std::pow (10.0, -(double) r.range (1, 15));
        a        = (double) r.range (-4, 4) * (pi / 2) + (r.coin () ? d : -d);
        name     = "near_quarter_turns";
    }
    else if (slot == 13)
    {
        a    = std::pow (10.0, -(double) r.range (1, 12)) * r.uniform (1.0, 10.0) * (r.coin () ? 1 : -1);
        name = "tiny_angles";
    }
    else if (slot == 14)
    {
        a    = r.coin () ? 0.0 : -0.0;
        name = "zero";
    }
    else
    {
        a    = r.sym (pi);
        name = "uniform_pm_pi";
    }
    out = (T) a;
    return name;
}

template <class T>
static void
sub_algo (Ctx& c, uint64_t idx)
{
    typedef Euler<T>  E;
    const double      eps = eps_of<T>::value;
    const std::string tn  = tname<T>::s ();
    Rng               r   = c.rng (idx);
    unsigned          fn  = (unsigned) (idx % 4);
    unsigned          slot = (unsigned) ((idx / 4) % 32);
    c.eval ();
    if (fn <= 1)
    {
        const OrderInfo& o = orders ()[fn == 0 ? 0 : 5]; // XYZ, ZYX
        T                a[3];
        const char*      cl = gen_angles<T> (r, slot, false, a);
        Vec3<T>          ang (a[0], a[1], a[2]);
        Matrix44<T>      M;
        const char*      builder;
        unsigned         b = (unsigned) r.range (0, 2);
        if (fn == 0)
        {
            if (b == 0)
            {
                M.setEulerAngles (ang);
                builder = "builder_setEulerAngles";
            }
            else if (b == 1)
            {
                M.rotate (ang);
                builder = "builder_rotate";
            }
            else
            {
                M       = E (ang, E::XYZ).toMatrix44 ();
                builder = "builder_Euler_XYZ_toMatrix44";
            }
        }
        else
        {
            if (b <= 1)
            {
                // ZYX: about Z by a[0] first, then Y, then X, i.e. M = Rz*Ry*Rx; rotate() pre-multiplies
                M.rotate (Vec3<T> (a[2], 0, 0));
                M.rotate (Vec3<T> (0, a[1], 0));
                M.rotate (Vec3<T> (0, 0, a[0]));
                builder = "builder_rotate_x_then_y_then_z";
            }
            else
            {
                M       = E (ang, E::ZYX).toMatrix44 ();
                builder = "builder_Euler_ZYX_toMatrix44";
            }
        }
        bool translated = r.coin ();
        if (translated)
        {
            Vec3<T> t = gen_translation<T> (r);
            M[3][0]   = t.x;
            M[3][1]   = t.y;
            M[3][2]   = t.z;
        }
        Vec3<T> rot (0, 0, 0);
        if (fn == 0) extractEulerXYZ (M, rot);
        else extractEulerZYX (M, rot);
        const char* fname = fn == 0 ? "extractEulerXYZ" : "extractEulerZYX";
        c.cls (std::string ("fn_") + fname);
        c.cls (cl);
        c.cls (builder);
        c.cls (translated ? "with_translation" : "no_translation");
        c.nontrivial (hash3<T> (fn * 8 + b * 2 + sizeof (T) / 8, a[0], a[1], a[2]));
        M3     want = ref_rotation (o, ang);
        M3     got  = ref_rotation (o, rot);
        auto   desc = [&] { return Obj ().kv ("function", fname).kv ("class", cl).kv ("builder", builder).raw ("angles", v3_str (ang)).raw ("extracted", v3_str (rot)).raw ("rotation_of_angles", m3_str (want)).raw ("rotation_of_extracted", m3_str (got)).str (); };
        double d    = (double) m3_maxdiff (want, got) / eps;
        c.worst ((std::string (fname) + "." + tn + ".rotation_vs_reference_eps").c_str (), d, idx, desc);
        if (!(d <= C_ALGO3)) c.fail (std::string (fname) + "." + tn + ":does_not_invert_" + (builder + 8), idx, desc);
        // literally: rebuilding with the library's builder gives the matrix back
        Matrix44<T> B;
        if (fn == 0) B.setEulerAngles (rot);
        else
        {
            B.rotate (Vec3<T> (rot.z, 0, 0));
            B.rotate (Vec3<T> (0, rot.y, 0));
            B.rotate (Vec3<T> (0, 0, rot.x));
        }
        double dl = (double) m3_maxdiff (m3_from (B), m3_from (M)) / eps;
        c.worst ((std::string (fname) + "." + tn + ".rebuilt_matrix_eps").c_str (), dl, idx, desc);
        if (!(dl <= C_ALGO3)) c.fail (std::string (fname) + "." + tn + ":rebuilt_matrix_differs", idx, desc);
        // it is the same extraction as Euler::extract of that order
        if ((idx & 0xfff) < 128) c.sample ((std::string (fname) + "_" + cl).c_str (), desc);
    }
    else
    {
        T           ang;
        const char* cl = gen_angle_2d<T> (r, slot, ang);
        bool        via_rotate = r.coin ();
        T           rot = 0;
        const char* fname = fn == 2 ? "extractEuler22" : "extractEuler33";
        M3          built = m3_ident (), rebuilt = m3_ident ();
        bool        translated = false;
        if (fn == 2)
        {
            Matrix22<T> M;
            if (via_rotate) M.rotate (ang);
            else M.setRotation (ang);
            extractEuler (M, rot);
            Matrix22<T> B;
            B.setRotation (rot);
            for (int i = 0; i < 2; ++i)
                for (int j = 0; j < 2; ++j)
                {
                    built.a[i][j]   = (LD) M[i][j];
                    rebuilt.a[i][j] = (LD) B[i][j];
                }
        }
        else
        {
            Matrix33<T> M;
            if (via_rotate) M.rotate (ang);
            else M.setRotation (ang);
            translated = r.coin ();
            if (translated)
            {
                Vec3<T> t = gen_translation<T> (r);
                M[2][0]   = t.x;
                M[2][1]   = t.y;
            }
            extractEuler (M, rot);
            Matrix33<T> B;
            B.setRotation (rot);
            for (int i = 0; i < 2; ++i)
                for (int j = 0; j < 2; ++j)
                {
                    built.a[i][j]   = (LD) M[i][j];
                    rebuilt.a[i][j] = (LD) B[i][j];
                }
        }
        c.cls (std::string ("fn_") + fname);
        c.cls (std::string ("angle2d_") + cl);
        c.cls (via_rotate ? "builder_rotate_2d" : "builder_setRotation");
        if (fn == 3) c.cls (translated ? "with_translation" : "no_translation");
        c.nontrivial (hash_combine (fn * 4 + via_rotate * 2 + sizeof (T) / 8, d2u ((double) ang)));
        auto   desc = [&] { return Obj ().kv ("function", fname).kv ("class", cl).kv ("builder", via_rotate ? "rotate" : "setRotation").kv ("angle", (double) ang).kv ("extracted", (double) rot).str (); };
        double d    = (double) angle_diff_mod_2pi ((LD) rot, (LD) ang) / eps;
        c.worst ((std::string (fname) + "." + tn + ".angle_mod_2pi_eps").c_str (), d, idx, desc);
        if (!(d <= C_ALGO2)) c.fail (std::string (fname) + "." + tn + ":angle_not_congruent_to_input", idx, desc);
        double dl = (double) m3_maxdiff (built, rebuilt) / eps;
        c.worst ((std::string (fname) + "." + tn + ".rebuilt_matrix_eps").c_str (), dl, idx, desc);
        if (!(dl <= C_ALGO2)) c.fail (std::string (fname) + "." + tn + ":rebuilt_matrix_differs", idx, desc);
        if ((idx & 0xfff) < 128) c.sample ((std::string (fname) + "_" + cl).c_str (), desc);
    }
}
static const std::vector<std::string> REQ_ALGO = concat (
    angle_class_names (),
    {"fn_extractEulerXYZ", "fn_extractEulerZYX", "fn_extractEuler22", "fn_extractEuler33", "builder_setEulerAngles", "builder_rotate", "builder_Euler_XYZ_toMatrix44", "builder_rotate_x_then_y_then_z", "builder_Euler_ZYX_toMatrix44", "builder_rotate_2d", "builder_setRotation", "with_translation", "no_translation", "angle2d_uniform_pm_pi", "angle2d_multi_period", "angle2d_near_half_turn", "angle2d_near_quarter_turns", "angle2d_tiny_angles", "angle2d_zero"});
MON_SUB_IDX (sub_algo<double>, "matrixalgo_extractors_double", 4 * 32 * 16000, 4 * 32 * 400000)
    .req (REQ_ALGO)
    .over ("extractEulerXYZ / extractEulerZYX on matrices built by setEulerAngles, rotate, Euler::toMatrix44 (with and without translation) over the 32 angle-class slots; extractEuler(Matrix22|Matrix33) on setRotation / rotate over single-angle classes (uniform, +-4 periods, near +-pi, near quarter turns, tiny, +-0)");
MON_SUB_IDX (sub_algo<float>, "matrixalgo_extractors_float", 4 * 32 * 16000, 4 * 32 * 400000).req (REQ_ALGO).over ("same for float");
