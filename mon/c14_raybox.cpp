// C14 - ray-box and line-box intersection are geometrically exact.
//
// This TU: exhaustive integer / half-integer lattices, judged with the exact
// rational oracle of c14_common.h.  All coordinates are small (half-)integers and
// all directions lie in {-2..2}^3, so every quotient the library forms is exactly
// representable: truth values AND reported points are compared exactly (==).
//
//   lattice_<T>      boxes min,max in {-2..2}^2 x {-1..1} (all 5625 pairs, inverted = empty
//                    included), origins in {-3..3}^2 x {-2..2}, directions {-2..2}^3 \ {0}:
//                    170,887,500 cases.  thorough: x3 cyclic axis rotations, so that the
//                    x, y and z blocks of the code each see the narrow and the wide range.
//   halflattice_<T>  the 1350 non-empty boxes (flat ones in every axis included) of the same
//                    lattice, origins on the half-integer grid {-3,-2.5..3}^2 x {-2,-1.5..2},
//                    same directions: 254,623,500 cases per axis rotation (quick: rotation
//                    chosen by the seed; thorough: all three).
// Other TUs: c14_wide.cpp (sampled wider lattice with inexact parameters),
//            c14_stress.cpp (float inputs with zero / denormal / huge direction components).
#include "c14_common.h"

using namespace c14;

namespace
{
struct Lattice
{
    int  B[3], O[3]; // half ranges of box coordinates / origin coordinates (integers)
    int  S;          // origin grid has spacing 1/S
    bool inverted;   // enumerate all (min,max) pairs (true) or only min <= max (false)

    std::vector<std::pair<int, int>> pairs[3]; // (lo,hi) per lattice axis, in units 1/S
    int      no[3];
    uint64_t NB, NO, ND, per_perm;
    int      dirs[124][3];

    Lattice (int b0, int b1, int b2, int o0, int o1, int o2, int s, bool inv) : B{b0, b1, b2}, O{o0, o1, o2}, S (s), inverted (inv)
    {
        NB = 1; NO = 1;
        for (int j = 0; j < 3; ++j)
        {
            for (int lo = -B[j]; lo <= B[j]; ++lo)
                for (int hi = -B[j]; hi <= B[j]; ++hi)
                    if (inverted || lo <= hi) pairs[j].push_back ({lo * S, hi * S});
            no[j] = 2 * O[j] * S + 1;
            NB *= pairs[j].size ();
            NO *= (uint64_t) no[j];
        }
        int n = 0;
        for (int x = -2; x <= 2; ++x)
            for (int y = -2; y <= 2; ++y)
                for (int z = -2; z <= 2; ++z)
                    if (x || y || z) { dirs[n][0] = x; dirs[n][1] = y; dirs[n][2] = z; ++n; }
        ND       = 124;
        per_perm = NB * NO * ND;
    }

    // decode everything but the direction; `rest` = idx / ND
    void decode (uint64_t rest, int perm_base, LatCase& k, int& perm) const
    {
        uint64_t oi = rest % NO, bi = (rest / NO) % NB;
        perm = (int) ((rest / NO / NB + (uint64_t) perm_base) % 3);
        k.S  = S;
        for (int j = 2; j >= 0; --j)
        {
            int ax   = (j + perm) % 3; // lattice axis j is mapped onto coordinate axis ax
            k.p[ax]  = (int) (oi % (uint64_t) no[j]) - O[j] * S;
            oi /= (uint64_t) no[j];
            auto pr  = pairs[j][bi % pairs[j].size ()];
            bi /= pairs[j].size ();
            k.lo[ax] = pr.first;
            k.hi[ax] = pr.second;
        }
    }
};

const Lattice&
full_lattice ()
{
    static const Lattice L (2, 2, 1, 3, 3, 2, 1, true);
    return L;
}
const Lattice&
half_lattice ()
{
    static const Lattice L (2, 2, 1, 3, 3, 2, 2, false);
    return L;
}

template <class T>
void
run_lattice (Ctx& c, uint64_t b, uint64_t e, const Lattice& L, int perm_base)
{
    Acc      A;
    LatCase  k;
    int      perm = 0;
    uint64_t rest = b / L.ND, di = b % L.ND;
    L.decode (rest, perm_base, k, perm);
    for (uint64_t idx = b; idx < e; ++idx)
    {
        for (int j = 0; j < 3; ++j) k.d[(j + perm) % 3] = L.dirs[di][j];
        lat_check<T> (c, idx, k, A);
        if (++di == L.ND)
        {
            di = 0;
            ++rest;
            L.decode (rest, perm_base, k, perm);
        }
    }
    acc_flush<T> (c, A, true);
    // one literal sample per class for the evidence (first case of a chunk only: cheap)
    {
        uint64_t r0 = b / L.ND;
        L.decode (r0, perm_base, k, perm);
        for (int j = 0; j < 3; ++j) k.d[(j + perm) % 3] = L.dirs[b % L.ND][j];
        LatTruth t = lat_oracle (k);
        c.sample (lat_keyclass (t), [&] { return Obj ().raw ("case", lat_json (k)).kv ("ray_hit", t.ray_hit).kv ("line_hit", t.line_hit).str (); });
    }
}

// quick: one axis rotation; the full lattice always uses the identity (the design's 1.7e8 lattice),
// the half-integer lattice the rotation seed % 3.  thorough: all three rotations.
template <class T> void sub_full (Ctx& c, uint64_t b, uint64_t e) { run_lattice<T> (c, b, e, full_lattice (), 0); }
template <class T> void sub_half (Ctx& c, uint64_t b, uint64_t e) { run_lattice<T> (c, b, e, half_lattice (), c.thorough ? 0 : (int) (c.seed % 3)); }

#define C14_REQ {"grazing", "flat_box", "axis_parallel", "origin_inside", "origin_on_surface", "in_face_plane", "box_behind_origin", "ray_hit", "ray_miss", "line_hit", "line_miss"}
#define C14_REQ_E {"empty_box", "grazing", "flat_box", "axis_parallel", "origin_inside", "origin_on_surface", "in_face_plane", "box_behind_origin", "ray_hit", "ray_miss", "line_hit", "line_miss"}

MON_SUB (sub_full<float>, "lattice_float", 170887500ull, 3 * 170887500ull)
    .req (C14_REQ_E).exh ().chunked (124 * 245)
    .over ("Box3f/Line3f: all boxes min,max in {-2..2}^2 x {-1..1} (inverted included) x origins {-3..3}^2 x {-2..2} x directions {-2..2}^3\\{0}; "
           "thorough: x 3 cyclic axis rotations; intersects(box,ray), intersects(box,ray,ip), findEntryAndExitPoints vs exact rational slab test, points compared exactly");
MON_SUB (sub_full<double>, "lattice_double", 170887500ull, 3 * 170887500ull)
    .req (C14_REQ_E).exh ().chunked (124 * 245)
    .over ("Box3d/Line3d: same lattice as lattice_float");
MON_SUB (sub_half<float>, "halflattice_float", 254623500ull, 3 * 254623500ull)
    .req (C14_REQ).exh ().chunked (124 * 13 * 13)
    .over ("Box3f/Line3f: the 1350 non-empty boxes of the lattice (flat in every axis included) x half-integer origins {-3,-2.5..3}^2 x {-2,-1.5..2} x directions {-2..2}^3\\{0}; "
           "quick: axis rotation seed%3, thorough: all 3 rotations; exact comparison of truth values and points");
MON_SUB (sub_half<double>, "halflattice_double", 254623500ull, 3 * 254623500ull)
    .req (C14_REQ).exh ().chunked (124 * 13 * 13)
    .over ("Box3d/Line3d: same lattice as halflattice_float");
} // namespace

MON_MAIN ("c14_raybox")
