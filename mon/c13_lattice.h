// C13 - per-thread lattice caches and variant registration shared by c13_box.cpp and c13_pairs.cpp.
#pragma once
#include "c13_common.h"
#include <array>

namespace c13
{

// ------------------------------------------------------------------ per-thread lattice caches
static const std::vector<std::array<int, 4>>&
ipt_table (int D, int R)
{
    static thread_local std::map<int, std::vector<std::array<int, 4>>> m;
    auto& v = m[D * 16 + R];
    if (v.empty ())
    {
        uint64_t n = n_points (D, R);
        v.resize (n);
        for (uint64_t k = 0; k < n; ++k) decode_pt (k, D, R, v[k].data ());
    }
    return v;
}
template <class K> static const std::vector<typename K::P>&
pt_table (int R)
{
    static thread_local std::vector<typename K::P> tab;
    static thread_local int                        cr = -1;
    if (cr != R)
    {
        const auto& ip = ipt_table (K::D, R);
        tab.clear ();
        for (auto& p: ip) tab.push_back (mkpt<K> (p.data ()));
        cr = R;
    }
    return tab;
}
struct LTab
{
    std::vector<LBox>    b;
    std::vector<uint8_t> inv;
};
static const LTab&
lbox_table (int D, int R)
{
    static thread_local std::map<int, LTab> m;
    LTab& t = m[D * 16 + R];
    if (t.b.empty ())
    {
        uint64_t n = n_boxes (D, R);
        t.b.resize (n);
        t.inv.resize (n);
        for (uint64_t k = 0; k < n; ++k) { decode_box (k, D, R, t.b[k]); t.inv[k] = m_empty (t.b[k], D); }
    }
    return t;
}
template <class K> static const std::vector<typename K::B>&
box_table (int R)
{
    static thread_local std::vector<typename K::B> tab;
    static thread_local int                        cr = -1;
    if (cr != R)
    {
        const LTab& lt = lbox_table (K::D, R);
        tab.clear ();
        for (auto& b: lt.b) tab.push_back (mkbox<K> (b));
        cr = R;
    }
    return tab;
}

// ------------------------------------------------------------------ registration helpers
template <class K1, class K2, template <class, class> class Rn> static void
add_one (VarTable& t, int Rq, int Rt)
{
    t.add (K1::name (), n_boxes (K1::D, Rq), n_boxes (K1::D, Rt), [Rq, Rt] (Ctx& c, uint64_t g, uint64_t l) { Rn<K1, K2>::run (c, g, l, c.thorough ? Rt : Rq); });
}
template <class T, template <class, class> class Rn, bool WI> static void
add_dims (VarTable& t, const int (&R)[4][2])
{
    if constexpr (WI) add_one<IKind<T>, NoKind, Rn> (t, R[0][0], R[0][1]);
    add_one<VKind<Vec2<T>>, VKind<W2<T>>, Rn> (t, R[1][0], R[1][1]);
    add_one<VKind<Vec3<T>>, VKind<W3<T>>, Rn> (t, R[2][0], R[2][1]);
    add_one<VKind<Vec4<T>>, NoKind, Rn> (t, R[3][0], R[3][1]);
}
template <template <class, class> class Rn, bool WI> static VarTable
make_table (const int (&R)[4][2])
{
    VarTable t;
#define X(T) add_dims<T, Rn, WI> (t, R);
    C13_TYPES (X)
#undef X
    t.seal ();
    return t;
}
// lattice radii {quick, thorough} for D = 1,2,3,4: box coordinates in -R..R, points in -(R+1)..R+1
static const int R_MEMBERS[4][2] = {{3, 3}, {2, 2}, {2, 2}, {1, 2}};
static const int R_PAIRS[4][2]   = {{3, 3}, {2, 2}, {1, 2}, {1, 1}};


} // namespace c13
