// C10 - shared machinery of the quaternion / matrix / axis-angle monitor:
// a high-precision quaternion algebra written from the textbook definition
// (basis multiplication table, loops over indices; no expression is shared with
// ImathQuat.h), and the class-directed generators of unit quaternions, vectors
// and directions.
//
// Reference precision: long double (64-bit significand) for float,
// __float128 (113-bit) for double.
//
// Conventions of the code under test (read from ImathQuat.h and confirmed by the
// oracle in every run): Quat = (r, v) is the Hamilton quaternion r + v.x i + v.y j
// + v.z k; q.rotateVector(p) = q p q* ; Imath matrices act on ROW vectors
// (p * M), so q.toMatrix33() is the transpose of the usual column-convention
// rotation matrix and   (q1*q2).toMatrix33() == q2.toMatrix33() * q1.toMatrix33().
#pragma once
#include "mon.h"
#include <quadmath.h>
#include <ImathMatrix.h>
#include <ImathMatrixAlgo.h>
#include <ImathQuat.h>
#include <ImathVec.h>

namespace c10
{
using namespace mon;
using namespace IMATH_NAMESPACE;

template <class T> struct HPOf;
template <> struct HPOf<float> { typedef long double type; };
template <> struct HPOf<double> { typedef __float128 type; };

template <class T> inline const char* tname ();
template <> inline const char* tname<float> () { return "float"; }
template <> inline const char* tname<double> () { return "double"; }

namespace hp
{
inline long double sqrt (long double x) { return ::sqrtl (x); }
inline long double sin (long double x) { return ::sinl (x); }
inline long double cos (long double x) { return ::cosl (x); }
inline long double atan2 (long double y, long double x) { return ::atan2l (y, x); }
inline long double fabs (long double x) { return ::fabsl (x); }
inline __float128 sqrt (__float128 x) { return ::sqrtq (x); }
inline __float128 sin (__float128 x) { return ::sinq (x); }
inline __float128 cos (__float128 x) { return ::cosq (x); }
inline __float128 atan2 (__float128 y, __float128 x) { return ::atan2q (y, x); }
inline __float128 fabs (__float128 x) { return ::fabsq (x); }
template <class H> inline H pi ();
template <> inline long double pi<long double> () { return 3.141592653589793238462643383279502884L; }
template <> inline __float128 pi<__float128> () { return M_PIq; }
} // namespace hp

// ------------------------------------------------------------ reference quaternion algebra
template <class H> struct Q4
{
    H c[4]; // 1, i, j, k
};

// e_a * e_b = sgn[a][b] * e_idx[a][b]   (Hamilton: i*j = k, j*k = i, k*i = j, i*i = j*j = k*k = -1)
static const int kIdx[4][4] = {{0, 1, 2, 3}, {1, 0, 3, 2}, {2, 3, 0, 1}, {3, 2, 1, 0}};
static const int kSgn[4][4] = {{1, 1, 1, 1}, {1, -1, 1, -1}, {1, -1, -1, 1}, {1, 1, -1, -1}};

template <class H>
inline Q4<H>
hmul (const Q4<H>& a, const Q4<H>& b)
{
    Q4<H> o;
    for (int i = 0; i < 4; ++i) o.c[i] = 0;
    for (int i = 0; i < 4; ++i)
        for (int j = 0; j < 4; ++j)
        {
            H t = a.c[i] * b.c[j];
            if (kSgn[i][j] > 0) o.c[kIdx[i][j]] += t;
            else o.c[kIdx[i][j]] -= t;
        }
    return o;
}

template <class H>
inline Q4<H>
hconj (const Q4<H>& a)
{
    Q4<H> o = a;
    for (int i = 1; i < 4; ++i) o.c[i] = -a.c[i];
    return o;
}

template <class H>
inline H
hdot (const Q4<H>& a, const Q4<H>& b)
{
    H s = 0;
    for (int i = 0; i < 4; ++i) s += a.c[i] * b.c[i];
    return s;
}

template <class H> inline H hnorm (const Q4<H>& a) { return hp::sqrt (hdot (a, a)); }

template <class H>
inline Q4<H>
hunit (const Q4<H>& a)
{
    H      n = hnorm (a);
    Q4<H> o = a;
    if (n > 0)
        for (int i = 0; i < 4; ++i) o.c[i] = a.c[i] / n;
    return o;
}

template <class H>
inline Q4<H>
hneg (const Q4<H>& a)
{
    Q4<H> o;
    for (int i = 0; i < 4; ++i) o.c[i] = -a.c[i];
    return o;
}

// p' = q p q*  (q must be unit)
template <class H>
inline void
hrot (const Q4<H>& q, const H v[3], H out[3])
{
    Q4<H> p;
    p.c[0] = 0;
    for (int i = 0; i < 3; ++i) p.c[i + 1] = v[i];
    Q4<H> o = hmul (hmul (q, p), hconj (q));
    for (int i = 0; i < 3; ++i) out[i] = o.c[i + 1];
}

// Row-vector rotation matrix of the unit quaternion q:  row j = image of e_j
template <class H>
inline void
hmat (const Q4<H>& q, H M[3][3])
{
    for (int j = 0; j < 3; ++j)
    {
        H e[3] = {0, 0, 0};
        e[j]   = 1;
        hrot (q, e, M[j]);
    }
}

// angle between two quaternions as 4-vectors, accurate near 0 and near pi
template <class H>
inline H
hangle4 (const Q4<H>& a, const Q4<H>& b)
{
    H d = 0, s = 0;
    for (int i = 0; i < 4; ++i)
    {
        H x = a.c[i] - b.c[i], y = a.c[i] + b.c[i];
        d += x * x;
        s += y * y;
    }
    return 2 * hp::atan2 (hp::sqrt (d), hp::sqrt (s));
}

template <class T>
inline Q4<typename HPOf<T>::type>
toH (const Quat<T>& q)
{
    Q4<typename HPOf<T>::type> o;
    o.c[0] = q.r;
    o.c[1] = q.v.x;
    o.c[2] = q.v.y;
    o.c[3] = q.v.z;
    return o;
}

template <class H>
inline H
norm3 (const H v[3])
{
    H s = 0;
    for (int i = 0; i < 3; ++i) s += v[i] * v[i];
    return hp::sqrt (s);
}

template <class T>
inline std::string
qjson (const Quat<T>& q)
{
    double a[4] = {(double) q.r, (double) q.v.x, (double) q.v.y, (double) q.v.z};
    return Obj ().arr ("rxyz", a, 4).str ();
}
template <class T>
inline std::string
vjson (const Vec3<T>& v)
{
    double a[3] = {(double) v.x, (double) v.y, (double) v.z};
    return Obj ().arr ("xyz", a, 3).str ();
}
template <class T>
inline uint64_t
qhash (const Quat<T>& q)
{
    uint64_t h = d2u ((double) q.r);
    h          = hash_combine (h, d2u ((double) q.v.x));
    h          = hash_combine (h, d2u ((double) q.v.y));
    return hash_combine (h, d2u ((double) q.v.z));
}
template <class T>
inline uint64_t
vhash (const Vec3<T>& v)
{
    return hash_combine (hash_combine (d2u ((double) v.x), d2u ((double) v.y)), d2u ((double) v.z));
}

// ------------------------------------------------------------ generators (long double)
inline long double
p10 (int k) // 10^-k
{
    return ::powl (10.0L, (long double) -k);
}

inline void
unit3 (Rng& r, long double o[3])
{
    for (;;)
    {
        long double n = 0;
        for (int i = 0; i < 3; ++i) { o[i] = r.gauss (); n += o[i] * o[i]; }
        if (n > 1e-4L)
        {
            n = ::sqrtl (n);
            for (int i = 0; i < 3; ++i) o[i] /= n;
            return;
        }
    }
}

// unit vector orthogonal to the (not necessarily unit) vector d, in R^N
template <int N>
inline void
perpN (Rng& r, const long double d[N], long double o[N])
{
    long double dd = 0;
    for (int i = 0; i < N; ++i) dd += d[i] * d[i];
    for (;;)
    {
        long double g[N], gd = 0, n = 0;
        for (int i = 0; i < N; ++i) { g[i] = r.gauss (); gd += g[i] * d[i]; }
        for (int i = 0; i < N; ++i) { o[i] = g[i] - gd / dd * d[i]; n += o[i] * o[i]; }
        if (n > 1e-2L)
        {
            // two passes of Gram-Schmidt so that o.d is ~1e-19 |d|
            n = ::sqrtl (n);
            long double od = 0;
            for (int i = 0; i < N; ++i) { o[i] /= n; od += o[i] * d[i]; }
            n = 0;
            for (int i = 0; i < N; ++i) { o[i] -= od / dd * d[i]; n += o[i] * o[i]; }
            n = ::sqrtl (n);
            for (int i = 0; i < N; ++i) o[i] /= n;
            return;
        }
    }
}

struct UQ
{
    long double c[4];
};

enum
{
    NQCLS = 10
};
static const char* const kQClass[NQCLS] = {"generic", "w_near_zero", "w_near_plus_one", "w_near_minus_one", "axis_aligned",
                                           "trace_boundary", "diagonal_tie", "largest_x", "largest_y", "largest_z"};

// A unit quaternion (unit to ~1e-19; the cast to T leaves |q| = 1 + O(eps)) from
// boundary class `cls` of the property's quantifier.
inline UQ
gen_unit (Rng& r, unsigned cls)
{
    UQ          u;
    long double a[3];
    cls %= NQCLS;
    switch (cls)
    {
        case 0:
            for (int i = 0; i < 4; ++i) u.c[i] = r.gauss ();
            if (u.c[0] * u.c[0] + u.c[1] * u.c[1] + u.c[2] * u.c[2] + u.c[3] * u.c[3] < 1e-6L) u.c[0] = 1;
            break;
        case 1: { // real part +-[1e-17, 0.1) or exactly 0
            int         k = (int) r.range (1, 17);
            long double w = k == 17 ? 0.0L : (long double) r.uniform (0.1, 1.0) * p10 (k);
            if (r.coin ()) w = -w;
            unit3 (r, a);
            long double s = ::sqrtl (1 - w * w);
            u.c[0]        = w;
            for (int i = 0; i < 3; ++i) u.c[i + 1] = a[i] * s;
            break;
        }
        case 2:
        case 3: { // half angle 1e-1 .. 1e-12 (tiny-angle branches of log/exp/sinx_over_x), r -> +1 / -1
            int         k  = (int) r.range (1, 12);
            long double th = (long double) r.uniform (0.1, 1.0) * p10 (k - 1);
            unit3 (r, a);
            u.c[0] = (cls == 2 ? 1 : -1) * ::cosl (th);
            for (int i = 0; i < 3; ++i) u.c[i + 1] = a[i] * ::sinl (th);
            break;
        }
        case 4: { // rotation about a coordinate axis; half angle random or an exact multiple of pi/4
            int         ax = (int) r.range (0, 2);
            long double th;
            int         m = (int) r.range (0, 7);
            if (m <= 4) th = m * 0.78539816339744830961566084581987572L;
            else th = (long double) r.uniform (0.0, 3.141592653589793);
            long double w = ::cosl (th), s = ::sinl (th);
            if (m == 0) { w = 1; s = 0; }
            if (m == 2) { w = 0; s = 1; }
            if (m == 4) { w = -1; s = 0; }
            if (r.coin ()) s = -s;
            u.c[0] = w;
            for (int i = 0; i < 3; ++i) u.c[i + 1] = i == ax ? s : 0.0L;
            break;
        }
        case 5: { // trace of the rotation matrix (4 r^2 - 1) at the branch point of extractQuat: |r| = 1/2 +- 1e-k
            int         k = (int) r.range (1, 17);
            long double w = 0.5L;
            if (k < 17) w += (r.coin () ? 1 : -1) * (long double) r.uniform (0.1, 1.0) * p10 (k);
            if (r.coin ()) w = -w;
            unit3 (r, a);
            long double s = ::sqrtl (1 - w * w);
            u.c[0]        = w;
            for (int i = 0; i < 3; ++i) u.c[i + 1] = a[i] * s;
            break;
        }
        case 6: { // |r| < 1/2, two or three imaginary components of equal magnitude (ties in the largest-diagonal search)
            long double w = (long double) r.uniform (-0.5, 0.5);
            int         pat = (int) r.range (0, 3);
            long double t   = (long double) r.uniform (0.0, 1.0);
            long double v[3] = {1, 1, 1};
            if (pat == 0) v[2] = t;
            if (pat == 1) v[0] = t;
            if (pat == 2) v[1] = t;
            long double n = ::sqrtl (v[0] * v[0] + v[1] * v[1] + v[2] * v[2]);
            long double s = ::sqrtl (1 - w * w) / n;
            u.c[0]        = w;
            for (int i = 0; i < 3; ++i) u.c[i + 1] = (r.coin () ? -1 : 1) * v[i] * s;
            break;
        }
        default: { // |r| < 1/2 and imaginary component (cls-7) strictly largest: one branch of extractQuat each
            int         big = (int) cls - 7;
            long double w   = (long double) r.uniform (-0.5, 0.5);
            unit3 (r, a);
            int m = 0;
            for (int i = 1; i < 3; ++i)
                if (::fabsl (a[i]) > ::fabsl (a[m])) m = i;
            std::swap (a[m], a[big]);
            // half of the cases: the other two components 1e-1..1e-8 of the largest (a wrongly chosen
            // diagonal element then loses that many digits)
            if (r.coin ())
            {
                for (int i = 0; i < 3; ++i)
                    if (i != big) a[i] *= p10 ((int) r.range (1, 8));
                long double n = ::sqrtl (a[0] * a[0] + a[1] * a[1] + a[2] * a[2]);
                for (int i = 0; i < 3; ++i) a[i] /= n;
            }
            long double s = ::sqrtl (1 - w * w);
            u.c[0]        = w;
            for (int i = 0; i < 3; ++i) u.c[i + 1] = a[i] * s;
            break;
        }
    }
    long double n = ::sqrtl (u.c[0] * u.c[0] + u.c[1] * u.c[1] + u.c[2] * u.c[2] + u.c[3] * u.c[3]);
    for (int i = 0; i < 4; ++i) u.c[i] /= n;
    return u;
}

template <class T>
inline Quat<T>
mkq (const UQ& u)
{
    return Quat<T> ((T) u.c[0], (T) u.c[1], (T) u.c[2], (T) u.c[3]);
}

// q * (rotation by angle phi about unit axis ax), in long double
inline UQ
step_by (const UQ& q, const long double ax[3], long double phi)
{
    Q4<long double> a, d;
    for (int i = 0; i < 4; ++i) a.c[i] = q.c[i];
    d.c[0] = ::cosl (phi / 2);
    for (int i = 0; i < 3; ++i) d.c[i + 1] = ax[i] * ::sinl (phi / 2);
    Q4<long double> o = hunit (hmul (a, d));
    UQ              u;
    for (int i = 0; i < 4; ++i) u.c[i] = o.c[i];
    return u;
}

// cos(a) q + sin(a) p with p a random unit 4-vector orthogonal to q: a unit quaternion at 4-D angle a from q
inline UQ
at_angle4 (Rng& r, const UQ& q, long double a)
{
    long double p[4];
    perpN<4> (r, q.c, p);
    UQ          u;
    long double n = 0;
    for (int i = 0; i < 4; ++i) { u.c[i] = ::cosl (a) * q.c[i] + ::sinl (a) * p[i]; n += u.c[i] * u.c[i]; }
    n = ::sqrtl (n);
    for (int i = 0; i < 4; ++i) u.c[i] /= n;
    return u;
}

enum
{
    NVCLS = 6
};
static const char* const kVClass[NVCLS] = {"v_generic", "v_axis_aligned", "v_mixed_magnitude", "v_zero_components", "v_along_rotation_axis", "v_integer_lattice"};

// A vector from class `cls`; `axis` = imaginary part of the quaternion it will be rotated by.
inline void
gen_vec (Rng& r, unsigned cls, const long double axis[3], long double o[3])
{
    cls %= NVCLS;
    switch (cls)
    {
        case 0: {
            unit3 (r, o);
            long double s = ::ldexpl (1.0L + (long double) r.uniform (), (int) r.range (-30, 30));
            for (int i = 0; i < 3; ++i) o[i] *= s;
            break;
        }
        case 1: {
            int         ax = (int) r.range (0, 2);
            long double s  = ::ldexpl (1.0L + (long double) r.uniform (), (int) r.range (-30, 30));
            for (int i = 0; i < 3; ++i) o[i] = i == ax ? (r.coin () ? s : -s) : 0.0L;
            break;
        }
        case 2:
            for (int i = 0; i < 3; ++i) o[i] = r.logscale (-20, 20);
            break;
        case 3: {
            unsigned mask = (unsigned) r.range (0, 6); // bit set = component is zero; 7 (all zero) drawn separately
            if (r.one_in (16)) mask = 7;
            for (int i = 0; i < 3; ++i) o[i] = (mask >> i & 1) ? 0.0L : (long double) r.sym (4.0);
            break;
        }
        case 4: {
            long double n = ::sqrtl (axis[0] * axis[0] + axis[1] * axis[1] + axis[2] * axis[2]);
            long double s = (r.coin () ? 1 : -1) * ::ldexpl (1.0L + (long double) r.uniform (), (int) r.range (-10, 10));
            if (n == 0) { o[0] = s; o[1] = o[2] = 0; }
            else
                for (int i = 0; i < 3; ++i) o[i] = axis[i] / n * s;
            break;
        }
        default:
            for (int i = 0; i < 3; ++i) o[i] = (long double) r.range (-8, 8);
            break;
    }
}

// Record the error ratio (error / (eps * scale), i.e. the tolerance formula without its constant)
// as the worst of "<fn>.<type>" and fail with key "<fn>.<type>:<cls>" when it exceeds C (or is NaN).
template <class T, class F>
inline void
judge (Ctx& c, const char* fn, const char* cls, double ratio, double C, uint64_t idx, F&& desc)
{
    std::string w = std::string (fn) + "." + tname<T> ();
    c.worst (w.c_str (), ratio, idx, desc);
    if (!(ratio <= C)) c.fail (w + ":" + cls, idx, desc);
}

inline std::string
slot2 (int i, int j)
{
    char b[24];
    std::snprintf (b, sizeof b, "slot[%d][%d]", i, j);
    return b;
}

} // namespace c10
