// C06: registration of the sub-checks for element type C06_T (included once per TU)
using namespace mon;

MON_SUB_IDX (c06::sub_accuracy<C06_T>, "accuracy_" C06_TN, 1200000, 30000000)
    .req ({"random", "graded_cond", "sv_gap", "lattice", "det_exactly_pm1", "needs_pivot", "det_near_1", "scale_sweep",
           "adj2x2", "cofactor3x3", "affine2x2", "general_gj", "affine_cofactor3x3", "affine_lookalike_last_column",
           "branch_absdet_ge1", "branch_absdet_lt1", "branch_absdet_eq1",
           "cond_lt_1e2", "cond_1e2_1e4", "cond_1e4_1/eps", "cond_1/eps_1/eps2", "judged_strict", "judged_cofactor_amp_gt8", "finite_required"})
    .over ("Matrix22/33/44<" C06_TN ">: all inverse/invert/gjInverse/gjInvert forms on 8 generator kinds x {full, affine}; full-pivot "
           "Gauss-Jordan reference in a wider type; error vs C*cond*eps*||X||, in-place == value form, no inf/NaN below cond 1/eps^2");

MON_SUB_IDX (c06::sub_singular<C06_T>, "singular_" C06_TN, 240000, 9600000)
    .req ({"lattice_dependent_row", "lattice_rank1", "lattice_duplicate_column", "zero_matrix", "zero_row", "zero_column", "identical_rows",
           "power_of_two_multiple_row", "entries_lattice", "entries_random_float", "gj_zero_pivot_identity_required",
           "det_exact_zero_identity_required", "finite_or_identity_required", "adj2x2", "cofactor3x3", "affine2x2", "general_gj", "affine_cofactor3x3"})
    .over ("exactly singular Matrix22/33/44<" C06_TN ">: integer lattices (det == 0 in int64) scaled by 2^e, and matrices with a zero row/column, "
           "identical rows or a power-of-two multiple row (exact zero pivot for Gauss-Jordan)");

MON_SUB_IDX (c06::sub_guard<C06_T>, "overflow_guard_" C06_TN, 42000, 1680000)
    .req ({"quotient_overflows", "absdet_ge1_huge_cofactor", "quotient_below_guard", "guard_band_either", "absdet_eq1", "adj2x2", "cofactor3x3", "affine2x2", "affine_cofactor3x3"})
    .over ("signed permuted power-of-two diagonal blocks with the largest exact quotient cofactor/det = 2^Q, Q = emax-10..emax+4, "
           "and |det| = 2^D on both sides of 1, for the four determinant-based paths of Matrix22/33/44<" C06_TN ">");

MON_SUB_IDX (c06::sub_continuity<C06_T>, "affine_continuity_" C06_TN, 288000, 9600000)
    .req ({"one_plus_ulp", "one_minus_ulp", "zero_plus_denorm_min", "zero_minus_denorm_min", "zero_plus_min_normal", "zero_minus_eps2", "judged_strict", "judged_cofactor_amp_gt8"})
    .over ("affine Matrix33/44<" C06_TN "> M and M' = M with one entry of the last column moved by one ulp (1 -> 1+-ulp, 0 -> +-denorm_min, ...): "
           "inverse(M) (fast path) vs inverse(M') (general path)");
