// C08 - length() and normalisation are accurate for every non-overflowing vector.
// This TU: length(), length2(), the zero vector.  (c08_normalize.cpp: the normalize family.)
//
// length():  |length - ref| <= C_LEN ulps of T at ref (subnormal grid below min), ref = Euclidean
//            norm in long double / __float128; length == 0 iff every component is zero; finite.
// length2(): bit for bit equal to v.dot(v), to v ^ v and to the index loop sum_i v[i]*v[i] in T.
// zero:      all sign patterns of the zero vector through every entry point.
#include "c08_common.h"

using namespace c08;

// Calibration (pristine tree, 1.5e9 vectors of the thorough tier + quick seeds 1..5): worst observed
// lengthTiny path 2.81 ulps (Vec4f) / 2.74 (Vec4d); sqrt path 2.22 (Vec4f) / 1.94 (Vec4d).
// Bounds = 8 x worst, rounded up.  The path is inferred from dot < 2*min (not from the library).
static const double C_LEN_TINY = 24.0, C_LEN_SQRT = 18.0;

namespace
{
struct Worst
{
    double      ratio = -1;
    uint64_t    idx   = 0;
    std::string desc;
};
} // namespace

// ------------------------------------------------------------------ length()
template <class T, int N> static void
length_case (Ctx& c, uint64_t idx, Counts& k, Worst (&w)[3][2])
{
    typedef typename VecOf<T, N>::type V;
    typedef typename FP<T>::R          R;
    Rng  r = c.rng (idx);
    T    a[N];
    int  cls  = gen<T, N> (r, idx, a, k);
    bool tiny = path_classes<T, N> (a, cls, k);
    V    v    = VecOf<T, N>::make (a);
    T    got  = v.length ();
    R    ref  = normR<T, N> (a);
    bool zero = all_zero<T, N> (a);
    c.eval ();
    if (!zero && (idx & 3) == 0) c.nontrivial (hash_vec<T, N> (a));
    const char* path = tiny ? "lengthTiny_path" : "sqrt_path";
    auto        desc = [&] {
        return Obj ().kv ("class", cls_name[cls]).kv ("path", path).raw ("v", vec_json<T, N> (a)).kv ("v_bits", vec_hex<T, N> (a))
            .kv ("got", (double) got).kv ("got_bits", FP<T>::hex (got)).kv ("ref", (double) ref).kv ("err_ulps", err_ulps<T> (got, ref)).str ();
    };
    if (c.verbose) std::fprintf (stderr, "[replay] %s\n", desc ().c_str ());
    if (!std::isfinite (got))
    {
        c.fail (tname ("length", N, FP<T>::tag ()) + ":nonfinite", idx, desc);
        return;
    }
    if ((got == T (0)) != zero)
    {
        c.fail (tname ("length", N, FP<T>::tag ()) + (zero ? ":nonzero_for_zero_vector" : ":zero_for_nonzero_vector"), idx, desc);
        return;
    }
    double u = err_ulps<T> (got, ref);
    Worst& ww = w[N - 2][tiny ? 0 : 1];
    if (u > ww.ratio) { ww.ratio = u; ww.idx = idx; ww.desc = desc (); }
    if (!(u <= (tiny ? C_LEN_TINY : C_LEN_SQRT))) c.fail (tname ("length", N, FP<T>::tag ()) + ":" + path, idx, desc);
    if (idx / 24 == 777) c.sample (cls_name[cls], desc);
}

template <class T> static void
sub_length (Ctx& c, uint64_t b, uint64_t e)
{
    Counts k;
    Worst  w[3][2];
    for (uint64_t i = b; i < e; ++i)
    {
        switch (i % 3)
        {
            case 0: length_case<T, 2> (c, i, k, w); break;
            case 1: length_case<T, 3> (c, i, k, w); break;
            default: length_case<T, 4> (c, i, k, w); break;
        }
    }
    k.flush (c);
    for (int d = 0; d < 3; ++d)
        for (int p = 0; p < 2; ++p)
            if (w[d][p].ratio >= 0)
            {
                std::string name = tname ("length", d + 2, FP<T>::tag ()) + (p == 0 ? ".lengthTiny_path.ulps" : ".sqrt_path.ulps");
                c.worst (name.c_str (), w[d][p].ratio, w[d][p].idx, [&] { return w[d][p].desc; });
            }
}
static void sub_length_f (Ctx& c, uint64_t b, uint64_t e) { sub_length<float> (c, b, e); }
static void sub_length_d (Ctx& c, uint64_t b, uint64_t e) { sub_length<double> (c, b, e); }

MON_SUB (sub_length_f, "length_float", 30000000, 1000000000)
    .req (C08_REQ_CLASSES)
    .chunked (8192)
    .over ("Vec2/3/4<float>::length vs long double norm, in ulps of the result (subnormal grid included); 8 input classes x 3 dimensions, exponents swept from 2^-149 to sqrt(max)/2, dense around |v|^2 = 2*min; length == 0 iff zero vector");
MON_SUB (sub_length_d, "length_double", 15000000, 500000000)
    .req (C08_REQ_CLASSES)
    .chunked (8192)
    .over ("Vec2/3/4<double>::length vs __float128 norm, in ulps of the result; same classes, exponents swept from 2^-1074 to sqrt(max)/2");

// ------------------------------------------------------------------ length2()
template <class T, int N> static void
length2_case (Ctx& c, uint64_t idx, Counts& k)
{
    typedef typename VecOf<T, N>::type V;
    Rng r = c.rng (idx);
    T   a[N];
    int cls = gen<T, N> (r, idx, a, k);
    path_classes<T, N> (a, cls, k);
    V v   = VecOf<T, N>::make (a);
    T got = v.length2 ();
    T d1  = v.dot (v);
    T d2  = v ^ v;
    // textbook sum of squares, left to right, in T
    volatile T s = a[0] * a[0];
    for (int i = 1; i < N; ++i)
    {
        volatile T sq = a[i] * a[i];
        s             = s + sq;
    }
    T d3 = s;
    c.eval ();
    if ((idx & 3) == 0) c.nontrivial (hash_vec<T, N> (a));
    auto desc = [&] {
        return Obj ().kv ("class", cls_name[cls]).raw ("v", vec_json<T, N> (a)).kv ("v_bits", vec_hex<T, N> (a)).kv ("length2", FP<T>::hex (got))
            .kv ("dot", FP<T>::hex (d1)).kv ("operator^", FP<T>::hex (d2)).kv ("sum_of_squares", FP<T>::hex (d3)).str ();
    };
    if (c.verbose) std::fprintf (stderr, "[replay] %s\n", desc ().c_str ());
    if (FP<T>::bits (got) != FP<T>::bits (d1)) c.fail (tname ("length2", N, FP<T>::tag ()) + ":ne_dot", idx, desc);
    if (FP<T>::bits (got) != FP<T>::bits (d2)) c.fail (tname ("length2", N, FP<T>::tag ()) + ":ne_operator_dot", idx, desc);
    if (FP<T>::bits (got) != FP<T>::bits (d3)) c.fail (tname ("length2", N, FP<T>::tag ()) + ":ne_sum_of_squares", idx, desc);
    if (!std::isfinite (got)) c.fail (tname ("length2", N, FP<T>::tag ()) + ":nonfinite", idx, desc);
    if (idx / 24 == 777) c.sample (cls_name[cls], desc);
}
template <class T> static void
sub_length2 (Ctx& c, uint64_t b, uint64_t e)
{
    Counts k;
    for (uint64_t i = b; i < e; ++i)
    {
        switch (i % 3)
        {
            case 0: length2_case<T, 2> (c, i, k); break;
            case 1: length2_case<T, 3> (c, i, k); break;
            default: length2_case<T, 4> (c, i, k); break;
        }
    }
    k.flush (c);
}
static void sub_length2_f (Ctx& c, uint64_t b, uint64_t e) { sub_length2<float> (c, b, e); }
static void sub_length2_d (Ctx& c, uint64_t b, uint64_t e) { sub_length2<double> (c, b, e); }
MON_SUB (sub_length2_f, "length2_float", 12000000, 240000000)
    .req (C08_REQ_CLASSES)
    .chunked (8192)
    .over ("Vec2/3/4<float>::length2 == v.dot(v) == v^v == loop sum of squares, bit for bit (same input classes as length)");
MON_SUB (sub_length2_d, "length2_double", 12000000, 240000000)
    .req (C08_REQ_CLASSES)
    .chunked (8192)
    .over ("Vec2/3/4<double>::length2 == v.dot(v) == v^v == loop sum of squares, bit for bit");

// ------------------------------------------------------------------ zero vectors, every sign pattern, every entry point
template <class T, int N> static void
zero_case (Ctx& c, uint64_t idx, unsigned pattern)
{
    typedef typename VecOf<T, N>::type V;
    T a[N];
    for (int i = 0; i < N; ++i) a[i] = (pattern >> i) & 1 ? -T (0) : T (0);
    const V v0 = VecOf<T, N>::make (a);
    auto    is_zero = [] (const V& x) {
        for (int i = 0; i < N; ++i)
            if (!(x[i] == T (0))) return false; // NaN fails too
        return true;
    };
    auto desc = [&] (const char* what, const V& res) {
        T rr[N];
        for (int i = 0; i < N; ++i) rr[i] = res[i];
        return Obj ().kv ("what", what).kv ("v_bits", vec_hex<T, N> (a)).raw ("result", vec_json<T, N> (rr)).kv ("result_bits", vec_hex<T, N> (rr)).str ();
    };
    const char* tg = FP<T>::tag ();
    c.eval (8);
    c.nontrivial_enum (1);
    c.cls (pattern == 0 ? "all_positive_zero" : pattern == (1u << N) - 1 ? "all_negative_zero" : "mixed_signed_zeros");

    T l = v0.length ();
    if (!(l == T (0))) c.fail (tname ("length", N, tg) + ":nonzero_for_zero_vector", idx, [&] { return Obj ().kv ("v_bits", vec_hex<T, N> (a)).kv ("length", (double) l).str (); });
    T l2 = v0.length2 ();
    if (!(l2 == T (0))) c.fail (tname ("length2", N, tg) + ":nonzero_for_zero_vector", idx, [&] { return Obj ().kv ("v_bits", vec_hex<T, N> (a)).kv ("length2", (double) l2).str (); });

    { V v = v0; v.normalize ();
      if (!is_zero (v)) c.fail (tname ("normalize", N, tg) + ":zero_vector", idx, [&] { return desc ("normalize() of the zero vector", v); }); }
    { V n = v0.normalized ();
      if (!is_zero (n)) c.fail (tname ("normalized", N, tg) + ":zero_vector", idx, [&] { return desc ("normalized() of the zero vector", n); }); }
    {
        V    v = v0;
        bool threw = false, wrong = false;
        try { v.normalizeExc (); }
        catch (const std::domain_error&) { threw = true; }
        catch (...) { threw = true; wrong = true; }
        c.cls (threw ? "exc_form_threw" : "exc_form_returned");
        // zero vector -> zero vector, or the documented exception (whether it throws is C07's business)
        if (!is_zero (v) || wrong) c.fail (tname ("normalizeExc", N, tg) + ":zero_vector", idx, [&] { return desc (wrong ? "normalizeExc() threw something that is not std::domain_error" : "normalizeExc() of the zero vector left a non-zero / NaN vector", v); });
    }
    {
        V    n (T (0));
        bool threw = false, wrong = false;
        try { n = v0.normalizedExc (); }
        catch (const std::domain_error&) { threw = true; }
        catch (...) { threw = true; wrong = true; }
        c.cls (threw ? "exc_form_threw" : "exc_form_returned");
        if (!is_zero (n) || wrong) c.fail (tname ("normalizedExc", N, tg) + ":zero_vector", idx, [&] { return desc (wrong ? "normalizedExc() threw something that is not std::domain_error" : "normalizedExc() of the zero vector returned a non-zero / NaN vector", n); });
    }
    // normalizeNonNull / normalizedNonNull have the precondition v != 0: not called here.
    if (pattern == 5 % (1u << N)) c.sample (FP<T>::tag ()[0] == 'f' ? "zero_float" : "zero_double", [&] { return Obj ().kv ("dim", N).kv ("v_bits", vec_hex<T, N> (a)).str (); });
}

static void
sub_zero (Ctx& c, uint64_t idx)
{
    // 2 types x (4 + 8 + 16) sign patterns
    uint64_t t = idx / 28, q = idx % 28;
    if (t == 0)
    {
        if (q < 4) zero_case<float, 2> (c, idx, (unsigned) q);
        else if (q < 12) zero_case<float, 3> (c, idx, (unsigned) (q - 4));
        else zero_case<float, 4> (c, idx, (unsigned) (q - 12));
    }
    else
    {
        if (q < 4) zero_case<double, 2> (c, idx, (unsigned) q);
        else if (q < 12) zero_case<double, 3> (c, idx, (unsigned) (q - 4));
        else zero_case<double, 4> (c, idx, (unsigned) (q - 12));
    }
}
MON_SUB_IDX (sub_zero, "zero_vectors", 56, 56)
    .req ({"all_positive_zero", "all_negative_zero", "mixed_signed_zeros"})
    .exh ()
    .noscale ()
    .chunked (4)
    .over ("every sign pattern of the zero vector (4+8+16) x {float,double}: length, length2, normalize, normalized, normalizeExc, normalizedExc return 0 / the zero vector (or throw std::domain_error), never NaN");

MON_MAIN ("c08_length")
