// C06 sub-checks (templates over the element type T).
#pragma once

namespace c06
{

// ---------------------------------------------------------------- calibrated tolerances
// ratio = max_ij|X - Xref| / (cond_inf(M) * eps * ||Xref||_inf).  Constants = >= 8 x the worst ratio seen on the
// pristine tree (see the `worst` records in the evidence; calibration runs are quoted in lib/props.d/c06.py).
struct Tol
{
    static constexpr double C_GJ   = 16.0; // Gauss-Jordan forms and Matrix44::inverse general path
    static constexpr double C_ADJ2 = 16.0; // 2x2 adjugate (Matrix22, affine path of Matrix33)
    static constexpr double C_COF3 = 32.0; // 3x3 cofactors (Matrix33 general path, Matrix44 affine path), inputs with amp <= 8
    static constexpr double C_CONT = 32.0; // continuity across the affine test (two results, two paths)
    static constexpr double AMP_KNOWN = 8.0; // amplification above which the cofactor path falls under known finding *:sv_gap
};
inline double tol_of (Path p)
{
    switch (p)
    {
        case P_22:
        case P_33_AFF: return Tol::C_ADJ2;
        case P_33_COF:
        case P_44_AFF: return Tol::C_COF3;
        default: return Tol::C_GJ;
    }
}

template <class T, class R> inline R max_err (const Arr<T>& X, const Arr<R>& Xref)
{
    R e = 0;
    for (int i = 0; i < X.n; ++i)
        for (int j = 0; j < X.n; ++j)
        {
            if (!std::isfinite (X.a[i][j])) return std::numeric_limits<double>::infinity ();
            R d = rabs ((R) X.a[i][j] - Xref.a[i][j]);
            if (d > e) e = d;
        }
    return e;
}

template <class T> inline bool bounded_range (const Arr<T>& m)
{
    for (int i = 0; i < m.n; ++i)
        for (int j = 0; j < m.n; ++j)
        {
            double v = std::fabs ((double) m.a[i][j]);
            if (v != 0 && (v < 0x1p-30 || v > 0x1p21)) return false; // entries of a matrix of scale [2^-20,2^20]; graded matrices have small entries
        }
    return true;
}

template <class T> inline std::string describe_case (const Arr<T>& M, const char* kind, const char* form, const Arr<T>* X, double cond, double amp, double ratio, const std::string& want = std::string ())
{
    Obj o;
    o.kv ("kind", kind).kv ("form", form).kv ("n", M.n).raw ("M", arr_json (M)).kv ("M_bits", arr_bits (M)).kv ("cond_inf", cond).kv ("amp", amp).kv ("err_over_cond_eps_normX", ratio);
    if (X) o.raw ("got", arr_json (*X));
    if (!want.empty ()) o.raw ("reference_inverse", want);
    return o.str ();
}

// the outcome of a value form as a matrix: a throw of invalid_argument is the singular outcome (identity)
template <class T> inline Arr<T> outcome_matrix (const Out<T>& o, int n)
{
    return o.threw == 1 ? Arr<T>::identity (n) : o.X;
}

// in-place forms must leave exactly what the value form with the same argument returns
template <class T> inline void check_inplace (Ctx& c, uint64_t idx, const Arr<T>& M, const Out<T> out[F_COUNT], const bool have[F_COUNT], const char* kind)
{
    for (int f = 0; f < F_COUNT; ++f)
    {
        if (!have[f] || !form_is_inplace (f)) continue;
        const Out<T>& ip = out[f];
        const Out<T>& vf = out[form_value_twin (f)];
        bool          ok = ip.threw == vf.threw && ip.self;
        if (ok && ip.threw == 0) ok = arr_biteq (ip.X, vf.X);
        if (!ok)
            c.fail (key_of (M.n, f, TName<T>::s (), "differs_from_value_form"), idx, [&] {
                return Obj ().kv ("kind", kind).kv ("n", M.n).raw ("M", arr_json (M)).kv ("M_bits", arr_bits (M)).raw ("in_place", arr_json (ip.X)).raw ("value_form", arr_json (vf.X)).kv ("in_place_threw", ip.threw).kv ("value_form_threw", vf.threw).kv ("returned_self", ip.self).str ();
            });
    }
}

// ---------------------------------------------------------------- (1)(2)(4): accuracy, in-place identity, finiteness
template <class T> void sub_accuracy (Ctx& c, uint64_t idx)
{
    typedef typename RefOf<T>::type R;
    static const std::string wname[3][6] = {
        {std::string ("ratio.M22.adj2x2.") + TName<T>::s (), "", "", "", "", ""},
        {"", std::string ("ratio.M33.cofactor3x3.") + TName<T>::s (), std::string ("ratio.M33.affine2x2.") + TName<T>::s (), "", "", std::string ("ratio.M33.gj.") + TName<T>::s ()},
        {"", "", "", std::string ("ratio.M44.general_gj.") + TName<T>::s (), std::string ("ratio.M44.affine_cofactor3x3.") + TName<T>::s (), std::string ("ratio.M44.gj.") + TName<T>::s ()}};
    static const std::string wamp[3] = {"", std::string ("ratio_over_amp.M33.cofactor3x3.") + TName<T>::s (), std::string ("ratio_over_amp.M44.affine_cofactor3x3.") + TName<T>::s ()};
    const double eps = eps_of<T>::value;

    Rng      r    = c.rng (idx);
    int      n    = 2 + (int) (idx % 3);
    int      kind = (int) ((idx / 3) % K_COUNT);
    bool     aff  = ((idx / 3 / K_COUNT) % 2) == 1 && n > 2;
    uint64_t sel  = idx / (3 * K_COUNT * 2);
    Arr<T>   M    = gen_matrix<T> (r, n, kind, aff, sel);
    const char* kname = kind_name (kind);

    Ref<R> ref = ref_inverse (widen<R> (M));
    c.eval ();
    if (ref.singular) { c.cls ("skipped_exactly_singular"); return; } // judged by the singular sub-check
    c.nontrivial (arr_hash (M));
    c.cls (kname);
    double cond = (double) ref.cond;
    Path   pinv = inverse_path (M);
    c.cls (path_name (pinv));
    if (aff && pinv != P_33_AFF && pinv != P_44_AFF) c.cls ("affine_lookalike_last_column");
    if (pinv != P_44_GJ)
    {
        int k  = (pinv == P_33_AFF || pinv == P_22) ? 2 : 3;
        R   db = det_block (widen<R> (M), k);
        c.cls (rabs (db) >= 1 ? "branch_absdet_ge1" : "branch_absdet_lt1");
        if (rabs (db) == 1) c.cls ("branch_absdet_eq1");
    }
    double amp = (n >= 3) ? amp33 (widen<R> (M)) : 1.0;
    {
        double lc = std::log10 (cond);
        c.cls (lc < 2 ? "cond_lt_1e2" : lc < 4 ? "cond_1e2_1e4" : lc < -std::log10 (eps) ? "cond_1e4_1/eps" : lc < -2 * std::log10 (eps) ? "cond_1/eps_1/eps2" : "cond_ge_1/eps2");
    }

    Out<T> out[F_COUNT];
    bool   have[F_COUNT];
    call_all (M, out, have);
    check_inplace (c, idx, M, out, have, kname);

    bool range_ok   = bounded_range (M);
    bool finite_req = range_ok && cond < 1.0 / (eps * eps) / 16.0;
    if (finite_req) c.cls ("finite_required"); else c.cls ("finite_not_required");

    for (int f = 0; f < F_COUNT; ++f)
    {
        if (!have[f] || form_is_inplace (f)) continue;
        const Out<T>& o = out[f];
        Path          p = form_is_gj (f) ? P_GJ : pinv;
        if (o.threw == 2)
        {
            c.fail (key_of (n, f, TName<T>::s (), "threw_unexpected_type"), idx, [&] { return describe_case<T> (M, kname, form_name (f), nullptr, cond, amp, 0); });
            continue;
        }
        Arr<T> X = outcome_matrix (o, n);
        // (4) no inf / NaN below cond 1/eps^2
        if (finite_req && !arr_finite (X))
        {
            c.fail (key_of (n, f, TName<T>::s (), std::string ("nonfinite.") + path_name (p)), idx, [&] { return describe_case<T> (M, kname, form_name (f), &X, cond, amp, 0); });
            continue;
        }
        // (1) accuracy, judged where the first-order bound means something
        double C = tol_of (p);
        if (!(C * cond * eps <= 0.5))
        {
            if (f == F_INVERSE) c.cls ("skipped_beyond_first_order");
            continue;
        }
        R      err   = max_err (X, ref.X);
        double ratio = (double) (err / (ref.cond * (R) eps * ref.normX));
        bool   cof3  = path_is_cofactor3 (p);
        bool   gap   = cof3 && amp > Tol::AMP_KNOWN;
        if (f == F_INVERSE || f == F_GJINVERSE)
        {
            if (!gap) c.worst (wname[n - 2][p].c_str (), ratio, idx, [&] { return describe_case<T> (M, kname, form_name (f), nullptr, cond, amp, ratio); });
            else if (C * amp * cond * eps <= 0.5) c.worst (wamp[n - 2].c_str (), ratio / amp, idx, [&] { return describe_case<T> (M, kname, form_name (f), nullptr, cond, amp, ratio); });
            if (f == F_INVERSE) c.cls (gap ? "judged_cofactor_amp_gt8" : "judged_strict");
        }
        if (ratio <= C) continue;
        std::string cls = std::string ("acc.") + path_name (p);
        if (gap && (C * amp * cond * eps > 0.5 || ratio <= C * amp)) cls += ":sv_gap";
        c.fail (key_of (n, f, TName<T>::s (), cls), idx, [&] { return describe_case<T> (M, kname, form_name (f), &X, cond, amp, ratio, arr_json (ref.X)); });
    }
    if (sel == 1) c.sample (kname, [&] { return Obj ().kv ("n", n).kv ("affine", aff).raw ("M", arr_json (M)).kv ("cond_inf", cond).kv ("path", path_name (pinv)).str (); });
}

} // namespace c06
#include "c06_inv_subs2.h"
