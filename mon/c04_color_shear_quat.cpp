// C04 - operators and equality of Color3/Color4 x {half,float,unsigned char},
// Shear6 x {float,double}, Quat x {float,double} (harness in c04_common.h).
#include "c04_common.h"
using namespace IMATH_INTERNAL_NAMESPACE;
typedef unsigned char uchar;

C04_REG_OPS (Color3<half>, "Color3_half");
C04_REG_OPS (Color3<float>, "Color3_float");
C04_REG_OPS (Color3<uchar>, "Color3_uchar");
C04_REG_OPS (Color4<half>, "Color4_half");
C04_REG_OPS (Color4<float>, "Color4_float");
C04_REG_OPS (Color4<uchar>, "Color4_uchar");
C04_REG_OPS (Shear6<float>, "Shear6_float");
C04_REG_OPS (Shear6<double>, "Shear6_double");
C04_REG_OPS (Quat<float>, "Quat_float");
C04_REG_OPS (Quat<double>, "Quat_double");

C04_REG_EQ (Color3<half>, "Color3_half");
C04_REG_EQ (Color3<float>, "Color3_float");
C04_REG_EQ (Color3<uchar>, "Color3_uchar");
C04_REG_EQ (Color4<half>, "Color4_half");
C04_REG_EQ (Color4<float>, "Color4_float");
C04_REG_EQ (Color4<uchar>, "Color4_uchar");
C04_REG_EQ (Shear6<float>, "Shear6_float");
C04_REG_EQ (Shear6<double>, "Shear6_double");
C04_REG_EQ (Quat<float>, "Quat_float");
C04_REG_EQ (Quat<double>, "Quat_double");

// ---- scalar on the left with a scalar type S different from the element type T (template <class S, class T>
// operator* (S, const Color4<T>&) and operator* (S, const Shear6<T>&)): every slot is T (s * slot), the product formed in
// the common type of S and T.  Added after seeded change C04-6 (forwarding to v * T (s) converts the scalar first).
namespace
{
template <class S, class V> void run_mixed_left (mon::Ctx& c, uint64_t idx)
{
    using namespace c04;
    typedef typename Tr<V>::E T;
    constexpr int N = Tr<V>::N;
    mon::Rng      r = c.rng (idx);
    T             a[N];
    S             s;
    const char*   cls;
    static const double fr[] = {0.5, 1.5, 0.25, 2.5, 1.0 / 3, 0.1, 0.75, 1.25, 2.0, 0.9};
    if (std::is_integral<T>::value)
    {
        // products stay inside [0, 250]: the conversion to T is defined
        for (int i = 0; i < N; ++i) a[i] = (T) r.range (0, 100);
        if (std::is_integral<S>::value) { s = (S) r.range (0, 2); cls = "integer_scalar_integer_slots"; }
        else { s = (S) fr[r.range (0, 9)]; cls = "fractional_scalar_integer_slots"; }
    }
    else if (std::is_integral<S>::value)
    {
        for (int i = 0; i < N; ++i) a[i] = (T) (float) (r.range (-2000, 2000) / 16.0);
        s   = (S) r.range (-30, 30);
        cls = "integer_scalar_float_slots";
    }
    else
    {
        // a scalar that is not representable in T: converting it first rounds twice
        for (int i = 0; i < N; ++i) a[i] = (T) (float) (r.range (-2000, 2000) / 16.0);
        s   = (S) (fr[r.range (0, 9)] * (r.coin () ? 1 : -1) * (1 + r.uniform () / 8));
        cls = "wider_scalar_float_slots";
    }
    c.cls (cls);
    c.nontrivial (hash_combine (hash_vals (7, a, N), (uint64_t) (int64_t) (double (s) * 1048576.0)));
    const V va  = make<V> (a);
    const V got = s * va;
    c.eval ();
    for (int i = 0; i < N; ++i)
    {
        const T want = T (s * a[i]);
        const T g    = Tr<V>::at (got, i);
        if (!same (g, want))
            c.fail (std::string ("operator*(S,V).") + Tr<V>::name () + ":" + cls, idx, [&] {
                return Obj ().kv ("class", cls).raw ("a", sarr (a, N)).kv ("s", std::to_string ((double) s)).kv ("slot", i).kv ("got", sval (g)).kv ("want", sval (want)).str ();
            });
        if (!same (Tr<V>::at (va, i), a[i])) c.fail (std::string ("operator*(S,V).") + Tr<V>::name () + ":operand_modified", idx, [&] { return Obj ().kv ("slot", i).str (); });
    }
}
} // namespace
#define C04_REG_MIXED(S, V, tag, klass)                                                                              \
    MON_SUB_IDX ((run_mixed_left<S, V>), "mixed_scalar_left_" tag, 20000, 2000000)                                     \
        .req ({klass})                                                                                               \
        .over ("S * V with a scalar type S different from the element type: every slot equals T (s * slot), product formed in the common type")
C04_REG_MIXED (double, Color4<uchar>, "double_Color4_uchar", "fractional_scalar_integer_slots");
C04_REG_MIXED (float, Color4<uchar>, "float_Color4_uchar", "fractional_scalar_integer_slots");
C04_REG_MIXED (int, Color4<uchar>, "int_Color4_uchar", "integer_scalar_integer_slots");
C04_REG_MIXED (double, Color4<float>, "double_Color4_float", "wider_scalar_float_slots");
C04_REG_MIXED (float, Color4<half>, "float_Color4_half", "wider_scalar_float_slots");
C04_REG_MIXED (int, Color4<float>, "int_Color4_float", "integer_scalar_float_slots");
C04_REG_MIXED (double, Shear6<float>, "double_Shear6_float", "wider_scalar_float_slots");
C04_REG_MIXED (int, Shear6<double>, "int_Shear6_double", "integer_scalar_float_slots");
C04_REG_MIXED (float, Shear6<double>, "float_Shear6_double", "wider_scalar_float_slots");
