// C04 - operators and equality of Color3/Color4 x {half,float,unsigned char},
// Shear6 x {float,double}, Quat x {float,double} (harness in c04_common.h).
#include "c04_common.h"
using namespace IMATH_INTERNAL_NAMESPACE;
typedef unsigned char uchar;

C04_REG_OPS (Color3<half>, "Color3_half");
C04_REG_OPS (Color3<float>, "Color3_float");
C04_REG_OPS (Color3<uchar>, "Color3_uchar");
C04_REG_OPS (Color4<half>, "Color4_half");
C04_REG_OPS (Color4<float>, "Color4_float");
C04_REG_OPS (Color4<uchar>, "Color4_uchar");
C04_REG_OPS (Shear6<float>, "Shear6_float");
C04_REG_OPS (Shear6<double>, "Shear6_double");
C04_REG_OPS (Quat<float>, "Quat_float");
C04_REG_OPS (Quat<double>, "Quat_double");

C04_REG_EQ (Color3<half>, "Color3_half");
C04_REG_EQ (Color3<float>, "Color3_float");
C04_REG_EQ (Color3<uchar>, "Color3_uchar");
C04_REG_EQ (Color4<half>, "Color4_half");
C04_REG_EQ (Color4<float>, "Color4_float");
C04_REG_EQ (Color4<uchar>, "Color4_uchar");
C04_REG_EQ (Shear6<float>, "Shear6_float");
C04_REG_EQ (Shear6<double>, "Shear6_double");
C04_REG_EQ (Quat<float>, "Quat_float");
C04_REG_EQ (Quat<double>, "Quat_double");
