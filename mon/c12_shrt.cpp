// C12, family A - scale/shear/rotation/translation decompositions of
// ImathMatrixAlgo.h (3-D on Matrix44, 2-D on Matrix33).
//
// Oracle: the factors returned by the library are recomposed by the monitor in
// long double from the *documented* conventions (M = S*H*R*T, row vectors;
// S = diag(s); H unit lower triangular with h.x=[1][0], h.y=[2][0], h.z=[2][1];
// R = Rx*Ry*Rz built from elementary axis rotations written as loops; T = last
// row) and compared with the input.  Tolerance: per row i,
//     max_j |rec[i][j] - M[i][j]|  <=  C * eps * kappa * |M[i]|_2
// with kappa = ||Ln||_F ||Ln^-1||_F of the row-normalised linear part (the
// conditioning that Gram-Schmidt is sensitive to); matrices with
// kappa*eps > 2^-12 are "nearly singular": executed, counted, not judged.
// Degenerate input (exactly zero computed scale) must be reported.
#include "c12_common.h"
#include <ImathEuler.h>
#include <ImathMatrixAlgo.h>

using namespace mon;
using namespace c12;
using namespace IMATH_NAMESPACE;

namespace
{

// calibrated constants: worst ratios observed on the pristine tree over >= 1.2e7 cases per sub-check
// (thorough tier, seeds 1-2): recompose 1.48, orthonormality 1.49, orders 1.33, computeRSMatrix 1.81 (4.4e8-case run)
const LD C_RECOMPOSE = 16;   // recomposition from Euler angles / from the returned rotation matrix
const LD C_ORTH      = 16;   // orthonormality and determinant of the residual rotation
const LD C_SAME      = 4;    // same factor through another entry point (relative, in eps)
const LD C_ORDER     = 16;   // recomposition through Euler<T> for the 24 rotation orders
const LD C_RS        = 24;   // computeRSMatrix, relative to the row length, in eps

template <class T> LD epsT () { return (LD) std::numeric_limits<T>::epsilon (); }
template <class T> LD skip_kappa () { return ldexpl (1.0L, -12) / epsT<T> (); }

// ---------------------------------------------------------------- builders (long double)
Mat<3>
axis_rotation (int axis, LD angle)
{
    // rotation about coordinate axis `axis` in the row-vector convention: with (b,c) the
    // two following axes in cyclic order, e_b -> cos e_b + sin e_c
    Mat<3> r = ident<3> ();
    int    b = (axis + 1) % 3, c = (axis + 2) % 3;
    r[b][b] = cosl (angle); r[b][c] = sinl (angle);
    r[c][b] = -sinl (angle); r[c][c] = cosl (angle);
    return r;
}

Mat<3>
rot_xyz (LD rx, LD ry, LD rz)
{
    return mul (mul (axis_rotation (0, rx), axis_rotation (1, ry)), axis_rotation (2, rz));
}

Mat<3>
shear3 (LD h0, LD h1, LD h2)
{
    Mat<3> h = ident<3> ();
    h[1][0] = h0; h[2][0] = h1; h[2][1] = h2;
    return h;
}

template <int N>
Mat<N>
diagm (const LD* s)
{
    Mat<N> m = zero<N> ();
    for (int i = 0; i < N; ++i)
        m[i][i] = s[i];
    return m;
}

Mat<2>
rot2 (LD a)
{
    Mat<2> r;
    r[0][0] = cosl (a); r[0][1] = sinl (a);
    r[1][0] = -sinl (a); r[1][1] = cosl (a);
    return r;
}

// max over rows of max_j |got - want| / |want_i|_2 ; rows of `want` are non-zero
template <int N>
LD
row_rel_err (const Mat<N>& got, const Mat<N>& want)
{
    LD worst = 0;
    for (int i = 0; i < N; ++i)
    {
        LD l = 0, d = 0;
        for (int j = 0; j < N; ++j)
        {
            l += want[i][j] * want[i][j];
            LD e = fabsl (got[i][j] - want[i][j]);
            if (!(e <= d)) d = e; // NaN propagates
        }
        l = sqrtl (l);
        LD q = d / l;
        if (!(q <= worst)) worst = q;
    }
    return worst;
}

LD
logu (Rng& r, LD lo, LD hi) // log-uniform in [lo,hi]
{
    return expl (logl (lo) + (logl (hi) - logl (lo)) * (LD) r.uniform ());
}

const LD PI = 3.14159265358979323846264338327950288L;

// =================================================================== 3-D case generator
enum { NCLS3 = 16 };
const char* const cls3_names[NCLS3] = {"shrt_random", "no_shear", "neg_scale_1", "neg_scale_2", "neg_scale_3", "graded_conditioning",
                                       "scale_sweep", "gimbal", "quarter_turns", "large_shear", "uniform_or_identity", "tiny_scale_one_axis",
                                       "dense_random", "dense_reflection", "shrt_random_wide", "small_angles"};

template <class T>
const char*
gen44 (Rng& r, uint64_t idx, Matrix44<T>& out)
{
    const bool dbl = sizeof (T) == 8;
    int        k   = (int) (idx % NCLS3);
    LD         s[3], h[3] = {0, 0, 0}, a[3], t[3];
    for (int i = 0; i < 3; ++i)
    {
        s[i] = logu (r, 0.1L, 10.0L);
        h[i] = r.sym (2.0);
        a[i] = r.sym ((double) PI);
        t[i] = r.sym (100.0);
    }
    a[1] = r.sym ((double) PI / 2);
    Mat<3> L;
    bool   haveL = false;
    switch (k)
    {
        case 0: break;
        case 1: h[0] = h[1] = h[2] = 0; break;
        case 2: s[r.range (0, 2)] *= -1; break;
        case 3: { int keep = (int) r.range (0, 2); for (int i = 0; i < 3; ++i) if (i != keep) s[i] = -s[i]; break; }
        case 4: for (int i = 0; i < 3; ++i) s[i] = -s[i]; break;
        case 5:
        {
            LD     kmax = dbl ? 12.5L : 3.5L;
            LD     kk   = kmax * (LD) r.uniform ();
            LD     d[3] = {1.0L, powl (10.0L, -kk * (LD) r.uniform ()), powl (10.0L, -kk)};
            Mat<3> u = random_orthogonal<3> (r), v = random_orthogonal<3> (r);
            L = udvt (u, d, v);
            LD mag = ldexpl (1.0L, (int) r.range (-8, 8));
            for (int i = 0; i < 3; ++i) for (int j = 0; j < 3; ++j) L[i][j] *= mag;
            haveL = true;
            break;
        }
        case 6: { int e = dbl ? 250 : 30; for (int i = 0; i < 3; ++i) s[i] = ldexpl (1.0L + (LD) r.uniform (), (int) r.range (-e, e)) * (r.one_in (4) ? -1 : 1); break; }
        case 7: a[1] = (r.coin () ? 1 : -1) * (PI / 2) + (r.coin () ? 1 : -1) * powl (10.0L, -(LD) r.range (1, dbl ? 16 : 8)) * (r.one_in (8) ? 0 : 1); break;
        case 8:
            for (int i = 0; i < 3; ++i)
            {
                a[i] = (LD) r.range (-2, 2) * (PI / 2);
                s[i] = (LD) r.range (1, 8) * (r.one_in (3) ? -1 : 1);
                h[i] = r.coin () ? 0 : (LD) r.range (-3, 3);
                t[i] = (LD) r.range (-50, 50);
            }
            break;
        case 9: for (int i = 0; i < 3; ++i) h[i] = (r.coin () ? 1 : -1) * logu (r, 10.0L, 1000.0L) * (r.one_in (3) ? 0 : 1); break;
        case 10:
        {
            int v = (int) r.range (0, 3);
            h[0] = h[1] = h[2] = 0;
            if (v == 0) { s[1] = s[2] = s[0]; }                                                    // uniform scale * rotation
            else if (v == 1) { s[0] = s[1] = s[2] = 1; a[0] = a[1] = a[2] = 0; }                     // pure translation
            else if (v == 2) { s[0] = s[1] = s[2] = 1; a[0] = a[1] = a[2] = 0; t[0] = t[1] = t[2] = 0; } // identity
            else { a[0] = a[1] = a[2] = 0; }                                                          // pure scale
            break;
        }
        case 11: { int e = dbl ? 500 : 60; s[r.range (0, 2)] *= ldexpl (1.0L, -(int) r.range (10, e)); break; }
        case 12:
        case 13:
            for (int i = 0; i < 3; ++i) for (int j = 0; j < 3; ++j) L[i][j] = r.gauss ();
            if ((det (L) < 0) != (k == 13)) for (int j = 0; j < 3; ++j) L[2][j] = -L[2][j];
            haveL = true;
            break;
        case 14:
            for (int i = 0; i < 3; ++i)
            {
                s[i] = logu (r, 1e-3L, 1e3L) * (r.one_in (6) ? -1 : 1);
                h[i] = r.sym (8.0);
                a[i] = r.sym (20.0);
                t[i] = (LD) r.logscale (-20, 20);
            }
            break;
        case 15: for (int i = 0; i < 3; ++i) a[i] = (LD) r.logscale (dbl ? -40 : -20, -3); break;
    }
    if (!haveL) L = mul (mul (diagm<3> (s), shear3 (h[0], h[1], h[2])), rot_xyz (a[0], a[1], a[2]));
    for (int i = 0; i < 3; ++i)
    {
        for (int j = 0; j < 3; ++j)
            out[i][j] = (T) L[i][j];
        out[i][3] = 0;
        out[3][i] = (T) t[i];
    }
    out[3][3] = 1;
    return cls3_names[k];
}

template <class T> struct Dim3
{
    typedef Matrix44<T> M;
    typedef Vec3<T>     V;
    enum { N = 3 };
};

// S*H for the 3-D factors returned by the library
template <class T>
Mat<3>
SH3 (const Vec3<T>& s, const Vec3<T>& h)
{
    LD sd[3] = {(LD) s.x, (LD) s.y, (LD) s.z};
    return mul (diagm<3> (sd), shear3 ((LD) h.x, (LD) h.y, (LD) h.z));
}

template <class T>
bool
vec_close (const Vec3<T>& a, const Vec3<T>& b, LD c_eps)
{
    for (int i = 0; i < 3; ++i)
        if (!(fabsl ((LD) a[i] - (LD) b[i]) <= c_eps * epsT<T> () * fabsl ((LD) b[i]))) return false;
    return true;
}
template <class T>
bool
vec_close (const Vec2<T>& a, const Vec2<T>& b, LD c_eps)
{
    for (int i = 0; i < 2; ++i)
        if (!(fabsl ((LD) a[i] - (LD) b[i]) <= c_eps * epsT<T> () * fabsl ((LD) b[i]))) return false;
    return true;
}

template <class T>
std::string
v3j (const Vec3<T>& v)
{
    return "[" + jnum ((double) v.x) + "," + jnum ((double) v.y) + "," + jnum ((double) v.z) + "]";
}
template <class T>
std::string
v2j (const Vec2<T>& v)
{
    return "[" + jnum ((double) v.x) + "," + jnum ((double) v.y) + "]";
}

// marker matrix used as the `mat` argument of the in/out overload
template <class T>
Matrix44<T>
marker44 ()
{
    Matrix44<T> m;
    for (int i = 0; i < 4; ++i)
        for (int j = 0; j < 4; ++j)
            m[i][j] = (T) (1000 + 10 * i + j);
    return m;
}

// ------------------------------------------------------------------ 3-D regular inputs
template <class T>
void
sub_shrt44 (Ctx& c, uint64_t idx)
{
    typedef Matrix44<T> M44;
    typedef Vec3<T>     V3;
    const std::string   ty  = tname<T>::s ();
    const LD            eps = epsT<T> ();
    Rng                 r   = c.rng (idx);
    M44                 m;
    const char*         cls = gen44<T> (r, idx, m);
    const bool          exc = (idx / NCLS3) & 1; // regular input: must behave the same with exc = true
    c.eval ();

    Mat<4> m_ld = toLD (m);
    Mat<3> L    = topleft<3> (m_ld);
    LD     kappa = row_equilibrated_cond (L);
    bool   judge = kappa <= skip_kappa<T> ();
    if (!judge)
    {
        // nearly singular: outside the quantifier; executed (sanitizers see it), not judged
        c.cls ("skipped_nearly_singular");
        V3 s, h, rr, t;
        try { (void) extractSHRT (m, s, h, rr, t, false); } catch (...) {}
        return;
    }
    c.cls (cls);
    c.nontrivial (hash_mat (m));
    LD tolk = eps * kappa;

    auto describe = [&] (const char* what, LD ratio) {
        return [&, what, ratio] { return Obj ().kv ("class", cls).kv ("what", what).raw ("M", mat_json (m)).kv ("kappa", (double) kappa).kv ("exc", exc).kv ("ratio_eps_kappa", (double) ratio).str (); };
    };
    auto fail = [&] (const std::string& fn, const char* slot, const char* what, LD ratio) { c.fail (fn + "44." + ty + ":" + slot, idx, describe (what, ratio)); };

    bool threw = false;
    V3   s, h, rr, t;
    bool ok = false;
    try { ok = extractSHRT (m, s, h, rr, t, exc); } catch (...) { threw = true; }
    if (threw || !ok)
    {
        fail ("extractSHRT", "reported_regular_input", threw ? "threw on a regular matrix" : "returned false on a regular matrix", 0);
        return;
    }
    // ---- extractSHRT: S*H*R*T == M
    {
        Mat<3> rec = mul (SH3 (s, h), rot_xyz ((LD) rr.x, (LD) rr.y, (LD) rr.z));
        LD     q   = row_rel_err (rec, L) / tolk;
        c.worst ("extractSHRT44.recompose/(eps*kappa)", (double) q, idx, [&] { return Obj ().kv ("class", cls).kv ("kappa", (double) kappa).str (); });
        if (!(q <= C_RECOMPOSE)) fail ("extractSHRT", "recompose", "scale*shear*rotation(xyz) differs from the input", q);
        if (!(t.x == m[3][0] && t.y == m[3][1] && t.z == m[3][2])) fail ("extractSHRT", "translation", "t is not the translation row", 0);
        if (c.verbose) std::fprintf (stderr, "[replay] class=%s kappa=%Lg s=%s h=%s r=%s recompose ratio=%Lg\n", cls, kappa, v3j (s).c_str (), v3j (h).c_str (), v3j (rr).c_str (), q);
    }
    Mat<3> SH = SH3 (s, h);
    LD     sd[3] = {(LD) s.x, (LD) s.y, (LD) s.z};
    Mat<3> Sm = diagm<3> (sd);

    // ---- extractScaling / extractScalingAndShear: the same factors
    try
    {
        V3 s2;
        if (!extractScaling (m, s2, exc) || !vec_close (s2, s, C_SAME)) fail ("extractScaling", "scale", "scale differs from extractSHRT's", 0);
        V3 s3, h3;
        if (!extractScalingAndShear (m, s3, h3, exc) || !vec_close (s3, s, C_SAME) || !vec_close (h3, h, C_SAME)) fail ("extractScalingAndShear", "factors", "scale/shear differ from extractSHRT's", 0);
    }
    catch (...) { fail ("extractScaling", "reported_regular_input", "threw on a regular matrix", 0); }

    // ---- functions that leave rotation*translation
    auto judge_RT = [&] (const std::string& fn, const M44& out, bool okret) {
        if (!okret) { fail (fn, "reported_regular_input", "returned false / threw on a regular matrix", 0); return; }
        Mat<3> R  = topleft<3> (toLD (out));
        LD     oe = orth_err (R) / tolk;
        LD     dt = det (R);
        c.worst ("rotation44.orthonormality/(eps*kappa)", (double) oe, idx, [&] { return Obj ().kv ("class", cls).kv ("fn", fn).kv ("kappa", (double) kappa).str (); });
        if (!(oe <= C_ORTH)) fail (fn, "rotation_not_orthonormal", "R*R^T differs from I", oe);
        if (!(dt > 0)) fail (fn, "rotation_det_not_positive", "det R <= 0 (reflection left in R)", dt);
        else if (!(fabsl (dt - 1) <= 3 * C_ORTH * tolk)) fail (fn, "rotation_det_not_one", "det R differs from 1", fabsl (dt - 1) / tolk);
        LD q = row_rel_err (mul (SH, R), L) / tolk;
        c.worst ("rotation44.recompose/(eps*kappa)", (double) q, idx, [&] { return Obj ().kv ("class", cls).kv ("fn", fn).kv ("kappa", (double) kappa).str (); });
        if (!(q <= C_RECOMPOSE)) fail (fn, "recompose", "scale*shear*R differs from the input", q);
        for (int j = 0; j < 4; ++j)
            if (!(out[3][j] == m[3][j]) || !(out[j][3] == m[j][3])) { fail (fn, "translation_row", "translation row / last column not preserved exactly", 0); break; }
    };
    {
        M44  o = m; V3 s5, h5; bool okr = false;
        try { okr = extractAndRemoveScalingAndShear (o, s5, h5, exc); } catch (...) {}
        judge_RT ("extractAndRemoveScalingAndShear", o, okr);
        if (okr && (!vec_close (s5, s, C_SAME) || !vec_close (h5, h, C_SAME))) fail ("extractAndRemoveScalingAndShear", "factors", "scale/shear differ from extractSHRT's", 0);
    }
    {
        M44 o = m; bool okr = false;
        try { okr = removeScalingAndShear (o, exc); } catch (...) {}
        judge_RT ("removeScalingAndShear", o, okr);
    }
    {
        M44 o; bool okr = true;
        try { o = sansScalingAndShear (m, exc); } catch (...) { okr = false; }
        judge_RT ("sansScalingAndShear", o, okr);
    }
    {
        // in/out overload: works on `result`; `mat` is only the fall-back value
        M44 o = m; bool okr = true;
        try { sansScalingAndShear (o, marker44<T> (), exc); } catch (...) { okr = false; }
        judge_RT ("sansScalingAndShear_inout", o, okr);
    }

    // ---- functions that leave shear*rotation*translation
    auto judge_HRT = [&] (const std::string& fn, const M44& out, bool okret) {
        if (!okret) { fail (fn, "reported_regular_input", "returned false / threw on a regular matrix", 0); return; }
        Mat<3> HR = topleft<3> (toLD (out));
        LD     q  = row_rel_err (mul (Sm, HR), L) / tolk;
        c.worst ("sansScaling44.recompose/(eps*kappa)", (double) q, idx, [&] { return Obj ().kv ("class", cls).kv ("fn", fn).kv ("kappa", (double) kappa).str (); });
        if (!(q <= C_RECOMPOSE)) fail (fn, "recompose", "scale*result differs from the input (result is not shear*rotation)", q);
        LD tmax = std::max (fabsl ((LD) m[3][0]), std::max (fabsl ((LD) m[3][1]), fabsl ((LD) m[3][2])));
        for (int j = 0; j < 3; ++j)
            if (!(fabsl ((LD) out[3][j] - (LD) m[3][j]) <= C_SAME * eps * tmax)) { fail (fn, "translation", "translation row changed", 0); break; }
        if (!(out[0][3] == 0 && out[1][3] == 0 && out[2][3] == 0 && out[3][3] == 1)) fail (fn, "last_column", "last column is not (0,0,0,1)", 0);
    };
    {
        M44 o; bool okr = true;
        try { o = sansScaling (m, exc); } catch (...) { okr = false; }
        judge_HRT ("sansScaling", o, okr);
    }
    {
        M44 o = m; bool okr = false;
        try { okr = removeScaling (o, exc); } catch (...) {}
        judge_HRT ("removeScaling", o, okr);
    }
    if (idx % 997 == 0) c.sample (cls, [&] { return Obj ().raw ("M", mat_json (m)).raw ("s", v3j (s)).raw ("h", v3j (h)).raw ("r", v3j (rr)).kv ("kappa", (double) kappa).str (); });
}

// ------------------------------------------------------------------ extractSHRT, 24 rotation orders
template <class T>
void
sub_order44 (Ctx& c, uint64_t idx)
{
    typedef Matrix44<T> M44;
    typedef Vec3<T>     V3;
    static const typename Euler<T>::Order orders[24] = {
        Euler<T>::XYZ, Euler<T>::XZY, Euler<T>::YZX, Euler<T>::YXZ, Euler<T>::ZXY, Euler<T>::ZYX, Euler<T>::XZX, Euler<T>::XYX,
        Euler<T>::YXY, Euler<T>::YZY, Euler<T>::ZYZ, Euler<T>::ZXZ, Euler<T>::XYZr, Euler<T>::XZYr, Euler<T>::YZXr, Euler<T>::YXZr,
        Euler<T>::ZXYr, Euler<T>::ZYXr, Euler<T>::XZXr, Euler<T>::XYXr, Euler<T>::YXYr, Euler<T>::YZYr, Euler<T>::ZYZr, Euler<T>::ZXZr};
    const std::string ty  = tname<T>::s ();
    const LD          eps = epsT<T> ();
    Rng               r   = c.rng (idx);
    M44               m;
    // classes 0..4, 14: random (s,h,r,t) incl. negative scales
    static const int  pick[6] = {0, 1, 2, 3, 4, 14};
    const char*       cls = gen44<T> (r, (uint64_t) pick[(idx / 48) % 6], m);
    int               oi  = (int) (idx % 24);
    bool              eulerOverload = (idx / 24) & 1;
    c.eval ();
    Mat<3> L     = topleft<3> (toLD (m));
    LD     kappa = row_equilibrated_cond (L);
    if (!(kappa <= skip_kappa<T> ())) { c.cls ("skipped_nearly_singular"); return; }
    c.cls (eulerOverload ? "euler_overload" : "order_overload");
    c.cls (cls);
    c.nontrivial (hash_combine (hash_mat (m), (uint64_t) oi * 2 + eulerOverload));
    V3     s, h, rr, t;
    bool   ok;
    Mat<3> R;
    if (eulerOverload)
    {
        // the out-parameter is an Euler: it must represent the rotation as an Euler object
        // (its own order, angles in its own ijk layout), i.e. e.toMatrix44() is R
        Euler<T> e (orders[oi]);
        ok = extractSHRT (m, s, h, e, t, false);
        rr = e;
        if (e.order () != orders[oi]) c.fail ("extractSHRT44_euler." + ty + ":order_changed", idx, [&] { return Obj ().kv ("order", oi).str (); });
        R = topleft<3> (toLD (e.toMatrix44 ()));
    }
    else
    {
        // Vec3 out-parameter: angles about x, y, z in that order (Euler "XYZ layout"), to be applied in rOrder
        ok = extractSHRT (m, s, h, rr, t, false, orders[oi]);
        Euler<T> e2 (rr, orders[oi], Euler<T>::XYZLayout);
        R = topleft<3> (toLD (e2.toMatrix44 ()));
    }
    auto describe = [&] (LD q) { return [&, q] { return Obj ().kv ("class", cls).kv ("order_index", oi).kv ("euler_overload", eulerOverload).raw ("M", mat_json (m)).raw ("r", v3j (rr)).kv ("kappa", (double) kappa).kv ("ratio_eps_kappa", (double) q).str (); }; };
    std::string fn = eulerOverload ? "extractSHRT44_euler." : "extractSHRT44_order.";
    if (!ok) { c.fail (fn + ty + ":reported_regular_input", idx, describe (0)); return; }
    LD q = row_rel_err (mul (SH3 (s, h), R), L) / (eps * kappa);
    c.worst (eulerOverload ? "extractSHRT44_euler.recompose/(eps*kappa)" : "extractSHRT44_order.recompose/(eps*kappa)", (double) q, idx, [&] { return Obj ().kv ("class", cls).kv ("order_index", oi).kv ("kappa", (double) kappa).str (); });
    if (!(q <= C_ORDER))
    {
        // distinguish "right angles stored in the wrong layout" from a wrong rotation
        bool layout = false;
        if (eulerOverload)
        {
            Euler<T> e3 (rr, orders[oi], Euler<T>::XYZLayout);
            LD       q3 = row_rel_err (mul (SH3 (s, h), topleft<3> (toLD (e3.toMatrix44 ()))), L) / (eps * kappa);
            layout      = q3 <= C_ORDER;
        }
        c.fail (fn + ty + (layout ? ":euler_angles_in_xyz_layout" : ":recompose"), idx, describe (q));
    }
    if (!(t.x == m[3][0] && t.y == m[3][1] && t.z == m[3][2])) c.fail (fn + ty + ":translation", idx, describe (0));
}

// ------------------------------------------------------------------ computeRSMatrix
template <class T>
void
sub_rs44 (Ctx& c, uint64_t idx)
{
    typedef Matrix44<T> M44;
    typedef Vec3<T>     V3;
    const std::string   ty  = tname<T>::s ();
    const LD            eps = epsT<T> ();
    Rng                 r   = c.rng (idx);
    M44                 A, B;
    static const int    pick[8] = {0, 1, 2, 3, 4, 8, 12, 14};
    const char*         clsA = gen44<T> (r, (uint64_t) pick[(idx / 4) % 8], A);
    const char*         clsB = gen44<T> (r, (uint64_t) pick[(idx / 32) % 8], B);
    bool                keepR = idx & 1, keepS = idx & 2;
    c.eval ();
    LD ka = row_equilibrated_cond (topleft<3> (toLD (A))), kb = row_equilibrated_cond (topleft<3> (toLD (B)));
    if (!(ka <= skip_kappa<T> ()) || !(kb <= skip_kappa<T> ())) { c.cls ("skipped_nearly_singular"); return; }
    c.cls (keepR ? (keepS ? "keepRotateA_keepScaleA" : "keepRotateA_scaleB") : (keepS ? "rotateB_keepScaleA" : "rotateB_scaleB"));
    c.nontrivial (hash_combine (hash_mat (A), hash_combine (hash_mat (B), idx & 3)));
    V3 as, ah, ar, at, bs, bh, br, bt;
    if (!extractSHRT (A, as, ah, ar, at, false) || !extractSHRT (B, bs, bh, br, bt, false)) return; // judged by shrt44
    M44  got;
    bool threw = false;
    try { got = computeRSMatrix (keepR, keepS, A, B); } catch (...) { threw = true; }
    auto describe = [&] (LD q) { return [&, q] { return Obj ().kv ("classA", clsA).kv ("classB", clsB).kv ("keepRotateA", keepR).kv ("keepScaleA", keepS).raw ("A", mat_json (A)).raw ("B", mat_json (B)).raw ("got", mat_json (got)).kv ("ratio_eps", (double) q).str (); }; };
    if (threw) { c.fail ("computeRSMatrix." + ty + ":threw_on_regular_input", idx, describe (0)); return; }
    const V3& S = keepS ? as : bs;
    const V3& R = keepR ? ar : br;
    LD        sd[3] = {(LD) S.x, (LD) S.y, (LD) S.z};
    Mat<3>    want = mul (diagm<3> (sd), rot_xyz ((LD) R.x, (LD) R.y, (LD) R.z)); // scale * rotate (* translate(A))
    LD        q = row_rel_err (topleft<3> (toLD (got)), want) / eps;
    c.worst ("computeRSMatrix.linear/eps", (double) q, idx, [&] { return Obj ().kv ("classA", clsA).kv ("classB", clsB).str (); });
    if (!(q <= C_RS)) c.fail ("computeRSMatrix." + ty + ":scale_rotate_mix", idx, describe (q));
    LD tmax = std::max (fabsl ((LD) A[3][0]), std::max (fabsl ((LD) A[3][1]), fabsl ((LD) A[3][2])));
    for (int j = 0; j < 3; ++j)
        if (!(fabsl ((LD) got[3][j] - (LD) A[3][j]) <= C_SAME * eps * tmax)) { c.fail ("computeRSMatrix." + ty + ":translation_of_A", idx, describe (0)); break; }
    if (!(got[0][3] == 0 && got[1][3] == 0 && got[2][3] == 0 && got[3][3] == 1)) c.fail ("computeRSMatrix." + ty + ":last_column", idx, describe (0));
}

// =================================================================== 2-D case generator
enum { NCLS2 = 12 };
const char* const cls2_names[NCLS2] = {"shrt_random", "no_shear", "neg_scale_x", "neg_scale_y", "neg_scale_xy", "graded_conditioning",
                                       "scale_sweep", "quarter_turns", "large_shear", "uniform_or_identity", "dense_random", "tiny_scale_one_axis"};

template <class T>
const char*
gen33 (Rng& r, uint64_t idx, Matrix33<T>& out)
{
    const bool dbl = sizeof (T) == 8;
    int        k   = (int) (idx % NCLS2);
    LD         s[2], h = r.sym (2.0), a = r.sym (2 * (double) PI), t[2];
    for (int i = 0; i < 2; ++i)
    {
        s[i] = logu (r, 0.1L, 10.0L);
        t[i] = r.sym (100.0);
    }
    Mat<2> L;
    bool   haveL = false;
    switch (k)
    {
        case 0: break;
        case 1: h = 0; break;
        case 2: s[0] = -s[0]; break;
        case 3: s[1] = -s[1]; break;
        case 4: s[0] = -s[0]; s[1] = -s[1]; break;
        case 5:
        {
            LD     kmax = dbl ? 12.5L : 3.5L;
            LD     d[2] = {1.0L, powl (10.0L, -kmax * (LD) r.uniform ())};
            Mat<2> u = random_orthogonal<2> (r), v = random_orthogonal<2> (r);
            L = udvt (u, d, v);
            LD mag = ldexpl (1.0L, (int) r.range (-8, 8));
            for (int i = 0; i < 2; ++i) for (int j = 0; j < 2; ++j) L[i][j] *= mag;
            haveL = true;
            break;
        }
        case 6: { int e = dbl ? 250 : 30; for (int i = 0; i < 2; ++i) s[i] = ldexpl (1.0L + (LD) r.uniform (), (int) r.range (-e, e)) * (r.one_in (4) ? -1 : 1); break; }
        case 7:
            a = (LD) r.range (-4, 4) * (PI / 2);
            for (int i = 0; i < 2; ++i) { s[i] = (LD) r.range (1, 8) * (r.one_in (3) ? -1 : 1); t[i] = (LD) r.range (-50, 50); }
            h = r.coin () ? 0 : (LD) r.range (-3, 3);
            break;
        case 8: h = (r.coin () ? 1 : -1) * logu (r, 10.0L, 1000.0L); break;
        case 9:
        {
            int v = (int) r.range (0, 3);
            h = 0;
            if (v == 0) s[1] = s[0];
            else if (v == 1) { s[0] = s[1] = 1; a = 0; }
            else if (v == 2) { s[0] = s[1] = 1; a = 0; t[0] = t[1] = 0; }
            else a = 0;
            break;
        }
        case 10:
            for (int i = 0; i < 2; ++i) for (int j = 0; j < 2; ++j) L[i][j] = r.gauss ();
            haveL = true;
            break;
        case 11: { int e = dbl ? 500 : 60; s[r.range (0, 1)] *= ldexpl (1.0L, -(int) r.range (10, e)); break; }
    }
    if (!haveL)
    {
        Mat<2> H = ident<2> ();
        H[1][0]  = h;
        L        = mul (mul (diagm<2> (s), H), rot2 (a));
    }
    for (int i = 0; i < 2; ++i)
    {
        for (int j = 0; j < 2; ++j)
            out[i][j] = (T) L[i][j];
        out[i][2] = 0;
        out[2][i] = (T) t[i];
    }
    out[2][2] = 1;
    return cls2_names[k];
}

template <class T>
Mat<2>
SH2 (const Vec2<T>& s, T h)
{
    LD     sd[2] = {(LD) s.x, (LD) s.y};
    Mat<2> H = ident<2> ();
    H[1][0]  = (LD) h;
    return mul (diagm<2> (sd), H);
}

// ------------------------------------------------------------------ 2-D regular inputs
template <class T>
void
sub_shrt33 (Ctx& c, uint64_t idx)
{
    typedef Matrix33<T> M33;
    typedef Vec2<T>     V2;
    const std::string   ty  = tname<T>::s ();
    const LD            eps = epsT<T> ();
    Rng                 r   = c.rng (idx);
    M33                 m;
    const char*         cls = gen33<T> (r, idx, m);
    const bool          exc = (idx / NCLS2) & 1;
    c.eval ();

    Mat<2> L     = topleft<2> (toLD (m));
    LD     kappa = row_equilibrated_cond (L);
    if (!(kappa <= skip_kappa<T> ()))
    {
        c.cls ("skipped_nearly_singular");
        V2 s, t; T h, a;
        try { (void) extractSHRT (m, s, h, a, t, false); } catch (...) {}
        return;
    }
    c.cls (cls);
    c.nontrivial (hash_mat (m));
    LD tolk = eps * kappa;

    auto describe = [&] (const char* what, LD ratio) {
        return [&, what, ratio] { return Obj ().kv ("class", cls).kv ("what", what).raw ("M", mat_json (m)).kv ("kappa", (double) kappa).kv ("exc", exc).kv ("ratio_eps_kappa", (double) ratio).str (); };
    };
    auto fail = [&] (const std::string& fn, const char* slot, const char* what, LD ratio) { c.fail (fn + "33." + ty + ":" + slot, idx, describe (what, ratio)); };

    V2   s, t;
    T    h = 0, a = 0;
    bool ok = false, threw = false;
    try { ok = extractSHRT (m, s, h, a, t, exc); } catch (...) { threw = true; }
    if (threw || !ok)
    {
        fail ("extractSHRT", "reported_regular_input", threw ? "threw on a regular matrix" : "returned false on a regular matrix", 0);
        return;
    }
    {
        Mat<2> rec = mul (SH2 (s, h), rot2 ((LD) a));
        LD     q   = row_rel_err (rec, L) / tolk;
        c.worst ("extractSHRT33.recompose/(eps*kappa)", (double) q, idx, [&] { return Obj ().kv ("class", cls).kv ("kappa", (double) kappa).str (); });
        if (!(q <= C_RECOMPOSE)) fail ("extractSHRT", "recompose", "scale*shear*rotation differs from the input", q);
        if (!(t.x == m[2][0] && t.y == m[2][1])) fail ("extractSHRT", "translation", "t is not the translation row", 0);
        if (c.verbose) std::fprintf (stderr, "[replay] class=%s kappa=%Lg s=%s h=%g r=%g recompose ratio=%Lg\n", cls, kappa, v2j (s).c_str (), (double) h, (double) a, q);
    }
    Mat<2> SH = SH2 (s, h);
    LD     sd[2] = {(LD) s.x, (LD) s.y};
    Mat<2> Sm = diagm<2> (sd);

    try
    {
        V2 s2;
        if (!extractScaling (m, s2, exc) || !vec_close (s2, s, C_SAME)) fail ("extractScaling", "scale", "scale differs from extractSHRT's", 0);
        V2 s3; T h3 = 0;
        if (!extractScalingAndShear (m, s3, h3, exc) || !vec_close (s3, s, C_SAME) || !(fabsl ((LD) h3 - (LD) h) <= C_SAME * eps * fabsl ((LD) h)))
            fail ("extractScalingAndShear", "factors", "scale/shear differ from extractSHRT's", 0);
    }
    catch (...) { fail ("extractScaling", "reported_regular_input", "threw on a regular matrix", 0); }

    auto judge_RT = [&] (const std::string& fn, const M33& out, bool okret) {
        if (!okret) { fail (fn, "reported_regular_input", "returned false / threw on a regular matrix", 0); return; }
        Mat<2> R  = topleft<2> (toLD (out));
        LD     oe = orth_err (R) / tolk;
        LD     dt = det (R);
        c.worst ("rotation33.orthonormality/(eps*kappa)", (double) oe, idx, [&] { return Obj ().kv ("class", cls).kv ("fn", fn).kv ("kappa", (double) kappa).str (); });
        if (!(oe <= C_ORTH)) fail (fn, "rotation_not_orthonormal", "R*R^T differs from I", oe);
        if (!(dt > 0)) fail (fn, "rotation_det_not_positive", "det R <= 0 (reflection left in R)", dt);
        else if (!(fabsl (dt - 1) <= 3 * C_ORTH * tolk)) fail (fn, "rotation_det_not_one", "det R differs from 1", fabsl (dt - 1) / tolk);
        LD q = row_rel_err (mul (SH, R), L) / tolk;
        c.worst ("rotation33.recompose/(eps*kappa)", (double) q, idx, [&] { return Obj ().kv ("class", cls).kv ("fn", fn).kv ("kappa", (double) kappa).str (); });
        if (!(q <= C_RECOMPOSE)) fail (fn, "recompose", "scale*shear*R differs from the input", q);
        for (int j = 0; j < 3; ++j)
            if (!(out[2][j] == m[2][j]) || !(out[j][2] == m[j][2])) { fail (fn, "translation_row", "translation row / last column not preserved exactly", 0); break; }
    };
    {
        M33 o = m; V2 s5; T h5 = 0; bool okr = false;
        try { okr = extractAndRemoveScalingAndShear (o, s5, h5, exc); } catch (...) {}
        judge_RT ("extractAndRemoveScalingAndShear", o, okr);
        if (okr && (!vec_close (s5, s, C_SAME) || !(fabsl ((LD) h5 - (LD) h) <= C_SAME * eps * fabsl ((LD) h)))) fail ("extractAndRemoveScalingAndShear", "factors", "scale/shear differ from extractSHRT's", 0);
    }
    {
        M33 o = m; bool okr = false;
        try { okr = removeScalingAndShear (o, exc); } catch (...) {}
        judge_RT ("removeScalingAndShear", o, okr);
    }
    {
        M33 o; bool okr = true;
        try { o = sansScalingAndShear (m, exc); } catch (...) { okr = false; }
        judge_RT ("sansScalingAndShear", o, okr);
    }
    auto judge_HRT = [&] (const std::string& fn, const M33& out, bool okret) {
        if (!okret) { fail (fn, "reported_regular_input", "returned false / threw on a regular matrix", 0); return; }
        Mat<2> HR = topleft<2> (toLD (out));
        LD     q  = row_rel_err (mul (Sm, HR), L) / tolk;
        c.worst ("sansScaling33.recompose/(eps*kappa)", (double) q, idx, [&] { return Obj ().kv ("class", cls).kv ("fn", fn).kv ("kappa", (double) kappa).str (); });
        if (!(q <= C_RECOMPOSE)) fail (fn, "recompose", "scale*result differs from the input (result is not shear*rotation)", q);
        LD tmax = std::max (fabsl ((LD) m[2][0]), fabsl ((LD) m[2][1]));
        for (int j = 0; j < 2; ++j)
            if (!(fabsl ((LD) out[2][j] - (LD) m[2][j]) <= C_SAME * eps * tmax)) { fail (fn, "translation", "translation row changed", 0); break; }
        if (!(out[0][2] == 0 && out[1][2] == 0 && out[2][2] == 1)) fail (fn, "last_column", "last column is not (0,0,1)", 0);
    };
    {
        M33 o; bool okr = true;
        try { o = sansScaling (m, exc); } catch (...) { okr = false; }
        judge_HRT ("sansScaling", o, okr);
    }
    {
        M33 o = m; bool okr = false;
        try { okr = removeScaling (o, exc); } catch (...) {}
        judge_HRT ("removeScaling", o, okr);
    }
    if (idx % 997 == 0) c.sample (cls, [&] { return Obj ().raw ("M", mat_json (m)).raw ("s", v2j (s)).kv ("h", (double) h).kv ("r", (double) a).kv ("kappa", (double) kappa).str (); });
}

// =================================================================== degenerate input is reported
// Every input here has an exactly zero computed scale: a zero row, or rows that
// are dependent along coordinate axes (the Gram-Schmidt arithmetic is then
// exact, so the scale is exactly 0 - no "nearly").
enum { NDEG3 = 8 };
const char* const deg3_names[NDEG3] = {"zero_linear_part", "zero_row0", "zero_row1", "zero_row2", "parallel_axis_rows01", "coplanar_axis_rows", "zero_column_plane", "all_zero_matrix"};

template <class T>
const char*
gen_deg44 (Rng& r, uint64_t idx, Matrix44<T>& m)
{
    const bool dbl = sizeof (T) == 8;
    int        k   = (int) (idx % NDEG3);
    T          mag = (T) std::ldexp (1.0, (int) r.range (dbl ? -200 : -30, dbl ? 200 : 30));
    if (r.coin ()) mag = 1;
    m.makeIdentity ();
    for (int i = 0; i < 3; ++i)
    {
        for (int j = 0; j < 3; ++j)
            m[i][j] = (T) r.sym (4.0) * mag;
        m[3][i] = (T) r.sym (100.0);
    }
    int p = (int) r.range (0, 2), q = (p + 1 + (int) r.range (0, 1)) % 3; // two distinct axes
    switch (k)
    {
        case 0: for (int i = 0; i < 3; ++i) for (int j = 0; j < 3; ++j) m[i][j] = 0; break;
        case 1: case 2: case 3: for (int j = 0; j < 3; ++j) m[k - 1][j] = 0; break;
        case 4:
            for (int j = 0; j < 3; ++j) { if (j != p) { m[0][j] = 0; m[1][j] = 0; } }
            if (m[0][p] == 0) m[0][p] = mag;
            break;
        case 5:
            for (int j = 0; j < 3; ++j)
            {
                if (j != p) m[0][j] = 0;
                if (j != p && j != q) { m[1][j] = 0; m[2][j] = 0; }
            }
            if (m[0][p] == 0) m[0][p] = mag;
            if (m[1][q] == 0) m[1][q] = mag;
            break;
        case 6: // all three rows inside the coordinate plane (p,q), rows 0,1 along the axes
            for (int j = 0; j < 3; ++j)
            {
                if (j != p) m[0][j] = 0;
                if (j != q) m[1][j] = 0;
                if (j != p && j != q) m[2][j] = 0;
            }
            if (m[0][p] == 0) m[0][p] = mag;
            if (m[1][q] == 0) m[1][q] = mag;
            break;
        case 7: for (int i = 0; i < 4; ++i) for (int j = 0; j < 4; ++j) m[i][j] = 0; break;
    }
    return deg3_names[k];
}

// runs f(); returns 0 = no exception, 1 = std::domain_error, 2 = another exception
template <class F>
int
exc_kind (F f)
{
    try { f (); }
    catch (const std::domain_error&) { return 1; }
    catch (...) { return 2; }
    return 0;
}

template <class T>
void
sub_deg44 (Ctx& c, uint64_t idx)
{
    typedef Matrix44<T> M44;
    typedef Vec3<T>     V3;
    const std::string   ty = tname<T>::s ();
    Rng                 r  = c.rng (idx);
    M44                 m;
    const char*         cls = gen_deg44<T> (r, idx, m);
    c.eval ();
    c.cls (cls);
    c.nontrivial (hash_mat (m));
    auto describe = [&] (const char* what) { return [&, what] { return Obj ().kv ("class", cls).kv ("what", what).raw ("M", mat_json (m)).str (); }; };
    auto notrep = [&] (const char* fn, const char* what) { c.fail (std::string (fn) + "44." + ty + ":degenerate_not_reported", idx, describe (what)); };
    auto modif  = [&] (const char* fn, const char* what) { c.fail (std::string (fn) + "44." + ty + ":degenerate_input_modified", idx, describe (what)); };
    V3 s, h, rr, t;
    // ---- exc = false: false / input returned unchanged
    if (extractSHRT (m, s, h, rr, t, false)) notrep ("extractSHRT", "returned true");
    if (extractScaling (m, s, false)) notrep ("extractScaling", "returned true");
    if (extractScalingAndShear (m, s, h, false)) notrep ("extractScalingAndShear", "returned true");
    { M44 o = m; if (extractAndRemoveScalingAndShear (o, s, h, false)) notrep ("extractAndRemoveScalingAndShear", "returned true"); else if (!same_bits (o, m)) modif ("extractAndRemoveScalingAndShear", "m changed although false was returned"); }
    { M44 o = m; if (removeScalingAndShear (o, false)) notrep ("removeScalingAndShear", "returned true"); else if (!same_bits (o, m)) modif ("removeScalingAndShear", "m changed although false was returned"); }
    { M44 o = m; if (removeScaling (o, false)) notrep ("removeScaling", "returned true"); else if (!same_bits (o, m)) modif ("removeScaling", "m changed although false was returned"); }
    if (!same_bits (sansScaling (m, false), m)) notrep ("sansScaling", "did not return m");
    if (!same_bits (sansScalingAndShear (m, false), m)) notrep ("sansScalingAndShear", "did not return m");
    { M44 o = m; sansScalingAndShear (o, marker44<T> (), false); if (!same_bits (o, marker44<T> ())) notrep ("sansScalingAndShear_inout", "result is not the fall-back matrix `mat`"); }
    // ---- exc = true (the default argument): std::domain_error
    auto want_throw = [&] (const char* fn, int kind) {
        if (kind == 0) notrep (fn, "no exception with exc = true");
        else if (kind == 2) c.fail (std::string (fn) + "44." + ty + ":wrong_exception_type", idx, describe ("exception is not std::domain_error"));
    };
    want_throw ("extractSHRT", exc_kind ([&] { V3 a, b, cc, d; (void) extractSHRT (m, a, b, cc, d); }));
    want_throw ("extractSHRT_order", exc_kind ([&] { V3 a, b, cc, d; (void) extractSHRT (m, a, b, cc, d, true, Euler<T>::ZYX); }));
    want_throw ("extractSHRT_euler", exc_kind ([&] { V3 a, b, d; Euler<T> e (Euler<T>::YXZ); (void) extractSHRT (m, a, b, e, d); }));
    want_throw ("extractScaling", exc_kind ([&] { V3 a; (void) extractScaling (m, a); }));
    want_throw ("extractScalingAndShear", exc_kind ([&] { V3 a, b; (void) extractScalingAndShear (m, a, b); }));
    want_throw ("extractAndRemoveScalingAndShear", exc_kind ([&] { V3 a, b; M44 o = m; (void) extractAndRemoveScalingAndShear (o, a, b); }));
    want_throw ("removeScalingAndShear", exc_kind ([&] { M44 o = m; (void) removeScalingAndShear (o); }));
    want_throw ("removeScaling", exc_kind ([&] { M44 o = m; (void) removeScaling (o); }));
    want_throw ("sansScaling", exc_kind ([&] { (void) sansScaling (m); }));
    want_throw ("sansScalingAndShear", exc_kind ([&] { (void) sansScalingAndShear (m); }));
    want_throw ("sansScalingAndShear_inout", exc_kind ([&] { M44 o = m; sansScalingAndShear (o, marker44<T> ()); }));
    // ---- computeRSMatrix has no exc parameter: a degenerate A or B is reported by std::domain_error
    M44 reg;
    gen44<T> (r, 0, reg);
    want_throw ("computeRSMatrix_A", exc_kind ([&] { (void) computeRSMatrix (idx & 8 ? true : false, idx & 16 ? true : false, m, reg); }));
    want_throw ("computeRSMatrix_B", exc_kind ([&] { (void) computeRSMatrix (idx & 8 ? true : false, idx & 16 ? true : false, reg, m); }));
    if (idx % 97 == 0) c.sample (cls, [&] { return Obj ().raw ("M", mat_json (m)).str (); });
}

enum { NDEG2 = 5 };
const char* const deg2_names[NDEG2] = {"zero_linear_part", "zero_row0", "zero_row1", "parallel_axis_rows", "all_zero_matrix"};

template <class T>
void
sub_deg33 (Ctx& c, uint64_t idx)
{
    typedef Matrix33<T> M33;
    typedef Vec2<T>     V2;
    const std::string   ty  = tname<T>::s ();
    const bool          dbl = sizeof (T) == 8;
    Rng                 r   = c.rng (idx);
    int                 k   = (int) (idx % NDEG2);
    const char*         cls = deg2_names[k];
    T                   mag = (T) std::ldexp (1.0, (int) r.range (dbl ? -200 : -30, dbl ? 200 : 30));
    if (r.coin ()) mag = 1;
    M33 m;
    for (int i = 0; i < 2; ++i)
    {
        for (int j = 0; j < 2; ++j)
            m[i][j] = (T) r.sym (4.0) * mag;
        m[2][i] = (T) r.sym (100.0);
    }
    int p = (int) r.range (0, 1);
    switch (k)
    {
        case 0: m[0][0] = m[0][1] = m[1][0] = m[1][1] = 0; break;
        case 1: m[0][0] = m[0][1] = 0; break;
        case 2: m[1][0] = m[1][1] = 0; break;
        case 3: m[0][1 - p] = 0; m[1][1 - p] = 0; if (m[0][p] == 0) m[0][p] = mag; break;
        case 4: for (int i = 0; i < 3; ++i) for (int j = 0; j < 3; ++j) m[i][j] = 0; break;
    }
    c.eval ();
    c.cls (cls);
    c.nontrivial (hash_mat (m));
    auto describe = [&] (const char* what) { return [&, what] { return Obj ().kv ("class", cls).kv ("what", what).raw ("M", mat_json (m)).str (); }; };
    auto notrep = [&] (const char* fn, const char* what) { c.fail (std::string (fn) + "33." + ty + ":degenerate_not_reported", idx, describe (what)); };
    auto modif  = [&] (const char* fn, const char* what) { c.fail (std::string (fn) + "33." + ty + ":degenerate_input_modified", idx, describe (what)); };
    V2 s, t;
    T  h, a;
    if (extractSHRT (m, s, h, a, t, false)) notrep ("extractSHRT", "returned true");
    if (extractScaling (m, s, false)) notrep ("extractScaling", "returned true");
    if (extractScalingAndShear (m, s, h, false)) notrep ("extractScalingAndShear", "returned true");
    { M33 o = m; if (extractAndRemoveScalingAndShear (o, s, h, false)) notrep ("extractAndRemoveScalingAndShear", "returned true"); else if (!same_bits (o, m)) modif ("extractAndRemoveScalingAndShear", "m changed although false was returned"); }
    { M33 o = m; if (removeScalingAndShear (o, false)) notrep ("removeScalingAndShear", "returned true"); else if (!same_bits (o, m)) modif ("removeScalingAndShear", "m changed although false was returned"); }
    { M33 o = m; if (removeScaling (o, false)) notrep ("removeScaling", "returned true"); else if (!same_bits (o, m)) modif ("removeScaling", "m changed although false was returned"); }
    if (!same_bits (sansScaling (m, false), m)) notrep ("sansScaling", "did not return m");
    if (!same_bits (sansScalingAndShear (m, false), m)) notrep ("sansScalingAndShear", "did not return m");
    auto want_throw = [&] (const char* fn, int kind) {
        if (kind == 0) notrep (fn, "no exception with exc = true");
        else if (kind == 2) c.fail (std::string (fn) + "33." + ty + ":wrong_exception_type", idx, describe ("exception is not std::domain_error"));
    };
    want_throw ("extractSHRT", exc_kind ([&] { V2 x, y; T u, v; (void) extractSHRT (m, x, u, v, y); }));
    want_throw ("extractScaling", exc_kind ([&] { V2 x; (void) extractScaling (m, x); }));
    want_throw ("extractScalingAndShear", exc_kind ([&] { V2 x; T u; (void) extractScalingAndShear (m, x, u); }));
    want_throw ("extractAndRemoveScalingAndShear", exc_kind ([&] { V2 x; T u; M33 o = m; (void) extractAndRemoveScalingAndShear (o, x, u); }));
    want_throw ("removeScalingAndShear", exc_kind ([&] { M33 o = m; (void) removeScalingAndShear (o); }));
    want_throw ("removeScaling", exc_kind ([&] { M33 o = m; (void) removeScaling (o); }));
    want_throw ("sansScaling", exc_kind ([&] { (void) sansScaling (m); }));
    want_throw ("sansScalingAndShear", exc_kind ([&] { (void) sansScalingAndShear (m); }));
    if (idx % 97 == 0) c.sample (cls, [&] { return Obj ().raw ("M", mat_json (m)).str (); });
}

// =================================================================== checkForZeroScaleInRow
// Documented: true if the scale can be removed from the row, false (or
// std::domain_error) if scl is so small that row/scl would overflow.  Oracle in
// long double: q_i = |row_i|/|scl|.  Must report if scl == 0 or some q_i >
// max*(1+4eps); must accept if every q_i < max*(1-4eps) (in between: either).
enum { NZS = 10 };
const char* const zs_names[NZS] = {"scl_zero", "scl_negzero", "scl_denorm_min", "scl_subnormal", "scl_min_normal", "guard_boundary_report",
                                   "guard_boundary_accept", "guard_boundary_ulps", "scl_one_or_more", "random_small"};

template <class T, class V>
void
sub_zeroscale (Ctx& c, uint64_t idx)
{
    const int         N   = (int) V::dimensions ();
    const std::string ty  = tname<T>::s ();
    const LD          eps = epsT<T> ();
    const T           mx  = std::numeric_limits<T>::max ();
    const T           mn  = std::numeric_limits<T>::min ();
    const int         emin = std::numeric_limits<T>::min_exponent, emax = std::numeric_limits<T>::max_exponent, dig = std::numeric_limits<T>::digits;
    Rng               r   = c.rng (idx);
    int               k   = (int) (idx % NZS);
    const char*       cls = zs_names[k];
    V                 row;
    for (int i = 0; i < N; ++i)
        row[i] = (T) std::ldexp (1.0 + r.uniform (), (int) r.range (emin - 1, emax - 1)) * (r.coin () ? 1 : -1);
    if (r.one_in (4)) row[(int) r.range (0, N - 1)] = 0;
    T   scl = 0;
    int slot = (int) r.range (0, N - 1);
    switch (k)
    {
        case 0: scl = 0; break;
        case 1: scl = -(T) 0; break;
        case 2: scl = std::numeric_limits<T>::denorm_min (); break;
        case 3: scl = (T) std::ldexp (1.0 + r.uniform (), (int) r.range (emin - dig, emin - 2)); break;
        case 4: scl = mn; break;
        case 5: case 6: case 7:
        {
            // scl at the boundary |row[slot]| / max, pushed to one side
            T a = std::fabs (row[slot]);
            if (a == 0) a = row[slot] = 1;
            for (int i = 0; i < N; ++i) if (i != slot && std::fabs (row[i]) > a) row[i] = a / 2; // make `slot` the binding component
            LD b = (LD) a / (LD) mx;
            LD f = k == 5 ? 1 - (4 + 60 * (LD) r.uniform ()) * eps : k == 6 ? 1 + (4 + 60 * (LD) r.uniform ()) * eps : 1 + (LD) r.range (-3, 3) * eps;
            scl = (T) (b * f);
            break;
        }
        case 8: scl = (T) std::ldexp (1.0 + r.uniform (), (int) r.range (0, emax - 1)); if (r.one_in (4)) scl = 1; break;
        case 9: scl = (T) std::ldexp (1.0 + r.uniform (), (int) r.range (emin - 1, -1)); break;
    }
    if (k > 1 && r.coin ()) scl = -scl;
    bool exc = r.coin ();
    c.eval ();
    c.cls (cls);
    c.nontrivial (hash_combine (d2u ((double) scl), hash_combine (d2u ((double) row[0]), d2u ((double) row[1]))));
    bool must_report = scl == 0, may_report = scl == 0;
    if (scl != 0)
        for (int i = 0; i < N; ++i)
        {
            LD q = fabsl ((LD) row[i]) / fabsl ((LD) scl);
            if (q > (LD) mx * (1 + 4 * eps)) must_report = true;
            if (q >= (LD) mx * (1 - 4 * eps)) may_report = true;
        }
    bool reported = false;
    int  kind     = exc_kind ([&] { reported = !checkForZeroScaleInRow (scl, row, exc); });
    if (kind == 1) reported = true;
    c.cls (must_report ? "oracle_report" : may_report ? "oracle_either" : "oracle_accept");
    auto describe = [&] { Obj o; o.kv ("class", cls).kv ("scl", (double) scl).kv ("exc", exc).kv ("reported", reported).kv ("must_report", must_report); o.arr ("row", &row[0], (size_t) N); return o.str (); };
    std::string fn = std::string ("checkForZeroScaleInRow") + (N == 3 ? "3." : "2.") + ty;
    if (kind == 2) c.fail (fn + ":wrong_exception_type", idx, describe);
    else if (kind == 1 && !exc) c.fail (fn + ":threw_with_exc_false", idx, describe);
    else if (must_report && !reported) c.fail (fn + ":overflow_not_reported", idx, describe);
    else if (!may_report && reported) c.fail (fn + ":removable_scale_reported", idx, describe);
    else if (reported && exc && kind != 1) c.fail (fn + ":false_instead_of_exception", idx, describe);
    if (idx % 9973 < (uint64_t) NZS) c.sample (cls, describe);
}

// instantiations
void shrt44f (Ctx& c, uint64_t i) { sub_shrt44<float> (c, i); }
void shrt44d (Ctx& c, uint64_t i) { sub_shrt44<double> (c, i); }
void shrt33f (Ctx& c, uint64_t i) { sub_shrt33<float> (c, i); }
void shrt33d (Ctx& c, uint64_t i) { sub_shrt33<double> (c, i); }
void order44f (Ctx& c, uint64_t i) { sub_order44<float> (c, i); }
void order44d (Ctx& c, uint64_t i) { sub_order44<double> (c, i); }
void rs44f (Ctx& c, uint64_t i) { sub_rs44<float> (c, i); }
void rs44d (Ctx& c, uint64_t i) { sub_rs44<double> (c, i); }
void deg44f (Ctx& c, uint64_t i) { sub_deg44<float> (c, i); }
void deg44d (Ctx& c, uint64_t i) { sub_deg44<double> (c, i); }
void deg33f (Ctx& c, uint64_t i) { sub_deg33<float> (c, i); }
void deg33d (Ctx& c, uint64_t i) { sub_deg33<double> (c, i); }
void zs3f (Ctx& c, uint64_t i) { sub_zeroscale<float, V3f> (c, i); }
void zs3d (Ctx& c, uint64_t i) { sub_zeroscale<double, V3d> (c, i); }
void zs2f (Ctx& c, uint64_t i) { sub_zeroscale<float, V2f> (c, i); }
void zs2d (Ctx& c, uint64_t i) { sub_zeroscale<double, V2d> (c, i); }

#define CLS3_REQ {"shrt_random", "no_shear", "neg_scale_1", "neg_scale_2", "neg_scale_3", "graded_conditioning", "scale_sweep", "gimbal", "quarter_turns", "large_shear", "uniform_or_identity", "tiny_scale_one_axis", "dense_random", "dense_reflection", "shrt_random_wide", "small_angles", "skipped_nearly_singular"}
#define CLS2_REQ {"shrt_random", "no_shear", "neg_scale_x", "neg_scale_y", "neg_scale_xy", "graded_conditioning", "scale_sweep", "quarter_turns", "large_shear", "uniform_or_identity", "dense_random", "tiny_scale_one_axis", "skipped_nearly_singular"}
#define DEG3_REQ {"zero_linear_part", "zero_row0", "zero_row1", "zero_row2", "parallel_axis_rows01", "coplanar_axis_rows", "zero_column_plane", "all_zero_matrix"}
#define DEG2_REQ {"zero_linear_part", "zero_row0", "zero_row1", "parallel_axis_rows", "all_zero_matrix"}
#define ZS_REQ {"scl_zero", "scl_negzero", "scl_denorm_min", "scl_subnormal", "scl_min_normal", "guard_boundary_report", "guard_boundary_accept", "guard_boundary_ulps", "scl_one_or_more", "random_small", "oracle_report", "oracle_accept", "oracle_either"}

const char* const SPACE3 = "affine Matrix44: S*H*R*T from random (s,h,r,t) incl. 1/2/3 negative scales, gimbal-lock and quarter-turn angles, scales 2^-250..2^250 (float 2^-30..2^30), shear up to 1e3, "
                           "U diag V^T with graded conditioning 1..1e13 (float 1e4.5), dense Gaussian matrices with det>0 / det<0; all 11 entry points, exc = true and false";
const char* const SPACE2 = "affine Matrix33 (2-D): same construction; all 8 entry points (called by no upstream test), exc = true and false";

} // namespace

MON_SUB_IDX (shrt44f, "shrt44_float", 640000, 18000000).req (CLS3_REQ).over (SPACE3);
MON_SUB_IDX (shrt44d, "shrt44_double", 640000, 18000000).req (CLS3_REQ).over (SPACE3);
MON_SUB_IDX (shrt33f, "shrt33_float", 960000, 18000000).req (CLS2_REQ).over (SPACE2);
MON_SUB_IDX (shrt33d, "shrt33_double", 960000, 18000000).req (CLS2_REQ).over (SPACE2);
MON_SUB_IDX (order44f, "shrt44_orders_float", 480000, 12000000).req ({"euler_overload", "order_overload"}).over ("extractSHRT(..., rOrder) and extractSHRT(..., Euler&) for all 24 rotation orders; rotation recomposed through Euler<T>::toMatrix44");
MON_SUB_IDX (order44d, "shrt44_orders_double", 480000, 12000000).req ({"euler_overload", "order_overload"}).over ("extractSHRT(..., rOrder) and extractSHRT(..., Euler&) for all 24 rotation orders; rotation recomposed through Euler<T>::toMatrix44");
MON_SUB_IDX (rs44f, "computeRSMatrix_float", 400000, 12000000).req ({"keepRotateA_keepScaleA", "keepRotateA_scaleB", "rotateB_keepScaleA", "rotateB_scaleB"}).over ("pairs (A,B) of regular affine matrices x 4 flag combinations; expected scale(A|B)*rotate(A|B)*translate(A)");
MON_SUB_IDX (rs44d, "computeRSMatrix_double", 400000, 12000000).req ({"keepRotateA_keepScaleA", "keepRotateA_scaleB", "rotateB_keepScaleA", "rotateB_scaleB"}).over ("pairs (A,B) of regular affine matrices x 4 flag combinations; expected scale(A|B)*rotate(A|B)*translate(A)");
MON_SUB_IDX (deg44f, "degenerate44_float", 160000, 3000000).req (DEG3_REQ).over ("Matrix44 with an exactly zero computed scale (zero rows, axis-parallel / axis-coplanar rows, magnitudes 2^-30..2^30): every entry point with exc=false and exc=true, computeRSMatrix with a degenerate A or B");
MON_SUB_IDX (deg44d, "degenerate44_double", 160000, 3000000).req (DEG3_REQ).over ("Matrix44 with an exactly zero computed scale (zero rows, axis-parallel / axis-coplanar rows, magnitudes 2^-200..2^200): every entry point with exc=false and exc=true, computeRSMatrix with a degenerate A or B");
MON_SUB_IDX (deg33f, "degenerate33_float", 160000, 3000000).req (DEG2_REQ).over ("Matrix33 with an exactly zero computed scale: every 2-D entry point with exc=false and exc=true");
MON_SUB_IDX (deg33d, "degenerate33_double", 160000, 3000000).req (DEG2_REQ).over ("Matrix33 with an exactly zero computed scale: every 2-D entry point with exc=false and exc=true");
MON_SUB_IDX (zs3f, "zeroscale_guard3_float", 2000000, 60000000).req (ZS_REQ).over ("checkForZeroScaleInRow(scl, Vec3): scl = +-0, denorm_min, subnormal, min normal, |row_i|/max * (1 +- k eps), >= 1; rows over the whole exponent range");
MON_SUB_IDX (zs3d, "zeroscale_guard3_double", 2000000, 60000000).req (ZS_REQ).over ("checkForZeroScaleInRow(scl, Vec3): scl = +-0, denorm_min, subnormal, min normal, |row_i|/max * (1 +- k eps), >= 1; rows over the whole exponent range");
MON_SUB_IDX (zs2f, "zeroscale_guard2_float", 2000000, 60000000).req (ZS_REQ).over ("checkForZeroScaleInRow(scl, Vec2): same classes");
MON_SUB_IDX (zs2d, "zeroscale_guard2_double", 2000000, 60000000).req (ZS_REQ).over ("checkForZeroScaleInRow(scl, Vec2): same classes");

MON_MAIN ("c12_factor")
