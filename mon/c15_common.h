// C15 - shared oracle machinery of the line / plane / sphere / triangle monitor.
//
// Reference arithmetic: long double (64-bit significand) for float cases,
// __float128 for double cases.  All inputs are values of the type under test
// (float / double), converted exactly; the oracle works on the *stored*
// members of the Imath objects (Line3::pos/dir, Plane3::normal/distance, ...),
// so rounding that happened while the object was built (e.g. the normalised
// direction not being exactly unit) is part of the input, not of the error.
//
// Every formula of the oracle is written as loops over component indices.
#pragma once
#include "mon.h"
#include <ImathBox.h>
#include <ImathLine.h>
#include <ImathLineAlgo.h>
#include <ImathMatrix.h>
#include <ImathPlane.h>
#include <ImathSphere.h>
#include <ImathVec.h>
#include <ImathVecAlgo.h>
#include <limits>
#include <quadmath.h>

namespace c15
{
using namespace mon;
using namespace IMATH_NAMESPACE;

template <class T> struct Tr;
template <> struct Tr<float>
{
    typedef long double R;
    static const char*  name () { return "float"; }
};
template <> struct Tr<double>
{
    typedef __float128 R;
    static const char* name () { return "double"; }
};

inline long double r_sqrt (long double x) { return sqrtl (x); }
inline __float128  r_sqrt (__float128 x) { return sqrtq (x); }
inline long double r_cos (long double x) { return cosl (x); }
inline __float128  r_cos (__float128 x) { return cosq (x); }
inline long double r_sin (long double x) { return sinl (x); }
inline __float128  r_sin (__float128 x) { return sinq (x); }
template <class R> inline R r_abs (R x) { return x < 0 ? -x : x; }
template <class R> inline R r_max (R a, R b) { return a > b ? a : b; }
template <class R> inline R r_min (R a, R b) { return a < b ? a : b; }

// ---- reference vectors
template <class R, int N> struct RV
{
    R  v[N];
    R& operator[] (int i) { return v[i]; }
    const R& operator[] (int i) const { return v[i]; }
};
template <class R, int N> inline RV<R, N> operator+ (const RV<R, N>& a, const RV<R, N>& b) { RV<R, N> o; for (int i = 0; i < N; ++i) o[i] = a[i] + b[i]; return o; }
template <class R, int N> inline RV<R, N> operator- (const RV<R, N>& a, const RV<R, N>& b) { RV<R, N> o; for (int i = 0; i < N; ++i) o[i] = a[i] - b[i]; return o; }
template <class R, int N> inline RV<R, N> operator* (const RV<R, N>& a, R s) { RV<R, N> o; for (int i = 0; i < N; ++i) o[i] = a[i] * s; return o; }
template <class R, int N> inline R dot (const RV<R, N>& a, const RV<R, N>& b) { R s = 0; for (int i = 0; i < N; ++i) s += a[i] * b[i]; return s; }
template <class R, int N> inline R len (const RV<R, N>& a) { return r_sqrt (dot (a, a)); }
// length in double (for tolerance magnitudes of moderately scaled data only)
template <class R, int N> inline double dlen (const RV<R, N>& a) { double s = 0; for (int i = 0; i < N; ++i) { double x = (double) a[i]; s += x * x; } return std::sqrt (s); }
template <class R> inline RV<R, 3> cross (const RV<R, 3>& a, const RV<R, 3>& b)
{
    RV<R, 3> o;
    for (int i = 0; i < 3; ++i)
    {
        int j = (i + 1) % 3, k = (i + 2) % 3;
        o[i] = a[j] * b[k] - a[k] * b[j];
    }
    return o;
}

// exact conversion of an Imath vector (any dimension) to the reference type
template <class R, class V> inline RV<R, (int) V::dimensions ()> up (const V& a)
{
    RV<R, (int) V::dimensions ()> o;
    for (int i = 0; i < (int) V::dimensions (); ++i) o[i] = (R) a[i];
    return o;
}

// distance of point x from the line {P + s u}
template <class R> inline R dist_point_line (const RV<R, 3>& x, const RV<R, 3>& P, const RV<R, 3>& u)
{
    return len (cross (x - P, u)) / len (u);
}

template <class V> inline bool all_finite (const V& a)
{
    for (int i = 0; i < (int) V::dimensions (); ++i)
        if (!std::isfinite (a[i])) return false;
    return true;
}

template <class V> inline uint64_t hashv (const V& a, uint64_t h = 0x1234567ull)
{
    for (int i = 0; i < (int) V::dimensions (); ++i) h = hash_combine (h, d2u ((double) a[i]));
    return h;
}

template <class V> inline std::string js (const V& a)
{
    std::string s = "[";
    for (int i = 0; i < (int) V::dimensions (); ++i)
    {
        if (i) s += ",";
        s += jnum ((double) a[i]);
    }
    return s + "]";
}
template <class T> inline std::string jsl (const Line3<T>& l) { return Obj ().raw ("pos", js (l.pos)).raw ("dir", js (l.dir)).str (); }

// Judge one error against a tolerance formula: ratio = err / tol is recorded
// as a "worst" statistic and must stay below `bound` (the calibrated constant).
template <class F>
inline void
judge (Ctx& c, const std::string& key, const std::string& stat, double err, double tol, double bound, uint64_t idx, F&& describe)
{
    double ratio;
    if (std::isnan (err) || std::isnan (tol)) ratio = INFINITY;
    else if (tol > 0) ratio = err / tol;
    else ratio = err == 0 ? 0 : INFINITY;
    auto d = [&] { return Obj ().kv ("err", err).kv ("tol_unit", tol).kv ("bound", bound).raw ("case", describe ()).str (); };
    c.worst (stat.c_str (), ratio, idx, d);
    if (!(ratio <= bound)) c.fail (key, idx, d);
}

// ---- generators (values are produced in double and cast to T by the caller)
struct D3
{
    double v[3];
    double& operator[] (int i) { return v[i]; }
    double  operator[] (int i) const { return v[i]; }
};
template <class T> inline Vec3<T> tov (const D3& a) { return Vec3<T> ((T) a[0], (T) a[1], (T) a[2]); }

// point generators: 0 moderate, 1 integer lattice, 2 large offset + small spread, 3 wide exponents
inline D3
gen_point (Rng& r, int kind)
{
    D3 o;
    switch (kind)
    {
        case 1:
            for (int i = 0; i < 3; ++i) o[i] = (double) r.range (-8, 8);
            break;
        case 2: {
            for (int i = 0; i < 3; ++i)
            {
                double b = std::ldexp (1.0, (int) r.range (5, 11));
                o[i]     = (r.coin () ? b : -b) * r.uniform (0.5, 1.0) + r.sym (1.0);
            }
            break;
        }
        case 3:
            for (int i = 0; i < 3; ++i) o[i] = r.logscale (-8, 8);
            break;
        default: {
            double s = std::ldexp (1.0, (int) r.range (-3, 3));
            for (int i = 0; i < 3; ++i) o[i] = r.sym (s);
        }
    }
    return o;
}

// unit directions: 0 generic, 1 axis aligned, 2 small-integer lattice direction (not unit),
// 3 nearly axis aligned (other components 10^-k)
inline D3
gen_dir (Rng& r, int kind)
{
    D3 o;
    switch (kind)
    {
        case 1: {
            int a = (int) r.range (0, 2);
            for (int i = 0; i < 3; ++i) o[i] = 0;
            o[a] = r.coin () ? 1.0 : -1.0;
            return o;
        }
        case 2: {
            do
                for (int i = 0; i < 3; ++i) o[i] = (double) r.range (-4, 4);
            while (o[0] == 0 && o[1] == 0 && o[2] == 0);
            return o;
        }
        case 3: {
            int a = (int) r.range (0, 2);
            for (int i = 0; i < 3; ++i) o[i] = r.sym (1.0) * std::pow (10.0, -(double) r.range (2, 9));
            o[a] = r.coin () ? 1.0 : -1.0;
            break;
        }
        default:
            for (;;)
            {
                for (int i = 0; i < 3; ++i) o[i] = r.gauss ();
                if (o[0] * o[0] + o[1] * o[1] + o[2] * o[2] > 1e-6) break;
            }
    }
    double l = std::sqrt (o[0] * o[0] + o[1] * o[1] + o[2] * o[2]);
    for (int i = 0; i < 3; ++i) o[i] /= l;
    return o;
}

// some unit vector perpendicular to d (double precision is enough: it only steers the generator)
inline D3
gen_perp (Rng& r, const D3& d)
{
    for (;;)
    {
        D3     g = gen_dir (r, 0);
        double p = g[0] * d[0] + g[1] * d[1] + g[2] * d[2];
        double dd = d[0] * d[0] + d[1] * d[1] + d[2] * d[2];
        D3     o;
        for (int i = 0; i < 3; ++i) o[i] = g[i] - d[i] * p / dd;
        double l = std::sqrt (o[0] * o[0] + o[1] * o[1] + o[2] * o[2]);
        if (l < 1e-3) continue;
        for (int i = 0; i < 3; ++i) o[i] /= l;
        return o;
    }
}

inline D3 axpy (const D3& a, double s, const D3& b) { D3 o; for (int i = 0; i < 3; ++i) o[i] = a[i] + s * b[i]; return o; }
inline D3 scl (const D3& a, double s) { D3 o; for (int i = 0; i < 3; ++i) o[i] = a[i] * s; return o; }

} // namespace c15
