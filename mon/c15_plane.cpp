// C15 (part 2) - Plane3 (construction, distance, reflection, line intersection,
// plane * matrix, operator-) and Sphere3 (intersectT / intersect / circumscribe).
//
// Oracle: stored members (normal, distance, center, radius, pos, dir, matrix
// entries) converted exactly to long double / __float128.  The plane is the
// set { x : normal.x = distance } with the *stored* (nearly unit) normal, the
// signed distance of x is (normal.x - distance)/|normal|.
#include "c15_common.h"

using namespace c15;

namespace
{
const double B_PL_UNIT = 16, B_PL_DEF3 = 16, B_PL_DEFPN = 16, B_PL_DEFND = 16, B_PL_PARALLEL = 16;
const double B_RF_NEG = 32, B_RF_INV = 64, B_RF_PAR = 16, B_RV = 64, B_RV_INV = 128;
const double B_PI_PLANE = 16, B_PI_LINE = 16, B_PI_T = 16, B_PI_AGREE = 16;
const double B_PT_IN = 16, B_PT_NEG = 32;
const double B_SP_T = 8, B_CIRC = 16;

template <class R, class T> inline R sdist (const Plane3<T>& p, const RV<R, 3>& x)
{
    RV<R, 3> n = up<R> (p.normal);
    return (dot (n, x) - (R) p.distance) / len (n);
}

template <class T> std::string jsp (const Plane3<T>& p) { return Obj ().raw ("normal", js (p.normal)).kv ("distance", (double) p.distance).str (); }

// a plane built through one of the three constructor forms (form = 0: 3 points, 1: point+normal, 2: normal+distance);
// returns false when the construction is degenerate / too ill conditioned to be called a plane
template <class T> bool
make_plane (Rng& r, int form, int pk, Plane3<T>& pl)
{
    if (form == 0)
    {
        D3 a = gen_point (r, pk), b = axpy (a, 1.0, gen_point (r, pk == 1 ? 1 : 0)), cc = axpy (a, 1.0, gen_point (r, pk == 1 ? 1 : 0));
        pl   = Plane3<T> (tov<T> (a), tov<T> (b), tov<T> (cc));
    }
    else if (form == 1)
    {
        D3 n = scl (gen_dir (r, pk == 1 ? 2 : (r.one_in (4) ? 1 : 0)), pk == 1 ? 1.0 : std::ldexp (1.0 + r.uniform (), (int) r.range (-6, 6)));
        pl   = Plane3<T> (tov<T> (gen_point (r, pk)), tov<T> (n));
    }
    else
    {
        D3 n = scl (gen_dir (r, pk == 1 ? 2 : (r.one_in (4) ? 1 : 0)), pk == 1 ? 1.0 : std::ldexp (1.0 + r.uniform (), (int) r.range (-6, 6)));
        double d = pk == 1 ? (double) r.range (-8, 8) : pk == 2 ? r.logscale (5, 11) : r.sym (4.0);
        pl       = Plane3<T> (tov<T> (n), (T) d);
    }
    T l2 = pl.normal.length2 ();
    return l2 > (T) 0.5 && l2 < (T) 2;
}

// ------------------------------------------------------------------ construction
template <class T>
void
sub_plane_build (Ctx& c, uint64_t idx)
{
    typedef typename Tr<T>::R R;
    const std::string         tn  = Tr<T>::name ();
    const double              eps = eps_of<T>::value;
    Rng                       r   = c.rng (idx);
    unsigned                  form = (unsigned) (idx % 3);
    unsigned                  pk   = (unsigned) ((idx / 3) % 4); // point kind
    static const char* const  pkn[] = {"moderate", "lattice", "large_offset", "wide_exponents"};
    c.eval ();
    if (form == 0)
    {
        // three points; graded thinness of the triangle they span
        D3       a = gen_point (r, pk), e1, e2;
        unsigned thin = (unsigned) ((idx / 12) % 6);
        if (pk == 1) { e1 = gen_point (r, 1); e2 = gen_point (r, 1); }
        else
        {
            e1 = scl (gen_dir (r, 0), std::ldexp (1.0 + r.uniform (), (int) r.range (-3, 4)));
            double s = thin == 0 ? 1.0 : std::pow (10.0, -(double) thin * 0.8); // sin of the apex angle down to ~1e-4
            D3     e = gen_perp (r, e1);
            double l2 = std::ldexp (1.0 + r.uniform (), (int) r.range (-3, 4));
            e2        = thin == 0 ? scl (gen_dir (r, 0), l2) : axpy (scl (e1, std::sqrt (1 - s * s) * l2 / std::sqrt (e1[0] * e1[0] + e1[1] * e1[1] + e1[2] * e1[2])), s * l2, e);
        }
        Vec3<T> p1 = tov<T> (a), p2 = tov<T> (axpy (a, 1.0, e1)), p3 = tov<T> (axpy (a, 1.0, e2));
        Plane3<T> pl (p1, p2, p3), ps;
        ps.set (p1, p2, p3);
        RV<R, 3> X1 = up<R> (p1), X2 = up<R> (p2), X3 = up<R> (p3), E1 = X2 - X1, E2 = X3 - X1;
        R        A = len (cross (E1, E2)), L = r_max (len (E1), len (E2));
        auto     desc = [&] { return Obj ().kv ("form", "3points").kv ("points", pkn[pk]).raw ("p1", js (p1)).raw ("p2", js (p2)).raw ("p3", js (p3)).raw ("plane", jsp (pl)).str (); };
        if (!(pl.normal == ps.normal) || !(pl.distance == ps.distance) )
            if (!(std::isnan (pl.distance) && std::isnan (ps.distance))) c.fail ("Plane3(p1,p2,p3)." + tn + ":ctor_vs_set", idx, desc);
        if (A == 0) { c.cls ("skipped_collinear_points"); return; }
        double kappa = (double) (L * L / A);
        if (kappa > 1e3) { c.cls ("skipped_illconditioned"); return; }
        c.cls ("three_points");
        c.cls (pkn[pk]);
        if (kappa > 30) c.cls ("thin_triangle");
        c.nontrivial (hashv (p3, hashv (p2, hashv (p1))));
        if (!all_finite (pl.normal) || !std::isfinite (pl.distance)) { c.fail ("Plane3(p1,p2,p3)." + tn + ":nonfinite", idx, desc); return; }
        RV<R, 3> n = up<R> (pl.normal);
        judge (c, "Plane3(p1,p2,p3)." + tn + ":unit_normal", "Plane3." + tn + ".unit_normal/eps", (double) r_abs (len (n) - 1), eps, B_PL_UNIT, idx, desc);
        double M = (double) r_max (len (X1), r_max (len (X2), len (X3)));
        double tol = eps * (M + (double) (L * L * ((R) M + L) / A));
        const RV<R, 3>* X[3] = {&X1, &X2, &X3};
        for (int i = 0; i < 3; ++i)
            judge (c, "Plane3(p1,p2,p3)." + tn + ":point" + std::to_string (i + 1) + "_off_plane", "Plane3(p1,p2,p3)." + tn + ".dist/(eps*(M+L^2(M+L)/A))", (double) r_abs (sdist<R> (pl, *X[i])), tol, B_PL_DEF3, idx, desc);
        // the library's own distanceTo must agree with the oracle's signed distance on the defining points
        Vec3<T> pts[3] = {p1, p2, p3};
        for (int i = 0; i < 3; ++i)
            judge (c, "Plane3::distanceTo." + tn + ":defining_point", "Plane3::distanceTo(def.point)." + tn + "/(eps*(M+L^2(M+L)/A))", (double) std::fabs ((double) pl.distanceTo (pts[i])), tol, B_PL_DEF3, idx, desc);
        c.sample ("three_points", desc);
    }
    else
    {
        D3 nd = gen_dir (r, pk == 1 ? 2 : (r.one_in (4) ? 1 : (r.one_in (4) ? 3 : 0)));
        if (pk != 1) nd = scl (nd, std::ldexp (1.0 + r.uniform (), (int) r.range (-20, 20)));
        Vec3<T> nin = tov<T> (nd);
        RV<R, 3> N = up<R> (nin);
        if (form == 1)
        {
            Vec3<T>   p = tov<T> (gen_point (r, pk));
            Plane3<T> pl (p, nin), ps;
            ps.set (p, nin);
            auto desc = [&] { return Obj ().kv ("form", "point+normal").kv ("points", pkn[pk]).raw ("point", js (p)).raw ("normal_in", js (nin)).raw ("plane", jsp (pl)).str (); };
            c.cls ("point_normal");
            c.cls (pkn[pk]);
            c.nontrivial (hashv (nin, hashv (p)));
            if (!(pl.normal == ps.normal) || !(pl.distance == ps.distance)) c.fail ("Plane3(point,normal)." + tn + ":ctor_vs_set", idx, desc);
            if (!all_finite (pl.normal) || !std::isfinite (pl.distance)) { c.fail ("Plane3(point,normal)." + tn + ":nonfinite", idx, desc); return; }
            RV<R, 3> n = up<R> (pl.normal), X = up<R> (p);
            judge (c, "Plane3(point,normal)." + tn + ":unit_normal", "Plane3." + tn + ".unit_normal/eps", (double) r_abs (len (n) - 1), eps, B_PL_UNIT, idx, desc);
            judge (c, "Plane3(point,normal)." + tn + ":normal_direction", "Plane3." + tn + ".normal_direction/eps", (double) (len (cross (n, N)) / len (N)), eps, B_PL_PARALLEL, idx, desc);
            if (!(dot (n, N) > 0)) c.fail ("Plane3(point,normal)." + tn + ":normal_flipped", idx, desc);
            double tol = eps * (double) len (X);
            judge (c, "Plane3(point,normal)." + tn + ":point_off_plane", "Plane3(point,normal)." + tn + ".dist/(eps*|p|)", (double) r_abs (sdist<R> (pl, X)), tol, B_PL_DEFPN, idx, desc);
            judge (c, "Plane3::distanceTo." + tn + ":defining_point", "Plane3::distanceTo(def.point,pn)." + tn + "/(eps*|p|)", (double) std::fabs ((double) pl.distanceTo (p)), tol, B_PL_DEFPN, idx, desc);
            c.sample ("point_normal", desc);
        }
        else
        {
            T         d = (T) (pk == 1 ? (double) r.range (-8, 8) : pk == 2 ? r.logscale (5, 11) : pk == 3 ? r.logscale (-8, 8) : r.sym (4.0));
            Plane3<T> pl (nin, d), ps;
            ps.set (nin, d);
            auto desc = [&] { return Obj ().kv ("form", "normal+distance").kv ("points", pkn[pk]).raw ("normal_in", js (nin)).kv ("distance_in", (double) d).raw ("plane", jsp (pl)).str (); };
            c.cls ("normal_distance");
            c.cls (pkn[pk]);
            c.nontrivial (hashv (nin, d2u ((double) d)));
            if (!(pl.normal == ps.normal) || !(pl.distance == ps.distance)) c.fail ("Plane3(normal,distance)." + tn + ":ctor_vs_set", idx, desc);
            if (!all_finite (pl.normal) || !std::isfinite (pl.distance)) { c.fail ("Plane3(normal,distance)." + tn + ":nonfinite", idx, desc); return; }
            RV<R, 3> n = up<R> (pl.normal);
            judge (c, "Plane3(normal,distance)." + tn + ":unit_normal", "Plane3." + tn + ".unit_normal/eps", (double) r_abs (len (n) - 1), eps, B_PL_UNIT, idx, desc);
            judge (c, "Plane3(normal,distance)." + tn + ":normal_direction", "Plane3." + tn + ".normal_direction/eps", (double) (len (cross (n, N)) / len (N)), eps, B_PL_PARALLEL, idx, desc);
            if (!(dot (n, N) > 0)) c.fail ("Plane3(normal,distance)." + tn + ":normal_flipped", idx, desc);
            if (!(pl.distance == d)) c.fail ("Plane3(normal,distance)." + tn + ":distance_not_kept", idx, desc);
            // its defining point: distance * unit normal (evaluated in the reference type from the input normal)
            RV<R, 3> X = N * ((R) d / len (N));
            double   tol = eps * std::fabs ((double) d);
            judge (c, "Plane3(normal,distance)." + tn + ":point_off_plane", "Plane3(normal,distance)." + tn + ".dist/(eps*|d|)", (double) r_abs (sdist<R> (pl, X)), tol, B_PL_DEFND, idx, desc);
            Vec3<T> xp = pl.normal * d;
            judge (c, "Plane3::distanceTo." + tn + ":defining_point", "Plane3::distanceTo(def.point,nd)." + tn + "/(eps*|d|)", (double) std::fabs ((double) pl.distanceTo (xp)), tol, 2 * B_PL_DEFND, idx, desc);
            c.sample ("normal_distance", desc);
        }
    }
}

// ------------------------------------------------------------------ distanceTo / reflectPoint / reflectVector / operator-
template <class T>
void
sub_plane_reflect (Ctx& c, uint64_t idx)
{
    typedef typename Tr<T>::R R;
    const std::string         tn  = Tr<T>::name ();
    const double              eps = eps_of<T>::value;
    Rng                       r   = c.rng (idx);
    unsigned                  form = (unsigned) (idx % 3);
    unsigned                  pk   = (unsigned) ((idx / 3) % 4);
    unsigned                  qk   = (unsigned) ((idx / 12) % 5);
    static const char* const  qn[] = {"point_generic", "point_on_plane", "point_near_plane", "point_far", "point_lattice"};
    Plane3<T>                 pl;
    if (!make_plane (r, (int) form, (int) pk, pl)) { c.cls ("skipped_degenerate_plane"); return; }
    if (form == 0 && pl.normal.length2 () == 0) { c.cls ("skipped_degenerate_plane"); return; }
    RV<R, 3> n = up<R> (pl.normal);
    R        nl = len (n);
    // a point of the plane (reference type), then the query point at a graded height
    D3       y = gen_point (r, pk == 2 ? 2 : 0);
    RV<R, 3> Y;
    for (int i = 0; i < 3; ++i) Y[i] = (R) y[i];
    RV<R, 3> Y0 = Y - n * ((dot (n, Y) - (R) pl.distance) / (nl * nl));
    double   h  = 0;
    switch (qk)
    {
        case 0: h = r.sym (4.0); break;
        case 1: h = 0; break;
        case 2: h = std::pow (10.0, -(double) r.range (1, 7)) * (r.coin () ? 1 : -1); break;
        case 3: h = r.logscale (4, 12); break;
        case 4: h = 0; break;
    }
    Vec3<T> q;
    if (qk == 4) q = tov<T> (gen_point (r, 1));
    else
        for (int i = 0; i < 3; ++i) q[i] = (T) (double) (Y0[i] + n[i] * ((R) h / nl));
    c.eval ();
    c.cls (qn[qk]);
    c.cls (form == 0 ? "plane_3points" : form == 1 ? "plane_point_normal" : "plane_normal_distance");
    c.nontrivial (hashv (q, hashv (pl.normal, d2u ((double) pl.distance))));

    RV<R, 3> Q  = up<R> (q);
    R        sd = sdist<R> (pl, Q);
    double   M  = (double) len (Q) + std::fabs ((double) pl.distance);
    T        dq = pl.distanceTo (q);
    Vec3<T>  rp = pl.reflectPoint (q);
    Vec3<T>  rr = pl.reflectPoint (rp);
    auto     desc = [&] { return Obj ().raw ("plane", jsp (pl)).raw ("point", js (q)).kv ("signed_distance", (double) sd).kv ("distanceTo", (double) dq).raw ("reflectPoint", js (rp)).raw ("reflectPoint_twice", js (rr)).str (); };
    if (!std::isfinite (dq) || !all_finite (rp) || !all_finite (rr)) { c.fail ("reflectPoint." + tn + ":nonfinite", idx, desc); return; }
    // distanceTo = signed distance
    judge (c, "Plane3::distanceTo." + tn + ":value", "Plane3::distanceTo." + tn + ".err/(eps*(|q|+|d|))", (double) r_abs ((R) dq - sd), eps * M, B_RF_NEG, idx, desc);
    // reflection negates the signed distance, moves along the normal only, and is an involution
    RV<R, 3> RP = up<R> (rp), RR = up<R> (rr);
    double   M2 = M + (double) r_abs (sd);
    judge (c, "reflectPoint." + tn + ":signed_distance_not_negated", "reflectPoint." + tn + ".neg/(eps*(|q|+|d|+|sd|))", (double) r_abs (sdist<R> (pl, RP) + sd), eps * M2, B_RF_NEG, idx, desc);
    judge (c, "reflectPoint." + tn + ":displacement_not_along_normal", "reflectPoint." + tn + ".par/(eps*(|q|+|d|+|sd|))", (double) (len (cross (RP - Q, n)) / nl), eps * M2, B_RF_PAR, idx, desc);
    judge (c, "reflectPoint." + tn + ":not_involution", "reflectPoint." + tn + ".inv/(eps*(|q|+|d|+|sd|))", (double) len (RR - Q), eps * M2, B_RF_INV, idx, desc);
    if (r_abs (sd) > (R) (64 * eps * M2))
    {
        c.cls ("side_judged");
        T d2 = pl.distanceTo (rp);
        if ((d2 > 0) == (dq > 0)) c.fail ("reflectPoint." + tn + ":same_side", idx, desc);
        // operator- flips the side
        Plane3<T> ng = -pl;
        T         dn = ng.distanceTo (q);
        judge (c, "operator-(Plane3)." + tn + ":distance_not_negated", "operator-(Plane3)." + tn + ".neg/(eps*(|q|+|d|))", (double) r_abs ((R) dn + sd), eps * M, B_PT_NEG, idx, desc);
        if ((dn > 0) == (dq > 0)) c.fail ("operator-(Plane3)." + tn + ":same_side", idx, desc);
    }
    else
    {
        Plane3<T> ng = -pl;
        judge (c, "operator-(Plane3)." + tn + ":distance_not_negated", "operator-(Plane3)." + tn + ".neg/(eps*(|q|+|d|))", (double) r_abs ((R) ng.distanceTo (q) + sd), eps * M, B_PT_NEG, idx, desc);
    }

    // reflectVector: involution, preserves length, agrees with reflect() of ImathVecAlgo.h
    D3      vd = qk == 4 ? gen_point (r, 1) : scl (gen_dir (r, r.one_in (5) ? 1 : 0), std::ldexp (1.0 + r.uniform (), (int) r.range (-10, 10)));
    Vec3<T> v  = tov<T> (vd);
    Vec3<T> rv = pl.reflectVector (v), rv2 = pl.reflectVector (rv);
    RV<R, 3> V = up<R> (v), RVv = up<R> (rv), RV2 = up<R> (rv2);
    double   vl = (double) len (V);
    auto     dv = [&] { return Obj ().raw ("plane", jsp (pl)).raw ("vec", js (v)).raw ("reflectVector", js (rv)).raw ("reflectVector_twice", js (rv2)).str (); };
    if (!all_finite (rv) || !all_finite (rv2)) { c.fail ("reflectVector." + tn + ":nonfinite", idx, dv); return; }
    judge (c, "reflectVector." + tn + ":not_involution", "reflectVector." + tn + ".inv/(eps*|v|)", (double) len (RV2 - V), eps * vl, B_RV_INV, idx, dv);
    judge (c, "reflectVector." + tn + ":length_changed", "reflectVector." + tn + ".len/(eps*|v|)", (double) r_abs (len (RVv) - len (V)), eps * vl, B_RV, idx, dv);
    // the reflected vector has the same component along the normal and the negated tangential component:
    // equivalently rv + v is parallel to the normal and rv - v is perpendicular to it (a reflection, not the identity / point inversion)
    judge (c, "reflectVector." + tn + ":not_a_reflection", "reflectVector." + tn + ".sum_par/(eps*|v|)", (double) (len (cross (RVv + V, n)) / nl), eps * vl, B_RV, idx, dv);
    judge (c, "reflectVector." + tn + ":not_a_reflection", "reflectVector." + tn + ".diff_perp/(eps*|v|)", (double) (r_abs (dot (RVv - V, n)) / nl), eps * vl, B_RV, idx, dv);
    c.sample (qn[qk], desc);
}

// ------------------------------------------------------------------ intersect / intersectT
template <class T>
void
sub_plane_intersect (Ctx& c, uint64_t idx)
{
    typedef typename Tr<T>::R R;
    const std::string         tn  = Tr<T>::name ();
    const double              eps = eps_of<T>::value;
    Rng                       r   = c.rng (idx);
    unsigned                  form = (unsigned) (idx % 3);
    unsigned                  k    = (unsigned) ((idx / 3) % 8);
    static const char* const  kn[] = {"generic", "lattice", "large_offset", "grazing_graded", "perpendicular", "origin_on_plane", "parallel_exact", "line_in_plane_exact"};
    Plane3<T>                 pl;
    Line3<T>                  l;
    if (k == 6 || k == 7)
    {
        // axis-aligned plane normal, lattice line with zero component along it: normal.dir == 0 exactly
        int a = (int) r.range (0, 2);
        Vec3<T> n (0, 0, 0);
        n[a] = r.coin () ? (T) 1 : (T) -1;
        T d  = (T) (double) r.range (-8, 8);
        pl   = form == 2 ? Plane3<T> (n * (T) (double) r.range (1, 4), d) : Plane3<T> (n * d, n * (T) 3);
        D3 p0 = gen_point (r, 1), dd = gen_dir (r, 2);
        dd[a] = 0;
        if (dd[0] == 0 && dd[1] == 0 && dd[2] == 0) dd[(a + 1) % 3] = 1;
        p0[a] = k == 7 ? (double) (pl.normal[a] * pl.distance) : (double) (pl.normal[a] * pl.distance) + (double) r.range (1, 5) * (r.coin () ? 1 : -1);
        l     = Line3<T> (tov<T> (p0), tov<T> (axpy (p0, 1.0, dd)));
    }
    else
    {
        int pk = k == 1 ? 1 : k == 2 ? 2 : 0;
        if (!make_plane (r, (int) form, pk, pl) || pl.normal.length2 () == 0) { c.cls ("skipped_degenerate_plane"); return; }
        D3 nn = D3{{(double) pl.normal.x, (double) pl.normal.y, (double) pl.normal.z}};
        D3 p0 = gen_point (r, pk), dd = gen_dir (r, pk == 1 ? 2 : 0);
        if (k == 3)
        {
            double s = std::pow (10.0, -(double) r.range (1, 6)) * r.uniform (1, 3) * (r.coin () ? 1 : -1);
            dd       = axpy (scl (gen_perp (r, nn), std::sqrt (1 - s * s)), s, nn);
        }
        if (k == 4) dd = scl (nn, r.coin () ? 1.0 : -1.0);
        if (k == 5)
        {
            // origin (nearly) on the plane
            double sdv = (nn[0] * p0[0] + nn[1] * p0[1] + nn[2] * p0[2]) - (double) pl.distance;
            p0         = axpy (p0, -sdv, nn);
        }
        Vec3<T> A0 = tov<T> (p0), A1 = tov<T> (axpy (p0, pk == 1 ? 1.0 : std::ldexp (1.0 + r.uniform (), (int) r.range (-2, 3)), dd));
        if (A0 == A1) { c.cls ("skipped_degenerate_line"); return; }
        l = Line3<T> (A0, A1);
    }
    c.eval ();
    c.nontrivial (hashv (l.dir, hashv (l.pos, hashv (pl.normal, d2u ((double) pl.distance)))));
    Vec3<T> pt (0);
    T       tg = 0;
    bool    okp = pl.intersect (l, pt), okt = pl.intersectT (l, tg);
    RV<R, 3> n = up<R> (pl.normal), P = up<R> (l.pos), u = up<R> (l.dir);
    R        nl = len (n), ul = len (u), nd = dot (n, u);
    double   cosang = (double) (r_abs (nd) / (nl * ul));
    auto     desc = [&] { return Obj ().kv ("class", kn[k]).raw ("plane", jsp (pl)).raw ("line", jsl (l)).kv ("cos_normal_dir", cosang).kv ("intersect_ok", okp).raw ("point", js (pt)).kv ("intersectT_ok", okt).kv ("t", (double) tg).str (); };
    if (okp != okt) c.fail ("Plane3::intersect." + tn + ":intersect_vs_intersectT_disagree", idx, desc);
    if (nd == 0 && k != 6 && k != 7)
    {
        // the stored values happen to be exactly perpendicular, but the float evaluation of normal.dir need not be
        // exactly zero (three rounded products): numerically a grazing line, outside the judged range
        c.cls ("skipped_grazing");
        return;
    }
    if (nd == 0)
    {
        // exactly parallel: no point can lie on both (k==6), must be reported; a line inside the plane (k==7) may report either
        c.cls (k == 7 ? "line_in_plane_exact" : "parallel_exact");
        R sd0 = sdist<R> (pl, P);
        if (sd0 != 0 && (okp || okt)) c.fail ("Plane3::intersect." + tn + ":parallel_line_reported_true", idx, desc);
        if (okp && !all_finite (pt)) c.fail ("Plane3::intersect." + tn + ":nonfinite", idx, desc);
        c.sample (kn[k], desc);
        return;
    }
    if (cosang < 1e-7) { c.cls ("skipped_grazing"); return; }
    c.cls (kn[k]);
    if (!okp || !okt) { c.fail ("Plane3::intersect." + tn + ":false_for_crossing_line", idx, desc); return; }
    if (!all_finite (pt) || !std::isfinite (tg)) { c.fail ("Plane3::intersect." + tn + ":nonfinite", idx, desc); return; }
    R        ts = ((R) pl.distance * 1 - dot (n, P)) / nd;
    RV<R, 3> X = up<R> (pt);
    double   Mp = (double) len (P) + std::fabs ((double) pl.distance);
    double   tabs = (double) r_abs (ts) * (double) ul;
    judge (c, "Plane3::intersect." + tn + ":point_off_plane", "Plane3::intersect." + tn + ".plane/(eps*(|pos|+|d|+|t|))", (double) r_abs (sdist<R> (pl, X)), eps * (Mp + tabs), B_PI_PLANE, idx, desc);
    judge (c, "Plane3::intersect." + tn + ":point_off_line", "Plane3::intersect." + tn + ".line/(eps*(|pos|+|t|))", (double) dist_point_line (X, P, u), eps * ((double) len (P) + (double) len (X - P)), B_PI_LINE, idx, desc);
    judge (c, "Plane3::intersectT." + tn + ":parameter", "Plane3::intersectT." + tn + ".t/(eps*(|pos|+|d|+|t|)/cos)", (double) r_abs ((R) tg - ts), eps * (Mp + (double) r_abs (ts)) / cosang, B_PI_T, idx, desc);
    RV<R, 3> LT = P + u * (R) tg;
    judge (c, "Plane3::intersect." + tn + ":differs_from_line(intersectT)", "Plane3::intersect." + tn + ".agree/(eps*(|pos|+|t|))", (double) len (LT - X), eps * ((double) len (P) + std::fabs ((double) tg)), B_PI_AGREE, idx, desc);
    c.sample (kn[k], desc);
}

// ------------------------------------------------------------------ plane * matrix
struct M44d { double m[4][4]; };
inline M44d ident () { M44d o; for (int i = 0; i < 4; ++i) for (int j = 0; j < 4; ++j) o.m[i][j] = i == j; return o; }
inline M44d mul (const M44d& a, const M44d& b)
{
    M44d o;
    for (int i = 0; i < 4; ++i)
        for (int j = 0; j < 4; ++j)
        {
            double s = 0;
            for (int k = 0; k < 4; ++k) s += a.m[i][k] * b.m[k][j];
            o.m[i][j] = s;
        }
    return o;
}
inline M44d rot (Rng& r)
{
    D3     a  = gen_dir (r, r.one_in (4) ? 1 : 0);
    double th = r.one_in (4) ? 1.5707963267948966 * (double) r.range (-3, 4) : r.sym (3.14159);
    double cs = std::cos (th), sn = std::sin (th);
    M44d   o  = ident ();
    for (int i = 0; i < 3; ++i)
        for (int j = 0; j < 3; ++j)
        {
            // Rodrigues: R = c I + (1-c) a a^T + s [a]x
            double kx = 0;
            if ((i + 1) % 3 == j) kx = a[(i + 2) % 3];
            if ((j + 1) % 3 == i) kx = -a[(j + 2) % 3];
            o.m[i][j] = cs * (i == j) + (1 - cs) * a[i] * a[j] + sn * kx;
        }
    return o;
}

template <class T>
void
sub_plane_xform (Ctx& c, uint64_t idx)
{
    typedef typename Tr<T>::R R;
    const std::string         tn  = Tr<T>::name ();
    const double              eps = eps_of<T>::value;
    Rng                       r   = c.rng (idx);
    unsigned                  form = (unsigned) (idx % 3);
    unsigned                  mk   = (unsigned) ((idx / 3) % 9);
    static const char* const  mn[] = {"rotation", "positive_scale", "shear", "translation", "rigid", "affine_composed", "lattice_unimodular", "reflection", "identity"};
    Plane3<T>                 pl;
    int                       pk = mk == 6 ? 1 : (r.one_in (5) ? 2 : 0);
    if (!make_plane (r, (int) form, pk, pl) || pl.normal.length2 () == 0) { c.cls ("skipped_degenerate_plane"); return; }
    M44d m = ident ();
    auto scale = [&] { M44d s = ident (); for (int i = 0; i < 3; ++i) s.m[i][i] = std::ldexp (1.0 + r.uniform (), (int) r.range (-3, 3)); return s; };
    auto shear = [&] { M44d s = ident (); s.m[1][0] = r.sym (2); s.m[2][0] = r.sym (2); s.m[2][1] = r.sym (2); return s; };
    auto trans = [&] (M44d& s) { double t = r.one_in (4) ? 1000.0 : 4.0; for (int j = 0; j < 3; ++j) s.m[3][j] = r.sym (t); };
    switch (mk)
    {
        case 0: m = rot (r); break;
        case 1: m = scale (); break;
        case 2: m = shear (); break;
        case 3: trans (m); break;
        case 4: m = rot (r); trans (m); break;
        case 5: m = mul (mul (scale (), shear ()), rot (r)); trans (m); break;
        case 6: {
            // product of integer elementary shears: determinant exactly +1
            for (int s = 0; s < 4; ++s)
            {
                M44d e = ident ();
                int  i = (int) r.range (0, 2), j = (int) r.range (0, 2);
                if (i == j) j = (j + 1) % 3;
                e.m[i][j] = (double) r.range (-2, 2);
                m         = mul (m, e);
            }
            for (int j = 0; j < 3; ++j) m.m[3][j] = (double) r.range (-8, 8);
            break;
        }
        case 7: {
            m = mul (scale (), rot (r));
            int a = (int) r.range (0, 2);
            M44d f = ident ();
            f.m[a][a] = -1;
            m = mul (m, f);
            trans (m);
            break;
        }
        case 8: break;
    }
    Matrix44<T> Mx;
    for (int i = 0; i < 4; ++i)
        for (int j = 0; j < 4; ++j) Mx[i][j] = (T) m.m[i][j];
    Mx[0][3] = Mx[1][3] = Mx[2][3] = 0;
    Mx[3][3] = 1;
    c.eval ();

    Plane3<T> pt = pl * Mx;

    // oracle: linear part A (row-vector convention x' = x A + t)
    R A[3][3], tr[3];
    for (int i = 0; i < 3; ++i)
    {
        tr[i] = (R) Mx[3][i];
        for (int j = 0; j < 3; ++j) A[i][j] = (R) Mx[i][j];
    }
    auto xf = [&] (const RV<R, 3>& x) { RV<R, 3> o; for (int j = 0; j < 3; ++j) { R s = tr[j]; for (int i = 0; i < 3; ++i) s += x[i] * A[i][j]; o[j] = s; } return o; };
    auto xl = [&] (const RV<R, 3>& x) { RV<R, 3> o; for (int j = 0; j < 3; ++j) { R s = 0; for (int i = 0; i < 3; ++i) s += x[i] * A[i][j]; o[j] = s; } return o; };
    R det = 0, fro = 0;
    for (int i = 0; i < 3; ++i)
    {
        det += A[0][i] * (A[1][(i + 1) % 3] * A[2][(i + 2) % 3] - A[1][(i + 2) % 3] * A[2][(i + 1) % 3]);
        for (int j = 0; j < 3; ++j) fro += A[i][j] * A[i][j];
    }
    fro = r_sqrt (fro);
    RV<R, 3> n = up<R> (pl.normal);
    R        nl = len (n);
    RV<R, 3> X0 = n * ((R) pl.distance / (nl * nl)); // foot of the origin on the plane
    // orthonormal basis of the plane (reference type)
    RV<R, 3> ax; int am = 0;
    for (int i = 1; i < 3; ++i) if (r_abs (n[i]) < r_abs (n[am])) am = i;
    for (int i = 0; i < 3; ++i) ax[i] = i == am;
    RV<R, 3> e1 = cross (n, ax); e1 = e1 * (1 / len (e1));
    RV<R, 3> e2 = cross (n, e1); e2 = e2 * (1 / len (e2));
    RV<R, 3> E1 = xl (e1), E2 = xl (e2), X0p = xf (X0);
    R        Lp = r_max (len (E1), len (E2)), Ap = len (cross (E1, E2));
    double   kappa = (double) (Lp * Lp / Ap);
    auto     desc0 = [&] { std::string ms = "["; for (int i = 0; i < 4; ++i) { if (i) ms += ","; ms += js (Vec4<T> (Mx[i][0], Mx[i][1], Mx[i][2], Mx[i][3])); } ms += "]"; return Obj ().kv ("matrix_class", mn[mk]).raw ("plane", jsp (pl)).raw ("matrix_rows", ms).raw ("plane_times_M", jsp (pt)).kv ("det3", (double) det); };
    if (!all_finite (pt.normal) || !std::isfinite (pt.distance)) { c.fail ("operator*(Plane3,Matrix44)." + tn + ":nonfinite", idx, [&] { return desc0 ().str (); }); return; }
    if (kappa > 1e3 || !(r_abs (det) > 0)) { c.cls ("skipped_illconditioned"); return; }
    c.cls (mn[mk]);
    c.cls (det > 0 ? "orientation_preserving" : "orientation_reversing");
    c.nontrivial (hashv (Vec4<T> (Mx[0][0], Mx[1][1], Mx[2][1], Mx[3][0]), hashv (pl.normal, d2u ((double) pl.distance))));
    const double lX0 = dlen (X0), lX0p = dlen (X0p), dfro = (double) fro;
    double G = (lX0 * dfro + lX0p + (double) Lp) * (double) (Lp / Ap);
    RV<R, 3> npn = up<R> (pt.normal);
    const R  nlp = len (npn);
    auto sdp_of = [&] (const RV<R, 3>& x) { return (dot (npn, x) - (R) pt.distance) / nlp; };
    {
        judge (c, "operator*(Plane3,Matrix44)." + tn + ":unit_normal", "operator*(Plane3,Matrix44)." + tn + ".unit_normal/eps", (double) r_abs (nlp - 1), eps, B_PL_UNIT, idx, [&] { return desc0 ().str (); });
    }
    // points of the plane -> must lie on plane*M
    for (int s = 0; s < 4; ++s)
    {
        R        a = (R) (s == 0 ? 0.0 : r.sym (s == 3 ? 64.0 : 4.0)), b = (R) (s == 0 ? 0.0 : r.sym (s == 3 ? 64.0 : 4.0));
        RV<R, 3> X = X0 + e1 * a + e2 * b, Xp = xf (X);
        double   tol = eps * (G * dlen (Xp - X0p) + lX0p + dlen (Xp) + lX0 * dfro);
        R        sd = sdp_of (Xp);
        judge (c, "operator*(Plane3,Matrix44)." + tn + ":transformed_point_off_plane", "operator*(Plane3,Matrix44)." + tn + ".in_plane/(eps*(G*r+|x0'|+|x'|))", (double) r_abs (sd), tol, B_PT_IN, idx,
               [&] { return desc0 ().raw ("plane_point", js (Vec3<double> ((double) X[0], (double) X[1], (double) X[2]))).raw ("transformed", js (Vec3<double> ((double) Xp[0], (double) Xp[1], (double) Xp[2]))).kv ("signed_distance_to_result", (double) sd).str (); });
    }
    // side of test points (orientation preserving matrices only)
    for (int s = 0; s < 3; ++s)
    {
        double   h = (s == 0 ? r.sym (4.0) : std::pow (10.0, -(double) r.range (0, 5)) * (r.coin () ? 1 : -1) * (s == 2 ? 100 : 1));
        RV<R, 3> X = X0 + e1 * (R) r.sym (4.0) + e2 * (R) r.sym (4.0) + n * ((R) h / nl);
        Vec3<T>  q ((T) (double) X[0], (T) (double) X[1], (T) (double) X[2]);
        RV<R, 3> Q = up<R> (q), Qp = xf (Q);
        R        sd = (dot (n, Q) - (R) pl.distance) / nl, sdp = sdp_of (Qp);
        double   tol0 = eps * (dlen (Q) + std::fabs ((double) pl.distance));
        double   tol = eps * (G * dlen (Qp - X0p) + lX0p + dlen (Qp) + lX0 * dfro);
        if (!(det > 0)) { c.cls ("side_not_judged_orientation_reversing"); continue; }
        if ((double) r_abs (sd) <= 64 * tol0 || (double) r_abs (sdp) <= 8 * B_PT_IN * tol) { c.cls ("side_skipped_margin"); continue; }
        c.cls ("side_judged");
        // real code's own verdict on the real transformed point
        Vec3<T> qx = q * Mx;
        T       d0 = pl.distanceTo (q), d1 = pt.distanceTo (qx);
        bool    bad = ((sd > 0) != (sdp > 0)) || ((d0 > 0) != (d1 > 0));
        if (bad)
            c.fail ("operator*(Plane3,Matrix44)." + tn + ":side_changed", idx,
                    [&] { return desc0 ().raw ("point", js (q)).raw ("point_times_M", js (qx)).kv ("distanceTo_before", (double) d0).kv ("distanceTo_after", (double) d1).kv ("signed_distance_before", (double) sd).kv ("signed_distance_after", (double) sdp).str (); });
    }
    c.sample (mn[mk], [&] { return desc0 ().str (); });
}

// ------------------------------------------------------------------ sphere
template <class T>
void
sub_sphere (Ctx& c, uint64_t idx)
{
    typedef typename Tr<T>::R R;
    const std::string         tn  = Tr<T>::name ();
    const double              eps = eps_of<T>::value;
    Rng                       r   = c.rng (idx);
    unsigned                  k   = (unsigned) (idx % 14);
    static const char* const  kn[] = {"outside_hit", "outside_pointing_away", "outside_miss", "near_tangent_graded", "origin_inside", "origin_at_center",
                                      "origin_on_sphere_exact_inward", "origin_on_sphere_exact_outward", "origin_on_sphere_rounded", "large_offset", "tiny_radius_far", "huge_radius_near_surface", "lattice", "origin_on_sphere_exact_tangent"};
    static const int quad[][4] = {{1, 2, 2, 3}, {2, 3, 6, 7}, {3, 4, 0, 5}, {4, 4, 7, 9}, {1, 4, 8, 9}, {2, 6, 9, 11}, {6, 6, 7, 11}, {0, 0, 1, 1}, {2, 10, 11, 15}, {3, 4, 12, 13}};
    D3     ctr = gen_point (r, 0);
    double rad = std::ldexp (1.0 + r.uniform (), (int) r.range (-3, 3));
    D3     p0, aim; // line through p0 towards aim
    auto   onsph = [&] (double rr) { return axpy (ctr, rr, gen_dir (r, 0)); };
    bool   exact_on = false;
    switch (k)
    {
        case 0: p0 = onsph (rad * (1 + std::pow (10.0, r.uniform (-3, 2)))); aim = onsph (rad * r.uniform ()); break;
        case 1: { p0 = onsph (rad * (1 + std::pow (10.0, r.uniform (-3, 2)))); D3 a = onsph (rad * r.uniform ()); aim = axpy (p0, -1.0, axpy (a, -1.0, p0)); break; }
        case 2: { p0 = onsph (rad * (1.5 + std::pow (10.0, r.uniform (-1, 2)))); D3 dd = gen_dir (r, 0); aim = axpy (p0, 1.0, dd); break; }
        case 3: {
            // impact parameter b = rad * (1 +- 10^-j)
            D3     dd = gen_dir (r, 0), e = gen_perp (r, dd);
            double b  = rad * (1 + std::pow (10.0, -(double) r.range (1, 9)) * (r.coin () ? 1 : -1));
            D3     m  = axpy (ctr, b, e);
            p0        = axpy (m, -r.uniform (0.5, 8) * rad, dd);
            aim       = m;
            break;
        }
        case 4: p0 = onsph (rad * r.uniform () * 0.999); aim = axpy (p0, 1.0, gen_dir (r, 0)); break;
        case 5: p0 = ctr; aim = axpy (p0, 1.0, gen_dir (r, r.one_in (3) ? 1 : 0)); break;
        case 6: case 7: case 13: {
            const int* qd = quad[r.range (0, 9)];
            double     s  = std::ldexp (1.0, (int) r.range (-3, 3));
            int        perm = (int) r.range (0, 5);
            static const int pm[6][3] = {{0, 1, 2}, {0, 2, 1}, {1, 0, 2}, {1, 2, 0}, {2, 0, 1}, {2, 1, 0}};
            for (int i = 0; i < 3; ++i) ctr[i] = (double) r.range (-8, 8) * s;
            rad = qd[3] * s;
            D3 off;
            for (int i = 0; i < 3; ++i) off[i] = qd[pm[perm][i]] * s * (r.coin () ? 1 : -1);
            p0 = axpy (ctr, 1.0, off);
            exact_on = true;
            if (k == 13)
            {
                D3 e = gen_perp (r, off);
                aim  = axpy (p0, 1.0, e);
            }
            else
            {
                D3 inner = onsph (rad * r.uniform () * 0.9);
                aim      = k == 6 ? inner : axpy (p0, -1.0, axpy (inner, -1.0, p0));
            }
            break;
        }
        case 8: p0 = onsph (rad); aim = r.coin () ? onsph (rad * r.uniform ()) : axpy (p0, 1.0, gen_dir (r, 0)); break;
        case 9: ctr = gen_point (r, 2); p0 = onsph (rad * r.uniform (0, 3)); aim = r.coin () ? onsph (rad * r.uniform ()) : axpy (p0, 1.0, gen_dir (r, 0)); break;
        case 10: rad = std::ldexp (1.0 + r.uniform (), (int) r.range (-12, -6)); p0 = onsph (r.uniform (1, 100)); aim = onsph (rad * r.uniform (0, 2)); break;
        case 11: rad = std::ldexp (1.0 + r.uniform (), (int) r.range (8, 14)); p0 = onsph (rad + r.sym (2.0)); aim = axpy (p0, 1.0, gen_dir (r, 0)); break;
        case 12: {
            for (int i = 0; i < 3; ++i) ctr[i] = (double) r.range (-8, 8);
            rad = (double) r.range (1, 8);
            p0  = gen_point (r, 1);
            aim = gen_point (r, 1);
            break;
        }
    }
    Vec3<T> A0 = tov<T> (p0), A1 = tov<T> (aim);
    if (A0 == A1) { c.cls ("skipped_degenerate_line"); return; }
    Line3<T>   l (A0, A1);
    Sphere3<T> s (tov<T> (ctr), (T) rad);
    c.eval ();
    c.nontrivial (hashv (l.dir, hashv (l.pos, hashv (s.center, d2u ((double) s.radius)))));

    T       tg = 0;
    Vec3<T> pg (0);
    bool    okt = s.intersectT (l, tg);
    bool    okp = s.intersect (l, pg);

    RV<R, 3> P = up<R> (l.pos), u = up<R> (l.dir), C = up<R> (s.center), v = P - C;
    R        rr = (R) s.radius;
    R        qa = dot (u, u), qb = 2 * dot (u, v), vv = dot (v, v), qc = vv - rr * rr;
    R        disc = qb * qb - 4 * qa * qc;
    R        dscale = qb * qb + 4 * qa * (vv + rr * rr);
    auto     desc = [&] { return Obj ().kv ("class", kn[k]).raw ("center", js (s.center)).kv ("radius", (double) s.radius).raw ("line", jsl (l)).kv ("intersectT_ok", okt).kv ("t", (double) tg).kv ("intersect_ok", okp).raw ("point", js (pg)).kv ("disc_margin", (double) (disc / dscale)).kv ("C_margin", (double) (qc / (vv + rr * rr))).str (); };
    // intersect == line(intersectT) (same decision, same point)
    if (okp != okt) c.fail ("Sphere3::intersect." + tn + ":intersect_vs_intersectT_disagree", idx, desc);
    else if (okp)
    {
        Vec3<T> lt = l (tg);
        if (!(lt == pg)) c.fail ("Sphere3::intersect." + tn + ":point_differs_from_line(t)", idx, desc);
    }
    if (okt && !std::isfinite (tg)) { c.fail ("Sphere3::intersectT." + tn + ":nonfinite", idx, desc); return; }
    if (exact_on) c.cls (qc == 0 ? "origin_exactly_on_sphere" : "origin_on_sphere_inexact");

    double margin = (double) (disc / dscale);
    if (std::fabs (margin) <= 64 * eps)
    {
        c.cls ("skipped_tangent_margin");
        return;
    }
    c.cls (kn[k]);
    if (disc < 0)
    {
        c.cls ("verdict_miss");
        if (okt) c.fail ("Sphere3::intersectT." + tn + ":true_for_missing_line", idx, desc);
        return;
    }
    R sq = r_sqrt (disc);
    // stable roots of qa t^2 + qb t + qc
    R qq = -(qb + (qb < 0 ? -sq : sq)) / 2;
    R ra = qq / qa, rb = (qq != 0) ? qc / qq : ra;
    R t0 = r_min (ra, rb), t1 = r_max (ra, rb);
    double tolt = eps * ((double) (dscale / sq) + (double) r_abs (qb) + (double) sq) / (double) qa;
    double bt   = B_SP_T * tolt;
    auto   near = [&] (R a) { return (double) r_abs ((R) tg - a); };
    auto   descr = [&] { return Obj ().raw ("case", desc ()).kv ("root0", (double) t0).kv ("root1", (double) t1).kv ("tol_unit", tolt).str (); };
    if ((double) t1 < -bt)
    {
        c.cls ("verdict_behind");
        if (okt) c.fail ("Sphere3::intersectT." + tn + ":true_for_sphere_behind_origin", idx, descr);
    }
    else if ((double) t0 > bt)
    {
        c.cls ("verdict_first_root");
        if (!okt) c.fail ("Sphere3::intersectT." + tn + ":false_for_hit", idx, descr);
        else
        {
            c.worst (("Sphere3::intersectT." + tn + ".t/tol").c_str (), near (t0) / tolt, idx, descr);
            if (!(near (t0) <= bt)) c.fail ("Sphere3::intersectT." + tn + ":not_smallest_nonnegative_root", idx, descr);
        }
    }
    else if ((double) t0 < -bt && (double) t1 > bt)
    {
        c.cls ("verdict_second_root_origin_inside");
        if (!okt) c.fail ("Sphere3::intersectT." + tn + ":false_for_origin_inside", idx, descr);
        else
        {
            c.worst (("Sphere3::intersectT." + tn + ".t/tol").c_str (), near (t1) / tolt, idx, descr);
            if (!(near (t1) <= bt)) c.fail ("Sphere3::intersectT." + tn + ":not_smallest_nonnegative_root", idx, descr);
        }
    }
    else
    {
        // a root within tolerance of zero (origin on the sphere): either reading of its sign is accepted
        c.cls ("verdict_root_at_zero");
        bool t0z = std::fabs ((double) t0) <= bt, t1z = std::fabs ((double) t1) <= bt;
        if (okt)
        {
            bool good = (t0z && near (t0) <= bt) || ((double) t1 >= -bt && (t0z || (double) t0 < 0) && near (t1) <= bt);
            if (!good) c.fail ("Sphere3::intersectT." + tn + ":not_a_root_(origin_on_sphere)", idx, descr);
        }
        else if (!t1z)
            c.fail ("Sphere3::intersectT." + tn + ":false_for_hit", idx, descr);
    }
    if (okt && (double) tg < 0) c.fail ("Sphere3::intersectT." + tn + ":negative_parameter", idx, descr);
    c.sample (kn[k], desc);
}

template <class T>
void
sub_circumscribe (Ctx& c, uint64_t idx)
{
    typedef typename Tr<T>::R R;
    const std::string         tn  = Tr<T>::name ();
    const double              eps = eps_of<T>::value;
    Rng                       r   = c.rng (idx);
    unsigned                  k   = (unsigned) (idx % 6);
    static const char* const  kn[] = {"generic", "lattice", "flat", "point_box", "large_offset", "wide_exponents"};
    D3 a = gen_point (r, k == 1 ? 1 : k == 4 ? 2 : k == 5 ? 3 : 0), b = gen_point (r, k == 1 ? 1 : k == 5 ? 3 : 0);
    if (k == 4) b = axpy (a, 1.0, b);
    if (k == 3) b = a;
    if (k == 2) { int ax = (int) r.range (0, 2); b[ax] = a[ax]; if (r.coin ()) { int a2 = (ax + 1) % 3; b[a2] = a[a2]; } }
    Vec3<T> mn, mx;
    for (int i = 0; i < 3; ++i) { mn[i] = (T) std::min (a[i], b[i]); mx[i] = (T) std::max (a[i], b[i]); }
    Box<Vec3<T>> box (mn, mx);
    Sphere3<T>   s (Vec3<T> (7, 7, 7), (T) 123);
    s.circumscribe (box);
    c.eval ();
    c.cls (kn[k]);
    c.nontrivial (hashv (mx, hashv (mn)));
    auto desc = [&] { return Obj ().kv ("class", kn[k]).raw ("box_min", js (mn)).raw ("box_max", js (mx)).raw ("center", js (s.center)).kv ("radius", (double) s.radius).str (); };
    if (!all_finite (s.center) || !std::isfinite (s.radius)) { c.fail ("circumscribe." + tn + ":nonfinite", idx, desc); return; }
    RV<R, 3> C = up<R> (s.center), lo = up<R> (mn), hi = up<R> (mx);
    double   M = (double) (len (lo) + len (hi));
    R        far = 0;
    for (int corner = 0; corner < 8; ++corner)
    {
        RV<R, 3> X;
        for (int i = 0; i < 3; ++i) X[i] = ((corner >> i) & 1) ? hi[i] : lo[i];
        R d = len (X - C);
        far = r_max (far, d);
        judge (c, "circumscribe." + tn + ":corner_outside", "circumscribe." + tn + ".outside/(eps*(|min|+|max|))", (double) r_max ((R) 0, d - (R) s.radius), eps * M, B_CIRC, idx, desc);
    }
    // documented as "tightly encloses": the farthest corner touches the sphere
    judge (c, "circumscribe." + tn + ":not_tight", "circumscribe." + tn + ".slack/(eps*(|min|+|max|))", (double) r_max ((R) 0, (R) s.radius - far), eps * M, B_CIRC, idx, desc);
    c.sample (kn[k], desc);
}

} // namespace

#define C15_PB_REQ {"three_points", "point_normal", "normal_distance", "moderate", "lattice", "large_offset", "wide_exponents", "thin_triangle"}
MON_SUB_IDX (sub_plane_build<float>, "plane_build.float", 1200000, 48000000).req (C15_PB_REQ).over ("Plane3f from 3 points / point+normal / normal+distance (constructor and set), 4 coordinate classes, graded thinness of the defining triangle");
MON_SUB_IDX (sub_plane_build<double>, "plane_build.double", 1200000, 48000000).req (C15_PB_REQ).over ("Plane3d from 3 points / point+normal / normal+distance (constructor and set), 4 coordinate classes, graded thinness of the defining triangle");
#define C15_PR_REQ {"point_generic", "point_on_plane", "point_near_plane", "point_far", "point_lattice", "plane_3points", "plane_point_normal", "plane_normal_distance", "side_judged"}
MON_SUB_IDX (sub_plane_reflect<float>, "plane_reflect.float", 1200000, 48000000).req (C15_PR_REQ).over ("Plane3f x point x vector: distanceTo, reflectPoint, reflectVector, operator-; points at graded heights over the plane");
MON_SUB_IDX (sub_plane_reflect<double>, "plane_reflect.double", 1200000, 48000000).req (C15_PR_REQ).over ("Plane3d x point x vector: distanceTo, reflectPoint, reflectVector, operator-; points at graded heights over the plane");
#define C15_PI_REQ {"generic", "lattice", "large_offset", "grazing_graded", "perpendicular", "origin_on_plane", "parallel_exact", "line_in_plane_exact"}
MON_SUB_IDX (sub_plane_intersect<float>, "plane_intersect.float", 1200000, 48000000).req (C15_PI_REQ).over ("Plane3f x Line3f: intersect, intersectT; crossing at graded angles down to cos 1e-7, exactly parallel, in-plane");
MON_SUB_IDX (sub_plane_intersect<double>, "plane_intersect.double", 1200000, 48000000).req (C15_PI_REQ).over ("Plane3d x Line3d: intersect, intersectT; crossing at graded angles down to cos 1e-7, exactly parallel, in-plane");
#define C15_PX_REQ {"rotation", "positive_scale", "shear", "translation", "rigid", "affine_composed", "lattice_unimodular", "reflection", "identity", "orientation_preserving", "orientation_reversing", "side_judged"}
MON_SUB_IDX (sub_plane_xform<float>, "plane_times_matrix.float", 900000, 36000000).req (C15_PX_REQ).over ("Plane3f * M44f, 9 matrix classes; 4 points of the plane and 3 off-plane test points per case");
MON_SUB_IDX (sub_plane_xform<double>, "plane_times_matrix.double", 900000, 36000000).req (C15_PX_REQ).over ("Plane3d * M44d, 9 matrix classes; 4 points of the plane and 3 off-plane test points per case");
#define C15_SP_REQ {"outside_hit", "outside_pointing_away", "outside_miss", "near_tangent_graded", "origin_inside", "origin_at_center", "origin_on_sphere_exact_inward", "origin_on_sphere_exact_outward", "origin_on_sphere_rounded", "large_offset", "tiny_radius_far", "huge_radius_near_surface", "lattice", "origin_exactly_on_sphere", "verdict_miss", "verdict_behind", "verdict_first_root", "verdict_second_root_origin_inside", "verdict_root_at_zero", "skipped_tangent_margin"}
MON_SUB_IDX (sub_sphere<float>, "sphere_intersect.float", 1400000, 56000000).req (C15_SP_REQ).over ("Sphere3f x Line3f: intersectT, intersect; 14 classes (origin outside/inside/on/at centre, graded tangency, offsets)");
MON_SUB_IDX (sub_sphere<double>, "sphere_intersect.double", 1400000, 56000000).req (C15_SP_REQ).over ("Sphere3d x Line3d: intersectT, intersect; 14 classes (origin outside/inside/on/at centre, graded tangency, offsets)");
#define C15_CI_REQ {"generic", "lattice", "flat", "point_box", "large_offset", "wide_exponents"}
MON_SUB_IDX (sub_circumscribe<float>, "sphere_circumscribe.float", 300000, 12000000).req (C15_CI_REQ).over ("Sphere3f::circumscribe(Box3f): all 8 corners, 6 box classes");
MON_SUB_IDX (sub_circumscribe<double>, "sphere_circumscribe.double", 300000, 12000000).req (C15_CI_REQ).over ("Sphere3d::circumscribe(Box3d): all 8 corners, 6 box classes");
