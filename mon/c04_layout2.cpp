// C04 - accessor/layout battery (c04_layout.h) for Color3/4, Shear6, Quat, Matrix22/33/44
#include "c04_layout.h"

using namespace IMATH_INTERNAL_NAMESPACE;
typedef unsigned char uchar;

C04_REG_LAYOUT (Color3<half>, "Color3_half");
C04_REG_LAYOUT (Color3<float>, "Color3_float");
C04_REG_LAYOUT (Color3<uchar>, "Color3_uchar");
C04_REG_LAYOUT (Color4<half>, "Color4_half");
C04_REG_LAYOUT (Color4<float>, "Color4_float");
C04_REG_LAYOUT (Color4<uchar>, "Color4_uchar");
C04_REG_LAYOUT (Shear6<float>, "Shear6_float");
C04_REG_LAYOUT (Shear6<double>, "Shear6_double");
C04_REG_LAYOUT (Quat<float>, "Quat_float");
C04_REG_LAYOUT (Quat<double>, "Quat_double");
C04_REG_LAYOUT (Matrix22<float>, "Matrix22_float");
C04_REG_LAYOUT (Matrix22<double>, "Matrix22_double");
C04_REG_LAYOUT (Matrix33<float>, "Matrix33_float");
C04_REG_LAYOUT (Matrix33<double>, "Matrix33_double");
C04_REG_LAYOUT (Matrix44<float>, "Matrix44_float");
C04_REG_LAYOUT (Matrix44<double>, "Matrix44_double");
