// C13 - histories of extendBy, and membership / predicates on extreme (non-lattice) values.
//
// extend_exhaustive : every sequence of extendBy(point | non-empty box | canonical-empty box) of a
//                     bounded length over a small lattice, started from a default-constructed box;
//                     after EVERY step the box must be exactly the bounding box of what was added
//                     (model: running min/max over ints; nothing added yet = canonical empty).
// extend_random     : longer random sequences over the full lattice and over extreme values
//                     (lowest/max, neighbours, +-0, denormals, huge and tiny magnitudes).
// extreme_members   : intersects(point), intersects(box), isEmpty, hasVolume, isInfinite, and for
//                     moderate floating values size and center, on random boxes whose coordinates
//                     come from the same extreme pools (not on the lattice).
#include "c13_common.h"

using namespace c13;

// ------------------------------------------------------------------ items of a history
struct Item
{
    int kind; // 0 point, 1 non-empty box, 2 canonical-empty box
    int lo[4], hi[4];
};
struct Cfg
{
    int              D;
    std::vector<int> vals;
    int              L;       // sequence length
    bool             quick, thorough;
    int              types;   // 0 = all element types, 1 = int and float only
};
static const std::vector<Cfg> g_cfgs = {
    {1, {-2, -1, 0, 1, 2}, 4, true, true, 0},  // 21 items
    {2, {-1, 0, 1}, 4, true, true, 0},         // 46 items
    {3, {-1, 0, 1}, 3, true, true, 0},         // 244 items
    {3, {-1, 1}, 4, true, true, 0},            // 36 items
    {4, {-1, 0, 1}, 2, true, true, 0},         // 1378 items
    {4, {-1, 1}, 3, true, false, 0},           // 98 items
    {4, {-1, 1}, 4, false, true, 0},
    {3, {-1, 0, 1}, 4, false, true, 1},
};
static std::vector<Item>
make_items (int D, const std::vector<int>& vals)
{
    std::vector<Item> out;
    const size_t      n = vals.size ();
    uint64_t          np = ipow (n, D);
    for (uint64_t k = 0; k < np; ++k)
    {
        Item     it{};
        uint64_t x = k;
        it.kind    = 0;
        for (int a = 0; a < D; ++a) { it.lo[a] = it.hi[a] = vals[x % n]; x /= n; }
        out.push_back (it);
    }
    uint64_t nb = ipow (n * n, D);
    for (uint64_t k = 0; k < nb; ++k)
    {
        Item     it{};
        uint64_t x  = k;
        bool     ok = true;
        it.kind     = 1;
        for (int a = 0; a < D; ++a)
        {
            it.lo[a] = vals[x % n]; x /= n;
            it.hi[a] = vals[x % n]; x /= n;
            if (it.hi[a] < it.lo[a]) ok = false;
        }
        if (ok) out.push_back (it);
    }
    Item e{};
    e.kind = 2;
    out.push_back (e);
    return out;
}
static const std::vector<Item>&
items_for (int cfg)
{
    static const std::vector<std::vector<Item>> all = [] {
        std::vector<std::vector<Item>> v;
        for (auto& c: g_cfgs) v.push_back (make_items (c.D, c.vals));
        return v;
    }();
    return all[cfg];
}
template <class K> struct RItems
{
    std::vector<typename K::P> p;
    std::vector<typename K::B> b;
};
template <class K> static const RItems<K>&
ritems (int cfg)
{
    static thread_local std::map<int, RItems<K>> m;
    RItems<K>& r = m[cfg];
    if (r.p.empty ())
    {
        for (auto& it: items_for (cfg))
        {
            r.p.push_back (mkpt<K> (it.lo));
            typename K::B b;
            if (it.kind == 1)
            {
                LBox lb{};
                for (int a = 0; a < 4; ++a) { lb.lo[a] = it.lo[a]; lb.hi[a] = it.hi[a]; }
                b = mkbox<K> (lb);
            }
            else b.makeEmpty ();
            r.b.push_back (b);
        }
    }
    return r;
}
struct MS
{
    bool any;
    int  lo[4], hi[4];
};
static inline const char*
step_class (const MS& ms, const Item& it, int D)
{
    if (it.kind == 2) return "canonical_empty_argument";
    if (!ms.any) return "into_empty";
    for (int a = 0; a < D; ++a) if (it.lo[a] < ms.lo[a] || it.hi[a] > ms.hi[a]) return "grows";
    return "no_growth";
}
static inline void
m_apply (MS& ms, const Item& it, int D)
{
    if (it.kind == 2) return;
    for (int a = 0; a < D; ++a)
    {
        if (!ms.any || it.lo[a] < ms.lo[a]) ms.lo[a] = it.lo[a];
        if (!ms.any || it.hi[a] > ms.hi[a]) ms.hi[a] = it.hi[a];
    }
    ms.any = true;
}
static std::string
item_str (const Item& it, int D)
{
    if (it.kind == 0) return "pt" + ipt_str (it.lo, D);
    if (it.kind == 2) return "emptybox";
    return "box[" + ipt_str (it.lo, D) + ".." + ipt_str (it.hi, D) + "]";
}
template <class K> static inline bool
state_ok (const typename K::B& b, const MS& ms)
{
    using L = std::numeric_limits<typename K::S>;
    for (int a = 0; a < K::D; ++a)
    {
        if (ms.any)
        {
            if (to_d (K::get (b.min, a)) != (double) ms.lo[a] || to_d (K::get (b.max, a)) != (double) ms.hi[a]) return false;
        }
        else if (!(K::get (b.min, a) == L::max ()) || !(K::get (b.max, a) == L::lowest ())) return false;
    }
    return ms.any || b.isEmpty ();
}
template <class K> static inline void
r_apply (typename K::B& b, const RItems<K>& r, const Item& it, size_t k)
{
    if (it.kind == 0) b.extendBy (r.p[k]);
    else b.extendBy (r.b[k]);
}

template <class K1, class K2> struct ExtendExh
{
    static void run (Ctx& c, uint64_t gidx, uint64_t local, int cfgid)
    {
        constexpr int  D   = K1::D;
        constexpr bool two = !std::is_same<K2, NoKind>::value;
        using K2e          = std::conditional_t<two, K2, K1>;
        const Cfg&  cfg    = g_cfgs[cfgid];
        const auto& items  = items_for (cfgid);
        const auto& r1     = ritems<K1> (cfgid);
        const auto& r2     = ritems<K2e> (cfgid);
        const size_t n     = items.size ();
        const int    L     = cfg.L;
        size_t       seq[4] = {0, 0, 0, 0};
        {
            uint64_t x = local;
            for (int i = 0; i < L - 1; ++i) { seq[i] = (size_t) (x % n); x /= n; }
        }
        typename K1::B  b1;
        typename K2e::B b2;
        MS              ms{};
        uint64_t        ncls[4] = {0, 0, 0, 0}; // into_empty, grows, no_growth, canonical_empty_argument
        auto count = [&] (const char* sc) { ++ncls[sc[0] == 'i' ? 0 : sc[0] == 'g' ? 1 : sc[0] == 'n' ? 2 : 3]; };
        auto report = [&] (const std::string& kname, const Item& it, const char* sc, int upto, size_t last, const std::string& got, const MS& want) {
            const char* fn = it.kind == 0 ? "extendBy(point)." : "extendBy(box).";
            c.fail (fn + kname + ":" + sc, gidx, [&] {
                std::string s;
                for (int i = 0; i < upto; ++i) s += (i ? " " : "") + item_str (items[seq[i]], D);
                if (last != (size_t) -1) s += (upto ? " " : "") + item_str (items[last], D);
                LBox w{};
                for (int a = 0; a < 4; ++a) { w.lo[a] = want.lo[a]; w.hi[a] = want.hi[a]; }
                return Obj ().kv ("sequence", s).kv ("got", got).kv ("want", want.any ? lbox_str (w, D) : std::string ("canonical empty")).str ();
            });
        };
        for (int i = 0; i < L - 1; ++i)
        {
            const Item& it = items[seq[i]];
            const char* sc = step_class (ms, it, D);
            count (sc);
            r_apply<K1> (b1, r1, it, seq[i]);
            if constexpr (two) r_apply<K2e> (b2, r2, it, seq[i]);
            m_apply (ms, it, D);
            if (!state_ok<K1> (b1, ms)) report (K1::name (), it, sc, i + 1, (size_t) -1, box_str<K1> (b1), ms);
            if constexpr (two)
                if (!state_ok<K2e> (b2, ms)) report (K2e::name (), it, sc, i + 1, (size_t) -1, box_str<K2e> (b2), ms);
        }
        for (size_t k = 0; k < n; ++k)
        {
            const Item& it = items[k];
            const char* sc = step_class (ms, it, D);
            count (sc);
            typename K1::B t1 = b1;
            MS             m2 = ms;
            r_apply<K1> (t1, r1, it, k);
            m_apply (m2, it, D);
            if (!state_ok<K1> (t1, m2)) report (K1::name (), it, sc, L - 1, k, box_str<K1> (t1), m2);
            if constexpr (two)
            {
                typename K2e::B t2 = b2;
                r_apply<K2e> (t2, r2, it, k);
                if (!state_ok<K2e> (t2, m2)) report (K2e::name (), it, sc, L - 1, k, box_str<K2e> (t2), m2);
            }
        }
        c.eval ((n + L - 1) * (two ? 2 : 1));
        c.cls ("into_empty", ncls[0]);
        c.cls ("grows", ncls[1]);
        c.cls ("no_growth", ncls[2]);
        c.cls ("canonical_empty_argument", ncls[3]);
        c.nontrivial_enum (n); // the n complete sequences sharing this prefix are pairwise distinct
        if (local % 4093 == 11)
            c.sample (K1::name ().c_str (), [&] {
                std::string s;
                for (int i = 0; i < L - 1; ++i) s += (i ? " " : "") + item_str (items[seq[i]], D);
                return Obj ().kv ("prefix", s).kv ("last_item_choices", (unsigned long long) n).kv ("length", L).str ();
            });
    }
};
template <class K1, class K2> static void
add_exh_one (VarTable& t, int cfgid)
{
    const Cfg& cfg = g_cfgs[cfgid];
    if (cfg.D != K1::D) return;
    using S = typename K1::S;
    if (cfg.types == 1 && !(std::is_same<S, int>::value || std::is_same<S, float>::value)) return;
    uint64_t n = ipow (items_for (cfgid).size (), cfg.L - 1);
    t.add (K1::name () + ":cfg" + std::to_string (cfgid), cfg.quick ? n : 0, cfg.thorough ? n : 0, [cfgid] (Ctx& c, uint64_t g, uint64_t l) { ExtendExh<K1, K2>::run (c, g, l, cfgid); });
}
template <class T> static void
add_exh (VarTable& t)
{
    for (int k = 0; k < (int) g_cfgs.size (); ++k)
    {
        add_exh_one<IKind<T>, NoKind> (t, k);
        add_exh_one<VKind<Vec2<T>>, VKind<W2<T>>> (t, k);
        add_exh_one<VKind<Vec3<T>>, VKind<W3<T>>> (t, k);
        add_exh_one<VKind<Vec4<T>>, NoKind> (t, k);
    }
}
static const VarTable&
tab_exh ()
{
    static const VarTable t = [] {
        VarTable t;
#define X(T) add_exh<T> (t);
        C13_TYPES (X)
#undef X
        t.seal ();
        return t;
    }();
    return t;
}
MON_SUB ([] (Ctx& c, uint64_t b, uint64_t e) { tab_exh ().run (c, b, e); }, "extend_exhaustive", tab_exh ().total (false), tab_exh ().total (true))
    .req ({"into_empty", "grows", "no_growth", "canonical_empty_argument"})
    .exh ()
    .chunked (16)
    .over ("every sequence of extendBy(point | non-empty box | canonical-empty box) from a default-constructed box, checked after every step against the running min/max: Interval length 4 over {-2..2}; d=2 length 4 over {-1,0,1}^2; d=3 length 3 over {-1,0,1}^3 and length 4 over {-1,1}^3 (thorough: length 4 over {-1,0,1}^3 for int,float); d=4 length 2 over {-1,0,1}^4 and length 3 (thorough 4) over {-1,1}^4; all copies and element types; one index = one prefix, all last items");

// ================================================================== random values incl. extremes
template <class S> static S
draw_extreme (Rng& r)
{
    using L = std::numeric_limits<S>;
    unsigned k = (unsigned) (r.u64 () % 16);
    if constexpr (is_int_v<S>)
    {
        switch (k)
        {
            case 0: return L::lowest ();
            case 1: return L::max ();
            case 2: return (S) (L::lowest () + 1);
            case 3: return (S) (L::max () - 1);
            case 4: return (S) 0;
            case 5: return (S) -1;
            case 6: return (S) 1;
            case 7: case 8: case 9: return (S) r.range (-3, 3);
            default:
                if constexpr (sizeof (S) == 8) return (S) r.u64 (); // (Rng::range would overflow on the full int64 span)
                else return (S) r.range ((int64_t) L::lowest (), (int64_t) L::max ());
        }
    }
    else
    {
        const int elo = std::is_same<S, half>::value ? -20 : std::is_same<S, float>::value ? -120 : -1000;
        const int ehi = std::is_same<S, half>::value ? 14 : std::is_same<S, float>::value ? 120 : 1000;
        auto mk = [] (double v) { if constexpr (std::is_same<S, half>::value) return half ((float) v); else return (S) v; };
        switch (k)
        {
            case 0: return L::lowest ();
            case 1: return L::max ();
            case 2: return mk (0.0);
            case 3: return -mk (0.0);
            case 4: return L::denorm_min ();
            case 5: return -L::denorm_min ();
            case 6: return L::min ();
            case 7: return mk (1.0);
            case 8: return mk (-1.0);
            case 9:
                if constexpr (std::is_floating_point<S>::value) return std::nextafter (L::max (), (S) 0);
                else return mk (65472.0);
            case 10:
                if constexpr (std::is_floating_point<S>::value) return std::nextafter (L::lowest (), (S) 0);
                else return mk (-65472.0);
            case 11: case 12: return mk ((double) r.range (-3, 3));
            default: return mk (r.logscale (elo, ehi));
        }
    }
}
// neighbour of v in the element type, or v itself where there is none / it is not worth building
template <class S> static S
neighbour (S v, bool up)
{
    using L = std::numeric_limits<S>;
    if constexpr (is_int_v<S>)
    {
        if (up) return v == L::max () ? v : (S) (v + 1);
        return v == L::lowest () ? v : (S) (v - 1);
    }
    else if constexpr (std::is_floating_point<S>::value)
    {
        S t = std::nextafter (v, up ? std::numeric_limits<S>::infinity () : -std::numeric_limits<S>::infinity ());
        return std::isinf (t) ? v : t;
    }
    else
    {
        // half: step through the bit pattern (finite values only)
        uint16_t bits = v.bits ();
        bool     negv = bits & 0x8000;
        uint16_t mag  = bits & 0x7fff;
        if (mag == 0) { half h; h.setBits (up ? 0x0001 : 0x8001); return h; }
        bool grow = (up != negv);
        if (grow && mag >= 0x7bff) return v;
        half h;
        h.setBits ((uint16_t) ((negv ? 0x8000 : 0) | (grow ? mag + 1 : mag - 1)));
        return h;
    }
}

struct XS // model state in long double (exact for every element type used)
{
    bool        any;
    long double lo[4], hi[4];
};
template <class K> static bool
xstate_ok (const typename K::B& b, const XS& xs)
{
    using L = std::numeric_limits<typename K::S>;
    for (int a = 0; a < K::D; ++a)
    {
        if (xs.any)
        {
            if (to_ld (K::get (b.min, a)) != xs.lo[a] || to_ld (K::get (b.max, a)) != xs.hi[a]) return false;
        }
        else if (!(K::get (b.min, a) == L::max ()) || !(K::get (b.max, a) == L::lowest ())) return false;
    }
    return true;
}

template <class K1, class K2> struct ExtendRandom
{
    static void run (Ctx& c, uint64_t gidx, uint64_t local)
    {
        constexpr int  D   = K1::D;
        constexpr bool two = !std::is_same<K2, NoKind>::value;
        using K2e          = std::conditional_t<two, K2, K1>;
        using S            = typename K1::S;
        Rng            r   = c.rng (gidx);
        const bool     extreme = local % 2 == 1;
        const int      len = (int) r.range (5, 24);
        typename K1::B  b1;
        typename K2e::B b2;
        XS              xs{};
        struct Step { unsigned what; long double v[4], w[4]; } steps[24];
        auto trace_of = [&] (int upto) {
            std::string t;
            for (int i = 0; i <= upto; ++i)
            {
                const Step& st = steps[i];
                t += st.what < 4 ? " pt(" : st.what < 7 ? " box(" : " emptybox";
                if (st.what >= 7) continue;
                for (int a = 0; a < D; ++a) t += (a ? "," : "") + jnum ((double) st.v[a]);
                if (st.what >= 4) { t += ")..("; for (int a = 0; a < D; ++a) t += (a ? "," : "") + jnum ((double) st.w[a]); }
                t += ")";
            }
            return t;
        };
        uint64_t        h = hash_str (K1::name ().c_str ());
        c.cls (extreme ? "extreme_values" : "lattice_values");
        for (int step = 0; step < len; ++step)
        {
            unsigned what = (unsigned) (r.u64 () % 8); // 0..3 point, 4..6 box, 7 canonical empty box
            S        v[4] = {S (), S (), S (), S ()}, w[4] = {S (), S (), S (), S ()};
            for (int a = 0; a < D; ++a)
            {
                if (extreme) { v[a] = draw_extreme<S> (r); w[a] = draw_extreme<S> (r); }
                else if (what < 4) { v[a] = w[a] = from_i<S> ((int) r.range (-3, 3)); }
                else { v[a] = from_i<S> ((int) r.range (-2, 2)); w[a] = from_i<S> ((int) r.range (-2, 2)); }
                if (what < 4) w[a] = v[a];
                if (to_ld (w[a]) < to_ld (v[a])) std::swap (v[a], w[a]);
                h = hash_combine (h, d2u ((double) to_ld (v[a])) ^ (d2u ((double) to_ld (w[a])) << 1) ^ what);
            }
            typename K1::P  p1 = typename K1::P (), q1 = typename K1::P ();
            typename K2e::P p2 = typename K2e::P (), q2 = typename K2e::P ();
            for (int a = 0; a < D; ++a) { K1::set (p1, a, v[a]); K1::set (q1, a, w[a]); K2e::set (p2, a, v[a]); K2e::set (q2, a, w[a]); }
            const char* fn;
            const bool  was_empty = !xs.any;
            if (what < 4)
            {
                fn = "extendBy(point).";
                b1.extendBy (p1);
                if constexpr (two) b2.extendBy (p2);
            }
            else if (what < 7)
            {
                fn = "extendBy(box).";
                b1.extendBy (typename K1::B (p1, q1));
                if constexpr (two) b2.extendBy (typename K2e::B (p2, q2));
            }
            else
            {
                fn = "extendBy(box).";
                typename K1::B e1;
                e1.makeEmpty ();
                b1.extendBy (e1);
                if constexpr (two) { typename K2e::B e2; e2.makeEmpty (); b2.extendBy (e2); }
            }
            if (what < 7)
            {
                for (int a = 0; a < D; ++a)
                {
                    long double lo = to_ld (v[a]), hi = to_ld (w[a]);
                    if (!xs.any || lo < xs.lo[a]) xs.lo[a] = lo;
                    if (!xs.any || hi > xs.hi[a]) xs.hi[a] = hi;
                }
                xs.any = true;
            }
            steps[step].what = what;
            for (int a = 0; a < D; ++a) { steps[step].v[a] = to_ld (v[a]); steps[step].w[a] = to_ld (w[a]); }
            const char* sc = what == 7 ? "canonical_empty_argument" : was_empty ? "into_empty" : "into_nonempty";
            const char* vc = extreme ? "_extreme_values" : "_random_history";
            if (!xstate_ok<K1> (b1, xs))
                c.fail (fn + K1::name () + ":" + sc + vc, gidx, [&] { return Obj ().kv ("sequence", trace_of (step)).kv ("step", step).kv ("got", box_str<K1> (b1)).arr ("want_min", xs.lo, D).arr ("want_max", xs.hi, D).str (); });
            if constexpr (two)
                if (!xstate_ok<K2e> (b2, xs))
                    c.fail (fn + K2e::name () + ":" + sc + vc, gidx, [&] { return Obj ().kv ("sequence", trace_of (step)).kv ("step", step).kv ("got", box_str<K2e> (b2)).arr ("want_min", xs.lo, D).arr ("want_max", xs.hi, D).str (); });
        }
        c.eval ((uint64_t) len * (two ? 2 : 1));
        c.nontrivial (h);
        if (local < 2) c.sample ((K1::name () + (extreme ? ":extreme" : ":lattice")).c_str (), [&] { return Obj ().kv ("sequence", trace_of (len - 1)).kv ("result", box_str<K1> (b1)).str (); });
    }
};
template <class K1, class K2, template <class, class> class Rn> static void
add_rand_one (VarTable& t, uint64_t nq, uint64_t nt)
{
    t.add (K1::name (), nq, nt, [] (Ctx& c, uint64_t g, uint64_t l) { Rn<K1, K2>::run (c, g, l); });
}
template <class T, template <class, class> class Rn> static void
add_rand (VarTable& t, uint64_t nq, uint64_t nt)
{
    add_rand_one<IKind<T>, NoKind, Rn> (t, nq, nt);
    add_rand_one<VKind<Vec2<T>>, VKind<W2<T>>, Rn> (t, nq, nt);
    add_rand_one<VKind<Vec3<T>>, VKind<W3<T>>, Rn> (t, nq, nt);
    add_rand_one<VKind<Vec4<T>>, NoKind, Rn> (t, nq, nt);
}
template <template <class, class> class Rn> static VarTable
make_rand_table (uint64_t nq, uint64_t nt)
{
    VarTable t;
#define X(T) add_rand<T, Rn> (t, nq, nt);
    C13_TYPES (X)
#undef X
    t.seal (true);
    return t;
}
static const VarTable&
tab_rand ()
{
    static const VarTable t = make_rand_table<ExtendRandom> (20000, 500000);
    return t;
}
MON_SUB ([] (Ctx& c, uint64_t b, uint64_t e) { tab_rand ().run (c, b, e); }, "extend_random", tab_rand ().total (false), tab_rand ().total (true))
    .req ({"extreme_values", "lattice_values"})
    .chunked (512)
    .over ("random histories of 5..24 extendBy calls (points 50%, non-empty boxes 37%, canonical-empty boxes 13%), even indices over the lattice {-3..3}^d, odd indices over extreme values (lowest, max and their neighbours, +-0, +-denormal, +-1, magnitudes over the whole exponent range); checked after every step against running min/max in long double; 24 type/dimension variants; distinct = hash of the sequence");

// ================================================================== extreme_members
template <class K> static void
members_one (Ctx& c, uint64_t gidx, const typename K::S* amin, const typename K::S* amax, const typename K::S* bmin, const typename K::S* bmax, const typename K::S (*pts)[4], int npts, bool moderate)
{
    using S         = typename K::S;
    using P         = typename K::P;
    using B         = typename K::B;
    using L         = std::numeric_limits<S>;
    constexpr int D = K::D;
    P mn = P (), mx = P (), mn2 = P (), mx2 = P ();
    for (int a = 0; a < D; ++a) { K::set (mn, a, amin[a]); K::set (mx, a, amax[a]); K::set (mn2, a, bmin[a]); K::set (mx2, a, bmax[a]); }
    const B A (mn, mx), Bb (mn2, mx2);
    bool    ea = false, eb = false, vol = true, inf = true, share = true;
    for (int a = 0; a < D; ++a)
    {
        long double lo = to_ld (amin[a]), hi = to_ld (amax[a]), lo2 = to_ld (bmin[a]), hi2 = to_ld (bmax[a]);
        if (hi < lo) ea = true;
        if (hi2 < lo2) eb = true;
        if (hi <= lo) vol = false;
        if (!(amin[a] == L::lowest ()) || !(amax[a] == L::max ())) inf = false;
        if (std::max (lo, lo2) > std::min (hi, hi2)) share = false;
    }
    const char* vc = moderate ? "moderate_values" : "extreme_values";
    auto desc = [&] (const char* fn, bool got, bool want) { return Obj ().kv ("a", box_str<K> (A)).kv ("b", box_str<K> (Bb)).kv ("function", fn).kv ("got", got).kv ("want", want).str (); };
    if (A.isEmpty () != ea) c.fail ("isEmpty." + K::name () + ":" + vc, gidx, [&] { return desc ("isEmpty", A.isEmpty (), ea); });
    if (A.hasVolume () != vol) c.fail ("hasVolume." + K::name () + ":" + vc, gidx, [&] { return desc ("hasVolume", A.hasVolume (), vol); });
    if (A.isInfinite () != inf) c.fail ("isInfinite." + K::name () + ":" + vc, gidx, [&] { return desc ("isInfinite", A.isInfinite (), inf); });
    const bool want = !ea && !eb && share;
    const bool gab = A.intersects (Bb), gba = Bb.intersects (A);
    if (gab != want || gba != want)
    {
        std::string k = "intersects(box)." + K::name () + ((ea || eb) ? ":inverted_operand" : std::string (":") + vc);
        c.fail (k, gidx, [&] { return Obj ().kv ("a", box_str<K> (A)).kv ("b", box_str<K> (Bb)).kv ("a.intersects(b)", gab).kv ("b.intersects(a)", gba).kv ("sets_share_a_point", want).str (); });
        if (gab != gba) c.fail ("intersects(box)." + K::name () + ((ea || eb) ? ":asymmetric_inverted_operand" : ":asymmetric"), gidx, [&] { return desc ("intersects(box)", gab, gba); });
    }
    for (int k = 0; k < npts; ++k)
    {
        P    p  = P ();
        bool in = true;
        for (int a = 0; a < D; ++a)
        {
            K::set (p, a, pts[k][a]);
            long double x = to_ld (pts[k][a]);
            if (x < to_ld (amin[a]) || x > to_ld (amax[a])) in = false;
        }
        bool got = A.intersects (p);
        if (got != in)
            c.fail ("intersects(point)." + K::name () + ":" + (ea ? "inverted_box_" : "") + vc, gidx, [&] { return Obj ().kv ("box", box_str<K> (A)).kv ("point", pt_str<K> (p)).kv ("got", got).kv ("want", in).str (); });
    }
    if (moderate && !is_int_v<S>)
    {
        // size = max-min, center = (max+min)/2, one rounding each in the element type; the wide
        // arithmetic below is exact for the moderate magnitudes drawn (|x| in [2^-6, 2^6])
        auto s  = A.size ();
        auto ce = A.center ();
        for (int a = 0; a < D; ++a)
        {
            __float128 lo = (__float128) to_ld (amin[a]), hi = (__float128) to_ld (amax[a]);
            S          wants, wantc;
            if constexpr (std::is_same<S, half>::value)
            {
                wants = ea ? half (0.f) : half ((float) (hi - lo));
                wantc = half ((float) half ((float) (hi + lo)) / 2.0f);
            }
            else
            {
                wants = ea ? (S) 0 : (S) (hi - lo);
                wantc = (S) ((S) (hi + lo) / (S) 2);
            }
            if (!(K::get (s, a) == wants))
                c.fail ("size." + K::name () + ":moderate_values", gidx, [&] { return Obj ().kv ("box", box_str<K> (A)).kv ("axis", a).kv ("got", to_d (K::get (s, a))).kv ("want", to_d (wants)).str (); });
            if (!ea && !(K::get (ce, a) == wantc))
                c.fail ("center." + K::name () + ":moderate_values", gidx, [&] { return Obj ().kv ("box", box_str<K> (A)).kv ("axis", a).kv ("got", to_d (K::get (ce, a))).kv ("want", to_d (wantc)).str (); });
        }
        c.eval (2);
    }
    c.eval (5 + npts);
}
template <class K1, class K2> struct ExtremeMembers
{
    static void run (Ctx& c, uint64_t gidx, uint64_t local)
    {
        constexpr int  D   = K1::D;
        constexpr bool two = !std::is_same<K2, NoKind>::value;
        using S            = typename K1::S;
        using L            = std::numeric_limits<S>;
        Rng            r   = c.rng (gidx);
        const unsigned mode = (unsigned) (local % 4); // 0,1 extreme pool; 2 (nearly) infinite box; 3 moderate values (size/center judged)
        const bool     moderate = mode == 3;
        S amin[4], amax[4], bmin[4], bmax[4], pts[16][4];
        uint64_t h = hash_str (K1::name ().c_str ());
        auto mkmod = [&] () -> S {
            if constexpr (is_int_v<S>) return (S) r.range (-1000, 1000);
            else if constexpr (std::is_same<S, half>::value) return half ((float) r.logscale (-6, 5));
            else return (S) r.logscale (-6, 5);
        };
        for (int a = 0; a < 4; ++a)
        {
            if (moderate) { amin[a] = mkmod (); amax[a] = mkmod (); }
            else if (mode == 2)
            {
                amin[a] = L::lowest (); amax[a] = L::max ();
            }
            else { amin[a] = draw_extreme<S> (r); amax[a] = draw_extreme<S> (r); }
            // 3 of 4 boxes are put in order (non-empty); the rest keep whatever orientation was drawn
            if (local % 16 < 12 && to_ld (amax[a]) < to_ld (amin[a])) std::swap (amin[a], amax[a]);
        }
        if (mode == 2 && local % 8 >= 4)
        {
            // all slots extreme but one, which is moved one step inside
            int slot = (int) (r.u64 () % (2 * D));
            if (slot < D) amin[slot] = neighbour<S> (amin[slot], true);
            else amax[slot - D] = neighbour<S> (amax[slot - D], false);
        }
        for (int a = 0; a < 4; ++a)
        {
            // second box: shares boundary values with the first one half of the time
            S cand[6] = {amin[a], amax[a], neighbour<S> (amin[a], false), neighbour<S> (amax[a], true), moderate ? mkmod () : draw_extreme<S> (r), moderate ? mkmod () : draw_extreme<S> (r)};
            bmin[a] = cand[r.u64 () % 6];
            bmax[a] = cand[r.u64 () % 6];
            if (r.u64 () % 4 && to_ld (bmax[a]) < to_ld (bmin[a])) std::swap (bmin[a], bmax[a]);
            for (int k = 0; k < 16; ++k)
            {
                S pc[8] = {amin[a], amax[a], neighbour<S> (amin[a], false), neighbour<S> (amin[a], true), neighbour<S> (amax[a], false), neighbour<S> (amax[a], true), moderate ? mkmod () : draw_extreme<S> (r), from_i<S> (0)};
                pts[k][a] = pc[r.u64 () % 8];
            }
            h = hash_combine (h, d2u ((double) to_ld (amin[a])) ^ (d2u ((double) to_ld (amax[a])) >> 1) ^ (d2u ((double) to_ld (bmin[a])) << 1) ^ (d2u ((double) to_ld (bmax[a])) >> 3));
        }
        bool inv = false, full = true;
        for (int a = 0; a < D; ++a) { if (to_ld (amax[a]) < to_ld (amin[a])) inv = true; if (!(amin[a] == L::lowest ()) || !(amax[a] == L::max ())) full = false; }
        c.cls (moderate ? "moderate_values" : mode == 2 ? (full ? "infinite_box" : "all_but_one_slot_extreme") : "extreme_values");
        if (inv) c.cls ("inverted_box");
        members_one<K1> (c, gidx, amin, amax, bmin, bmax, pts, 16, moderate);
        if constexpr (two) members_one<K2> (c, gidx, amin, amax, bmin, bmax, pts, 16, moderate);
        c.nontrivial (h);
        if (local < 4)
        {
            typename K1::P mn = typename K1::P (), mx = typename K1::P ();
            for (int a = 0; a < D; ++a) { K1::set (mn, a, amin[a]); K1::set (mx, a, amax[a]); }
            c.sample ((K1::name () + ":mode" + std::to_string (mode)).c_str (), [&] { return Obj ().kv ("box", box_str<K1> (typename K1::B (mn, mx))).str (); });
        }
    }
};
static const VarTable&
tab_xm ()
{
    static const VarTable t = make_rand_table<ExtremeMembers> (20000, 500000);
    return t;
}
MON_SUB ([] (Ctx& c, uint64_t b, uint64_t e) { tab_xm ().run (c, b, e); }, "extreme_members", tab_xm ().total (false), tab_xm ().total (true))
    .req ({"extreme_values", "moderate_values", "infinite_box", "all_but_one_slot_extreme", "inverted_box"})
    .chunked (512)
    .over ("random (non-lattice) boxes: coordinates from {lowest, max, their neighbours, +-0, +-denormal, min normal, +-1, small ints, magnitudes over the whole exponent range}, (nearly) infinite boxes, and moderate values; 16 points per box taken at / next to the bounds; a second box sharing bounds; intersects(point), intersects(box) both ways, isEmpty, hasVolume, isInfinite against loops over the axes in long double; size and center on moderate floating values against exactly rounded wide arithmetic; all copies and element types; distinct = hash of the boxes");
