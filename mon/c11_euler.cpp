// C11 - Euler angles: order bookkeeping, Euler -> matrix / quaternion, XYZ-layout permutations.
// (extract / re-ordering / ImathMatrixAlgo extractors: c11_extract.cpp;
//  angleMod / makeNear family: c11_near.cpp)
#include "c11_euler.h"

using namespace c11;

// Calibrated bounds (multiples of eps of T).  Worst ratios on the unchanged tree over 6*10^7 cases per type
// (thorough tier, seed 1; also recorded in the evidence on every run):
//   toMatrix33 vs long double composition        1.51 eps (double) / 1.48 eps (float)
//   orthonormality / det-1 of toMatrix33         3.06 / 3.16 eps
//   toQuat: vs reference 2.59 / 2.74, |q|^2-1 3.27 / 3.51, Quat::toMatrix33 vs Euler::toMatrix33 7 / 7 eps
//   Matrix44::setEulerAngles vs Euler XYZ        1 / 1 eps
static const double C_TOMATRIX = 32;
static const double C_ORTHO    = 48;
static const double C_TOQUAT   = 64;
static const double C_SETEULER = 24;

// ------------------------------------------------------------------ order(): what was set is what is returned
template <class T>
static void
order_api_one (Ctx& c, uint64_t idx, const OrderInfo& o, Rng& r)
{
    typedef Euler<T>              E;
    typedef typename E::Order     Ord;
    const Ord                     ord = (Ord) o.value;
    const std::string             tn  = tname<T>::s ();
    T                             a[3];
    gen_angles<T> (r, (unsigned) r.range (0, 31), o.rep, a);
    Vec3<T> v (a[0], a[1], a[2]);

    auto bad = [&] (const char* what, int got) {
        c.fail ("order." + tn + ":" + what, idx, [&] { return Obj ().kv ("order", o.name).kv ("want", o.value).kv ("got", got).kv ("angles", v3_str (v)).str (); });
    };
    c.eval ();
    c.cls (std::string ("order_") + o.name);

    if (!E::legal (ord)) bad ("legal", 0);

    {
        E e (ord);
        if (e.order () != ord) bad ("ctor(Order)", e.order ());
        if (e.x != 0 || e.y != 0 || e.z != 0) bad ("ctor(Order)_angles_not_zero", e.order ());
    }
    {
        E e (v, ord);
        if (e.order () != ord) bad ("ctor(Vec3,Order)", e.order ());
        if (!bits_equal<T> (Vec3<T> (e), v)) bad ("ctor(Vec3,Order)_angles", e.order ());
    }
    {
        E e (v, ord, E::IJKLayout);
        if (e.order () != ord) bad ("ctor(Vec3,Order,IJKLayout)", e.order ());
        if (!bits_equal<T> (Vec3<T> (e), v)) bad ("ctor(Vec3,Order,IJKLayout)_angles", e.order ());
    }
    {
        E e (v, ord, E::XYZLayout);
        if (e.order () != ord) bad ("ctor(Vec3,Order,XYZLayout)", e.order ());
    }
    {
        E e (a[0], a[1], a[2], ord);
        if (e.order () != ord) bad ("ctor(T,T,T,Order)", e.order ());
        if (!bits_equal<T> (Vec3<T> (e), v)) bad ("ctor(T,T,T,Order)_angles", e.order ());
    }
    {
        E e (a[0], a[1], a[2], ord, E::XYZLayout);
        if (e.order () != ord) bad ("ctor(T,T,T,Order,XYZLayout)", e.order ());
    }
    E src (v, ord);
    {
        E e (src);
        if (e.order () != ord) bad ("copy_ctor", e.order ());
        if (!bits_equal<T> (Vec3<T> (e), v)) bad ("copy_ctor_angles", e.order ());
        E f;
        f = src;
        if (f.order () != ord) bad ("assign", f.order ());
        // assigning a Vec3 must keep the order
        f = Vec3<T> (1, 2, 3);
        if (f.order () != ord) bad ("assign(Vec3)", f.order ());
    }
    {
        // every other order as the source of the re-ordering constructor
        const OrderInfo& o2 = orders ()[(size_t) r.range (0, 23)];
        E                s2 (v, (Ord) o2.value);
        E                e (s2, ord);
        if (e.order () != ord) bad ("ctor(Euler,Order)", e.order ());
        if (s2.order () != (Ord) o2.value) bad ("ctor(Euler,Order)_source_changed", s2.order ());
    }
    {
        Matrix33<T> m33 = src.toMatrix33 ();
        Matrix44<T> m44 = src.toMatrix44 ();
        E           e3 (m33, ord), e4 (m44, ord);
        if (e3.order () != ord) bad ("ctor(Matrix33,Order)", e3.order ());
        if (e4.order () != ord) bad ("ctor(Matrix44,Order)", e4.order ());
        E e (ord);
        e.extract (m33);
        if (e.order () != ord) bad ("extract(Matrix33)", e.order ());
        e.extract (m44);
        if (e.order () != ord) bad ("extract(Matrix44)", e.order ());
        e.extract (src.toQuat ());
        if (e.order () != ord) bad ("extract(Quat)", e.order ());
    }
    {
        // setOrder on an object that had every other order before
        for (int k = 0; k < 24; ++k)
        {
            E e (v, (Ord) orders ()[k].value);
            e.setOrder (ord);
            if (e.order () != ord) bad ("setOrder", e.order ());
            if (!bits_equal<T> (Vec3<T> (e), v)) bad ("setOrder_changed_angles", e.order ());
        }
    }
    {
        // set(axis, relative, parityEven, firstRepeats) with the documented legend digits of the value
        E e (v, (Ord) orders ()[(size_t) r.range (0, 23)].value);
        e.set ((typename E::Axis) o.leg_axis, !o.leg_static, o.leg_even, o.leg_rep);
        if (e.order () != ord) bad ("set(axis,relative,parity,repeats)", e.order ());
        if (e.frameStatic () != o.leg_static || e.initialRepeated () != o.leg_rep || e.parityEven () != o.leg_even || (int) e.initialAxis () != o.leg_axis)
            bad ("set_accessors", e.order ());
    }
    {
        // makeNear / setXYZVector / operator= (Vec3) leave the order alone
        E e (v, ord);
        e.setXYZVector (Vec3<T> (a[2], a[0], a[1]));
        if (e.order () != ord) bad ("setXYZVector", e.order ());
        E t (Vec3<T> (a[1], a[2], a[0]), ord);
        e.makeNear (t);
        if (e.order () != ord) bad ("makeNear", e.order ());
    }
    // static orders: the enumerator's name spells the documented legend digits of its value
    if (!o.rel && !o.name_matches)
        c.fail (std::string ("order_enum:static_name_vs_legend_") + o.name, idx, [&] { return Obj ().kv ("order", o.name).kv ("value", o.value).str (); });
    if (o.rel && !o.name_matches) c.cls ("observation_r_name_differs_from_legend");
    if (o.rel && !o.name_matches)
        c.sample ("observation_r_name_differs_from_legend", [&] {
            const char* ax = "XYZ";
            std::string seq;
            for (int p = 0; p < 3; ++p) seq += ax[o.leg_seq[p]];
            return Obj ().kv ("enumerator", o.name).kv ("value", o.value).kv ("legend_static_sequence_applied_with_reversed_angles", seq).str ();
        });
}

static void
sub_order_api (Ctx& c, uint64_t idx)
{
    Rng              r = c.rng (idx);
    const OrderInfo& o = orders ()[idx % 24];
    bool             dbl = (idx / 24) % 2;
    c.nontrivial_enum (1);
    if (dbl) order_api_one<double> (c, idx, o, r);
    else order_api_one<float> (c, idx, o, r);
    c.cls (dbl ? "type_double" : "type_float");
    // the 24 (axis, relative, parity, repeats) combinations map one to one onto the 24 enumerators
    if (idx == 0)
    {
        std::set<int> seen;
        for (int ax = 0; ax < 3; ++ax)
            for (int rel = 0; rel < 2; ++rel)
                for (int par = 0; par < 2; ++par)
                    for (int rep = 0; rep < 2; ++rep)
                    {
                        Euler<float> e;
                        e.set ((Euler<float>::Axis) ax, rel, par, rep);
                        int  ov = e.order ();
                        bool known = false;
                        for (int k = 0; k < 24; ++k) known |= orders ()[k].value == ov;
                        if (!known || !Euler<float>::legal (e.order ()) || !seen.insert (ov).second)
                            c.fail ("order.set:not_a_bijection_onto_the_enum", idx, [&] { return Obj ().kv ("axis", ax).kv ("relative", rel).kv ("parityEven", par).kv ("firstRepeats", rep).kv ("order", ov).str (); });
                    }
        c.cls ("set_bijection_checked");
    }
}
MON_SUB_IDX (sub_order_api, "order_api", 24 * 2 * 64, 24 * 2 * 4096)
    .req (concat (order_class_names (), {"type_float", "type_double", "set_bijection_checked"}))
    .noscale ()
    .over ("24 orders x {float,double} x angle triples: order() after every constructor, setOrder (from each of the 24 previous orders), set(), extract(), assignment, setXYZVector, makeNear; legend digits vs enumerator names");

// ------------------------------------------------------------------ Euler -> Matrix33 / Matrix44 / Quat
template <class T>
static void
to_matrix_one (Ctx& c, uint64_t idx, const OrderInfo& o, unsigned slot, Rng& r)
{
    typedef Euler<T>          E;
    typedef typename E::Order Ord;
    const double              eps = eps_of<T>::value;
    const std::string         tn  = tname<T>::s ();
    T                         a[3];
    const char*               cl = gen_angles<T> (r, slot, o.rep, a);
    c.eval ();
    c.cls (cl);
    c.cls (std::string ("order_") + o.name);
    c.nontrivial (hash3<T> ((uint64_t) o.value * 2 + sizeof (T) / 8, a[0], a[1], a[2]));

    E           e (a[0], a[1], a[2], (Ord) o.value);
    Matrix33<T> m33 = e.toMatrix33 ();
    Matrix44<T> m44 = e.toMatrix44 ();
    Quat<T>     q   = e.toQuat ();
    LD          la[3] = {(LD) a[0], (LD) a[1], (LD) a[2]};
    M3          ref   = ref_rotation (o, la);
    M3          l33   = m3_from (m33);

    auto desc = [&] { return Obj ().kv ("order", o.name).kv ("class", cl).raw ("angles", v3_str (Vec3<T> (a[0], a[1], a[2]))).raw ("toMatrix33", m33_str (m33)).raw ("reference", m3_str (ref)).str (); };

    // (1) 3x3 block of toMatrix44 bit-identical to toMatrix33; the rest of the 4x4 is the identity's
    for (int i = 0; i < 3; ++i)
        for (int j = 0; j < 3; ++j)
            if (!bits_equal<T> (m33[i][j], m44[i][j]))
                c.fail ("toMatrix44." + tn + ":block_differs_from_toMatrix33", idx, [&] { return Obj ().kv ("order", o.name).kv ("class", cl).raw ("angles", v3_str (Vec3<T> (a[0], a[1], a[2]))).kv ("row", i).kv ("col", j).kv ("m33", (double) m33[i][j]).kv ("m44", (double) m44[i][j]).str (); });
    for (int i = 0; i < 4; ++i)
    {
        T want = i == 3 ? T (1) : T (0);
        if (m44[i][3] != want || m44[3][i] != want)
            c.fail ("toMatrix44." + tn + ":not_affine_identity_border", idx, [&] { return Obj ().kv ("order", o.name).raw ("angles", v3_str (Vec3<T> (a[0], a[1], a[2]))).kv ("i", i).kv ("col3", (double) m44[i][3]).kv ("row3", (double) m44[3][i]).str (); });
    }

    // (2) the rotation is the documented composition of three axis rotations
    double d = (double) m3_maxdiff (l33, ref) / eps;
    c.worst (("toMatrix33." + tn + ".vs_reference_eps").c_str (), d, idx, desc);
    if (!(d <= C_TOMATRIX)) c.fail ("toMatrix33." + tn + ":differs_from_axis_composition" + (o.rel ? "_rotating" : "_static") + (o.rep ? "_repeated" : "_nonrepeated"), idx, desc);

    // (3) orthonormal, determinant +1
    double oe = (double) m3_ortho_err (l33) / eps;
    double de = (double) fabsl (m3_det (l33) - 1.0L) / eps;
    c.worst (("toMatrix33." + tn + ".orthonormality_eps").c_str (), oe, idx, desc);
    c.worst (("toMatrix33." + tn + ".det_minus_1_eps").c_str (), de, idx, desc);
    if (!(oe <= C_ORTHO)) c.fail ("toMatrix33." + tn + ":not_orthonormal", idx, desc);
    if (!(de <= C_ORTHO)) c.fail ("toMatrix33." + tn + ":det_not_1", idx, desc);

    // (4) toQuat: unit, represents the same rotation (independent quaternion->matrix in long double,
    //     and the library's own Quat::toMatrix33 against toMatrix33)
    LD     qv[3] = {(LD) q.v.x, (LD) q.v.y, (LD) q.v.z};
    LD     qn    = (LD) q.r * (LD) q.r + qv[0] * qv[0] + qv[1] * qv[1] + qv[2] * qv[2];
    M3     qm    = quat_to_m3 ((LD) q.r, qv);
    double dq    = (double) m3_maxdiff (qm, ref) / eps;
    double dn    = (double) fabsl (qn - 1.0L) / eps;
    double dl    = (double) m3_maxdiff (m3_from (q.toMatrix33 ()), l33) / eps;
    auto   qdesc = [&] { return Obj ().kv ("order", o.name).kv ("class", cl).raw ("angles", v3_str (Vec3<T> (a[0], a[1], a[2]))).kv ("q.r", (double) q.r).raw ("q.v", v3_str (q.v)).raw ("quat_as_matrix", m3_str (qm)).raw ("reference", m3_str (ref)).str (); };
    c.worst (("toQuat." + tn + ".vs_reference_eps").c_str (), dq, idx, qdesc);
    c.worst (("toQuat." + tn + ".norm2_minus_1_eps").c_str (), dn, idx, qdesc);
    c.worst (("toQuat." + tn + ".toMatrix33_vs_euler_toMatrix33_eps").c_str (), dl, idx, qdesc);
    if (!(dq <= C_TOQUAT)) c.fail ("toQuat." + tn + ":rotation_differs_from_axis_composition" + (o.rel ? "_rotating" : "_static") + (o.rep ? "_repeated" : "_nonrepeated"), idx, qdesc);
    if (!(dn <= C_TOQUAT)) c.fail ("toQuat." + tn + ":not_unit", idx, qdesc);
    if (!(dl <= C_TOQUAT)) c.fail ("toQuat." + tn + ":toMatrix33_differs_from_euler_toMatrix33", idx, qdesc);

    // (5) XYZ agrees with Matrix44::setEulerAngles
    if (o.value == (int) E::XYZ)
    {
        Matrix44<T> s;
        s.setEulerAngles (Vec3<T> (a[0], a[1], a[2]));
        double ds = (double) m3_maxdiff (m3_from (s), l33) / eps;
        c.cls ("xyz_vs_setEulerAngles");
        c.worst (("setEulerAngles." + tn + ".vs_euler_xyz_eps").c_str (), ds, idx, desc);
        if (!(ds <= C_SETEULER))
            c.fail ("setEulerAngles." + tn + ":differs_from_euler_xyz", idx, [&] { return Obj ().kv ("class", cl).raw ("angles", v3_str (Vec3<T> (a[0], a[1], a[2]))).raw ("toMatrix33", m33_str (m33)).raw ("setEulerAngles", m3_str (m3_from (s))).str (); });
        // and with the independent composition
        double dr = (double) m3_maxdiff (m3_from (s), ref) / eps;
        c.worst (("setEulerAngles." + tn + ".vs_reference_eps").c_str (), dr, idx, desc);
        if (!(dr <= C_TOMATRIX)) c.fail ("setEulerAngles." + tn + ":differs_from_axis_composition", idx, desc);
        for (int i = 0; i < 4; ++i)
        {
            T want = i == 3 ? T (1) : T (0);
            if (s[i][3] != want || s[3][i] != want) c.fail ("setEulerAngles." + tn + ":border", idx, desc);
        }
    }
    if ((idx & 0xffff) < 24 * 32) c.sample (cl, desc);
    if (c.verbose) std::fprintf (stderr, "[replay] %s\n[replay] %s\n", desc ().c_str (), qdesc ().c_str ());
}

template <class T>
static void
sub_to_matrix (Ctx& c, uint64_t idx)
{
    Rng r = c.rng (idx);
    to_matrix_one<T> (c, idx, orders ()[idx % 24], (unsigned) ((idx / 24) % N_ANGLE_SLOTS), r);
}
static const std::vector<std::string> REQ_TOMATRIX = concat (concat (order_class_names (), angle_class_names ()), {"xyz_vs_setEulerAngles"});
MON_SUB_IDX (sub_to_matrix<double>, "to_matrix_double", 24 * 200000, 24 * 2500000)
    .req (REQ_TOMATRIX)
    .over ("24 orders x 32 angle-class slots (uniform, +-4 periods, middle angle at / within 1e-1..1e-15 of gimbal lock, quarter turns, tiny, 0/pi), double: toMatrix33/44 bit-identity, long double axis composition, orthonormality, det, toQuat, setEulerAngles");
MON_SUB_IDX (sub_to_matrix<float>, "to_matrix_float", 24 * 200000, 24 * 2500000)
    .req (REQ_TOMATRIX)
    .over ("same as to_matrix_double for Euler<float>");

// ------------------------------------------------------------------ XYZ layout: ctor / setXYZVector / toXYZVector
template <class T>
static void
xyz_layout_one (Ctx& c, uint64_t idx, const OrderInfo& o, Rng& r)
{
    typedef Euler<T>          E;
    typedef typename E::Order Ord;
    const Ord                 ord = (Ord) o.value;
    const std::string         tn  = tname<T>::s ();
    // three distinct values (so that a wrong slot is always visible); sometimes special ones
    T v[3];
    for (;;)
    {
        unsigned k = (unsigned) r.range (0, 7);
        for (int i = 0; i < 3; ++i)
            v[i] = k == 0 ? (T) (double) r.range (-3, 3) : (k == 1 ? (T) r.logscale (-20, 20) : (T) r.sym (8 * 3.14159265358979323846));
        if (k == 2) v[(size_t) r.range (0, 2)] = T (-0.0);
        if (!(v[0] == v[1] || v[1] == v[2] || v[0] == v[2])) break;
    }
    Vec3<T> xyz (v[0], v[1], v[2]);
    c.eval ();
    c.cls (std::string ("order_") + o.name);
    c.cls (o.rel ? "rotating_nonrepeated" : "static_nonrepeated");
    c.nontrivial (hash3<T> ((uint64_t) o.value * 2 + sizeof (T) / 8, v[0], v[1], v[2]));

    E e1 (xyz, ord, E::XYZLayout);
    E e2 (v[0], v[1], v[2], ord, E::XYZLayout);
    E e3 (ord);
    e3.setXYZVector (xyz);
    auto desc = [&] { return Obj ().kv ("order", o.name).raw ("xyz", v3_str (xyz)).raw ("ctor_vec_ijk", v3_str (Vec3<T> (e1))).raw ("ctor_scalars_ijk", v3_str (Vec3<T> (e2))).raw ("setXYZVector_ijk", v3_str (Vec3<T> (e3))).raw ("toXYZVector", v3_str (e1.toXYZVector ())).str (); };

    // the three ways of entering an XYZ vector agree bit for bit
    if (!bits_equal<T> (Vec3<T> (e1), Vec3<T> (e3))) c.fail ("xyzlayout." + tn + ":ctor(Vec3)_vs_setXYZVector", idx, desc);
    if (!bits_equal<T> (Vec3<T> (e2), Vec3<T> (e3))) c.fail ("xyzlayout." + tn + ":ctor(T,T,T)_vs_setXYZVector", idx, desc);
    // it is a permutation of the slots: every input value appears in exactly one slot
    {
        int cnt[3] = {0, 0, 0};
        for (int s = 0; s < 3; ++s)
            for (int i = 0; i < 3; ++i)
                if (bits_equal<T> (e3[s], v[i])) cnt[i]++;
        if (cnt[0] != 1 || cnt[1] != 1 || cnt[2] != 1) c.fail ("xyzlayout." + tn + ":setXYZVector_not_a_permutation", idx, desc);
    }
    // toXYZVector inverts it
    if (!bits_equal<T> (e1.toXYZVector (), xyz)) c.fail ("xyzlayout." + tn + ":toXYZVector_does_not_invert_ctor", idx, desc);
    if (!bits_equal<T> (e3.toXYZVector (), xyz)) c.fail ("xyzlayout." + tn + ":toXYZVector_does_not_invert_setXYZVector", idx, desc);
    // and the other way round: setXYZVector(toXYZVector(e)) == e for an ijk-filled Euler
    {
        E       f (xyz, ord, E::IJKLayout);
        Vec3<T> t = f.toXYZVector ();
        E       g (ord);
        g.setXYZVector (t);
        E h (t, ord, E::XYZLayout);
        int cnt[3] = {0, 0, 0};
        for (int s = 0; s < 3; ++s)
            for (int i = 0; i < 3; ++i)
                if (bits_equal<T> (t[s], v[i])) cnt[i]++;
        if (cnt[0] != 1 || cnt[1] != 1 || cnt[2] != 1) c.fail ("xyzlayout." + tn + ":toXYZVector_not_a_permutation", idx, desc);
        if (!bits_equal<T> (Vec3<T> (g), xyz)) c.fail ("xyzlayout." + tn + ":setXYZVector_does_not_invert_toXYZVector", idx, desc);
        if (!bits_equal<T> (Vec3<T> (h), xyz)) c.fail ("xyzlayout." + tn + ":ctor_does_not_invert_toXYZVector", idx, desc);
    }
    // static orders: the documented meaning - the angle about axis A sits in the slot where A stands in the name
    if (!o.rel)
    {
        for (int p = 0; p < 3; ++p)
            if (!bits_equal<T> (e3[p], v[o.ax[p]]))
                c.fail ("xyzlayout." + tn + ":static_order_slot_is_not_the_named_axis", idx, desc);
        c.cls ("static_axis_slot_checked");
    }
    if ((idx & 0xfff) < 24) c.sample (o.name, desc);
}

static void
sub_xyz_layout (Ctx& c, uint64_t idx)
{
    // the 12 non-repeated orders
    static const std::vector<int> nonrep = [] {
        std::vector<int> v;
        for (int i = 0; i < 24; ++i)
            if (!orders ()[i].rep) v.push_back (i);
        return v;
    }();
    Rng              r = c.rng (idx);
    const OrderInfo& o = orders ()[nonrep[idx % nonrep.size ()]];
    if ((idx / 12) % 2) xyz_layout_one<double> (c, idx, o, r);
    else xyz_layout_one<float> (c, idx, o, r);
}
MON_SUB_IDX (sub_xyz_layout, "xyz_layout", 24 * 50000, 24 * 2000000)
    .req (concat (order_class_names (false, true), {"static_nonrepeated", "rotating_nonrepeated", "static_axis_slot_checked"}))
    .over ("12 non-repeated orders x {float,double} x triples of pairwise distinct values (integers, 2^-20..2^20, +-8pi, -0): Euler(v,o,XYZLayout), Euler(x,y,z,o,XYZLayout), setXYZVector, toXYZVector");

MON_MAIN ("c11_euler")
