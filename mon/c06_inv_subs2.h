// C06 sub-checks, part 2: exactly singular inputs, the overflow guard, continuity across the affine test.
#pragma once

namespace c06
{

// ---------------------------------------------------------------- (3) singular outcomes
enum SKind
{
    S_DEP_ROW = 0, // lattice: last row = integer combination of the others (rows shuffled)
    S_RANK1,       // lattice: outer product
    S_DUP_COL,     // lattice: two equal columns (no structural zero pivot for row elimination)
    S_ZERO,        // zero block
    S_ZERO_ROW,    // structured, lattice or random-float entries
    S_ZERO_COL,
    S_DUP_ROW,
    S_POW2_ROW,
    S_COUNT
};
inline const char* skind_name (int k)
{
    static const char* n[] = {"lattice_dependent_row", "lattice_rank1", "lattice_duplicate_column", "zero_matrix", "zero_row", "zero_column", "identical_rows", "power_of_two_multiple_row"};
    return n[k];
}

template <class T> void sub_singular (Ctx& c, uint64_t idx)
{
    Rng      r     = c.rng (idx);
    int      n     = 2 + (int) (idx % 3);
    int      kind  = (int) ((idx / 3) % S_COUNT);
    uint64_t sel   = idx / (3 * S_COUNT);
    bool     aff   = n > 2 && (sel % 3) == 1;          // singular block embedded in an affine matrix
    bool     latt  = kind <= S_ZERO || (sel % 2) == 0; // structured kinds: lattice entries or random floats
    int      k     = aff ? n - 1 : n;                  // size of the block that carries the structure
    double   v[4][4] = {};
    int64_t  iv[4][4] = {};

    auto entry = [&] () -> double { return latt ? (double) r.range (-8, 8) : r.sym () * 4.0; };
    for (int i = 0; i < k; ++i) for (int j = 0; j < k; ++j) v[i][j] = entry ();
    switch (kind)
    {
        case S_DEP_ROW:
        {
            int64_t co[4];
            for (int i = 0; i < k - 1; ++i) co[i] = r.range (-3, 3);
            for (int j = 0; j < k; ++j)
            {
                double s = 0;
                for (int i = 0; i < k - 1; ++i) s += (double) co[i] * v[i][j];
                v[k - 1][j] = s;
            }
            int a = (int) r.range (0, k - 1); // move the dependent row anywhere
            for (int j = 0; j < k; ++j) std::swap (v[a][j], v[k - 1][j]);
            break;
        }
        case S_RANK1:
        {
            int64_t u[4], w[4];
            for (int i = 0; i < k; ++i) { u[i] = r.range (-4, 4); w[i] = r.range (-4, 4); }
            for (int i = 0; i < k; ++i) for (int j = 0; j < k; ++j) v[i][j] = (double) (u[i] * w[j]);
            if (k == 1) v[0][0] = 0;
            break;
        }
        case S_DUP_COL:
        {
            int a = (int) r.range (0, k - 1), b = (int) r.range (0, k - 2);
            if (b >= a) ++b;
            if (k == 1) { v[0][0] = 0; break; }
            for (int i = 0; i < k; ++i) v[i][b] = v[i][a];
            break;
        }
        case S_ZERO:
            for (int i = 0; i < k; ++i) for (int j = 0; j < k; ++j) v[i][j] = 0;
            break;
        case S_ZERO_ROW:
        {
            int a = (int) r.range (0, k - 1);
            for (int j = 0; j < k; ++j) v[a][j] = r.coin () ? 0.0 : -0.0;
            break;
        }
        case S_ZERO_COL:
        {
            int a = (int) r.range (0, k - 1);
            for (int i = 0; i < k; ++i) v[i][a] = r.coin () ? 0.0 : -0.0;
            break;
        }
        case S_DUP_ROW:
        case S_POW2_ROW:
        default:
        {
            if (k == 1) { v[0][0] = 0; break; }
            int a = (int) r.range (0, k - 1), b = (int) r.range (0, k - 2);
            if (b >= a) ++b;
            double f = kind == S_DUP_ROW ? 1.0 : std::ldexp (r.coin () ? 1.0 : -1.0, (int) r.range (latt ? 0 : -3, 3));
            for (int j = 0; j < k; ++j) v[b][j] = f * v[a][j];
            break;
        }
    }
    // assemble, scale the block by an exact power of two
    int    e  = (int) (sel % 41) - 20;
    Arr<T> M (n);
    for (int i = 0; i < k; ++i) for (int j = 0; j < k; ++j) M.a[i][j] = (T) std::ldexp ((double) (T) v[i][j], e);
    if (aff)
    {
        M.a[n - 1][n - 1] = T (1);
        for (int j = 0; j < k; ++j) M.a[n - 1][j] = latt ? (T) (double) r.range (-8, 8) : (T) r.sym ();
        // a zero column of the block must be a zero column of the whole matrix for the structural argument
        if (kind == S_ZERO_COL || kind == S_ZERO)
            for (int j = 0; j < k; ++j)
            {
                bool z = true;
                for (int i = 0; i < k; ++i) z = z && M.a[i][j] == 0;
                if (z) M.a[n - 1][j] = T (0);
            }
    }
    c.eval ();

    // exact singularity of the block: lattice -> integer determinant; structured -> by construction
    bool exact_products = latt; // all products/sums in the determinant paths are exact (small integers times 2^e)
    if (latt)
    {
        for (int i = 0; i < k; ++i) for (int j = 0; j < k; ++j) iv[i][j] = (int64_t) v[i][j];
        if (idet (k, iv) != 0) { c.cls ("generator_bug_nonsingular"); c.fail (std::string ("generator.") + TName<T>::s () + ":nonsingular_lattice", idx, [&] { return Obj ().raw ("M", arr_json (M)).str (); }); return; }
    }
    bool structured = kind >= S_ZERO; // Gauss-Jordan provably meets an exactly zero pivot
    Path pinv       = inverse_path (M);
    c.cls (skind_name (kind));
    c.cls (latt ? "entries_lattice" : "entries_random_float");
    c.cls (path_name (pinv));
    c.nontrivial (arr_hash (M));

    Out<T> out[F_COUNT];
    bool   have[F_COUNT];
    call_all (M, out, have);
    check_inplace (c, idx, M, out, have, skind_name (kind));

    for (int f = 0; f < F_COUNT; ++f)
    {
        if (!have[f] || form_is_inplace (f)) continue;
        const Out<T>& o = out[f];
        if (o.threw == 2)
        {
            c.fail (key_of (n, f, TName<T>::s (), "threw_unexpected_type"), idx, [&] { return Obj ().kv ("kind", skind_name (kind)).raw ("M", arr_json (M)).str (); });
            continue;
        }
        Arr<T> X      = outcome_matrix (o, n);
        bool   gjpath = form_is_gj (f) || pinv == P_44_GJ;
        bool   must_identity = gjpath ? structured : exact_products;
        if (must_identity)
        {
            c.cls (gjpath ? "gj_zero_pivot_identity_required" : "det_exact_zero_identity_required");
            if (!arr_is_identity (X))
                c.fail (key_of (n, f, TName<T>::s (), std::string ("singular_not_identity.") + path_name (gjpath ? P_GJ : pinv)), idx, [&] {
                    return Obj ().kv ("kind", skind_name (kind)).kv ("lattice", latt).kv ("n", n).raw ("M", arr_json (M)).kv ("M_bits", arr_bits (M)).raw ("got", arr_json (X)).str ();
                });
        }
        else
        {
            c.cls ("finite_or_identity_required");
            if (!arr_finite (X))
                c.fail (key_of (n, f, TName<T>::s (), std::string ("singular_nonfinite.") + path_name (gjpath ? P_GJ : pinv)), idx, [&] {
                    return Obj ().kv ("kind", skind_name (kind)).kv ("lattice", latt).kv ("n", n).raw ("M", arr_json (M)).kv ("M_bits", arr_bits (M)).raw ("got", arr_json (X)).str ();
                });
        }
    }
    if (sel == 2) c.sample (skind_name (kind), [&] { return Obj ().kv ("n", n).kv ("affine", aff).kv ("lattice", latt).raw ("M", arr_json (M)).str (); });
}

} // namespace c06
#include "c06_inv_subs3.h"
