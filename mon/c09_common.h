// C09 - shared helpers of the three translation units of the c09_transform monitor.
//
// Reference arithmetic is `long double` (64-bit significand: products of two floats are
// exact, and for double it carries 11 guard bits, i.e. its own error is < 2^-11 of the
// eps-scaled tolerances used here).  Everything is written as loops over indices; no
// expression is copied from the library.
//
// Conventions established by reading ImathMatrix.h (and confirmed by the calibration run):
//  * points are ROW vectors: p' = p * M, the translation lives in row N-1;
//  * Matrix22/33::setRotation(r): counter-clockwise by r for row vectors, (1,0) -> (cos r, sin r);
//  * Matrix44::setAxisAngle(u, a): right-hand rule about u, p' = p cos a + (u x p) sin a + u (u.p)(1 - cos a);
//  * Matrix44::setEulerAngles(r) = Rx(r.x) * Ry(r.y) * Rz(r.z) (row vectors: X first, Z last),
//    each factor a right-hand-rule rotation about the coordinate axis;
//  * "shear a for each b coord. by factor f"  <=>  a' = a + f * b  <=>  entry [b][a] = f.
#pragma once
#include "mon.h"
#include <ImathFrame.h>
#include <ImathMatrix.h>
#include <ImathMatrixAlgo.h>
#include <ImathShear.h>
#include <ImathVec.h>
#include <string>

namespace c09
{
using namespace mon;
using namespace IMATH_NAMESPACE;
typedef long double LD;

template <class T> struct TN;
template <> struct TN<float>
{
    static const char* n () { return "float"; }
    static const bool  is_float = true;
};
template <> struct TN<double>
{
    static const char* n () { return "double"; }
    static const bool  is_float = false;
};
template <class T> inline double EPS () { return eps_of<T>::value; }

inline uint64_t hb (float f) { return f2u (f); }
inline uint64_t hb (double f) { return d2u (f); }
template <class T> inline uint64_t
hash_arr (const T* p, int n, uint64_t h = 0x9e37)
{
    for (int i = 0; i < n; ++i) h = hash_combine (h, hb (p[i]));
    return h;
}

// absolute error that underflow can add to an n-term sum of products (each product loses at most denorm_min/2)
template <class T> inline LD uflow (int nterms) { return (LD) nterms * (LD) std::numeric_limits<T>::denorm_min (); }

// Per-chunk front end of Ctx: class counters and worst ratios are kept in small pointer-keyed
// arrays (names are string literals / static strings) and forwarded to the Ctx only when
// needed, so that the per-case cost is not dominated by std::map<std::string> look-ups.
struct Local
{
    Ctx&        c;
    const char* cn[160];
    uint64_t    cv[160];
    int         ck = 0;
    const char* wn[64];
    double      wv[64];
    int         wk = 0;
    explicit Local (Ctx& c_) : c (c_) {}
    ~Local () { for (int i = 0; i < ck; ++i) c.cls (cn[i], cv[i]); }
    void cls (const char* s)
    {
        for (int i = 0; i < ck; ++i) if (cn[i] == s) { ++cv[i]; return; }
        if (ck < 160) { cn[ck] = s; cv[ck] = 1; ++ck; }
        else c.cls (s);
    }
    template <class D> void worst (const char* name, double ratio, uint64_t idx, D&& d)
    {
        for (int i = 0; i < wk; ++i)
            if (wn[i] == name)
            {
                if (ratio > wv[i]) { wv[i] = ratio; c.worst (name, ratio, idx, d); } // indices ascend within a chunk: first of equals wins
                return;
            }
        if (wk < 64) { wn[wk] = name; wv[wk] = ratio; ++wk; }
        c.worst (name, ratio, idx, d);
    }
};
// "<function>.<type>:" prefix of a violation key (built only when a violation is recorded)
inline std::string K (const char* fn, const char* ty) { return std::string (fn) + "." + ty + ":"; }

template <void (*F) (Ctx&, Local&, uint64_t)> inline void
ranged (Ctx& c, uint64_t b, uint64_t e)
{
    Local L (c);
    for (uint64_t i = b; i < e; ++i) F (c, L, i);
}

// ------------------------------------------------------------------ small LD vector algebra
struct V3
{
    LD v[3];
};
inline V3 mk (LD a, LD b, LD c) { V3 r; r.v[0] = a; r.v[1] = b; r.v[2] = c; return r; }
template <class T> inline V3 mk (const Vec3<T>& a) { return mk ((LD) a.x, (LD) a.y, (LD) a.z); }
inline V3
cross (const V3& a, const V3& b)
{
    V3 r;
    for (int j = 0; j < 3; ++j) r.v[j] = a.v[(j + 1) % 3] * b.v[(j + 2) % 3] - a.v[(j + 2) % 3] * b.v[(j + 1) % 3];
    return r;
}
inline LD dot (const V3& a, const V3& b) { LD s = 0; for (int j = 0; j < 3; ++j) s += a.v[j] * b.v[j]; return s; }
inline LD norm (const V3& a) { return sqrtl (dot (a, a)); }
inline LD maxabs (const V3& a) { LD m = 0; for (int j = 0; j < 3; ++j) m = std::max (m, fabsl (a.v[j])); return m; }
inline V3 scaled (const V3& a, LD s) { return mk (a.v[0] * s, a.v[1] * s, a.v[2] * s); }
inline V3 sub (const V3& a, const V3& b) { return mk (a.v[0] - b.v[0], a.v[1] - b.v[1], a.v[2] - b.v[2]); }
inline V3 add (const V3& a, const V3& b) { return mk (a.v[0] + b.v[0], a.v[1] + b.v[1], a.v[2] + b.v[2]); }
inline V3 unit (const V3& a) { LD n = norm (a); return n > 0 ? scaled (a, 1 / n) : a; }
// a with its component along the UNIT vector u removed, normalised
inline V3 perp_unit (const V3& a, const V3& u) { return unit (sub (a, scaled (u, dot (a, u)))); }
// sine of the angle between two non-zero vectors
inline LD sin_between (const V3& a, const V3& b) { return norm (cross (unit (a), unit (b))); }

// Rodrigues rotation matrix for ROW vectors, right-hand rule about the UNIT axis u:
// R[i][j] = (e_i rotated)_j = e_i cos + (u x e_i) sin + u (u.e_i)(1-cos)
inline void
rodrigues (const V3& u, LD th, LD R[3][3])
{
    LD c = cosl (th), s = sinl (th), h = sinl (th / 2), omc = 2 * h * h;
    for (int i = 0; i < 3; ++i)
    {
        V3 e = mk (0, 0, 0);
        e.v[i] = 1;
        V3 ue  = cross (u, e);
        for (int j = 0; j < 3; ++j) R[i][j] = e.v[j] * c + ue.v[j] * s + u.v[j] * u.v[i] * omc;
    }
}
inline void
mul33 (const LD A[3][3], const LD B[3][3], LD C[3][3])
{
    for (int i = 0; i < 3; ++i)
        for (int j = 0; j < 3; ++j)
        {
            LD s = 0;
            for (int k = 0; k < 3; ++k) s += A[i][k] * B[k][j];
            C[i][j] = s;
        }
}

// ------------------------------------------------------------------ measures on the upper-left nxn block
// max | row_i . row_j - delta_ij |
template <class M> inline LD
ortho_dev (const M& m, int n = 3)
{
    LD d = 0;
    for (int i = 0; i < n; ++i)
        for (int j = i; j < n; ++j)
        {
            LD s = 0;
            for (int k = 0; k < n; ++k) s += (LD) m[i][k] * (LD) m[j][k];
            d = std::max (d, fabsl (s - (i == j ? 1 : 0)));
        }
    return d;
}
template <class M> inline V3 row3 (const M& m, int i) { return mk ((LD) m[i][0], (LD) m[i][1], (LD) m[i][2]); }
// | row0 x row1 - row2 |_inf : zero for a right-handed orthonormal frame
template <class M> inline LD
rh_dev (const M& m)
{
    return maxabs (sub (cross (row3 (m, 0), row3 (m, 1)), row3 (m, 2)));
}
template <class M> inline LD det3 (const M& m) { return dot (cross (row3 (m, 0), row3 (m, 1)), row3 (m, 2)); }
template <class M> inline LD det2 (const M& m) { return (LD) m[0][0] * (LD) m[1][1] - (LD) m[0][1] * (LD) m[1][0]; }

// fourth row / column of a pure rotation / frame must be exactly (0,0,0,1)
template <class T> inline bool
col3_exact (const Matrix44<T>& m)
{
    return m[0][3] == 0 && m[1][3] == 0 && m[2][3] == 0 && m[3][3] == 1;
}
template <class T> inline bool
row3_zero (const Matrix44<T>& m)
{
    return m[3][0] == 0 && m[3][1] == 0 && m[3][2] == 0;
}

template <class M> inline std::string
mstr (const M& m, int n)
{
    std::string s = "[";
    for (int i = 0; i < n; ++i)
        for (int j = 0; j < n; ++j)
        {
            if (i || j) s += ",";
            s += jnum ((double) m[i][j]);
        }
    return s + "]";
}
template <class T> inline std::string
vstr (const T* p, int n)
{
    std::string s = "[";
    for (int i = 0; i < n; ++i) { if (i) s += ","; s += jnum ((double) p[i]); }
    return s + "]";
}
inline std::string vstr (const V3& a) { return vstr (a.v, 3); }
template <class T> inline std::string vstr (const Vec3<T>& a) { T p[3] = {a.x, a.y, a.z}; return vstr (p, 3); }

// ------------------------------------------------------------------ generators
static const LD PI_L = 3.14159265358979323846264338327950288L;

// angles "over many periods and at multiples of pi/2 +- 1e-k"; the class name is returned
template <class T> inline T
gen_angle (Rng& r, unsigned k, const char*& cls)
{
    const bool F = TN<T>::is_float;
    switch (k % 8)
    {
        case 0: cls = "angle_generic"; return (T) r.uniform (-3.2, 3.2);
        case 1: {
            cls = "angle_many_periods";
            double e = r.uniform (1.0, F ? 6.0 : 12.0);
            return (T) (r.sym () * std::pow (10.0, e));
        }
        case 2: {
            cls   = "angle_halfpi_multiple_pm_1e-k";
            int n = (int) r.range (-8, 8), j = (int) r.range (1, F ? 7 : 15);
            LD  a = n * (PI_L / 2) + (r.coin () ? 1 : -1) * powl (10.0L, -j);
            return (T) a;
        }
        case 3: {
            cls   = "angle_halfpi_multiple_rounded";
            int n = (int) r.range (-1000, 1000);
            if (r.coin ()) n = (int) r.range (-8, 8);
            return (T) (n * (PI_L / 2));
        }
        case 4: {
            cls = "angle_tiny_or_zero";
            if (r.one_in (4)) return r.coin () ? (T) 0 : -(T) 0;
            int j = (int) r.range (1, F ? 30 : 200);
            return (T) ((r.coin () ? 1 : -1) * std::pow (10.0, -j));
        }
        case 5: cls = "angle_wide"; return (T) r.uniform (-100.0, 100.0);
        case 6: {
            cls   = "angle_halfpi_multiple_pm_ulps";
            int n = (int) r.range (-16, 16);
            T   a = (T) (n * (PI_L / 2));
            int u = (int) r.range (-3, 3);
            for (int i = 0; i < std::abs (u); ++i) a = std::nextafter (a, u > 0 ? (T) 1e30 : (T) -1e30);
            return a;
        }
        default: {
            cls = "angle_huge_periods";
            double e = r.uniform (F ? 6.0 : 12.0, F ? 9.0 : 15.0);
            return (T) (r.sym () * std::pow (10.0, e));
        }
    }
}
#define C09_ANGLE_CLASSES                                                                                                   \
    "angle_generic", "angle_many_periods", "angle_halfpi_multiple_pm_1e-k", "angle_halfpi_multiple_rounded",                 \
        "angle_tiny_or_zero", "angle_wide", "angle_halfpi_multiple_pm_ulps", "angle_huge_periods"

// random direction of length 1 (double precision is enough for an input)
inline void
gen_dir (Rng& r, double d[3])
{
    for (;;)
    {
        double s = 0;
        for (int i = 0; i < 3; ++i) { d[i] = r.gauss (); s += d[i] * d[i]; }
        if (s > 1e-6) { s = std::sqrt (s); for (int i = 0; i < 3; ++i) d[i] /= s; return; }
    }
}

} // namespace c09
