// C14 - shared pieces of the ray/line vs. box monitor.
//
// Exact oracle for integer-lattice cases: the slab test carried out in int64
// rational arithmetic (cross multiplication only, never a division), written
// as loops over the three axes - nothing is shared with the 24 unrolled
// per-face blocks of ImathBoxAlgo.h.
#pragma once
#include "mon.h"
#include <ImathBox.h>
#include <ImathBoxAlgo.h>
#include <ImathLine.h>
#include <ImathVec.h>
#include <limits>

namespace c14
{
using namespace mon;
using namespace IMATH_NAMESPACE;

template <class T> inline const char* tname ();
template <> inline const char* tname<float> () { return "float"; }
template <> inline const char* tname<double> () { return "double"; }

// tolerance constant for reported points whose parameter t is not exactly
// representable: |got_j - P_j| <= PT_TOL * eps * (|pos_j| + |t*dir_j|).
// Calibration (pristine tree, thorough run: 2e9 wide-lattice + 8e8 stress cases, float
// and double): worst ratio 0.76 on the wide lattice, 1.76 on the stress inputs.
static constexpr double PT_TOL = 16.0;

// ------------------------------------------------------------------ lattice case
// all coordinates are integers in units of 1/S (S = 1, 2 or 4), directions are integers
struct LatCase
{
    int lo[3], hi[3], p[3], d[3];
    int S;
    int negzero = 0; // bit j set: a zero direction component j is passed as -0.0 (same line; the oracle does not care)
};

struct LatTruth
{
    bool empty = false, flat = false, inside = true, on_surface = false, slab_ok = true;
    bool axis_par = false, in_face_plane = false, line_hit = false, ray_hit = false, grazing = false, single_pt = false;
    // entry parameter te = en/(ea*S), exit parameter tx = xn/(xa*S); ea, xa > 0
    int64_t en = 0, ea = 1, xn = 0, xa = 1;
};

inline LatTruth
lat_oracle (const LatCase& k)
{
    LatTruth t;
    bool     have = false, onface = false;
    for (int j = 0; j < 3; ++j)
    {
        int lo = k.lo[j], hi = k.hi[j], p = k.p[j], d = k.d[j];
        if (lo > hi) t.empty = true;
        if (lo == hi) t.flat = true;
        bool in = lo <= p && p <= hi;
        if (!in) t.inside = false;
        if (p == lo || p == hi) onface = true;
        if (d == 0)
        {
            t.axis_par = true;
            if (!in) t.slab_ok = false;
            else if (p == lo || p == hi) t.in_face_plane = true;
            continue;
        }
        int64_t a  = d > 0 ? d : -d;
        int64_t nn = d > 0 ? lo - p : p - hi; // line is inside slab j for t in [nn/a, nf/a]
        int64_t nf = d > 0 ? hi - p : p - lo;
        if (!have)
        {
            t.en = nn; t.ea = a; t.xn = nf; t.xa = a;
            have = true;
        }
        else
        {
            if (nn * t.ea > t.en * a) { t.en = nn; t.ea = a; } // larger entry parameter
            if (nf * t.xa < t.xn * a) { t.xn = nf; t.xa = a; } // smaller exit parameter
        }
    }
    if (t.empty)
    {
        t.flat = t.inside = t.in_face_plane = false;
        return t;
    }
    t.on_surface = t.inside && onface;
    if (!have) return t; // zero direction: not part of the property's domain
    t.line_hit  = t.slab_ok && t.en * t.xa <= t.xn * t.ea;
    t.ray_hit   = t.line_hit && t.xn >= 0;
    t.single_pt = t.line_hit && t.en * t.xa == t.xn * t.ea;
    t.grazing   = t.single_pt && !t.flat; // a line can touch a full-dimensional box in one point only at an edge or corner
    return t;
}

// class used in violation keys (priority order)
inline const char*
lat_keyclass (const LatTruth& t)
{
    if (t.empty) return "empty_box";
    if (t.grazing) return "grazing";
    if (t.in_face_plane) return "in_face_plane";
    if (t.flat) return "flat_box";
    if (t.on_surface) return "origin_on_surface";
    if (t.inside) return "origin_inside";
    if (t.axis_par) return "axis_parallel";
    return "generic";
}

enum
{
    K_EMPTY, K_GRAZING, K_SINGLE_FLAT, K_IN_FACE, K_FLAT, K_ON_SURF, K_INSIDE, K_AXIS_PAR, K_BEHIND, K_LINE_HIT, K_LINE_MISS,
    K_RAY_HIT, K_RAY_MISS, K_INEXACT_T, K_NONTRIV, K_N
};
static const char* const K_NAME[K_N] = {"empty_box", "grazing", "single_point_on_flat_box", "in_face_plane", "flat_box", "origin_on_surface",
                                        "origin_inside", "axis_parallel", "box_behind_origin", "line_hit", "line_miss", "ray_hit", "ray_miss",
                                        "inexact_parameter", "nontrivial"};

struct Acc
{
    uint64_t n[K_N] = {};
    uint64_t evals  = 0;
    double   worst[3] = {-1, -1, -1}; // ip, entry, exit
    uint64_t widx[3]  = {0, 0, 0};
    LatCase  wcase[3];
};

inline std::string
lat_json (const LatCase& k)
{
    double s = 1.0 / k.S, lo[3], hi[3], p[3], d[3];
    for (int j = 0; j < 3; ++j) { lo[j] = k.lo[j] * s; hi[j] = k.hi[j] * s; p[j] = k.p[j] * s; d[j] = k.d[j]; }
    for (int j = 0; j < 3; ++j)
        if (k.d[j] == 0 && ((k.negzero >> j) & 1)) d[j] = -0.0;
    return Obj ().arr ("box_min", lo, 3).arr ("box_max", hi, 3).arr ("pos", p, 3).arr ("dir", d, 3).kv ("negzero_mask", k.negzero).str ();
}

inline bool pow2 (int64_t a) { return (a & (a - 1)) == 0; }

// Compare a reported point with pos + (n/(a*S))*dir.  Returns the error ratio
// (0 = exactly equal).  If the parameter is exactly representable (a is a power of
// two) every operation of the library is exact and anything but equality is an
// error (ratio = inf); otherwise the point must lie in the closed box, on its
// surface, and within PT_TOL*eps*(|pos_j|+|t dir_j|) of the exact point.
template <class T>
inline double
lat_point_ratio (const Vec3<T>& g, const LatCase& k, int64_t n, int64_t a)
{
    const double INF = std::numeric_limits<double>::infinity ();
    double       sa  = (double) k.S * (double) a;
    bool         eq  = true;
    for (int j = 0; j < 3; ++j)
        if (!((double) g[j] * sa == (double) ((int64_t) k.p[j] * a + n * k.d[j]))) eq = false;
    if (eq) return 0;
    if (pow2 (a)) return INF;
    bool   surf = false;
    double r    = 0;
    for (int j = 0; j < 3; ++j)
    {
        long double gj = g[j], S = k.S;
        if (!(gj * S >= k.lo[j] && gj * S <= k.hi[j])) return INF;             // outside the closed box (or NaN)
        if (gj * S == k.lo[j] || gj * S == k.hi[j]) surf = true;
        long double P     = (long double) ((int64_t) k.p[j] * a + n * k.d[j]) / ((long double) a * S);
        long double scale = (std::fabs ((long double) k.p[j]) + std::fabs ((long double) (n * k.d[j])) / (long double) a) / S;
        long double err   = std::fabs (gj - P);
        if (err == 0) continue;
        if (scale == 0) return INF;
        r = std::max (r, (double) (err / ((long double) eps_of<T>::value * scale)));
    }
    if (!surf) return INF;
    return r;
}

template <class T> struct Got
{
    bool    r3, r2, rl;
    Vec3<T> ip, en, ex;
};

template <class T>
inline Got<T>
run_lib (const Box<Vec3<T>>& box, const Line3<T>& ln)
{
    const T SENT = T (-77.125); // sentinel: recognisable in witnesses if an out-parameter was never written
    Got<T>  g;
    g.ip = g.en = g.ex = Vec3<T> (SENT, SENT, SENT);
    g.r3 = intersects (box, ln, g.ip);
    g.r2 = intersects (box, ln);
    g.rl = findEntryAndExitPoints (ln, box, g.en, g.ex);
    return g;
}

template <class T>
inline std::string
got_json (const Got<T>& g)
{
    return Obj ().kv ("intersects3", g.r3).kv ("intersects2", g.r2).kv ("findEntryAndExitPoints", g.rl)
        .arr ("ip", &g.ip[0], 3).arr ("entry", &g.en[0], 3).arr ("exit", &g.ex[0], 3).str ();
}

// slow path: something is wrong (or verbose replay) - find out what and report under specific keys
template <class T>
__attribute__ ((noinline)) void
lat_report (Ctx& c, uint64_t idx, const LatCase& k, const LatTruth& t, const Got<T>& g)
{
    std::string ty  = tname<T> ();
    std::string cl  = lat_keyclass (t);
    auto        det = [&] (const char* what) {
        double te = (double) t.en / ((double) t.ea * k.S), tx = (double) t.xn / ((double) t.xa * k.S);
        return Obj ().kv ("what", what).raw ("case", lat_json (k)).raw ("got", got_json (g))
            .kv ("want_ray_hit", t.ray_hit).kv ("want_line_hit", t.line_hit).kv ("origin_inside", t.inside)
            .kv ("t_enter", te).kv ("t_exit", tx).str ();
    };
    if (c.verbose) std::fprintf (stderr, "[replay] %s\n", det ("replay").c_str ());
    if (g.r3 != t.ray_hit) c.fail ("intersects3." + ty + ":truth." + cl, idx, [&] { return det ("intersects(box,ray,ip) truth value"); });
    if (g.r2 != t.ray_hit) c.fail ("intersects2." + ty + ":truth." + cl, idx, [&] { return det ("intersects(box,ray) truth value"); });
    if (g.rl != t.line_hit) c.fail ("findEntryAndExitPoints." + ty + ":truth." + cl, idx, [&] { return det ("findEntryAndExitPoints truth value"); });
    if (g.r3 && t.ray_hit)
    {
        bool ok = t.inside ? (g.ip[0] * k.S == k.p[0] && g.ip[1] * k.S == k.p[1] && g.ip[2] * k.S == k.p[2])
                           : lat_point_ratio (g.ip, k, t.en, t.ea) <= PT_TOL;
        if (!ok) c.fail ("intersects3." + ty + ":ip." + cl, idx, [&] { return det (t.inside ? "ip must be the ray origin (origin inside the box)" : "ip must be pos + t_enter*dir"); });
    }
    if (g.rl && t.line_hit)
    {
        if (!(lat_point_ratio (g.en, k, t.en, t.ea) <= PT_TOL))
            c.fail ("findEntryAndExitPoints." + ty + ":entry." + cl, idx, [&] { return det ("entry must be pos + t_enter*dir"); });
        if (!(lat_point_ratio (g.ex, k, t.xn, t.xa) <= PT_TOL))
            c.fail ("findEntryAndExitPoints." + ty + ":exit." + cl, idx, [&] { return det ("exit must be pos + t_exit*dir"); });
    }
}

// hot path: run the three entry points on one lattice case and judge them
template <class T>
inline void
lat_check (Ctx& c, uint64_t idx, const LatCase& k, Acc& A)
{
    LatTruth t = lat_oracle (k);
    T        s = T (1) / T (k.S);
    Box<Vec3<T>> box (Vec3<T> (k.lo[0] * s, k.lo[1] * s, k.lo[2] * s), Vec3<T> (k.hi[0] * s, k.hi[1] * s, k.hi[2] * s));
    Line3<T>     ln;
    ln.pos = Vec3<T> (k.p[0] * s, k.p[1] * s, k.p[2] * s);
    ln.dir = Vec3<T> (T (k.d[0]), T (k.d[1]), T (k.d[2]));
    if (k.negzero)
        for (int j = 0; j < 3; ++j)
            if (k.d[j] == 0 && ((k.negzero >> j) & 1)) ln.dir[j] = -T (0);
    Got<T> g = run_lib (box, ln);

    bool bad = (g.r3 != t.ray_hit) | (g.r2 != t.ray_hit) | (g.rl != t.line_hit);
    if (!bad)
    {
        if (t.ray_hit)
        {
            if (t.inside) bad |= !(g.ip == ln.pos);
            else
            {
                double r = lat_point_ratio (g.ip, k, t.en, t.ea);
                if (r > A.worst[0]) { A.worst[0] = r; A.widx[0] = idx; A.wcase[0] = k; }
                bad |= !(r <= PT_TOL);
            }
        }
        if (t.line_hit)
        {
            double r1 = lat_point_ratio (g.en, k, t.en, t.ea), r2 = lat_point_ratio (g.ex, k, t.xn, t.xa);
            if (r1 > A.worst[1]) { A.worst[1] = r1; A.widx[1] = idx; A.wcase[1] = k; }
            if (r2 > A.worst[2]) { A.worst[2] = r2; A.widx[2] = idx; A.wcase[2] = k; }
            bad |= !(r1 <= PT_TOL) | !(r2 <= PT_TOL);
        }
    }
    if (bad || c.verbose) lat_report (c, idx, k, t, g);

    // classes
    ++A.evals;
    bool behind = t.line_hit && !t.ray_hit;
    bool inex   = t.line_hit && (!pow2 (t.ea) || !pow2 (t.xa));
    A.n[K_EMPTY] += t.empty;
    A.n[K_GRAZING] += t.grazing;
    A.n[K_SINGLE_FLAT] += (t.single_pt && t.flat);
    A.n[K_IN_FACE] += t.in_face_plane;
    A.n[K_FLAT] += t.flat;
    A.n[K_ON_SURF] += t.on_surface;
    A.n[K_INSIDE] += (t.inside && !t.on_surface);
    A.n[K_AXIS_PAR] += t.axis_par;
    A.n[K_BEHIND] += behind;
    A.n[K_LINE_HIT] += t.line_hit;
    A.n[K_LINE_MISS] += !t.line_hit;
    A.n[K_RAY_HIT] += t.ray_hit;
    A.n[K_RAY_MISS] += !t.ray_hit;
    A.n[K_INEXACT_T] += inex;
    A.n[K_NONTRIV] += (t.empty | t.single_pt | t.in_face_plane | t.flat | t.inside | t.axis_par);
}

template <class T>
inline void
acc_flush (Ctx& c, Acc& A, bool enumerated)
{
    c.eval (A.evals);
    for (int i = 0; i < K_N; ++i)
        if (i != K_NONTRIV && A.n[i]) c.cls (K_NAME[i], A.n[i]);
    if (enumerated) c.nontrivial_enum (A.n[K_NONTRIV]);
    static const char* const wn_f[3] = {"intersects3.float.ip_err/(eps*(|pos|+|t*dir|))", "findEntryAndExitPoints.float.entry_err/(eps*(|pos|+|t*dir|))",
                                        "findEntryAndExitPoints.float.exit_err/(eps*(|pos|+|t*dir|))"};
    static const char* const wn_d[3] = {"intersects3.double.ip_err/(eps*(|pos|+|t*dir|))", "findEntryAndExitPoints.double.entry_err/(eps*(|pos|+|t*dir|))",
                                        "findEntryAndExitPoints.double.exit_err/(eps*(|pos|+|t*dir|))"};
    const char* const* wn = sizeof (T) == 4 ? wn_f : wn_d;
    for (int i = 0; i < 3; ++i)
        if (A.worst[i] >= 0 && std::isfinite (A.worst[i]))
        {
            LatCase k = A.wcase[i];
            c.worst (wn[i], A.worst[i], A.widx[i], [&] { return lat_json (k); });
        }
}

} // namespace c14
