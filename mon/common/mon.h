// Runtime-monitor framework shared by all C++ monitors (see DESIGN.md 2.3).
//
// A monitor is a program made of "sub-checks".  Every sub-check is a function
// over a range of *case indices*; a case is regenerated from
// (seed, sub-check id, index) alone, so any case can be replayed in isolation
// and results do not depend on how the range is cut across threads.
//
// The monitor never decides the exit status of a check: it writes one JSON
// summary (counters, classes observed, worst error ratios, samples,
// violations with their literal inputs) which the python driver turns into
// the VIOLATION / KNOWN-FINDING / evidence contract.
#pragma once
#include <algorithm>
#include <atomic>
#include <chrono>
#include <cinttypes>
#include <cmath>
#include <cstdint>
#include <cstdio>
#include <cstdlib>
#include <cstring>
#include <deque>
#include <functional>
#include <map>
#include <mutex>
#include <set>
#include <sstream>
#include <string>
#include <thread>
#include <unordered_set>
#include <vector>

namespace mon
{

// ---------------------------------------------------------------- PRNG
inline uint64_t
splitmix64 (uint64_t x)
{
    x += 0x9E3779B97F4A7C15ull;
    x = (x ^ (x >> 30)) * 0xBF58476D1CE4E5B9ull;
    x = (x ^ (x >> 27)) * 0x94D049BB133111EBull;
    return x ^ (x >> 31);
}

inline uint64_t
hash_str (const char* s)
{
    uint64_t h = 1469598103934665603ull;
    for (; *s; ++s)
        h = (h ^ (unsigned char) *s) * 1099511628211ull;
    return h;
}

inline uint64_t
hash_combine (uint64_t a, uint64_t b)
{
    return splitmix64 (a ^ (b + 0x9E3779B97F4A7C15ull + (a << 6) + (a >> 2)));
}

// Counter based: stream = f(seed, sub, idx); successive draws advance a counter.
struct Rng
{
    uint64_t key, ctr;
    Rng (uint64_t seed, uint64_t sub, uint64_t idx)
        : key (splitmix64 (splitmix64 (seed * 0x9E3779B97F4A7C15ull + sub) ^ splitmix64 (idx + 0x51ED27ull))), ctr (0)
    {}
    uint64_t u64 () { return splitmix64 (key + (ctr++) * 0xD1342543DE82EF95ull); }
    uint32_t u32 () { return (uint32_t) (u64 () >> 32); }
    // uniform integer in [lo, hi]
    int64_t range (int64_t lo, int64_t hi)
    {
        uint64_t span = (uint64_t) hi - (uint64_t) lo + 1; // unsigned: hi - lo may exceed int64_t
        if (span == 0) return (int64_t) u64 ();
        return (int64_t) ((uint64_t) lo + u64 () % span);
    }
    bool   coin () { return u64 () & 1; }
    bool   one_in (uint64_t n) { return (u64 () % n) == 0; }
    double uniform () { return (u64 () >> 11) * (1.0 / 9007199254740992.0); } // [0,1)
    double uniform (double a, double b) { return a + (b - a) * uniform (); }
    double sym (double a = 1.0) { return uniform (-a, a); }
    // standard normal (Box-Muller, one value)
    double gauss ()
    {
        double u1 = uniform (), u2 = uniform ();
        if (u1 < 1e-300) u1 = 1e-300;
        return std::sqrt (-2.0 * std::log (u1)) * std::cos (6.283185307179586 * u2);
    }
    // +-m * 2^e with m in [1,2), e uniform in [elo, ehi]
    double logscale (int elo, int ehi)
    {
        double m = 1.0 + uniform ();
        int    e = (int) range (elo, ehi);
        double v = std::ldexp (m, e);
        return coin () ? v : -v;
    }
    template <class T> const T& pick (const std::vector<T>& v) { return v[(size_t) (u64 () % v.size ())]; }
};

// ---------------------------------------------------------------- bits / ulps
inline uint32_t f2u (float f) { uint32_t u; std::memcpy (&u, &f, 4); return u; }
inline float    u2f (uint32_t u) { float f; std::memcpy (&f, &u, 4); return f; }
inline uint64_t d2u (double f) { uint64_t u; std::memcpy (&u, &f, 8); return u; }
inline double   u2d (uint64_t u) { double f; std::memcpy (&f, &u, 8); return f; }

// Distance in representable values between two finite floats (ordered-integer
// mapping, +0 and -0 coincide).  NaN vs NaN -> 0, NaN vs number -> huge.
inline uint64_t
ulpdiff (float a, float b)
{
    if (std::isnan (a) || std::isnan (b)) return (std::isnan (a) && std::isnan (b)) ? 0 : UINT64_MAX;
    int64_t ia = (int32_t) f2u (a), ib = (int32_t) f2u (b);
    if (ia < 0) ia = (int64_t) INT32_MIN - ia;
    if (ib < 0) ib = (int64_t) INT32_MIN - ib;
    return (uint64_t) (ia > ib ? ia - ib : ib - ia);
}
inline uint64_t
ulpdiff (double a, double b)
{
    if (std::isnan (a) || std::isnan (b)) return (std::isnan (a) && std::isnan (b)) ? 0 : UINT64_MAX;
    int64_t ia = (int64_t) d2u (a), ib = (int64_t) d2u (b);
    // map to a monotone unsigned scale without overflow
    uint64_t ua = ia < 0 ? (uint64_t) 0x8000000000000000ull - (uint64_t) (ia & 0x7fffffffffffffffll) : (uint64_t) 0x8000000000000000ull + (uint64_t) ia;
    uint64_t ub = ib < 0 ? (uint64_t) 0x8000000000000000ull - (uint64_t) (ib & 0x7fffffffffffffffll) : (uint64_t) 0x8000000000000000ull + (uint64_t) ib;
    return ua > ub ? ua - ub : ub - ua;
}

template <class T> struct eps_of;
template <> struct eps_of<float> { static constexpr double value = 1.1920928955078125e-07; };
template <> struct eps_of<double> { static constexpr double value = 2.220446049250313e-16; };

// ---------------------------------------------------------------- tiny JSON
inline std::string
jescape (const std::string& s)
{
    std::string o;
    for (unsigned char c: s)
    {
        if (c == '"' || c == '\\') { o += '\\'; o += (char) c; }
        else if (c == '\n') o += "\\n";
        else if (c == '\t') o += "\\t";
        else if (c < 0x20 || c >= 0x7f) { char b[8]; std::snprintf (b, sizeof b, "\\u%04x", c); o += b; }
        else o += (char) c;
    }
    return o;
}

inline std::string
jnum (double v)
{
    if (std::isnan (v)) return "\"nan\"";
    if (std::isinf (v)) return v > 0 ? "\"inf\"" : "\"-inf\"";
    char b[40];
    std::snprintf (b, sizeof b, "%.17g", v);
    return b;
}

inline std::string hex32 (uint32_t u) { char b[16]; std::snprintf (b, sizeof b, "0x%08x", u); return b; }
inline std::string hex64 (uint64_t u) { char b[24]; std::snprintf (b, sizeof b, "0x%016" PRIx64, u); return b; }
inline std::string hex16 (uint16_t u) { char b[16]; std::snprintf (b, sizeof b, "0x%04x", u); return b; }

// JSON object builder: Obj().kv("a",1).kv("b","x").str()
class Obj
{
    std::string s;
    void key (const char* k)
    {
        s += s.empty () ? "{" : ",";
        s += '"'; s += jescape (k); s += "\":";
    }

public:
    Obj& kv (const char* k, const std::string& v) { key (k); s += '"'; s += jescape (v); s += '"'; return *this; }
    Obj& kv (const char* k, const char* v) { return kv (k, std::string (v)); }
    Obj& kv (const char* k, double v) { key (k); s += jnum (v); return *this; }
    Obj& kv (const char* k, float v) { return kv (k, (double) v); }
    Obj& kv (const char* k, long double v) { return kv (k, (double) v); }
    Obj& kv (const char* k, int v) { key (k); s += std::to_string (v); return *this; }
    Obj& kv (const char* k, long v) { key (k); s += std::to_string (v); return *this; }
    Obj& kv (const char* k, long long v) { key (k); s += std::to_string (v); return *this; }
    Obj& kv (const char* k, unsigned v) { key (k); s += std::to_string (v); return *this; }
    Obj& kv (const char* k, unsigned long v) { key (k); s += std::to_string (v); return *this; }
    Obj& kv (const char* k, unsigned long long v) { key (k); s += std::to_string (v); return *this; }
    Obj& kv (const char* k, bool v) { key (k); s += v ? "true" : "false"; return *this; }
    Obj& raw (const char* k, const std::string& json) { key (k); s += json; return *this; }
    template <class T> Obj& arr (const char* k, const T* p, size_t n)
    {
        key (k); s += "[";
        for (size_t i = 0; i < n; ++i) { if (i) s += ","; s += jnum ((double) p[i]); }
        s += "]";
        return *this;
    }
    std::string str () const { return s.empty () ? "{}" : s + "}"; }
};

// Fixed-capacity open-addressing set of 64-bit hashes (no allocation per insert).
// Once `cap` distinct hashes are stored further ones are dropped, so the
// count it yields is a lower bound on the number of distinct cases.
class HashSet
{
    std::vector<uint64_t> tab; // 0 = empty slot
    size_t                n = 0, cap;
    bool                  has_zero = false;

public:
    explicit HashSet (size_t capacity = 1u << 18) : cap (capacity) {}
    size_t size () const { return n + (has_zero ? 1 : 0); }
    bool   insert (uint64_t h)
    {
        if (h == 0) { bool fresh = !has_zero; has_zero = true; return fresh; }
        if (tab.empty ()) tab.assign (cap * 2, 0);
        size_t mask = tab.size () - 1, i = (size_t) splitmix64 (h) & mask;
        while (tab[i] != 0)
        {
            if (tab[i] == h) return false;
            i = (i + 1) & mask;
        }
        if (n >= cap) return false;
        tab[i] = h;
        ++n;
        return true;
    }
    template <class F> void for_each (F f) const
    {
        if (has_zero) f ((uint64_t) 0);
        for (uint64_t h: tab) if (h) f (h);
    }
};

// ---------------------------------------------------------------- per-thread context
struct Violation
{
    std::string key, sub, detail;
    uint64_t    idx;
    uint64_t    count;
};

struct WorstRec
{
    double      ratio = -1;
    uint64_t    idx   = 0;
    std::string desc;
};

struct Ctx
{
    std::string sub;      // current sub-check
    uint64_t    sub_id = 0;
    uint64_t    seed   = 1;
    bool        thorough = false;
    bool        verbose  = false; // replay mode: monitors may print real vs. oracle values

    uint64_t                          evals = 0;
    uint64_t                          nontrivial_direct = 0; // distinct by construction (enumerations)
    HashSet                           nontrivial_hashes;     // distinct by hash (random generators)
    std::map<std::string, uint64_t>   classes;
    std::map<std::string, WorstRec>   worsts;
    std::map<std::string, std::string> samples;              // one literal sample per label
    std::map<std::string, Violation>  viols;                 // first (lowest idx) witness per key


    Rng rng (uint64_t idx) const { return Rng (seed, sub_id, idx); }

    void eval (uint64_t n = 1) { evals += n; }
    void cls (const char* name, uint64_t n = 1) { classes[name] += n; }
    void cls (const std::string& name, uint64_t n = 1) { classes[name] += n; }
    // a distinct non-trivial case, identified by a hash of its inputs
    void nontrivial (uint64_t h)
    {
        nontrivial_hashes.insert (h);
    }
    // n distinct non-trivial cases known distinct by construction (exhaustive enumeration)
    void nontrivial_enum (uint64_t n) { nontrivial_direct += n; }

    template <class F> void worst (const char* name, double ratio, uint64_t idx, F&& describe)
    {
        WorstRec& w = worsts[name];
        if (ratio > w.ratio || (ratio == w.ratio && idx < w.idx))
        {
            w.ratio = ratio; w.idx = idx; w.desc = describe ();
        }
    }
    void worst (const char* name, double ratio, uint64_t idx)
    {
        worst (name, ratio, idx, [] { return std::string ("{}"); });
    }

    template <class F> void sample (const char* label, F&& describe)
    {
        if (samples.size () < 24 && !samples.count (label)) samples[label] = describe ();
    }

    // Record a violation.  `key` names sub-check + failing class (used for
    // known-findings matching); describe() returns a JSON object with the
    // literal inputs, the observed and the expected value.
    template <class F> void fail (const std::string& key, uint64_t idx, F&& describe)
    {
        auto it = viols.find (key);
        if (it == viols.end ())
            viols[key] = Violation{key, sub, describe (), idx, 1};
        else
        {
            it->second.count++;
            if (idx < it->second.idx) { it->second.idx = idx; it->second.detail = describe (); }
        }
        if (verbose) std::fprintf (stderr, "[replay] VIOLATION key=%s idx=%" PRIu64 "\n", key.c_str (), idx);
    }
};

// ---------------------------------------------------------------- sub-check registry
struct Sub
{
    std::string name;
    uint64_t    n_quick = 0, n_thorough = 0; // number of case indices
    std::function<void (Ctx&, uint64_t, uint64_t)> fn; // process indices [b,e)
    std::vector<std::string> required; // classes that must be observed (> 0) or the run is inconclusive
    bool     exhaustive = false; // the index range enumerates a finite space completely
    uint64_t chunk      = 4096;
    bool     scalable   = true;  // --scale may reduce the number of cases (sanitizer runs)
    std::string space;           // human description of the case space

    // chainable setters used at registration
    Sub& req (std::vector<std::string> r) { required = std::move (r); return *this; }
    Sub& exh (bool v = true) { exhaustive = v; return *this; }
    Sub& chunked (uint64_t c) { chunk = c; return *this; }
    Sub& noscale () { scalable = false; return *this; }
    Sub& over (std::string s) { space = std::move (s); return *this; }
};

inline std::deque<Sub>&
registry ()
{
    static std::deque<Sub> r;
    return r;
}

inline Sub&
add_sub (const char* name, uint64_t nq, uint64_t nt, std::function<void (Ctx&, uint64_t, uint64_t)> fn)
{
    Sub s;
    s.name = name; s.n_quick = nq; s.n_thorough = nt; s.fn = std::move (fn);
    registry ().push_back (std::move (s));
    return registry ().back ();
}

// Convenience: adapt a per-index function to a range function
template <class F>
std::function<void (Ctx&, uint64_t, uint64_t)>
per_index (F f)
{
    return [f] (Ctx& c, uint64_t b, uint64_t e) {
        for (uint64_t i = b; i < e; ++i) f (c, i);
    };
}

inline void
merge (Ctx& into, Ctx& from)
{
    into.evals += from.evals;
    into.nontrivial_direct += from.nontrivial_direct;
    from.nontrivial_hashes.for_each ([&] (uint64_t h) { into.nontrivial_hashes.insert (h); });
    for (auto& kv: from.classes) into.classes[kv.first] += kv.second;
    for (auto& kv: from.worsts)
    {
        WorstRec& w = into.worsts[kv.first];
        if (kv.second.ratio > w.ratio || (kv.second.ratio == w.ratio && kv.second.idx < w.idx)) w = kv.second;
    }
    for (auto& kv: from.samples)
        if (into.samples.size () < 24 && !into.samples.count (kv.first)) into.samples[kv.first] = kv.second;
    for (auto& kv: from.viols)
    {
        auto it = into.viols.find (kv.first);
        if (it == into.viols.end ()) into.viols[kv.first] = kv.second;
        else
        {
            it->second.count += kv.second.count;
            if (kv.second.idx < it->second.idx) { it->second.idx = kv.second.idx; it->second.detail = kv.second.detail; }
        }
    }
}

// ---------------------------------------------------------------- main loop
// usage: monitor --tier quick|thorough --seed N --threads T --out file.json
//                [--scale f] [--only sub[,sub]] [--replay sub idx] [--list]
inline int
monitor_main (int argc, char** argv, const char* monitor_name)
{
    std::string tier = "quick", out, only;
    uint64_t    seed = 1;
    unsigned    threads = std::thread::hardware_concurrency ();
    double      scale = 1.0;
    bool        replay = false, list = false;
    std::string replay_sub;
    uint64_t    replay_idx = 0;
    for (int i = 1; i < argc; ++i)
    {
        std::string a = argv[i];
        auto next = [&] () -> std::string { if (i + 1 >= argc) { std::fprintf (stderr, "missing value for %s\n", a.c_str ()); std::exit (2); } return argv[++i]; };
        if (a == "--tier") tier = next ();
        else if (a == "--seed") seed = std::strtoull (next ().c_str (), nullptr, 0);
        else if (a == "--threads") threads = (unsigned) std::atoi (next ().c_str ());
        else if (a == "--out") out = next ();
        else if (a == "--scale") scale = std::atof (next ().c_str ());
        else if (a == "--only") only = next ();
        else if (a == "--list") list = true;
        else if (a == "--replay") { replay = true; replay_sub = next (); replay_idx = std::strtoull (next ().c_str (), nullptr, 0); }
        else { std::fprintf (stderr, "unknown argument %s\n", a.c_str ()); return 2; }
    }
    if (threads == 0) threads = 1;
    bool thorough = tier == "thorough";
    auto t0 = std::chrono::steady_clock::now ();

    std::set<std::string> only_set;
    {
        std::stringstream ss (only);
        std::string tok;
        while (std::getline (ss, tok, ',')) if (!tok.empty ()) only_set.insert (tok);
    }

    if (list)
    {
        for (auto& s: registry ()) std::printf ("%s quick=%" PRIu64 " thorough=%" PRIu64 "%s\n", s.name.c_str (), s.n_quick, s.n_thorough, s.exhaustive ? " exhaustive" : "");
        return 0;
    }

    if (replay)
    {
        for (auto& s: registry ())
        {
            if (s.name != replay_sub) continue;
            Ctx c;
            c.sub = s.name; c.sub_id = hash_str (s.name.c_str ()); c.seed = seed; c.thorough = thorough; c.verbose = true;
            s.fn (c, replay_idx, replay_idx + 1);
            for (auto& kv: c.viols)
                std::printf ("REPLAY-VIOLATION key=%s idx=%" PRIu64 " detail=%s\n", kv.second.key.c_str (), kv.second.idx, kv.second.detail.c_str ());
            std::printf ("REPLAY-DONE sub=%s idx=%" PRIu64 " violations=%zu\n", s.name.c_str (), replay_idx, c.viols.size ());
            return c.viols.empty () ? 0 : 1;
        }
        std::fprintf (stderr, "no such sub-check: %s\n", replay_sub.c_str ());
        return 2;
    }

    std::string subs_json;
    std::map<std::string, Violation> all_viols;
    uint64_t total_evals = 0, total_nontrivial = 0;
    bool     inconclusive = false;

    for (auto& s: registry ())
    {
        if (!only_set.empty () && !only_set.count (s.name)) continue;
        uint64_t n = thorough ? s.n_thorough : s.n_quick;
        if (n == 0) continue;
        auto     ts0 = std::chrono::steady_clock::now ();
        uint64_t chunk = s.chunk ? s.chunk : 4096;
        uint64_t nchunks = (n + chunk - 1) / chunk;
        bool     sampled = false;
        // under --scale < 1: random subs shrink their range; exhaustive subs
        // keep the range but visit only a pseudo-random subset of chunks
        uint64_t n_eff = n;
        if (scale < 1.0 && s.scalable)
        {
            if (!s.exhaustive)
            {
                n_eff = std::max<uint64_t> ((uint64_t) (n * scale), std::min<uint64_t> (n, 256));
                nchunks = (n_eff + chunk - 1) / chunk;
            }
            else sampled = true;
        }
        uint64_t sub_id = hash_str (s.name.c_str ());
        std::atomic<uint64_t> next_chunk (0);
        std::vector<Ctx>      ctxs (threads);
        std::vector<std::thread> th;
        for (unsigned t = 0; t < threads; ++t)
        {
            Ctx& c = ctxs[t];
            c.sub = s.name; c.sub_id = sub_id; c.seed = seed; c.thorough = thorough;
            th.emplace_back ([&, t] {
                Ctx& cc = ctxs[t];
                for (;;)
                {
                    uint64_t k = next_chunk.fetch_add (1);
                    if (k >= nchunks) break;
                    if (sampled && nchunks > 16)
                    {
                        double u = (splitmix64 (k ^ (seed * 0x2545F4914F6CDD1Dull) ^ sub_id) >> 11) * (1.0 / 9007199254740992.0);
                        if (u >= scale) continue;
                    }
                    uint64_t b = k * chunk, e = std::min (n_eff, b + chunk);
                    s.fn (cc, b, e);
                }
            });
        }
        for (auto& t: th) t.join ();
        Ctx total;
        total.nontrivial_hashes = HashSet (1u << 22);
        for (auto& c: ctxs) merge (total, c);
        double sub_wall = std::chrono::duration<double> (std::chrono::steady_clock::now () - ts0).count ();

        std::vector<std::string> missing;
        for (auto& r: s.required)
            if (!total.classes.count (r) || total.classes[r] == 0) missing.push_back (r);
        if (!missing.empty () && scale >= 1.0) inconclusive = true; // a sampled (sanitizer) run may legitimately miss rare classes
        if (total.evals == 0 && scale >= 1.0) inconclusive = true;

        uint64_t nontriv = total.nontrivial_direct + total.nontrivial_hashes.size ();
        total_evals += total.evals;
        total_nontrivial += nontriv;

        std::string cj, wj, sj, mj;
        for (auto& kv: total.classes) { if (!cj.empty ()) cj += ","; cj += "\"" + jescape (kv.first) + "\":" + std::to_string (kv.second); }
        for (auto& kv: total.worsts)
        {
            if (!wj.empty ()) wj += ",";
            wj += "\"" + jescape (kv.first) + "\":" + Obj ().kv ("ratio", kv.second.ratio).kv ("idx", (unsigned long long) kv.second.idx).raw ("case", kv.second.desc).str ();
        }
        for (auto& kv: total.samples) { if (!sj.empty ()) sj += ","; sj += Obj ().kv ("label", kv.first).raw ("case", kv.second).str (); }
        for (auto& m: missing) { if (!mj.empty ()) mj += ","; mj += "\"" + jescape (m) + "\""; }
        if (!subs_json.empty ()) subs_json += ",\n";
        subs_json += Obj ()
                         .kv ("name", s.name)
                         .kv ("space", s.space)
                         .kv ("indices", (unsigned long long) n_eff)
                         .kv ("evaluations", (unsigned long long) total.evals)
                         .kv ("distinct_nontrivial", (unsigned long long) nontriv)
                         .kv ("exhaustive", s.exhaustive && !sampled)
                         .kv ("wall_s", sub_wall)
                         .raw ("classes", "{" + cj + "}")
                         .raw ("worst", "{" + wj + "}")
                         .raw ("samples", "[" + sj + "]")
                         .raw ("missing_classes", "[" + mj + "]")
                         .str ();
        for (auto& kv: total.viols)
        {
            std::string k = kv.first;
            all_viols[k] = kv.second;
        }
    }

    std::string vj;
    for (auto& kv: all_viols)
    {
        if (!vj.empty ()) vj += ",\n";
        vj += Obj ()
                  .kv ("key", kv.second.key)
                  .kv ("sub", kv.second.sub)
                  .kv ("idx", (unsigned long long) kv.second.idx)
                  .kv ("count", (unsigned long long) kv.second.count)
                  .raw ("detail", kv.second.detail)
                  .str ();
    }
    double wall = std::chrono::duration<double> (std::chrono::steady_clock::now () - t0).count ();
    std::string doc = Obj ()
                          .kv ("monitor", monitor_name)
                          .kv ("tier", tier)
                          .kv ("seed", (unsigned long long) seed)
                          .kv ("scale", scale)
                          .kv ("threads", threads)
                          .kv ("evaluations", (unsigned long long) total_evals)
                          .kv ("distinct_nontrivial", (unsigned long long) total_nontrivial)
                          .kv ("inconclusive", inconclusive)
                          .kv ("wall_s", wall)
                          .raw ("subs", "[" + subs_json + "]")
                          .raw ("violations", "[" + vj + "]")
                          .str ();
    if (out.empty ()) std::printf ("%s\n", doc.c_str ());
    else
    {
        FILE* f = std::fopen (out.c_str (), "w");
        if (!f) { std::perror ("open --out"); return 2; }
        std::fputs (doc.c_str (), f);
        std::fputc ('\n', f);
        if (std::fclose (f) != 0) return 2;
    }
    std::fprintf (stderr, "%s: tier=%s seed=%" PRIu64 " evals=%" PRIu64 " nontrivial=%" PRIu64 " violations(keys)=%zu%s wall=%.1fs\n", monitor_name, tier.c_str (), seed, total_evals, total_nontrivial, all_viols.size (), inconclusive ? " INCONCLUSIVE" : "", wall);
    return 0; // the driver decides the verdict from the JSON
}

} // namespace mon

#define MON_CAT2(a, b) a##b
#define MON_CAT(a, b) MON_CAT2 (a, b)
// MON_SUB(fn, "name", n_quick, n_thorough).req({...}).exh().chunked(n).over("...");
#define MON_SUB(fn, name, nq, nt) static ::mon::Sub& MON_CAT (mon_sub_, __COUNTER__) = ::mon::add_sub (name, nq, nt, fn)
// same for a per-index function void f(Ctx&, uint64_t idx)
#define MON_SUB_IDX(fn, name, nq, nt) static ::mon::Sub& MON_CAT (mon_sub_, __COUNTER__) = ::mon::add_sub (name, nq, nt, ::mon::per_index (fn))
#define MON_MAIN(name)                                                         \
    int main (int argc, char** argv) { return ::mon::monitor_main (argc, argv, name); }
